(** C13 - results do not depend on how the same physical data are presented.

    Phonon side (nonshear.py: average_over_modes and everything built on it).  A spectrum is a table
    T[q][m] of per-mode records of any type A; the code's arrays freq/gamma/vdr at one volume are
    [tab fr T], [tab ga T], [tab vd T].  Presentations: [modes_perm T T'] (modes listed in another
    order inside each q-point, first three slots of the Gamma row fixed), a [Permutation] of the
    (weight, row) pairs of q-points 2..n_q, and a common non-zero factor on all weights.
    [same_outputs w w' T T'] says that zero_point, thermal, isothermal, gap and adiabatic of
    NonShearModel.v agree for ALL constants, Bose-factor implementations, strain fractions, volumes,
    temperatures, pressures and heat capacities.

    Static side (full_modulus.py: fit_modulus; elast_dat.py): least-squares fits are characterised by
    their normal equations A^T (A c - y) = 0; label parsing and the table as a finite map.

    Volume order (qha_adapter.py after repair D10: phonon volumes must be decreasing). *)
From Coq Require Import Reals List ZArith Lra Lia Permutation Sorted.
Import ListNotations.
From Cij Require Import Ops ROps NonShearModel PermModel Perm.
From Coq Require Strings.Byte.
From Cij Require VoigtBase TextModel ElastDatModel ElastDat.
Local Open Scope R_scope.

(** ** 1. average_over_modes *)
Theorem avg_modes_perm_modes :
  forall (w : list R) (X Y : list (list R)),
    modes_perm X Y -> avg_modes (OF:=ROps) w X = avg_modes (OF:=ROps) w Y.
Proof. exact avg_modes_perm_modes_l. Qed.

Theorem avg_modes_perm_q :
  forall (w0 : R) (r0 : list R) (wr wr' : list (R * list R)),
    Permutation wr wr' ->
    avg_modes (OF:=ROps) (w0 :: map fst wr) (r0 :: map snd wr)
    = avg_modes (OF:=ROps) (w0 :: map fst wr') (r0 :: map snd wr').
Proof. exact avg_modes_perm_q_l. Qed.

Theorem avg_modes_weight_scale :
  forall (c : R) (w : list R) (X : list (list R)), c <> 0 -> Rs w <> 0 ->
    avg_modes (OF:=ROps) (map (fun y => c * y) w) X = avg_modes (OF:=ROps) w X.
Proof. exact avg_modes_weight_scale_l. Qed.

(** the term tables of the code are pointwise maps of the input tables *)
Theorem term_table_is_pointwise :
  forall (A : Type) (f : R -> R -> R -> R) (a b c : A -> R) (T : list (list A)),
    map3q f (tab a T) (tab b T) (tab c T) = tab (fun m => f (a m) (b m) (c m)) T.
Proof. exact @map3q_tab. Qed.
(** ... so a permutation of the inputs is the same permutation of every term table *)
Theorem term_table_commutes_with_permutation :
  forall (A B : Type) (g : A -> B) (T T' : list (list A)), modes_perm T T' -> modes_perm (tab g T) (tab g T').
Proof. exact @modes_perm_tab. Qed.

(** lifted to every output of the contribution classes *)
Theorem outputs_perm_modes :
  forall (A : Type) (w : list R) (T T' : list (list A)), modes_perm T T' -> same_outputs w w T T'.
Proof. exact @outputs_perm_modes_l. Qed.
Theorem outputs_perm_q :
  forall (A : Type) (w0 : R) (r0 : list A) (wr wr' : list (R * list A)),
    Permutation wr wr' ->
    same_outputs (w0 :: map fst wr) (w0 :: map fst wr') (r0 :: map snd wr) (r0 :: map snd wr').
Proof. exact @outputs_perm_q_l. Qed.
Theorem outputs_weight_scale :
  forall (A : Type) (c : R) (w : list R) (T : list (list A)),
    c <> 0 -> Rs w <> 0 -> same_outputs (map (fun y => c * y) w) w T T.
Proof. exact @outputs_weight_scale_l. Qed.

(** ** 2. least-squares fits *)
(** the entries of A^T A and A^T y (sum x^k, sum x^k y) ignore the order of the data rows ... *)
Theorem polyfit_row_perm :
  forall (rows rows' : list (R * R)), Permutation rows rows' ->
    forall k, mom (OF:=ROps) k rows = mom (OF:=ROps) k rows' /\ momy (OF:=ROps) k rows = momy (OF:=ROps) k rows'.
Proof. exact polyfit_row_perm_l. Qed.
(** ... the normal equations are a function of these sums ... *)
Theorem normal_equations_by_moments :
  forall (j : nat) (rows : list (R * R)) (c : list R),
    nresid (OF:=ROps) j rows c = cmom (OF:=ROps) j rows c - momy (OF:=ROps) j rows.
Proof. exact nresid_moments. Qed.
(** ... hence have the same solutions for every row order *)
Theorem normal_eq_row_perm :
  forall (n : nat) (rows rows' : list (R * R)) (c : list R),
    Permutation rows rows' -> (normal_eq n rows c <-> normal_eq n rows' c).
Proof. exact normal_eq_row_perm_l. Qed.
Theorem gnormal_eq_row_perm :
  forall (X : Type) (phi : list (X -> R)) (pts pts' : list (X * R)) (c : list R),
    Permutation pts pts' -> (gnormal_eq phi pts c <-> gnormal_eq phi pts' c).
Proof. exact @gnormal_eq_row_perm_l. Qed.

(** A^T (A c - y) = 0 and A^T (A d - y) = 0  imply  A c = A d *)
Theorem normal_eq_unique_fit :
  forall (X : Type) (phi : list (X -> R)) (pts : list (X * R)) (c d : list R),
    gnormal_eq phi pts c -> gnormal_eq phi pts d ->
    forall r, In r pts -> fitv (OF:=ROps) phi c (fst r) = fitv (OF:=ROps) phi d (fst r).
Proof. exact @normal_eq_unique_fit_l. Qed.
(** the same for two design matrices with equal column spaces *)
Theorem lsq_fit_same_span :
  forall (X : Type) (phi psi : list (X -> R)) (pts : list (X * R)) (c d : list R),
    span_le phi psi pts -> span_le psi phi pts -> gnormal_eq phi pts c -> gnormal_eq psi pts d ->
    forall r, In r pts -> fitv (OF:=ROps) phi c (fst r) = fitv (OF:=ROps) psi d (fst r).
Proof. exact @lsq_fit_same_span_l. Qed.
(** [1, s', s'^2, s'^3] with s' = a s + b spans no more than [1, s, s^2, s^3] (explicit 4x4 change of basis) *)
Theorem vandermonde_change_of_basis :
  forall (X : Type) (s s' : X -> R) (a b : R) (pts : list (X * R)),
    (forall r, In r pts -> s' (fst r) = a * s (fst r) + b) -> span_le (cubic_basis s') (cubic_basis s) pts.
Proof. exact @cubic_span. Qed.

(** the least-squares cubic in s' = a s + b (a <> 0) equals the least-squares cubic in s at every data point ... *)
Theorem polyfit_affine_reparam :
  forall (X : Type) (s s' : X -> R) (a b : R) (pts : list (X * R)) (c d : list R),
    a <> 0 -> (forall r, In r pts -> s' (fst r) = a * s (fst r) + b) ->
    gnormal_eq (cubic_basis s) pts c -> gnormal_eq (cubic_basis s') pts d ->
    forall r, In r pts -> cubic c (s (fst r)) = cubic d (s' (fst r)).
Proof. exact @polyfit_affine_reparam_l. Qed.
(** ... and, with four distinct strain values among the data, everywhere *)
Theorem polyfit_affine_reparam_everywhere :
  forall (X : Type) (s s' : X -> R) (a b : R) (pts : list (X * R)) (c d : list R) (fs : list R),
    a <> 0 -> (forall r, In r pts -> s' (fst r) = a * s (fst r) + b) ->
    length c = 4%nat -> length d = 4%nat ->
    NoDup fs -> (4 <= length fs)%nat -> incl fs (map (fun r => s (fst r)) pts) ->
    gnormal_eq (cubic_basis s) pts c -> gnormal_eq (cubic_basis s') pts d ->
    forall f, cubic c f = cubic d (a * f + b).
Proof. exact @polyfit_affine_reparam_everywhere_l. Qed.

(** changing the reference volume of the Eulerian strain is such a re-parametrisation *)
Theorem eulerian_reference_change :
  forall v0 v1 v : R, 0 < v0 -> 0 < v1 -> 0 < v ->
    let a := Rpower (v1 / v0) (2 / 3) in
    eulerian v1 v = a * eulerian v0 v + (a - 1) / 2 /\ 0 < a.
Proof. exact eulerian_reference_change_l. Qed.

(** fit_modulus / get_axial_strains: rows of the static table (volume, value) in any order, the
    reference volume being whatever row comes first: same fitted function of V *)
Theorem static_fit_presentation_free :
  forall (v0 v1 : R) (pts pts' : list (R * R)) (c d : list R),
    0 < v0 -> 0 < v1 -> Forall (fun r => 0 < fst r) pts -> Permutation pts pts' ->
    gnormal_eq (cubic_basis (eulerian v0)) pts c -> gnormal_eq (cubic_basis (eulerian v1)) pts' d ->
    (forall r, In r pts -> cubic c (eulerian v0 (fst r)) = cubic d (eulerian v1 (fst r))) /\
    (length c = 4%nat -> length d = 4%nat ->
     (exists vs, NoDup vs /\ (4 <= length vs)%nat /\ incl vs (map fst pts)) ->
     forall v, 0 < v -> cubic c (eulerian v0 v) = cubic d (eulerian v1 v)).
Proof. exact static_fit_presentation_free_l. Qed.

(** ** 3. labels and columns of the static table *)
Theorem key_parse_canonical :
  forall (p p' : TextModel.bytes) (ds : list Z),
    ElastDat.nodigit p -> ElastDat.nodigit p' -> ds <> [] -> ElastDat.digit_range ds ->
    ElastDatModel.find_modulus_key (p ++ map TextModel.digit_byte ds)
    = ElastDatModel.find_modulus_key (p' ++ map TextModel.digit_byte ds).
Proof. exact key_parse_canonical_l. Qed.

Theorem columns_as_map :
  forall (K V : Type) (eqb : K -> K -> bool), (forall a b, eqb a b = true <-> a = b) ->
    forall (l l' : list (K * V)), NoDup (map fst l) -> Permutation l l' ->
      forall k, alookup eqb k l = alookup eqb k l'.
Proof. exact @columns_as_map_l. Qed.
Theorem static_columns_as_map :
  forall (V : Type) (row row' : list (VoigtBase.modkey * V)),
    NoDup (map fst row) -> Permutation row row' ->
    forall k, alookup VoigtBase.modkey_eqb k row = alookup VoigtBase.modkey_eqb k row'.
Proof. exact @static_columns_as_map_l. Qed.

(** ** 4. volume order: with the guard a re-ordered volume list is rejected or identical *)
Theorem volume_order :
  forall l l' : list R, Permutation l l' -> StronglySorted Rgt l -> StronglySorted Rgt l' -> l = l'.
Proof. exact volume_order_l. Qed.
(** the guard of qha (all(diff(v) <= 0)) accepts exactly the weakly decreasing lists, and those are unique too *)
Theorem guard_accepts_sorted :
  forall l : list R, mono_dec (OF:=ROps) l = true <-> StronglySorted Rge l.
Proof. exact mono_dec_sorted. Qed.
Theorem volume_order_guard :
  forall l l' : list R, Permutation l l' -> mono_dec (OF:=ROps) l = true -> mono_dec (OF:=ROps) l' = true -> l = l'.
Proof. intros l l' HP H H'. apply volume_order_ge_l; [exact HP | apply mono_dec_sorted, H | apply mono_dec_sorted, H']. Qed.
(** whole volume blocks (volume, energy + frequencies): strictly decreasing volumes fix the block order *)
Theorem volume_blocks_order :
  forall (D : Type) (l l' : list (R * D)), Permutation l l' ->
    StronglySorted (fun a b => fst a > fst b) l -> StronglySorted (fun a b => fst a > fst b) l' -> l = l'.
Proof. exact @volume_blocks_order_l. Qed.

(** ** non-vacuity *)
Example presentations_exist :
  modes_perm [[1; 2; 3; 4; 5]; [6; 7; 8]] [[1; 2; 3; 5; 4]; [8; 6; 7]] /\
  Permutation [(2, [1; 2]); (3, [4; 5])] [(3, [4; 5]); (2, [1; 2])] /\
  StronglySorted Rgt [3; 2; 1] /\ mono_dec (OF:=ROps) [3; 2; 2; 1] = true /\
  ElastDat.nodigit [Byte.x63] /\ ElastDat.nodigit [Byte.x43; Byte.x69; Byte.x6a; Byte.x5f] /\
  ElastDat.digit_range [1%Z; 2%Z].
Proof.
  split; [|split; [|split; [|split; [|split; [|split]]]]].
  - cbn. split; [split; [reflexivity | apply perm_swap]|].
    constructor; [|constructor].
    apply (perm_trans (l' := [6; 8; 7])); [apply perm_skip, perm_swap | apply perm_swap].
  - apply perm_swap.
  - repeat constructor; lra.
  - apply mono_dec_sorted. repeat constructor; lra.
  - reflexivity.
  - reflexivity.
  - repeat constructor; lia.
Qed.
(** a least-squares problem with a solution of its normal equations: y = 2 + s on s = 0,1,2,3 *)
Example normal_equations_solvable :
  gnormal_eq (cubic_basis (fun x : R => x)) [(0, 2); (1, 3); (2, 4); (3, 5)] [2; 1; 0; 0].
Proof.
  unfold gnormal_eq, cubic_basis, gresid, fitv. repeat constructor; cbn [map dot sum fst snd];
    cbn [zero one add sub mul div opp ROps]; ring.
Qed.

Print Assumptions avg_modes_perm_modes.
Print Assumptions avg_modes_perm_q.
Print Assumptions avg_modes_weight_scale.
Print Assumptions outputs_perm_modes.
Print Assumptions outputs_perm_q.
Print Assumptions outputs_weight_scale.
Print Assumptions polyfit_row_perm.
Print Assumptions normal_eq_row_perm.
Print Assumptions normal_eq_unique_fit.
Print Assumptions lsq_fit_same_span.
Print Assumptions polyfit_affine_reparam.
Print Assumptions polyfit_affine_reparam_everywhere.
Print Assumptions eulerian_reference_change.
Print Assumptions static_fit_presentation_free.
Print Assumptions key_parse_canonical.
Print Assumptions columns_as_map.
Print Assumptions static_columns_as_map.
Print Assumptions volume_order.
Print Assumptions volume_order_guard.
Print Assumptions volume_blocks_order.

(** Thermodynamic side: the harmonic free energy of the spectrum itself (the quantity QHA differentiates to get
    P, C_V and the (T,P) map) and the closed forms C02 uses do not depend on the presentation either; hence
    neither does any V- or T-derivative of it (FreeEnergyPerm.v). *)
From Coquelicot Require Import Coquelicot.
From Cij Require NonShear FreeEnergyPerm.

Theorem free_energy_modes_order :
  forall (K : @consts R) w sp sp' T V,
    modes_perm sp sp' -> NonShear.F_ph K w sp T V = NonShear.F_ph K w sp' T V.
Proof. exact FreeEnergyPerm.F_ph_modes_perm. Qed.

Theorem free_energy_qpoint_order :
  forall (K : @consts R) w0 r0 (wr wr' : list (R * list NonShear.mode)) T V,
    Permutation wr wr' ->
    NonShear.F_ph K (q_weights w0 wr) (q_rows r0 wr) T V = NonShear.F_ph K (q_weights w0 wr') (q_rows r0 wr') T V.
Proof. exact FreeEnergyPerm.F_ph_q_perm. Qed.

Theorem free_energy_weight_scale :
  forall (K : @consts R) c w sp T V,
    c <> 0 -> NonShear.Rsum w <> 0 ->
    NonShear.F_ph K (map (fun x => c * x) w) sp T V = NonShear.F_ph K w sp T V.
Proof. exact FreeEnergyPerm.F_ph_weight_scale. Qed.

Theorem pressure_and_heat_capacity_sources_modes_order :
  forall (K : @consts R) w sp sp' T V,
    modes_perm sp sp' ->
    Derive (NonShear.F_ph K w sp T) V = Derive (NonShear.F_ph K w sp' T) V /\
    Derive_n (fun t => NonShear.F_ph K w sp t V) 2 T = Derive_n (fun t => NonShear.F_ph K w sp' t V) 2 T /\
    NonShear.dPdT K w sp T V = NonShear.dPdT K w sp' T V.
Proof.
  intros K w sp sp' T V H. split; [| split].
  - apply FreeEnergyPerm.dF_ph_dV_modes_perm, H.
  - apply FreeEnergyPerm.d2F_ph_dT2_modes_perm, H.
  - apply FreeEnergyPerm.dPdT_modes_perm, H.
Qed.

Theorem pressure_and_heat_capacity_sources_qpoint_order :
  forall (K : @consts R) w0 r0 (wr wr' : list (R * list NonShear.mode)) T V,
    Permutation wr wr' ->
    Derive (NonShear.F_ph K (q_weights w0 wr) (q_rows r0 wr) T) V
      = Derive (NonShear.F_ph K (q_weights w0 wr') (q_rows r0 wr') T) V /\
    Derive_n (fun t => NonShear.F_ph K (q_weights w0 wr) (q_rows r0 wr) t V) 2 T
      = Derive_n (fun t => NonShear.F_ph K (q_weights w0 wr') (q_rows r0 wr') t V) 2 T /\
    NonShear.dPdT K (q_weights w0 wr) (q_rows r0 wr) T V = NonShear.dPdT K (q_weights w0 wr') (q_rows r0 wr') T V.
Proof.
  intros K w0 r0 wr wr' T V H. split; [| split].
  - apply FreeEnergyPerm.dF_ph_dV_q_perm, H.
  - apply FreeEnergyPerm.d2F_ph_dT2_q_perm, H.
  - apply FreeEnergyPerm.dPdT_q_perm, H.
Qed.

Theorem pressure_and_heat_capacity_sources_weight_scale :
  forall (K : @consts R) c w sp T V,
    c <> 0 -> NonShear.Rsum w <> 0 ->
    Derive (NonShear.F_ph K (map (fun x => c * x) w) sp T) V = Derive (NonShear.F_ph K w sp T) V /\
    Derive_n (fun t => NonShear.F_ph K (map (fun x => c * x) w) sp t V) 2 T
      = Derive_n (fun t => NonShear.F_ph K w sp t V) 2 T /\
    NonShear.dPdT K (map (fun x => c * x) w) sp T V = NonShear.dPdT K w sp T V.
Proof.
  intros K c w sp T V Hc Hw. split; [| split].
  - apply FreeEnergyPerm.dF_ph_dV_weight_scale; assumption.
  - apply FreeEnergyPerm.d2F_ph_dT2_weight_scale; assumption.
  - apply FreeEnergyPerm.dPdT_weight_scale; assumption.
Qed.

Print Assumptions free_energy_modes_order.
Print Assumptions free_energy_qpoint_order.
Print Assumptions free_energy_weight_scale.
Print Assumptions pressure_and_heat_capacity_sources_modes_order.
Print Assumptions pressure_and_heat_capacity_sources_qpoint_order.
Print Assumptions pressure_and_heat_capacity_sources_weight_scale.
