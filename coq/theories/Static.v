(** C18 - lemmas about the model of `cij run-static` (StaticModel.v) at the instance R. *)
From Coq Require Import Reals ZArith List Bool Lia Lra Psatz.
From Coquelicot Require Import Coquelicot.

From Cij Require Import Ops ROps StaticModel.
Import ListNotations.
Local Open Scope R_scope.

Ltac sr := unfold s_sq, s_ofnat, s_nth, two, three, ofQ' in *; rops.

Lemma Rleb_false x y : Rleb x y = false <-> y < x.
Proof. unfold Rleb; destruct (Rle_dec x y); split; intros; try discriminate; try lra; auto. Qed.

(* ------------------------------------------------------------------------------------ *)
(** * lists indexed through [seq] *)
Lemma nth_map_seq (f : nat -> R) n k : (k < n)%nat -> nth k (map f (seq 0 n)) 0 = f k.
Proof.
  intros H. rewrite (nth_indep _ 0 (f 0%nat)) by (rewrite map_length, seq_length; exact H).
  rewrite map_nth, seq_nth by exact H. reflexivity.
Qed.
Lemma nth_map_R (f : R -> R) l k : (k < length l)%nat -> nth k (map f l) 0 = f (nth k l 0).
Proof.
  intros H. rewrite (nth_indep _ 0 (f 0)) by (rewrite map_length; exact H). apply map_nth.
Qed.

(** * numpy.linspace is the uniform grid a + k (b - a)/(n - 1) *)
Lemma s_linspace_length (a b : R) n : length (s_linspace a b n) = n.
Proof. unfold s_linspace. rewrite map_length, seq_length. reflexivity. Qed.
Lemma s_linspace_nth0 (a b : R) n k :
  (2 <= n)%nat -> (k < n)%nat ->
  nth k (s_linspace a b n) 0 = a + INR k * ((b - a) / INR (n - 1)).
Proof.
  intros Hn Hk. unfold s_linspace. rops. rewrite nth_map_seq by exact Hk.
  assert (Hd : INR (n - 1) <> 0) by (apply not_0_INR; lia).
  unfold s_ofnat. rops. rewrite <- !INR_IZR_INZ.
  destruct (Nat.eqb_spec k (n - 1)) as [->|_]; [field; exact Hd | ring].
Qed.
Lemma s_linspace_nth (a b : R) n k :
  (2 <= n)%nat -> (k < n)%nat ->
  s_nth k (s_linspace a b n) = a + INR k * ((b - a) / INR (n - 1)).
Proof. apply s_linspace_nth0. Qed.

(** * numpy.gradient *)
Lemma s_grad_length (l : list R) : length (s_grad l) = length l.
Proof. unfold s_grad. rewrite map_length, seq_length. reflexivity. Qed.
Lemma s_grad_interior (l : list R) k :
  (0 < k)%nat -> (k + 1 < length l)%nat ->
  s_nth k (s_grad l) = (s_nth (k + 1) l - s_nth (k - 1) l) / 2.
Proof.
  intros H0 H1. unfold s_grad, s_nth. rops. rewrite nth_map_seq by lia.
  destruct (Nat.eqb_spec k 0); [lia|]. destruct (Nat.eqb_spec k (length l - 1)); [lia|].
  unfold two. rops. reflexivity.
Qed.
Lemma s_grad_first (l : list R) :
  (2 <= length l)%nat -> s_nth 0 (s_grad l) = s_nth 1 l - s_nth 0 l.
Proof.
  intros H. unfold s_grad, s_nth. rops. rewrite nth_map_seq by lia. cbn [Nat.eqb]. field.
Qed.
Lemma s_grad_last (l : list R) :
  (2 <= length l)%nat ->
  s_nth (length l - 1) (s_grad l) = s_nth (length l - 1) l - s_nth (length l - 2) l.
Proof.
  intros H. unfold s_grad, s_nth. rops. rewrite nth_map_seq by lia.
  destruct (Nat.eqb_spec (length l - 1) 0); [lia|]. rewrite Nat.eqb_refl. field.
Qed.

Lemma s_grad_last' (l : list R) n :
  length l = n -> (2 <= n)%nat -> s_nth (n - 1) (s_grad l) = s_nth (n - 1) l - s_nth (n - 2) l.
Proof. intros <- H. apply s_grad_last, H. Qed.

Lemma zipw_length {A B C} (f : A -> B -> C) a b : length a = length b -> length (zipw f a b) = length a.
Proof.
  revert b; induction a as [|x a IH]; intros [|y b] H; cbn in *; try reflexivity; try discriminate.
  f_equal. apply IH. lia.
Qed.
Lemma zipw_nth (f : R -> R -> R) a b k :
  length a = length b -> (k < length a)%nat -> nth k (zipw f a b) 0 = f (nth k a 0) (nth k b 0).
Proof.
  revert b k; induction a as [|x a IH]; intros [|y b] k H Hk; cbn in *; try lia.
  destruct k; [reflexivity|]. apply IH; lia.
Qed.

(** p_grid = -(grad f)/(grad v), row by row *)
Lemma s_pgrid_length (fg vg : list R) : length fg = length vg -> length (s_pgrid fg vg) = length fg.
Proof. intros H. unfold s_pgrid. rewrite zipw_length; rewrite !s_grad_length; auto. Qed.
Lemma s_pgrid_nth (fg vg : list R) k :
  length fg = length vg -> (k < length fg)%nat ->
  s_nth k (s_pgrid fg vg) = - s_nth k (s_grad fg) / s_nth k (s_grad vg).
Proof.
  intros H Hk. unfold s_pgrid, s_nth. rops.
  rewrite zipw_nth; rewrite ?s_grad_length; auto.
Qed.

(** ** [grad_exact_quadratic]: on a uniform grid (any size, end points, hence any spacing) numpy's interior
    gradient quotient of the samples of a quadratic polynomial is exactly its derivative. *)
Lemma grad_exact_quadratic_l :
  forall (a b : R) (n : nat) (c0 c1 c2 : R) (k : nat),
    a <> b -> (0 < k)%nat -> (k + 1 < n)%nat ->
    let xs := s_linspace a b n in
    let q := fun x => c0 + c1 * x + c2 * (x * x) in
    s_nth k (s_pgrid (map q xs) xs) = - (c1 + 2 * c2 * s_nth k xs).
Proof.
  intros a b n c0 c1 c2 k Hab H0 H1 xs q.
  assert (Hlen : length xs = n) by apply s_linspace_length.
  rewrite s_pgrid_nth by (rewrite ?map_length; lia).
  rewrite !s_grad_interior by (rewrite ?map_length; lia).
  unfold s_nth. rops. rewrite !nth_map_R by lia.
  unfold xs. rewrite !s_linspace_nth0 by lia.
  assert (Hd : INR (n - 1) <> 0) by (apply not_0_INR; lia).
  replace (INR (k + 1)) with (INR k + 1) by (rewrite plus_INR; reflexivity).
  replace (INR (k - 1)) with (INR k - 1) by (rewrite minus_INR by lia; reflexivity).
  unfold q. field. split; [exact Hd | lra].
Qed.

(* ------------------------------------------------------------------------------------ *)
(** * least squares: the coefficients solve the normal equations *)
Lemma s_coeffs_normal_l (xs ys : list R) :
  let m := s_mom xs ys in
  s_gram_det m <> 0 ->
  let '(a0, a1, a2) := s_coeffs xs ys in
  m0 m * a0 + m1 m * a1 + m2 m * a2 = t0 m /\
  m1 m * a0 + m2 m * a1 + m3 m * a2 = t1 m /\
  m2 m * a0 + m3 m * a1 + m4 m * a2 = t2 m.
Proof.
  intros m Hd. unfold s_coeffs. fold m.
  unfold s_gram_det, s_det3 in *. rops. repeat split; field; exact Hd.
Qed.

(** the moments really are the entries of X^T X and X^T y: the three equations say that the residual
    of the fitted quadratic is orthogonal to 1, x, x^2 *)
Lemma s_normal_residual_l (xs ys : list R) (a0 a1 a2 : R) :
  length xs = length ys ->
  let m := s_mom xs ys in
  let res := zipw (fun x y => s_poly (a0, a1, a2) x - y) xs ys in
  sum res = m0 m * a0 + m1 m * a1 + m2 m * a2 - t0 m /\
  sum (zipw (fun x r => x * r) xs res) = m1 m * a0 + m2 m * a1 + m3 m * a2 - t1 m /\
  sum (zipw (fun x r => x * x * r) xs res) = m2 m * a0 + m3 m * a1 + m4 m * a2 - t2 m.
Proof.
  revert ys; induction xs as [|x xs IH]; intros [|y ys] H; try discriminate.
  - cbn. sr. repeat split; ring.
  - injection H as H. specialize (IH ys H). cbn in IH |- *. sr. cbn [sum map zipw] in *. sr.
    destruct IH as (I0 & I1 & I2). rewrite I0, I1, I2. repeat split; ring.
Qed.

(** data that are exactly quadratic are reproduced *)
Lemma s_mom_quadratic (xs : list R) (c0 c1 c2 : R) :
  let m := s_mom xs (map (s_poly (c0, c1, c2)) xs) in
  t0 m = m0 m * c0 + m1 m * c1 + m2 m * c2 /\
  t1 m = m1 m * c0 + m2 m * c1 + m3 m * c2 /\
  t2 m = m2 m * c0 + m3 m * c1 + m4 m * c2.
Proof.
  induction xs as [|x xs IH]; cbn in *; sr.
  - repeat split; ring.
  - cbn [sum map zipw] in *. sr. destruct IH as (I0 & I1 & I2). rewrite I0, I1, I2. repeat split; ring.
Qed.
Lemma s_coeffs_exact_l (xs : list R) (c0 c1 c2 : R) :
  s_gram_det (s_mom xs (map (s_poly (c0, c1, c2)) xs)) <> 0 ->
  s_coeffs xs (map (s_poly (c0, c1, c2)) xs) = (c0, c1, c2).
Proof.
  intros Hd. pose proof (s_mom_quadratic xs c0 c1 c2) as (E0 & E1 & E2).
  unfold s_coeffs. set (m := s_mom xs (map (s_poly (c0, c1, c2)) xs)) in *.
  rewrite E0, E1, E2. unfold s_gram_det, s_det3 in *. rops.
  f_equal; [f_equal|]; field; exact Hd.
Qed.

(** the Gram determinant does not depend on the data, and for three strains it is the squared Vandermonde
    determinant: three distinct strains suffice *)
Lemma s_gram_det_three (x0 x1 x2 : R) (ys : list R) :
  s_gram_det (s_mom [x0; x1; x2] ys) = ((x1 - x0) * (x2 - x0) * (x2 - x1)) ^ 2.
Proof. unfold s_gram_det, s_det3, s_mom. cbn. sr. ring. Qed.
Lemma s_gram_det_three_distinct (x0 x1 x2 : R) ys :
  x0 <> x1 -> x0 <> x2 -> x1 <> x2 -> s_gram_det (s_mom [x0; x1; x2] ys) <> 0.
Proof.
  intros H01 H02 H12. rewrite s_gram_det_three. apply pow_nonzero.
  repeat apply Rmult_integral_contrapositive_currified; lra.
Qed.

(** [fit2_exact]: if the tabulated values are exactly quadratic in the Eulerian strain (relative to the
    first volume), fit_modulus returns that quadratic at every volume *)
Lemma fit2_exact_l (vols : list R) (c0 c1 c2 : R) (v : R) :
  let v0 := s_nth 0 vols in
  let ys := map (fun w => s_poly (c0, c1, c2) (s_strain v0 w)) vols in
  s_gram_det (s_mom (s_strains v0 vols) ys) <> 0 ->
  s_fit2 vols ys v = s_poly (c0, c1, c2) (s_strain v0 v).
Proof.
  intros v0 ys Hd. unfold s_fit2, s_fitc. fold v0.
  assert (E : ys = map (s_poly (c0, c1, c2)) (s_strains v0 vols))
    by (unfold ys, s_strains; rewrite map_map; reflexivity).
  rewrite E in *. rewrite s_coeffs_exact_l by exact Hd. reflexivity.
Qed.

(* ------------------------------------------------------------------------------------ *)
(** * the exact pressure of the fit: [s_pexact] is minus the volume derivative of [s_fit2] *)
Lemma s_pexact_is_derivative_l (vols ys : list R) (v : R) :
  0 < s_nth 0 vols -> 0 < v ->
  is_derive (fun w => s_fit2 vols ys w) v (- s_pexact vols ys v).
Proof.
  intros H0 Hv. unfold s_fit2, s_pexact. destruct (s_fitc vols ys) as [[a0 a1] a2].
  set (v0 := s_nth 0 vols) in *.
  unfold s_poly, s_strain, s_dstrain, s_pow23, s_sq, two, three, ofQ'. rops.
  assert (Hq : 0 < v0 / v) by (apply Rdiv_lt_0_compat; assumption).
  auto_derive.
  - repeat split; try lra; auto.
  - unfold Rdiv. set (E := exp (2 * / 3 * ln (v0 * / v))). field. split; lra.
Qed.

(* ------------------------------------------------------------------------------------ *)
(** * the mode branches *)
Lemma columns_none_mode_l (vols ens spl : list R) ratio pmin dp ntv :
  s_eos 0 vols ens spl ratio pmin dp ntv = (vols, ens, spl).
Proof. reflexivity. Qed.

Lemma columns_volume_mode_l (vols ens spl : list R) ratio pmin dp ntv :
  (2 <= ntv)%nat ->
  let '(V, Fc, P) := s_eos 1 vols ens spl ratio pmin dp ntv in
  V = s_linspace (s_min vols / ratio) (s_max vols * ratio) ntv /\
  length V = ntv /\ length Fc = ntv /\ length P = ntv /\
  (forall k, (k < ntv)%nat -> s_nth k Fc = s_fit2 vols ens (s_nth k V)) /\
  (forall k, (0 < k)%nat -> (k + 1 < ntv)%nat ->
     s_nth k P = - ((s_nth (k + 1) Fc - s_nth (k - 1) Fc) / 2) / ((s_nth (k + 1) V - s_nth (k - 1) V) / 2)) /\
  s_nth 0 P = - (s_nth 1 Fc - s_nth 0 Fc) / (s_nth 1 V - s_nth 0 V) /\
  s_nth (ntv - 1) P = - (s_nth (ntv - 1) Fc - s_nth (ntv - 2) Fc) / (s_nth (ntv - 1) V - s_nth (ntv - 2) V).
Proof.
  intros Hn. cbn [s_eos s_mode_volume]. unfold s_vgrid. rops.
  set (vg := s_linspace _ _ ntv). set (fg := s_fgrid vols ens vg).
  assert (Lv : length vg = ntv) by apply s_linspace_length.
  assert (Lf : length fg = ntv) by (unfold fg, s_fgrid; rewrite map_length; exact Lv).
  assert (Lp : length (s_pgrid fg vg) = ntv) by (rewrite s_pgrid_length; lia).
  repeat split; auto.
  - intros k Hk. unfold fg, s_fgrid, s_nth. rops.
    rewrite (nth_indep _ 0 (s_fit2 vols ens 0)) by (rewrite map_length; lia). apply map_nth.
  - intros k H0 H1. rewrite s_pgrid_nth by lia. rewrite !s_grad_interior by lia. reflexivity.
  - rewrite s_pgrid_nth by lia. rewrite !s_grad_first by lia. reflexivity.
  - rewrite s_pgrid_nth by lia. rewrite (s_grad_last' fg ntv Lf Hn), (s_grad_last' vg ntv Lv Hn). reflexivity.
Qed.

(** ** units *)
Lemma s_bohr3_bounds : 0.14818471 < @s_bohr3 R _ < 0.14818472.
Proof. unfold s_bohr3, s_bohr_A, ofQ'. rops. split; lra. Qed.
Lemma s_gpa_factor_bounds : 14710.5078 < @s_gpa_factor R _ < 14710.5079.
Proof. unfold s_gpa_factor, s_Ry_eV, s_e_1e19, s_bohr3, s_bohr_A, ofQ'. rops. split; lra. Qed.
Lemma s_gcm3_factor_bounds : 11.205872 < @s_gcm3_factor R _ < 11.205874.
Proof. unfold s_gcm3_factor, s_NA_1e23, s_bohr3, s_bohr_A, ofQ'. rops. split; lra. Qed.

Lemma unit_factors_l :
  (forall x : R, s_to_ang3 x = x * (0.529177210903 * 0.529177210903 * 0.529177210903)) /\
  (forall x : R, s_to_ev x = x * 13.605693122994) /\
  (forall x : R, s_to_gpa x =
      x * (13.605693122994 * 1.602176634e-19 / (0.529177210903e-10 * 0.529177210903e-10 * 0.529177210903e-10) / 1e9)) /\
  (forall x : R, s_to_gcm3 x =
      x * (1 / 6.02214076e23 / (0.529177210903e-8 * 0.529177210903e-8 * 0.529177210903e-8))) /\
  (forall x : R, s_to_kms x = x) /\
  (forall x : R, s_from_gpa (s_to_gpa x) = x /\ s_to_gpa (s_from_gpa x) = x) /\
  14710.5078 < @s_gpa_factor R _ < 14710.5079 /\ 11.205872 < @s_gcm3_factor R _ < 11.205874 /\
  0.14818471 < @s_bohr3 R _ < 0.14818472.
Proof.
  pose proof s_gpa_factor_bounds as Hg.
  split; [|split; [|split; [|split; [|split; [|split; [|split; [|split]]]]]]].
  - intros x. unfold s_to_ang3, s_bohr3, s_bohr_A, ofQ'. rops. lra.
  - intros x. unfold s_to_ev, s_Ry_eV, ofQ'. rops. lra.
  - intros x. unfold s_to_gpa, s_gpa_factor, s_Ry_eV, s_e_1e19, s_bohr3, s_bohr_A, ofQ'. rops. lra.
  - intros x. unfold s_to_gcm3, s_gcm3_factor, s_NA_1e23, s_bohr3, s_bohr_A, ofQ'. rops. lra.
  - intros x. unfold s_to_kms. rops. ring.
  - intros x. unfold s_to_gpa, s_from_gpa. rops. split; field; lra.
  - exact s_gpa_factor_bounds.
  - exact s_gcm3_factor_bounds.
  - exact s_bohr3_bounds.
Qed.

(** ** pressure mode *)
(** rows sit at p_min + j delta_p GPa *)
Lemma pressure_rows_l (pmin dp : R) ntv j :
  (2 <= ntv)%nat -> (j < ntv)%nat ->
  s_to_gpa (s_nth j (s_pwant pmin dp ntv)) = pmin + INR j * dp.
Proof.
  intros Hn Hj. unfold s_pwant. rewrite s_linspace_nth by lia.
  pose proof s_gpa_factor_bounds as Hg.
  assert (Hd : INR (ntv - 1) <> 0) by (apply not_0_INR; lia).
  unfold s_to_gpa, s_from_gpa, s_ofnat. rops. rewrite <- INR_IZR_INZ. field. split; lra.
Qed.
Lemma s_pwant_length (pmin dp : R) ntv : length (s_pwant pmin dp ntv) = ntv.
Proof. apply s_linspace_length. Qed.

(** The property's statement for the pressure branch, at full strength: from the grids the branch
    produces V = v2p(v_grid), F = v2p(f_grid) at the requested pressures, and row j is at p_min + j dp. *)
Definition columns_pressure_mode_stmt : Prop :=
  forall (vg fg pg : list R) (pmin dp : R) (ntv : nat),
    (2 <= ntv)%nat ->
    s_mode_pressure vg fg pg pmin dp ntv =
      (s_v2p1d vg pg (s_pwant pmin dp ntv), s_v2p1d fg pg (s_pwant pmin dp ntv), s_pwant pmin dp ntv) /\
    forall j, (j < ntv)%nat ->
      s_to_gpa (s_nth j (snd (s_mode_pressure vg fg pg pmin dp ntv))) = pmin + INR j * dp.

(** what the model of the code gives in every case: the V and P parts hold; the F column is
    v2p of [s_pressure_F_source] *)
Lemma columns_pressure_mode_partial_l :
  forall (vols ens spl : list R) (ratio pmin dp : R) (ntv : nat),
    (2 <= ntv)%nat ->
    let vg := s_vgrid vols ratio ntv in
    let fg := s_fgrid vols ens vg in
    let pg := s_pgrid fg vg in
    let '(V, Fc, P) := s_eos 2 vols ens spl ratio pmin dp ntv in
    V = s_v2p1d vg pg P /\ Fc = s_v2p1d (s_pressure_F_source vg fg) pg P /\
    length P = ntv /\
    forall j, (j < ntv)%nat -> s_to_gpa (s_nth j P) = pmin + INR j * dp.
Proof.
  intros vols ens spl ratio pmin dp ntv Hn vg fg pg. cbn [s_eos]. fold vg. fold fg. fold pg.
  unfold s_mode_pressure. repeat split; [apply s_pwant_length|].
  intros j Hj. apply pressure_rows_l; assumption.
Qed.

(** [columns_pressure_mode]: holds for the repaired source (line 99 reads f_array) *)
Lemma columns_pressure_mode_l : columns_pressure_mode_stmt.
Proof.
  intros vg fg pg pmin dp ntv Hn. split; [reflexivity|].
  intros j Hj. cbn [s_mode_pressure snd]. apply pressure_rows_l; assumption.
Qed.

(** the whole pressure branch from the inputs *)
Lemma columns_pressure_mode_inputs_l :
  forall (vols ens spl : list R) (ratio pmin dp : R) (ntv : nat),
    (2 <= ntv)%nat ->
    let vg := s_vgrid vols ratio ntv in
    let fg := s_fgrid vols ens vg in
    let pg := s_pgrid fg vg in
    let '(V, Fc, P) := s_eos 2 vols ens spl ratio pmin dp ntv in
    V = s_v2p1d vg pg P /\ Fc = s_v2p1d fg pg P /\ length P = ntv /\
    forall j, (j < ntv)%nat -> s_to_gpa (s_nth j P) = pmin + INR j * dp.
Proof. exact columns_pressure_mode_partial_l. Qed.

(** ** history: the same statement about the code as it was before the repair of D9 is false *)
Definition columns_pressure_mode_stmt_old : Prop :=
  forall (vg fg pg : list R) (pmin dp : R) (ntv : nat),
    (2 <= ntv)%nat ->
    s_mode_pressure_old vg fg pg pmin dp ntv =
      (s_v2p1d vg pg (s_pwant pmin dp ntv), s_v2p1d fg pg (s_pwant pmin dp ntv), s_pwant pmin dp ntv).

Lemma pressure_F_repeats_V_before_fix :
  forall (vg fg pg : list R) pmin dp ntv,
    let '(V, Fc, _) := s_mode_pressure_old vg fg pg pmin dp ntv in Fc = V.
Proof. reflexivity. Qed.

Lemma s_bisect_step (fuel : nat) (arr : list R) v lo up :
  s_bisect (S fuel) arr v lo up =
  if Nat.ltb 1 (up - lo) then
    if Rleb (s_nth (Nat.div2 (up + lo)) arr) v then s_bisect fuel arr v (Nat.div2 (up + lo)) up
    else s_bisect fuel arr v lo (Nat.div2 (up + lo))
  else lo.
Proof. reflexivity. Qed.

Lemma ex_find : s_find_nearest [3; -3; -1; 1; 3; -3] 0 = 2%nat.
Proof.
  unfold s_find_nearest. cbn [length Nat.sub].
  rewrite s_bisect_step. cbn [Nat.ltb Nat.leb Nat.sub Nat.add Nat.div2 s_nth nth]. rops.
  replace (Rleb (-1) 0) with true by (symmetry; apply Rleb_true; lra).
  rewrite s_bisect_step. cbn [Nat.ltb Nat.leb Nat.sub Nat.add Nat.div2 s_nth nth]. rops.
  replace (Rleb 1 0) with false by (symmetry; apply Rleb_false; lra).
  rewrite s_bisect_step. cbn [Nat.ltb Nat.leb Nat.sub]. reflexivity.
Qed.

Lemma ex_v2p (fs : list R) (f0 f1 f2 f3 : R) rest :
  fs = [f0; f1; f2; f3] ->
  s_nth 0 (s_v2p1d fs [3; 1; -1; -3] (0 :: rest)) = (- f0 + 9 * f1 + 9 * f2 - f3) / 16.
Proof.
  intros ->. unfold s_v2p1d, s_v2p. cbn [rev app].
  change (s_extend [-3; -1; 1; 3]) with [3; -3; -1; 1; 3; -3].
  change (s_extend [f3; f2; f1; f0]) with [f0; f3; f2; f1; f0; f3].
  cbn [map]. unfold s_nth at 1. cbn [nth]. rewrite ex_find.
  cbn [Nat.eqb Nat.sub Nat.add s_nth nth]. unfold s_lagrange4. rops. field.
Qed.

Lemma columns_pressure_mode_refuted_before_fix_l : ~ columns_pressure_mode_stmt_old.
Proof.
  intros H. specialize (H [1; 2; 3; 4] [0; 0; 0; 0] [3; 1; -1; -3] 0 1 2%nat (le_n 2)).
  apply (f_equal (fun c => s_nth 0 (snd (fst c)))) in H.
  unfold s_mode_pressure_old, s_pressure_F_source_old in H. cbn [fst snd] in H.
  assert (W : exists rest, s_pwant 0 1 2 = 0 :: rest).
  { unfold s_pwant, s_linspace. cbn [seq map Nat.eqb Nat.sub]. eexists. f_equal.
    pose proof s_gpa_factor_bounds. unfold s_from_gpa, s_ofnat. rops. field. lra. }
  destruct W as [rest W]. rewrite W in H.
  rewrite (ex_v2p _ 1 2 3 4 rest eq_refl), (ex_v2p _ 0 0 0 0 rest eq_refl) in H. lra.
Qed.

(* ------------------------------------------------------------------------------------ *)
(** * rows: density, moduli, VRH, velocities *)
Lemma s_row_table_l (tv : list R) keys cols (mfile : R) cm fill (v f p : R) :
  let mass := match cm with Some m => m | None => mfile end in
  let rho := s_to_gcm3 (mass / v) in
  let fitted := map (fun col => s_fit2 tv col v) cols in
  let c := match fill with Some vals => s_cmat s_all_keys vals | None => s_cmat keys fitted end in
  s_row (Some (tv, keys, cols, mfile)) cm fill v f p =
    [s_to_ang3 v; s_to_ev f; s_to_gpa p; rho] ++ fitted ++ s_vrh_row c (s_inv c) rho.
Proof. destruct cm; reflexivity. Qed.

Lemma s_row_notable_l (cm : option R) (v f p : R) :
  s_row None cm None v f p =
    [s_to_ang3 v; s_to_ev f; s_to_gpa p] ++ match cm with Some m => [s_to_gcm3 (m / v)] | None => [] end.
Proof. destruct cm; reflexivity. Qed.

Lemma s_zip3_nth_l tab cm (vs fs ps : list R) k :
  (k < length vs)%nat -> length fs = length vs -> length ps = length vs ->
  nth k (s_zip3 tab cm None vs fs ps) [] = s_row tab cm None (s_nth k vs) (s_nth k fs) (s_nth k ps).
Proof.
  revert fs ps k.
  induction vs as [|v vs IH]; intros [|f fs] [|p ps] k Hk Hf Hp; cbn [length] in *; try lia.
  cbn [s_zip3]. destruct k; [reflexivity|]. cbn [nth]. unfold s_nth in *. cbn [nth]. apply IH; lia.
Qed.

Lemma sqrt_sq_mul (rho x : R) : 0 < rho -> 0 <= x -> rho * (sqrt (x / rho) * 1) ^ 2 = x.
Proof.
  intros Hr Hx. rewrite Rmult_1_r. simpl pow. rewrite Rmult_1_r, sqrt_sqrt.
  - field. lra.
  - apply Rmult_le_pos; [exact Hx | left; apply Rinv_0_lt_compat; exact Hr].
Qed.

Lemma vrh_rows_l (c s : list (list R)) (rho : R) :
  0 < rho ->
  let KV := (s_el c 1 1 + s_el c 2 2 + s_el c 3 3 + 2 * (s_el c 1 2 + s_el c 2 3 + s_el c 1 3)) / 9 in
  let KR := 1 / (s_el s 1 1 + s_el s 2 2 + s_el s 3 3 + 2 * (s_el s 1 2 + s_el s 2 3 + s_el s 1 3)) in
  let GV := ((s_el c 1 1 + s_el c 2 2 + s_el c 3 3) - (s_el c 1 2 + s_el c 2 3 + s_el c 1 3)
             + 3 * (s_el c 4 4 + s_el c 5 5 + s_el c 6 6)) / 15 in
  let GR := 15 / (4 * (s_el s 1 1 + s_el s 2 2 + s_el s 3 3) - 4 * (s_el s 1 2 + s_el s 2 3 + s_el s 1 3)
                  + 3 * (s_el s 4 4 + s_el s 5 5 + s_el s 6 6)) in
  let K := (KV + KR) / 2 in let G := (GV + GR) / 2 in
  exists vp vs vphi,
    s_vrh_row c s rho = [KV; KR; K; GV; GR; G; vp; vs; vphi] /\
    (0 <= K -> rho * vphi ^ 2 = K) /\
    (0 <= G -> rho * vs ^ 2 = G) /\
    (0 <= K + 4 / 3 * G -> rho * vp ^ 2 = K + 4 / 3 * G).
Proof.
  intros Hr KV KR GV GR K G.
  exists (s_vp K G rho), (s_vs G rho), (s_vphi K rho). split; [|split; [|split]].
  - unfold s_vrh_row, s_bmV, s_bmR, s_GV, s_GR, s_avg, two, three. rops. reflexivity.
  - intros HK. unfold s_vphi, s_to_kms. rops. apply sqrt_sq_mul; assumption.
  - intros HG. unfold s_vs, s_to_kms. rops. apply sqrt_sq_mul; assumption.
  - intros HP. unfold s_vp, s_to_kms, three. rops. apply sqrt_sq_mul; assumption.
Qed.

(* ------------------------------------------------------------------------------------ *)
(** * non-vacuity of the determinant hypothesis: distinct positive volumes have distinct strains *)
Lemma s_strain_inj (v0 v w : R) : 0 < v0 -> 0 < v -> 0 < w -> s_strain v0 v = s_strain v0 w -> v = w.
Proof.
  intros H0 Hv Hw H. unfold s_strain, s_pow23, two, ofQ' in H. rops.
  assert (Pv : 0 < v0 / v) by (apply Rdiv_lt_0_compat; assumption).
  assert (Pw : 0 < v0 / w) by (apply Rdiv_lt_0_compat; assumption).
  assert (E : exp (2 / 3 * ln (v0 / v)) = exp (2 / 3 * ln (v0 / w))) by lra.
  apply exp_inv in E. assert (L : ln (v0 / v) = ln (v0 / w)) by lra.
  apply ln_inv in L; try assumption.
  assert (Q : v0 * w = v0 * v).
  { apply (f_equal (fun z => z * v * w)) in L. field_simplify in L; lra. }
  apply Rmult_eq_reg_l in Q; lra.
Qed.

Lemma fit2_exact_three_l (v0 v1 v2 c0 c1 c2 v : R) :
  0 < v0 -> 0 < v1 -> 0 < v2 -> v0 <> v1 -> v0 <> v2 -> v1 <> v2 ->
  let vols := [v0; v1; v2] in
  let ys := map (fun w => s_poly (c0, c1, c2) (s_strain v0 w)) vols in
  s_fit2 vols ys v = s_poly (c0, c1, c2) (s_strain v0 v).
Proof.
  intros P0 P1 P2 N01 N02 N12 vols ys.
  apply (fit2_exact_l vols c0 c1 c2 v).
  change (s_nth 0 vols) with v0. unfold s_strains, vols. cbn [map].
  apply s_gram_det_three_distinct; intros E; apply s_strain_inj in E; auto.
Qed.

(* ------------------------------------------------------------------------------------ *)
(** * the Gram determinant is positive as soon as three strains are pairwise distinct
      (D = sum over triples of squared Vandermonde determinants, proved through the rank-one
      update identities  D(x::xs) = D(xs) + E(x;xs),  E(x;y::ys) = E(x;ys) + T(x,y;ys)) *)
Definition P0 (xs : list R) : R := sum (map (fun _ => 1) xs).
Definition P1 (xs : list R) : R := sum xs.
Definition P2 (xs : list R) : R := sum (map (fun x => x * x) xs).
Definition P3 (xs : list R) : R := sum (map (fun x => x * (x * x)) xs).
Definition P4 (xs : list R) : R := sum (map (fun x => x * x * (x * x)) xs).
Definition Dp (a0 a1 a2 a3 a4 : R) : R :=
  a0 * (a2 * a4 - a3 * a3) - a1 * (a1 * a4 - a3 * a2) + a2 * (a1 * a3 - a2 * a2).
Definition Ep (x a0 a1 a2 a3 a4 : R) : R :=
  (a2 * a4 - a3 * a3) + 2 * (a2 * a3 - a1 * a4) * x + (2 * (a1 * a3 - a2 * a2) + (a0 * a4 - a2 * a2)) * x ^ 2
  + 2 * (a1 * a2 - a0 * a3) * x ^ 3 + (a0 * a2 - a1 * a1) * x ^ 4.
Definition Tp (x y a0 a1 a2 a3 a4 : R) : R :=
  (y - x) ^ 2 * (a4 - 2 * (x + y) * a3 + ((x + y) ^ 2 + 2 * x * y) * a2 - 2 * x * y * (x + y) * a1 + x ^ 2 * y ^ 2 * a0).
Definition Tsum (x y : R) (zs : list R) : R := sum (map (fun z => ((y - x) * (z - x) * (z - y)) ^ 2) zs).

Lemma s_gram_det_P (xs ys : list R) :
  s_gram_det (s_mom xs ys) = Dp (P0 xs) (P1 xs) (P2 xs) (P3 xs) (P4 xs).
Proof. unfold s_gram_det, s_det3, s_mom, Dp, P0, P1, P2, P3, P4, s_sq. cbn [m0 m1 m2 m3 m4]. rops. reflexivity. Qed.

Lemma P_cons (x : R) xs :
  P0 (x :: xs) = 1 + P0 xs /\ P1 (x :: xs) = x + P1 xs /\ P2 (x :: xs) = x * x + P2 xs /\
  P3 (x :: xs) = x * (x * x) + P3 xs /\ P4 (x :: xs) = x * x * (x * x) + P4 xs.
Proof. unfold P0, P1, P2, P3, P4. cbn [map sum]. rops. repeat split; reflexivity. Qed.
Lemma P_nil : P0 [] = 0 /\ P1 [] = 0 /\ P2 [] = 0 /\ P3 [] = 0 /\ P4 [] = 0.
Proof. unfold P0, P1, P2, P3, P4. cbn. rops. repeat split; reflexivity. Qed.

Lemma Tsum_poly x y zs : Tsum x y zs = Tp x y (P0 zs) (P1 zs) (P2 zs) (P3 zs) (P4 zs).
Proof.
  induction zs as [|z zs IH].
  - destruct P_nil as (-> & -> & -> & -> & ->). unfold Tsum, Tp. cbn. rops. ring.
  - destruct (P_cons z zs) as (-> & -> & -> & -> & ->).
    unfold Tsum in *. cbn [map sum]. rops. rewrite IH. unfold Tp. ring.
Qed.
Lemma Tsum_nonneg x y zs : 0 <= Tsum x y zs.
Proof.
  unfold Tsum. induction zs as [|z zs IH]; cbn [map sum]; rops; [lra|].
  pose proof (pow2_ge_0 ((y - x) * (z - x) * (z - y))). lra.
Qed.
Lemma Tsum_pos x y zs c : x <> y -> In c zs -> c <> x -> c <> y -> 0 < Tsum x y zs.
Proof.
  intros Hxy Hin Hcx Hcy. induction zs as [|z zs IH]; [contradiction|].
  pose proof (Tsum_nonneg x y zs) as Hn.
  unfold Tsum in *. cbn [map sum]. rops.
  pose proof (pow2_ge_0 ((y - x) * (z - x) * (z - y))) as Hs.
  destruct Hin as [->|Hin]; [|specialize (IH Hin); lra].
  assert (0 < ((y - x) * (c - x) * (c - y)) ^ 2); [|lra].
  apply pow2_gt_0. repeat apply Rmult_integral_contrapositive_currified; lra.
Qed.

Definition Esum (x : R) (ys : list R) : R := Ep x (P0 ys) (P1 ys) (P2 ys) (P3 ys) (P4 ys).
Lemma Esum_cons x y ys : Esum x (y :: ys) = Esum x ys + Tsum x y ys.
Proof.
  rewrite Tsum_poly. unfold Esum. destruct (P_cons y ys) as (-> & -> & -> & -> & ->).
  unfold Ep, Tp. ring.
Qed.
Lemma Esum_nonneg x ys : 0 <= Esum x ys.
Proof.
  induction ys as [|y ys IH].
  - unfold Esum. destruct P_nil as (-> & -> & -> & -> & ->). unfold Ep. lra.
  - rewrite Esum_cons. pose proof (Tsum_nonneg x y ys). lra.
Qed.
Lemma Esum_pos x ys b c : In b ys -> In c ys -> b <> c -> b <> x -> c <> x -> 0 < Esum x ys.
Proof.
  intros Hb Hc Hbc Hbx Hcx. induction ys as [|y ys IH]; [contradiction|].
  rewrite Esum_cons. pose proof (Esum_nonneg x ys). pose proof (Tsum_nonneg x y ys).
  destruct Hb as [->|Hb], Hc as [->|Hc].
  - contradiction.
  - assert (0 < Tsum x b ys) by (apply (Tsum_pos x b ys c); auto). lra.
  - assert (0 < Tsum x c ys) by (apply (Tsum_pos x c ys b); auto). lra.
  - specialize (IH Hb Hc). lra.
Qed.

Definition Dsum (xs : list R) : R := Dp (P0 xs) (P1 xs) (P2 xs) (P3 xs) (P4 xs).
Lemma Dsum_cons x xs : Dsum (x :: xs) = Dsum xs + Esum x xs.
Proof.
  unfold Dsum, Esum. destruct (P_cons x xs) as (-> & -> & -> & -> & ->). unfold Dp, Ep. ring.
Qed.
Lemma Dsum_nonneg xs : 0 <= Dsum xs.
Proof.
  induction xs as [|x xs IH].
  - unfold Dsum. destruct P_nil as (-> & -> & -> & -> & ->). unfold Dp. lra.
  - rewrite Dsum_cons. pose proof (Esum_nonneg x xs). lra.
Qed.
Lemma Dsum_pos xs a b c :
  In a xs -> In b xs -> In c xs -> a <> b -> a <> c -> b <> c -> 0 < Dsum xs.
Proof.
  intros Ha Hb Hc Hab Hac Hbc. induction xs as [|x xs IH]; [contradiction|].
  rewrite Dsum_cons. pose proof (Dsum_nonneg xs). pose proof (Esum_nonneg x xs).
  destruct Ha as [->|Ha], Hb as [->|Hb], Hc as [->|Hc]; try contradiction.
  - assert (0 < Esum a xs) by (apply (Esum_pos a xs b c); auto). lra.
  - assert (0 < Esum b xs) by (apply (Esum_pos b xs a c); auto). lra.
  - assert (0 < Esum c xs) by (apply (Esum_pos c xs a b); auto). lra.
  - specialize (IH Ha Hb Hc). lra.
Qed.

Lemma s_gram_det_pos (xs ys : list R) a b c :
  In a xs -> In b xs -> In c xs -> a <> b -> a <> c -> b <> c -> 0 < s_gram_det (s_mom xs ys).
Proof. intros. rewrite s_gram_det_P. apply (Dsum_pos xs a b c); assumption. Qed.

(** [fit2_exact_distinct]: at least three pairwise distinct positive volumes in the table *)
Lemma fit2_exact_distinct_l (vols : list R) (c0 c1 c2 v a b c : R) :
  let v0 := s_nth 0 vols in
  let ys := map (fun w => s_poly (c0, c1, c2) (s_strain v0 w)) vols in
  0 < v0 -> In a vols -> In b vols -> In c vols -> 0 < a -> 0 < b -> 0 < c ->
  a <> b -> a <> c -> b <> c ->
  s_fit2 vols ys v = s_poly (c0, c1, c2) (s_strain v0 v).
Proof.
  intros v0 ys H0 Ia Ib Ic Pa Pb Pc Nab Nac Nbc.
  apply (fit2_exact_l vols c0 c1 c2 v). fold v0.
  apply Rgt_not_eq, Rlt_gt.
  apply (s_gram_det_pos _ _ (s_strain v0 a) (s_strain v0 b) (s_strain v0 c));
    try (unfold s_strains; apply in_map; assumption);
    intros E; apply s_strain_inj in E; auto.
Qed.
