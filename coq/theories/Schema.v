(** Lemmas about the JSON-Schema model (SchemaModel.v), the readable specification [Spec] of the
    packaged configuration schema, and its consequences (property C16).  The equation
    `validate definitions root cfg = Spec cfg` is proved in Prop_C16.v against the schema value
    that is regenerated from cij/data/schema/config.schema.json on every run. *)
From Coq Require Import ZArith List Bool String.
From Cij Require Import JsonModel SchemaModel Json.
Import ListNotations.
Local Open Scope string_scope.

(** * specification combinators *)
Definition is_string (v : json) : bool := match v with JStr _ => true | _ => false end.
Definition is_boolean (v : json) : bool := match v with JBool _ => true | _ => false end.
Definition is_object (v : json) : bool := match v with JObj _ => true | _ => false end.
(** a Python int or float (bool excluded) *)
Definition is_number (v : json) : bool := match v with JNum _ => true | _ => false end.
(** a number that is not below c *)
Definition number_ge (c : num) (v : json) : bool :=
  match v with JNum n => negb (num_ltb n c) | _ => false end.
(** an int, or a float with integral value, that is not below c *)
Definition integer_ge (c : num) (v : json) : bool :=
  match v with JNum n => num_is_integral n && negb (num_ltb n c) | _ => false end.
Definition one_of (l : list string) (v : json) : bool :=
  match v with JStr s => mem s l | _ => false end.
Definition never (v : json) : bool := false.
(** every listed key that is present satisfies its predicate (absent keys are fine) *)
Definition fields (specs : list (string * (json -> bool))) (l : list (string * json)) : bool :=
  forallb (fun p => match lookup (fst p) l with None => true | Some v => snd p v end) specs.
Definition only_keys (ks : list string) (l : list (string * json)) : bool :=
  forallb (fun kv => mem (fst kv) ks) l.
Definition has (k : string) (l : list (string * json)) : bool := mem k (keys l).
Definition object_with (f : list (string * json) -> bool) (v : json) : bool :=
  match v with JObj l => f l | _ => false end.

(** * what the packaged schema says, written out *)
Definition interpolators := ["akima"; "hermite"; "krogh"; "lagrange"; "lsq_poly"; "pchip"; "spline"].
Definition systems := ["cubic"; "hexagonal"; "monoclinic"; "orthorhombic"; "tetragonal6"; "tetragonal7";
                       "triclinic"; "trigonal6"; "trigonal7"].

Definition QhaSettings : json -> bool :=
  object_with (fields [
    ("DELTA_P", is_number); ("DELTA_P_SAMPLE", is_number); ("DT", is_number);
    ("NT", integer_ge (NInt 1)); ("NTV", integer_ge (NInt 1)); ("P_MIN", is_number);
    ("T_MIN", number_ge (NInt 0));
    ("additionalProperties", never);      (* sic: a key with this NAME is refused; other unknown keys pass *)
    ("order", number_ge (NInt 2)); ("volume_ratio", number_ge (NFlt 1 0))]).
Definition ModeGamma : json -> bool :=
  object_with (fields [("interpolator", one_of interpolators); ("order", integer_ge (NInt 1))]).
Definition symmetry_keys := ["drop_atol"; "ignore_rank"; "ignore_residuals"; "residual_atol"; "system"].
Definition Symmetry : json -> bool :=
  object_with (fun l =>
    fields [("drop_atol", is_number); ("ignore_rank", is_boolean); ("ignore_residuals", is_boolean);
            ("residual_atol", is_number); ("system", one_of systems)] l
    && only_keys symmetry_keys l).
Definition ElastSettings : json -> bool :=
  object_with (fun l =>
    fields [("mode_gamma", ModeGamma); ("symmetry", Symmetry)] l
    && only_keys ["mode_gamma"; "symmetry"] l).
Definition Spec : json -> bool :=
  object_with (fun l =>
    has "elast" l && has "qha" l
    && fields [("additionalProperties", never);                                   (* sic, see above *)
               ("elast", object_with (fields [("input", is_string); ("settings", ElastSettings)]));
               ("output", is_object);
               ("qha", object_with (fields [("input", is_string); ("settings", QhaSettings)]))] l).

Arguments is_string : simpl never.
Arguments is_boolean : simpl never.
Arguments is_object : simpl never.
Arguments is_number : simpl never.
Arguments number_ge : simpl never.
Arguments integer_ge : simpl never.
Arguments one_of : simpl never.
Arguments never : simpl never.

(** * generic lemmas relating [validate_gen] to the combinators *)
Section Gen.
  Variable r : string -> json -> bool.

  Definition props_ok (props : list (string * schema)) (v : json) : bool :=
    match v with
    | JObj l => forallb (fun p => match lookup (fst p) l with
                                  | None => true
                                  | Some x => validate_gen r (snd p) x
                                  end) props
    | _ => true
    end.
  Definition addl_ok (props : list (string * schema)) (addl : schema) (v : json) : bool :=
    match v with
    | JObj l => forallb (fun kv => mem (fst kv) (keys props) || validate_gen r addl (snd kv)) l
    | _ => true
    end.
  Definition ref_ok (ref : option string) (v : json) : bool :=
    match ref with None => true | Some n => r n v end.

  Lemma validate_SObj ts req props en mn addl ref v :
    validate_gen r (SObj ts req props en mn addl ref) v =
    type_ok ts v && required_ok req v && enum_ok en v && minimum_ok mn v
    && props_ok props v && addl_ok props addl v && ref_ok ref v.
  Proof.
    cbn [validate_gen]. unfold props_ok, addl_ok, ref_ok.
    destruct v; rewrite ?andb_true_r, ?andb_assoc; reflexivity.
  Qed.

  Lemma addl_true props v : addl_ok props (SBool true) v = true.
  Proof.
    destruct v; try reflexivity. cbn. apply forallb_forall. intros x _. apply orb_true_r.
  Qed.
  Lemma addl_false props l : addl_ok props (SBool false) (JObj l) = only_keys (keys props) l.
  Proof.
    cbn. unfold only_keys. induction l as [|kv t IH]; [reflexivity|].
    cbn [forallb]. rewrite IH, orb_false_r. reflexivity.
  Qed.
  Lemma props_fields props specs :
    Forall2 (fun p q => fst p = fst q /\ forall x, validate_gen r (snd p) x = snd q x) props specs ->
    forall l, props_ok props (JObj l) = fields specs l.
  Proof.
    intros H l. cbn. unfold fields. induction H as [|p q ps qs [Hk Hv] _ IH]; [reflexivity|].
    cbn [forallb]. rewrite IH, Hk. destruct (lookup (fst q) l); [rewrite Hv|]; reflexivity.
  Qed.
  Lemma props_nil v : props_ok [] v = true.
  Proof. destruct v; reflexivity. Qed.
End Gen.

(** * consequences of [Spec]: every constraint named in the property, for ALL configurations *)
Lemma fields_In specs l k p v :
  fields specs l = true -> In (k, p) specs -> lookup k l = Some v -> p v = true.
Proof.
  unfold fields. intros H Hin Hl. rewrite forallb_forall in H. specialize (H _ Hin). cbn in H.
  rewrite Hl in H. exact H.
Qed.
Lemma only_keys_In ks l k : only_keys ks l = true -> In k (keys l) -> In k ks.
Proof.
  unfold only_keys. intros H Hin. unfold keys in Hin. apply in_map_iff in Hin.
  destruct Hin as [[k' v] [Hk Hin]]. cbn in Hk. subst. rewrite forallb_forall in H.
  specialize (H _ Hin). cbn in H. apply mem_In. exact H.
Qed.

(** the documented constraints: key path |-> predicate the value at that path must satisfy *)
Definition constraints : list (list string * (json -> bool)) := [
  ([], is_object);
  (["qha"], is_object); (["elast"], is_object); (["output"], is_object);
  (["qha"; "input"], is_string); (["elast"; "input"], is_string);
  (["qha"; "settings"], is_object); (["elast"; "settings"], is_object);
  (["qha"; "settings"; "NT"], integer_ge (NInt 1));
  (["qha"; "settings"; "NTV"], integer_ge (NInt 1));
  (["qha"; "settings"; "DT"], is_number);
  (["qha"; "settings"; "T_MIN"], number_ge (NInt 0));
  (["qha"; "settings"; "P_MIN"], is_number);
  (["qha"; "settings"; "DELTA_P"], is_number);
  (["qha"; "settings"; "DELTA_P_SAMPLE"], is_number);
  (["qha"; "settings"; "volume_ratio"], number_ge (NFlt 1 0));
  (["qha"; "settings"; "order"], number_ge (NInt 2));
  (["elast"; "settings"; "mode_gamma"], is_object);
  (["elast"; "settings"; "mode_gamma"; "interpolator"], one_of interpolators);
  (["elast"; "settings"; "mode_gamma"; "order"], integer_ge (NInt 1));
  (["elast"; "settings"; "symmetry"], is_object);
  (["elast"; "settings"; "symmetry"; "system"], one_of systems);
  (["elast"; "settings"; "symmetry"; "ignore_residuals"], is_boolean);
  (["elast"; "settings"; "symmetry"; "ignore_rank"], is_boolean);
  (["elast"; "settings"; "symmetry"; "drop_atol"], is_number);
  (["elast"; "settings"; "symmetry"; "residual_atol"], is_number);
  (["elast"; "settings"], object_with (only_keys ["mode_gamma"; "symmetry"]));
  (["elast"; "settings"; "symmetry"], object_with (only_keys symmetry_keys))].

Lemma object_with_inv f v : object_with f v = true -> exists l, v = JObj l /\ f l = true.
Proof. destruct v; try discriminate. intros H. eexists; split; [reflexivity | exact H]. Qed.

(** one step down a path inside a [fields] specification *)
Lemma fields_step specs k p l v :
  fields specs l = true -> In (k, p) specs -> lookup k l = Some v -> p v = true.
Proof. apply fields_In. Qed.

Ltac split_and :=
  repeat match goal with
         | H : _ && _ = true |- _ => apply andb_true_iff in H; destruct H
         end.
Ltac get_field H k :=
  match type of H with
  | fields ?specs ?l = true =>
      match goal with
      | E : lookup k l = Some ?v |- _ =>
          let F := fresh "F" in
          assert (F := fun p (Hin : In (k, p) specs) => fields_In specs l k p v H Hin E)
      end
  end.

Definition top_fields : list (string * (json -> bool)) :=
  [("additionalProperties", never);
   ("elast", object_with (fields [("input", is_string); ("settings", ElastSettings)]));
   ("output", is_object);
   ("qha", object_with (fields [("input", is_string); ("settings", QhaSettings)]))].
Lemma sec_obj specs l k f q :
  fields specs l = true -> In (k, object_with f) specs -> lookup k l = Some q ->
  exists lq, q = JObj lq /\ f lq = true.
Proof. intros F Hin E. apply object_with_inv. exact (fields_In specs l k _ q F Hin E). Qed.

Theorem Spec_constraints cfg : Spec cfg = true ->
  forall path pred v, In (path, pred) constraints -> get_path path cfg = Some v -> pred v = true.
Proof.
  intros HS path pred v Hin Hp.
  unfold Spec in HS. apply object_with_inv in HS. destruct HS as [l0 [-> HS]].
  apply andb_true_iff in HS. destruct HS as [HS Hf]. apply andb_true_iff in HS. destruct HS as [He Hq].
  fold top_fields in Hf.
  cbn [constraints In] in Hin.
  repeat (destruct Hin as [Hin|Hin];
          [ inversion Hin; subst path pred; clear Hin; cbn [get_path] in Hp;
            repeat match type of Hp with
                   | context [match lookup ?k ?l with _ => _ end] =>
                       let E := fresh "E" in destruct (lookup k l) eqn:E; [|discriminate Hp]
                   | context [match ?x with JObj _ => _ | _ => _ end] =>
                       destruct x; try discriminate Hp
                   end;
            try (inversion Hp; subst; clear Hp) | ]); try destruct Hin.
  all: try reflexivity.
  (* level 1: qha / elast / output *)
  all: repeat match goal with
              | F : fields top_fields ?l = true, E : lookup "qha" ?l = Some _ |- _ =>
                  let lq := fresh "lq" in let F' := fresh "F" in let X := fresh "X" in
                  destruct (sec_obj top_fields l "qha" _ _ F ltac:(cbn; tauto) E) as [lq [X F']];
                  try (injection X as X); subst; try clear E
              | F : fields top_fields ?l = true, E : lookup "elast" ?l = Some _ |- _ =>
                  let lq := fresh "lq" in let F' := fresh "F" in let X := fresh "X" in
                  destruct (sec_obj top_fields l "elast" _ _ F ltac:(cbn; tauto) E) as [lq [X F']];
                  try (injection X as X); subst; try clear E
              | F : fields top_fields ?l = true, E : lookup "output" ?l = Some _ |- _ =>
                  exact (fields_In top_fields l "output" _ _ F ltac:(cbn; tauto) E)
              end.
  all: try reflexivity.
  all: try (match goal with
            | F : fields _ ?lq = true, E : lookup "input" ?lq = Some _ |- _ =>
                refine (fields_In _ _ "input" _ _ F _ E); cbn; tauto
            end).
  (* level 2: settings *)
  all: repeat match goal with
              | F : fields [("input", is_string); ("settings", QhaSettings)] ?lq = true,
                E : lookup "settings" ?lq = Some _ |- _ =>
                  let l' := fresh "ls" in let F' := fresh "F" in let X := fresh "X" in
                  destruct (sec_obj _ lq "settings" _ _ F ltac:(cbn; unfold QhaSettings; tauto) E) as [l' [X F']];
                  try (injection X as X); subst; try clear E
              | F : fields [("input", is_string); ("settings", ElastSettings)] ?lq = true,
                E : lookup "settings" ?lq = Some _ |- _ =>
                  let l' := fresh "ls" in let F' := fresh "F" in let X := fresh "X" in
                  destruct (sec_obj _ lq "settings" _ _ F ltac:(cbn; unfold ElastSettings; tauto) E) as [l' [X F']];
                  try (injection X as X); subst; try clear E
              end.
  all: try reflexivity.
  all: split_and.
  all: try (match goal with
            | F : fields _ ?lq = true, E : lookup ?k ?lq = Some ?v |- _ ?v = true =>
                refine (fields_In _ _ k _ _ F _ E); cbn; tauto
            end).
  all: try (cbn; assumption).
  (* level 3: mode_gamma / symmetry *)
  all: repeat match goal with
              | F : fields [("mode_gamma", ModeGamma); ("symmetry", Symmetry)] ?lq = true,
                E : lookup "mode_gamma" ?lq = Some _ |- _ =>
                  let l' := fresh "lm" in let F' := fresh "F" in let X := fresh "X" in
                  destruct (sec_obj _ lq "mode_gamma" _ _ F ltac:(cbn; unfold ModeGamma; tauto) E) as [l' [X F']];
                  try (injection X as X); subst; try clear E
              | F : fields [("mode_gamma", ModeGamma); ("symmetry", Symmetry)] ?lq = true,
                E : lookup "symmetry" ?lq = Some _ |- _ =>
                  let l' := fresh "lm" in let F' := fresh "F" in let X := fresh "X" in
                  destruct (sec_obj _ lq "symmetry" _ _ F ltac:(cbn; unfold Symmetry; tauto) E) as [l' [X F']];
                  try (injection X as X); subst; try clear E
              end.
  all: try reflexivity.
  all: split_and.
  all: try (match goal with
            | F : fields _ ?lq = true, E : lookup ?k ?lq = Some ?v |- _ ?v = true =>
                refine (fields_In _ _ k _ _ F _ E); cbn; tauto
            end).
  all: try (cbn; assumption).
Qed.

(** * the rejections named in the property, from [Spec] alone *)
Corollary Spec_sections cfg : Spec cfg = true ->
  exists l, cfg = JObj l /\ In "qha" (keys l) /\ In "elast" (keys l).
Proof.
  intros HS. apply object_with_inv in HS. destruct HS as [l [-> HS]]. exists l. split; [reflexivity|].
  apply andb_true_iff in HS. destruct HS as [HS _]. apply andb_true_iff in HS. destruct HS as [He Hq].
  split; apply mem_In; assumption.
Qed.
(** a missing qha or elast section is rejected *)
Corollary Spec_rejects_missing_section l k :
  k = "qha" \/ k = "elast" -> lookup k l = None -> Spec (JObj l) = false.
Proof.
  intros Hk Hl. destruct (Spec (JObj l)) eqn:E; [|reflexivity]. exfalso.
  apply Spec_sections in E. destruct E as [l' [X [Hq He]]]. inversion X; subst l'.
  apply lookup_None in Hl. destruct Hk; subst; auto.
Qed.
(** a documented field whose value violates its constraint (wrong type incl. bool for a number,
    non-integral value for an integer field, below the minimum, not in the enumeration) is rejected *)
Corollary Spec_rejects_bad_value cfg path pred v :
  In (path, pred) constraints -> get_path path cfg = Some v -> pred v = false -> Spec cfg = false.
Proof.
  intros Hin Hp Hv. destruct (Spec cfg) eqn:E; [|reflexivity].
  rewrite (Spec_constraints cfg E path pred v Hin Hp) in Hv. discriminate.
Qed.
(** an unknown key inside elast.settings or inside elast.settings.symmetry is rejected *)
Corollary Spec_rejects_unknown_key_elast cfg l k :
  get_path ["elast"; "settings"] cfg = Some (JObj l) -> In k (keys l) ->
  ~ In k ["mode_gamma"; "symmetry"] -> Spec cfg = false.
Proof.
  intros Hp Hk Hn. destruct (Spec cfg) eqn:E; [|reflexivity]. exfalso. apply Hn.
  assert (H := Spec_constraints cfg E ["elast"; "settings"] (object_with (only_keys ["mode_gamma"; "symmetry"])) _
                 ltac:(unfold constraints; repeat (try (left; reflexivity); right)) Hp).
  cbn in H. exact (only_keys_In _ _ _ H Hk).
Qed.
Corollary Spec_rejects_unknown_key_symmetry cfg l k :
  get_path ["elast"; "settings"; "symmetry"] cfg = Some (JObj l) -> In k (keys l) ->
  ~ In k symmetry_keys -> Spec cfg = false.
Proof.
  intros Hp Hk Hn. destruct (Spec cfg) eqn:E; [|reflexivity]. exfalso. apply Hn.
  assert (H := Spec_constraints cfg E ["elast"; "settings"; "symmetry"] (object_with (only_keys symmetry_keys)) _
                 ltac:(unfold constraints; repeat (try (left; reflexivity); right)) Hp).
  cbn in H. exact (only_keys_In _ _ _ H Hk).
Qed.
(** what the predicates say about the values the property lists *)
Lemma bool_is_not_a_number b c :
  is_number (JBool b) = false /\ number_ge c (JBool b) = false /\ integer_ge c (JBool b) = false.
Proof. repeat split. Qed.
Lemma string_is_not_a_number s c :
  is_number (JStr s) = false /\ number_ge c (JStr s) = false /\ integer_ge c (JStr s) = false.
Proof. repeat split. Qed.
Lemma below_minimum_rejected n c :
  num_ltb n c = true -> number_ge c (JNum n) = false /\ integer_ge c (JNum n) = false.
Proof.
  intros H. unfold number_ge, integer_ge. rewrite H. cbn. rewrite andb_false_r. split; reflexivity.
Qed.
Lemma int_below_minimum z c : (z < c)%Z -> num_ltb (NInt z) (NInt c) = true.
Proof. intros H. cbn. apply Z.ltb_lt. exact H. Qed.
Lemma unknown_enum_rejected l s : ~ In s l -> one_of l (JStr s) = false.
Proof.
  intros H. unfold one_of. destruct (mem s l) eqn:E; [|reflexivity]. apply mem_In in E. contradiction.
Qed.
Lemma non_string_enum_rejected l v : is_string v = false -> one_of l v = false.
Proof. destruct v; try reflexivity. discriminate. Qed.
