(** C13 - lemmas over R about PermModel.v / NonShearModel.v: the results of the phonon
    contribution classes, of the static least-squares fit and of the static-table reader do not
    depend on the order / scale / labelling in which the same data are presented. *)
From Coq Require Import Reals Lra Lia List Bool ZArith Permutation Sorted.
From Cij Require Import Ops ROps NonShearModel PermModel.
From Cij Require Poly ElastDatModel ElastDat.
Import ListNotations.
Local Open Scope R_scope.

Ltac ropsP := cbn [zero one add sub mul div opp ofZ fexp fln fsqrt is0 fleb ROps two three] in *.

(* ------------------------------------------------------------------------------------ *)
(** * Sums and means under permutation *)

Definition Rs (l : list R) : R := sum (OF:=ROps) l.
Lemma Rs_cons x l : Rs (x :: l) = x + Rs l. Proof. reflexivity. Qed.
Lemma Rs_nil : Rs [] = 0. Proof. reflexivity. Qed.

Lemma Rs_perm l l' : Permutation l l' -> Rs l = Rs l'.
Proof.
  induction 1 as [|x l l' _ IH|x y l|l l' l'' _ IH1 _ IH2]; rewrite ?Rs_cons, ?Rs_nil.
  - reflexivity.
  - rewrite IH. reflexivity.
  - ring.
  - congruence.
Qed.
Lemma Rs_map_perm {A} (f : A -> R) l l' : Permutation l l' -> Rs (map f l) = Rs (map f l').
Proof. intros H. apply Rs_perm, Permutation_map, H. Qed.

Lemma len_perm (l l' : list R) : Permutation l l' -> len (OF:=ROps) l = len (OF:=ROps) l'.
Proof. intros H. unfold len. rewrite (Permutation_length H). reflexivity. Qed.
Lemma mean_perm (l l' : list R) : Permutation l l' -> mean (OF:=ROps) l = mean (OF:=ROps) l'.
Proof. intros H. unfold mean. fold (Rs l) (Rs l'). rewrite (Rs_perm _ _ H), (len_perm _ _ H). reflexivity. Qed.

Lemma Rs_zero_first3 (r : list R) : Rs (zero_first3 (OF:=ROps) r) = Rs (skipn 3 r).
Proof.
  destruct r as [|a [|b [|c t]]]; cbn [zero_first3 skipn]; rewrite ?Rs_cons, ?Rs_nil; ropsP; ring.
Qed.
Lemma zero_first3_len (r : list R) : length (zero_first3 (OF:=ROps) r) = length r.
Proof. destruct r as [|a [|b [|c t]]]; reflexivity. Qed.

Lemma gamma_perm_length {A} (r r' : list A) : gamma_perm r r' -> length r = length r'.
Proof.
  intros [H1 H2]. rewrite <- (firstn_skipn 3 r), <- (firstn_skipn 3 r'), !app_length, H1.
  rewrite (Permutation_length H2). reflexivity.
Qed.
Lemma mean_gamma_perm (r r' : list R) :
  gamma_perm r r' -> mean (OF:=ROps) (zero_first3 (OF:=ROps) r) = mean (OF:=ROps) (zero_first3 (OF:=ROps) r').
Proof.
  intros H. unfold mean, len. fold (Rs (zero_first3 (OF:=ROps) r)) (Rs (zero_first3 (OF:=ROps) r')).
  rewrite !Rs_zero_first3, !zero_first3_len, (gamma_perm_length _ _ H).
  destruct H as [_ H]. rewrite (Rs_perm _ _ H). reflexivity.
Qed.
Lemma map_mean_perm (X Y : list (list R)) :
  Forall2 (@Permutation R) X Y -> map (mean (OF:=ROps)) X = map (mean (OF:=ROps)) Y.
Proof. induction 1 as [|x y X Y H _ IH]; cbn [map]; [reflexivity|]. rewrite (mean_perm _ _ H), IH. reflexivity. Qed.

(* ------------------------------------------------------------------------------------ *)
(** * average_over_modes *)

(** modes listed in another order inside each q-point (at Gamma: the first three slots fixed) *)
Lemma avg_modes_perm_modes_l (w : list R) (X Y : list (list R)) :
  modes_perm X Y -> avg_modes (OF:=ROps) w X = avg_modes (OF:=ROps) w Y.
Proof.
  unfold avg_modes. destruct X as [|r X], Y as [|r' Y]; cbn [modes_perm]; try tauto.
  intros [Hg Hr]. cbn [clear_gamma map]. rewrite (mean_gamma_perm _ _ Hg), (map_mean_perm _ _ Hr). reflexivity.
Qed.

Lemma dot_pairs (wr : list (R * list R)) :
  dot (OF:=ROps) (map fst wr) (map (mean (OF:=ROps)) (map snd wr))
  = Rs (map (fun p => fst p * mean (OF:=ROps) (snd p)) wr).
Proof. induction wr as [|p wr IH]; cbn [map dot]; rewrite ?Rs_cons, ?Rs_nil; ropsP; [reflexivity|]. rewrite IH. reflexivity. Qed.

(** q-points 2..n_q listed in another order together with their weights (index 0 = Gamma fixed) *)
Lemma avg_modes_perm_q_l (w0 : R) (r0 : list R) (wr wr' : list (R * list R)) :
  Permutation wr wr' ->
  avg_modes (OF:=ROps) (q_weights w0 wr) (q_rows r0 wr) = avg_modes (OF:=ROps) (q_weights w0 wr') (q_rows r0 wr').
Proof.
  intros H. unfold avg_modes, wavg, q_weights, q_rows. cbn [clear_gamma map dot sum]. ropsP.
  rewrite !dot_pairs. fold (Rs (map fst wr)) (Rs (map fst wr')).
  rewrite (Rs_map_perm _ _ _ H), (Rs_map_perm fst _ _ H). reflexivity.
Qed.

Lemma dot_scale_l (c : R) (w x : list R) :
  dot (OF:=ROps) (map (fun y => c * y) w) x = c * dot (OF:=ROps) w x.
Proof.
  revert x; induction w as [|a w IH]; intros [|b x]; cbn [map dot]; ropsP; try ring.
  rewrite IH. ring.
Qed.
Lemma Rs_scale (c : R) (w : list R) : Rs (map (fun y => c * y) w) = c * Rs w.
Proof. induction w as [|a w IH]; cbn [map]; rewrite ?Rs_cons, ?Rs_nil, ?IH; ring. Qed.
(** all weights multiplied by a common non-zero factor *)
Lemma avg_modes_weight_scale_l (c : R) (w : list R) (X : list (list R)) :
  c <> 0 -> Rs w <> 0 ->
  avg_modes (OF:=ROps) (map (fun y => c * y) w) X = avg_modes (OF:=ROps) w X.
Proof.
  intros Hc Hw. unfold avg_modes, wavg. ropsP. rewrite dot_scale_l. fold (Rs (map (fun y => c * y) w)).
  rewrite Rs_scale. fold (Rs w). field. split; assumption.
Qed.

(* ------------------------------------------------------------------------------------ *)
(** * The term tables are pointwise maps of the input tables *)

Lemma map3q_tab {A} (f : R -> R -> R -> R) (a b c : A -> R) (T : list (list A)) :
  map3q f (tab a T) (tab b T) (tab c T) = tab (fun m => f (a m) (b m) (c m)) T.
Proof.
  unfold map3q, tab. induction T as [|row T IH]; cbn [map zipw]; [reflexivity|]. f_equal; [|exact IH].
  induction row as [|m row IHr]; cbn [map zipw combine fst snd]; [reflexivity|]. f_equal. exact IHr.
Qed.
Lemma map2q_tab {A} (f : R -> R -> R) (a b : A -> R) (T : list (list A)) :
  map2q f (tab a T) (tab b T) = tab (fun m => f (a m) (b m)) T.
Proof.
  unfold map2q, tab. induction T as [|row T IH]; cbn [map zipw]; [reflexivity|]. f_equal; [|exact IH].
  induction row as [|m row IHr]; cbn [map zipw]; [reflexivity|]. f_equal. exact IHr.
Qed.

(** a permutation of the input table is the same permutation of every sampled table *)
Lemma gamma_perm_map {A B} (g : A -> B) (r r' : list A) : gamma_perm r r' -> gamma_perm (map g r) (map g r').
Proof.
  intros [H1 H2]. split.
  - rewrite !firstn_map, H1. reflexivity.
  - rewrite !skipn_map. apply Permutation_map, H2.
Qed.
Lemma modes_perm_tab {A B} (g : A -> B) (T T' : list (list A)) : modes_perm T T' -> modes_perm (tab g T) (tab g T').
Proof.
  unfold tab. destruct T as [|r T], T' as [|r' T']; cbn [modes_perm map]; try tauto.
  intros [Hg Hr]. split; [apply gamma_perm_map, Hg|].
  induction Hr as [|x y X Y H _ IH]; cbn [map]; constructor; [apply Permutation_map, H | exact IH].
Qed.
Lemma q_rows_tab {A B} (g : A -> B) (r0 : list A) (wr : list (R * list A)) :
  tab g (q_rows r0 wr) = q_rows (map g r0) (map (fun p => (fst p, map g (snd p))) wr).
Proof. unfold tab, q_rows. cbn [map]. rewrite !map_map. reflexivity. Qed.
Lemma q_weights_tab {A B} (g : A -> B) (w0 : R) (wr : list (R * list A)) :
  q_weights w0 (map (fun p => (fst p, map g (snd p))) wr) = q_weights w0 wr.
Proof. unfold q_weights. rewrite map_map. reflexivity. Qed.

(** two presentations (w, T) and (w', T') of a spectrum are equivalent for every per-mode term *)
Definition avg_equiv {A} (w w' : list R) (T T' : list (list A)) : Prop :=
  forall term : A -> R, avg_modes (OF:=ROps) w (tab term T) = avg_modes (OF:=ROps) w' (tab term T').

Lemma avg_equiv_perm_modes {A} (w : list R) (T T' : list (list A)) : modes_perm T T' -> avg_equiv w w T T'.
Proof. intros H term. apply avg_modes_perm_modes_l, modes_perm_tab, H. Qed.
Lemma avg_equiv_perm_q {A} (w0 : R) (r0 : list A) (wr wr' : list (R * list A)) :
  Permutation wr wr' -> avg_equiv (q_weights w0 wr) (q_weights w0 wr') (q_rows r0 wr) (q_rows r0 wr').
Proof.
  intros H term. rewrite !q_rows_tab.
  rewrite <- (q_weights_tab term w0 wr), <- (q_weights_tab term w0 wr').
  apply avg_modes_perm_q_l, Permutation_map, H.
Qed.
Lemma avg_equiv_weight_scale {A} (c : R) (w : list R) (T : list (list A)) :
  c <> 0 -> Rs w <> 0 -> avg_equiv (map (fun y => c * y) w) w T T.
Proof. intros Hc Hw term. apply avg_modes_weight_scale_l; assumption. Qed.

(** every output of the contribution classes (zero_point_contribution, thermal_contribution,
    value_isothermal, isothermal_to_adiabatic, value_adiabatic) at every grid point *)
Definition same_outputs {A} (w w' : list R) (T T' : list (list A)) : Prop :=
  forall (K : @consts R) (Q1 Q2 : R -> R) (lg : bool) (na : Z) (fr ga vd : A -> R) (ei ej v t p pst cv : R),
    zero_point (OF:=ROps) K lg w na (tab fr T) (tab ga T) (tab vd T) ei ej v
      = zero_point (OF:=ROps) K lg w' na (tab fr T') (tab ga T') (tab vd T') ei ej v /\
    thermal (OF:=ROps) K Q1 Q2 lg w na (tab fr T) (tab ga T) (tab vd T) ei ej v t
      = thermal (OF:=ROps) K Q1 Q2 lg w' na (tab fr T') (tab ga T') (tab vd T') ei ej v t /\
    isothermal (OF:=ROps) K Q1 Q2 lg w na (tab fr T) (tab ga T) (tab vd T) ei ej v t p pst
      = isothermal (OF:=ROps) K Q1 Q2 lg w' na (tab fr T') (tab ga T') (tab vd T') ei ej v t p pst /\
    gap (OF:=ROps) K Q2 w na (tab fr T) (tab ga T) ei ej v t cv
      = gap (OF:=ROps) K Q2 w' na (tab fr T') (tab ga T') ei ej v t cv /\
    adiabatic (OF:=ROps) K Q1 Q2 lg w na (tab fr T) (tab ga T) (tab vd T) ei ej v t p pst cv
      = adiabatic (OF:=ROps) K Q1 Q2 lg w' na (tab fr T') (tab ga T') (tab vd T') ei ej v t p pst cv.

Lemma avg_equiv_outputs {A} (w w' : list R) (T T' : list (list A)) : avg_equiv w w' T T' -> same_outputs w w' T T'.
Proof.
  intros E K Q1 Q2 lg na fr ga vd ei ej v t p pst cv.
  assert (Hz : zero_point (OF:=ROps) K lg w na (tab fr T) (tab ga T) (tab vd T) ei ej v
               = zero_point (OF:=ROps) K lg w' na (tab fr T') (tab ga T') (tab vd T') ei ej v).
  { unfold zero_point. rewrite !map3q_tab, E. reflexivity. }
  assert (Ht : thermal (OF:=ROps) K Q1 Q2 lg w na (tab fr T) (tab ga T) (tab vd T) ei ej v t
               = thermal (OF:=ROps) K Q1 Q2 lg w' na (tab fr T') (tab ga T') (tab vd T') ei ej v t).
  { unfold thermal. rewrite !map3q_tab, E. reflexivity. }
  assert (Hg : gap (OF:=ROps) K Q2 w na (tab fr T) (tab ga T) ei ej v t cv
               = gap (OF:=ROps) K Q2 w' na (tab fr T') (tab ga T') ei ej v t cv).
  { unfold gap. rewrite !map2q_tab, !E. reflexivity. }
  assert (Hi : isothermal (OF:=ROps) K Q1 Q2 lg w na (tab fr T) (tab ga T) (tab vd T) ei ej v t p pst
               = isothermal (OF:=ROps) K Q1 Q2 lg w' na (tab fr T') (tab ga T') (tab vd T') ei ej v t p pst).
  { unfold isothermal. rewrite Hz, Ht. reflexivity. }
  repeat split; try assumption. unfold adiabatic. rewrite Hi, Hg. reflexivity.
Qed.

Lemma outputs_perm_modes_l {A} (w : list R) (T T' : list (list A)) : modes_perm T T' -> same_outputs w w T T'.
Proof. intros H. apply avg_equiv_outputs, avg_equiv_perm_modes, H. Qed.
Lemma outputs_perm_q_l {A} (w0 : R) (r0 : list A) (wr wr' : list (R * list A)) :
  Permutation wr wr' -> same_outputs (q_weights w0 wr) (q_weights w0 wr') (q_rows r0 wr) (q_rows r0 wr').
Proof. intros H. apply avg_equiv_outputs, avg_equiv_perm_q, H. Qed.
Lemma outputs_weight_scale_l {A} (c : R) (w : list R) (T : list (list A)) :
  c <> 0 -> Rs w <> 0 -> same_outputs (map (fun y => c * y) w) w T T.
Proof. intros Hc Hw. apply avg_equiv_outputs, avg_equiv_weight_scale; assumption. Qed.

(* ------------------------------------------------------------------------------------ *)
(** * Volume order: a sorted presentation is unique *)

Lemma volume_order_ge_l (l l' : list R) :
  Permutation l l' -> StronglySorted Rge l -> StronglySorted Rge l' -> l = l'.
Proof.
  revert l'. induction l as [|a t IH]; intros l' HP Hs Hs'.
  - apply Permutation_nil in HP. congruence.
  - destruct l' as [|b t']; [apply Permutation_sym, Permutation_nil in HP; discriminate|].
    inversion Hs as [|? ? Hst Ha]; subst. inversion Hs' as [|? ? Hst' Hb]; subst.
    rewrite Forall_forall in Ha, Hb.
    assert (Hab : a >= b).
    { assert (I : In b (a :: t)) by (apply (Permutation_in _ (Permutation_sym HP)); left; reflexivity).
      destruct I as [->|I]; [lra | apply Ha, I]. }
    assert (Hba : b >= a).
    { assert (I : In a (b :: t')) by (apply (Permutation_in _ HP); left; reflexivity).
      destruct I as [->|I]; [lra | apply Hb, I]. }
    assert (E : a = b) by lra. subst b.
    f_equal. apply IH; [eapply Permutation_cons_inv; exact HP | assumption | assumption].
Qed.
Lemma sorted_gt_ge (l : list R) : StronglySorted Rgt l -> StronglySorted Rge l.
Proof.
  induction 1 as [|a l _ IH Ha]; constructor; [exact IH|].
  eapply Forall_impl; [|exact Ha]. intros x Hx. cbv beta in Hx. lra.
Qed.
Lemma volume_order_l (l l' : list R) :
  Permutation l l' -> StronglySorted Rgt l -> StronglySorted Rgt l' -> l = l'.
Proof. intros HP H H'. apply volume_order_ge_l; [exact HP | apply sorted_gt_ge, H | apply sorted_gt_ge, H']. Qed.

(** whole volume blocks (volume, data): strictly decreasing volumes fix the order of the blocks *)
Lemma volume_blocks_order_l {D} (l l' : list (R * D)) :
  Permutation l l' ->
  StronglySorted (fun a b => fst a > fst b) l -> StronglySorted (fun a b => fst a > fst b) l' -> l = l'.
Proof.
  revert l'. induction l as [|a t IH]; intros l' HP Hs Hs'.
  - apply Permutation_nil in HP. congruence.
  - destruct l' as [|b t']; [apply Permutation_sym, Permutation_nil in HP; discriminate|].
    inversion Hs as [|? ? Hst Ha]; subst. inversion Hs' as [|? ? Hst' Hb]; subst.
    rewrite Forall_forall in Ha, Hb.
    assert (E : a = b).
    { assert (I : In b (a :: t)) by (apply (Permutation_in _ (Permutation_sym HP)); left; reflexivity).
      assert (J : In a (b :: t')) by (apply (Permutation_in _ HP); left; reflexivity).
      destruct I as [I|I]; [exact I|]. destruct J as [J|J]; [symmetry; exact J|].
      specialize (Ha _ I). specialize (Hb _ J). lra. }
    subst b. f_equal. apply IH; [eapply Permutation_cons_inv; exact HP | assumption | assumption].
Qed.

(** the guard (all(diff(v) <= 0)) accepts exactly the weakly decreasing lists *)
Lemma mono_dec_sorted (l : list R) : mono_dec (OF:=ROps) l = true <-> StronglySorted Rge l.
Proof.
  split.
  - intros H. apply Sorted_StronglySorted; [intros x y z; unfold Rge; lra|].
    induction l as [|a [|b t] IH]; [constructor | repeat constructor |].
    cbn [mono_dec] in H. apply andb_true_iff in H. destruct H as [H1 H2].
    constructor; [apply IH, H2|]. constructor. ropsP. apply Rleb_true in H1. lra.
  - intros H. apply StronglySorted_Sorted in H.
    induction l as [|a [|b t] IH]; [reflexivity | reflexivity |].
    inversion H as [|? ? Hs Hh]; subst. inversion Hh as [|? ? Hab]; subst.
    cbn [mono_dec]. apply andb_true_iff. split; [|apply IH, Hs]. ropsP. apply Rleb_true. lra.
Qed.

(* ------------------------------------------------------------------------------------ *)
(** * The static table as a finite map: column order is irrelevant *)

Section Lookup.
  Context {K V : Type} (eqb : K -> K -> bool).
  Hypothesis eqb_spec : forall a b, eqb a b = true <-> a = b.

  Lemma alookup_In (l : list (K * V)) k v :
    NoDup (map fst l) -> (alookup eqb k l = Some v <-> In (k, v) l).
  Proof.
    induction l as [|[k' v'] l IH]; cbn [alookup map fst In]; intros ND.
    - split; [discriminate | tauto].
    - apply NoDup_cons_iff in ND. destruct ND as [Hn ND]. destruct (eqb k k') eqn:E.
      + apply eqb_spec in E. subst k'. split.
        * intros H. injection H as ->. left; reflexivity.
        * intros [H|H]; [injection H as ->; reflexivity|].
          exfalso. apply Hn. apply in_map_iff. exists (k, v). split; [reflexivity | exact H].
      + rewrite (IH ND). split; [tauto|]. intros [H|H]; [|exact H].
        injection H as -> ->. assert (T : eqb k k = true) by (apply eqb_spec; reflexivity). congruence.
  Qed.

  Lemma columns_as_map_l (l l' : list (K * V)) :
    NoDup (map fst l) -> Permutation l l' -> forall k, alookup eqb k l = alookup eqb k l'.
  Proof.
    intros ND HP k.
    assert (ND' : NoDup (map fst l')) by (eapply Permutation_NoDup; [apply Permutation_map, HP | exact ND]).
    destruct (alookup eqb k l) as [v|] eqn:E.
    - symmetry. apply (alookup_In l' k v ND'). apply (Permutation_in _ HP). apply (alookup_In l k v ND), E.
    - destruct (alookup eqb k l') as [v'|] eqn:E'; [|reflexivity].
      apply (alookup_In l' k v' ND') in E'. apply (Permutation_in _ (Permutation_sym HP)) in E'.
      apply (alookup_In l k v' ND) in E'. congruence.
  Qed.
End Lookup.

(* ------------------------------------------------------------------------------------ *)
(** * Least-squares fits: row order *)

Lemma Rs_lin {A} (f g : A -> R) a l : Rs (map (fun x => a * f x + g x) l) = a * Rs (map f l) + Rs (map g l).
Proof. induction l as [|x l IH]; cbn [map]; rewrite ?Rs_cons, ?Rs_nil, ?IH; ring. Qed.
Lemma Rs_ext {A} (f g : A -> R) l : (forall x, In x l -> f x = g x) -> Rs (map f l) = Rs (map g l).
Proof.
  induction l as [|x l IH]; intros H; cbn [map]; rewrite ?Rs_cons; [reflexivity|].
  rewrite (H x (or_introl eq_refl)), IH; [reflexivity|]. intros y Hy. apply H. right. exact Hy.
Qed.
Lemma Rs_zero {A} (f : A -> R) l : (forall x, In x l -> f x = 0) -> Rs (map f l) = 0.
Proof.
  induction l as [|x l IH]; intros H; cbn [map]; rewrite ?Rs_cons, ?Rs_nil; [reflexivity|].
  rewrite (H x (or_introl eq_refl)), IH; [ring|]. intros y Hy. apply H. right. exact Hy.
Qed.
Lemma Rs_minus {A} (f g : A -> R) l : Rs (map (fun x => f x - g x) l) = Rs (map f l) - Rs (map g l).
Proof. induction l as [|x l IH]; cbn [map]; rewrite ?Rs_cons, ?Rs_nil, ?IH; ring. Qed.
Lemma Rs_sq_nonneg {A} (f : A -> R) l : 0 <= Rs (map (fun x => f x * f x) l).
Proof.
  induction l as [|x l IH]; cbn [map]; rewrite ?Rs_cons, ?Rs_nil; [lra|].
  pose proof (Rle_0_sqr (f x)) as S. unfold Rsqr in S. lra.
Qed.
Lemma Rs_sq_zero {A} (f : A -> R) l : Rs (map (fun x => f x * f x) l) = 0 -> forall x, In x l -> f x = 0.
Proof.
  induction l as [|y l IH]; cbn [map]; rewrite ?Rs_cons; intros H x Hin; [destruct Hin|].
  pose proof (Rs_sq_nonneg f l) as N. pose proof (Rle_0_sqr (f y)) as S. unfold Rsqr in S.
  assert (Hy : f y * f y = 0) by lra.
  destruct Hin as [<-|Hin].
  - apply Rmult_integral in Hy. destruct Hy; assumption.
  - apply IH; [lra | exact Hin].
Qed.

(** the entries of A^T A and A^T y of a polynomial fit do not depend on the order of the data rows *)
Lemma polyfit_row_perm_l (rows rows' : list (R * R)) :
  Permutation rows rows' ->
  forall k, mom (OF:=ROps) k rows = mom (OF:=ROps) k rows' /\ momy (OF:=ROps) k rows = momy (OF:=ROps) k rows'.
Proof. intros H k. unfold mom, momy. split; apply Rs_map_perm, H. Qed.

Lemma sum_pow_pe (rows : list (R * R)) (c : list R) : forall j,
  Rs (map (fun r => powN (OF:=ROps) (fst r) j * pe (OF:=ROps) c (fst r)) rows) = cmom (OF:=ROps) j rows c.
Proof.
  induction c as [|a c IH]; intros j; cbn [pe cmom]; ropsP.
  - apply Rs_zero. intros; ring.
  - rewrite <- IH. unfold mom. fold (Rs (map (fun r : R * R => powN (OF:=ROps) (fst r) j) rows)).
    rewrite <- Rs_lin. apply Rs_ext. intros r _. cbn [powN]. ropsP. ring.
Qed.
(** the normal equations mention the data only through the moment sums *)
Lemma nresid_moments (j : nat) (rows : list (R * R)) (c : list R) :
  nresid (OF:=ROps) j rows c = cmom (OF:=ROps) j rows c - momy (OF:=ROps) j rows.
Proof.
  unfold nresid, momy. fold (Rs (map (fun r : R * R => powN (OF:=ROps) (fst r) j * snd r) rows)).
  rewrite <- sum_pow_pe, <- Rs_minus. apply Rs_ext. intros r _. ropsP. ring.
Qed.
Lemma cmom_perm (rows rows' : list (R * R)) (c : list R) :
  Permutation rows rows' -> forall j, cmom (OF:=ROps) j rows c = cmom (OF:=ROps) j rows' c.
Proof.
  intros H. induction c as [|a c IH]; intros j; cbn [cmom]; [reflexivity|].
  rewrite IH. destruct (polyfit_row_perm_l _ _ H j) as [-> _]. reflexivity.
Qed.
Lemma normal_eq_row_perm_l (n : nat) (rows rows' : list (R * R)) (c : list R) :
  Permutation rows rows' -> (normal_eq n rows c <-> normal_eq n rows' c).
Proof.
  intros H. unfold normal_eq. split; intros N j Hj; specialize (N j Hj); rewrite nresid_moments in *;
    destruct (polyfit_row_perm_l _ _ H j) as [_ E].
  - rewrite <- (cmom_perm _ _ c H), <- E. exact N.
  - rewrite (cmom_perm _ _ c H), E. exact N.
Qed.

Lemma gresid_perm {X} (p : X -> R) phi (pts pts' : list (X * R)) c :
  Permutation pts pts' -> gresid (OF:=ROps) p phi pts c = gresid (OF:=ROps) p phi pts' c.
Proof. intros H. unfold gresid. apply Rs_map_perm, H. Qed.
Lemma gnormal_eq_row_perm_l {X} (phi : list (X -> R)) (pts pts' : list (X * R)) (c : list R) :
  Permutation pts pts' -> (gnormal_eq phi pts c <-> gnormal_eq phi pts' c).
Proof.
  intros H. unfold gnormal_eq. split; intros N; eapply Forall_impl; try exact N; intros p Hp; cbv beta in *.
  - rewrite <- (gresid_perm p phi _ _ c H). exact Hp.
  - rewrite (gresid_perm p phi _ _ c H). exact Hp.
Qed.

(* ------------------------------------------------------------------------------------ *)
(** * Least-squares fits: the fitted values depend on the column space only *)

Definition orth {X} (e : X * R -> R) (pts : list (X * R)) (p : X -> R) : Prop :=
  Rs (map (fun r => p (fst r) * e r) pts) = 0.

Lemma fitv_nil_l {X} (c : list R) (x : X) : fitv (OF:=ROps) [] c x = 0.
Proof. unfold fitv. destruct c; reflexivity. Qed.
Lemma fitv_nil_r {X} (phi : list (X -> R)) (x : X) : fitv (OF:=ROps) phi [] x = 0.
Proof. reflexivity. Qed.
Lemma fitv_cons {X} (p : X -> R) phi a c (x : X) :
  fitv (OF:=ROps) (p :: phi) (a :: c) x = a * p x + fitv (OF:=ROps) phi c x.
Proof. reflexivity. Qed.

(** a vector orthogonal to every column is orthogonal to every combination of the columns *)
Lemma orth_fitv {X} (e : X * R -> R) (pts : list (X * R)) (phi : list (X -> R)) :
  Forall (orth e pts) phi -> forall m, orth e pts (fitv (OF:=ROps) phi m).
Proof.
  induction 1 as [|p phi Hp _ IH]; intros m; unfold orth in *.
  - apply Rs_zero. intros; rewrite fitv_nil_l; ring.
  - destruct m as [|a m].
    + apply Rs_zero. intros; rewrite fitv_nil_r; ring.
    + rewrite (Rs_ext _ (fun r => a * (p (fst r) * e r) + fitv (OF:=ROps) phi m (fst r) * e r))
        by (intros; rewrite fitv_cons; ring).
      rewrite Rs_lin, Hp, IH. ring.
Qed.
Lemma orth_transfer {X} (e : X * R -> R) (pts : list (X * R)) (phi psi : list (X -> R)) :
  span_le psi phi pts -> Forall (orth e pts) phi -> Forall (orth e pts) psi.
Proof.
  intros S H. unfold span_le in S. eapply Forall_impl; [|exact S]. intros q [m Hm]. unfold orth.
  rewrite (Rs_ext _ (fun r => fitv (OF:=ROps) phi m (fst r) * e r)) by (intros r Hr; rewrite (Hm r Hr); reflexivity).
  apply (orth_fitv e pts phi H m).
Qed.

Definition resid {X} (phi : list (X -> R)) (c : list R) (r : X * R) : R := fitv (OF:=ROps) phi c (fst r) - snd r.
Lemma gnormal_eq_orth {X} (phi : list (X -> R)) pts c : gnormal_eq phi pts c <-> Forall (orth (resid phi c) pts) phi.
Proof. reflexivity. Qed.

Lemma lsq_core {X} (phi psi : list (X -> R)) (pts : list (X * R)) (c d : list R) :
  Forall (orth (resid phi c) pts) phi -> Forall (orth (resid phi c) pts) psi ->
  Forall (orth (resid psi d) pts) phi -> Forall (orth (resid psi d) pts) psi ->
  forall r, In r pts -> fitv (OF:=ROps) phi c (fst r) = fitv (OF:=ROps) psi d (fst r).
Proof.
  intros H11 H12 H21 H22.
  set (e := fun r : X * R => fitv (OF:=ROps) phi c (fst r) - fitv (OF:=ROps) psi d (fst r)).
  assert (Z : Rs (map (fun r => e r * e r) pts) = 0).
  { pose proof (orth_fitv _ pts phi H11 c) as A1. pose proof (orth_fitv _ pts phi H21 c) as A2.
    pose proof (orth_fitv _ pts psi H12 d) as B1. pose proof (orth_fitv _ pts psi H22 d) as B2.
    unfold orth in A1, A2, B1, B2.
    rewrite (Rs_ext _ (fun r => (fitv (OF:=ROps) phi c (fst r) * resid phi c r - fitv (OF:=ROps) phi c (fst r) * resid psi d r)
                                - (fitv (OF:=ROps) psi d (fst r) * resid phi c r - fitv (OF:=ROps) psi d (fst r) * resid psi d r)))
      by (intros r _; unfold e, resid; ring).
    rewrite !Rs_minus, A1, A2, B1, B2. ring. }
  intros r Hr. pose proof (Rs_sq_zero e pts Z r Hr) as E. unfold e in E. lra.
Qed.

(** normal_eq_unique_fit: A^T(Ac - y) = 0 and A^T(Ad - y) = 0  imply  A c = A d *)
Lemma normal_eq_unique_fit_l {X} (phi : list (X -> R)) (pts : list (X * R)) (c d : list R) :
  gnormal_eq phi pts c -> gnormal_eq phi pts d ->
  forall r, In r pts -> fitv (OF:=ROps) phi c (fst r) = fitv (OF:=ROps) phi d (fst r).
Proof. intros Hc Hd. apply lsq_core; assumption. Qed.

(** two design matrices with the same column space give the same fitted values *)
Lemma lsq_fit_same_span_l {X} (phi psi : list (X -> R)) (pts : list (X * R)) (c d : list R) :
  span_le phi psi pts -> span_le psi phi pts -> gnormal_eq phi pts c -> gnormal_eq psi pts d ->
  forall r, In r pts -> fitv (OF:=ROps) phi c (fst r) = fitv (OF:=ROps) psi d (fst r).
Proof.
  intros S1 S2 Hc Hd. apply lsq_core; try assumption.
  - eapply orth_transfer; [exact S2 | exact Hc].
  - eapply orth_transfer; [exact S1 | exact Hd].
Qed.

(* ------------------------------------------------------------------------------------ *)
(** * Affine re-parametrisation of the strain coordinate of a cubic fit *)

(** explicit 4x4 change of basis: [1, s', s'^2, s'^3] in terms of [1, s, s^2, s^3] for s' = a s + b *)
Lemma cubic_span {X} (s s' : X -> R) (a b : R) (pts : list (X * R)) :
  (forall r, In r pts -> s' (fst r) = a * s (fst r) + b) ->
  span_le (cubic_basis s') (cubic_basis s) pts.
Proof.
  intros H. unfold span_le, cubic_basis. repeat constructor.
  - exists [1]. intros r Hr. unfold fitv. cbn [map dot]. ropsP. ring.
  - exists [b; a]. intros r Hr. unfold fitv. cbn [map dot]. ropsP. rewrite (H r Hr). ring.
  - exists [b * b; 2 * a * b; a * a]. intros r Hr. unfold fitv. cbn [map dot]. ropsP. rewrite (H r Hr). ring.
  - exists [b * b * b; 3 * a * b * b; 3 * a * a * b; a * a * a]. intros r Hr. unfold fitv. cbn [map dot]. ropsP.
    rewrite (H r Hr). ring.
Qed.

Lemma polyfit_affine_reparam_l {X} (s s' : X -> R) (a b : R) (pts : list (X * R)) (c d : list R) :
  a <> 0 -> (forall r, In r pts -> s' (fst r) = a * s (fst r) + b) ->
  gnormal_eq (cubic_basis s) pts c -> gnormal_eq (cubic_basis s') pts d ->
  forall r, In r pts -> cubic c (s (fst r)) = cubic d (s' (fst r)).
Proof.
  intros Ha H Hc Hd r Hr.
  change (fitv (OF:=ROps) (cubic_basis s) c (fst r) = fitv (OF:=ROps) (cubic_basis s') d (fst r)).
  apply (lsq_fit_same_span_l (cubic_basis s) (cubic_basis s') pts c d); try assumption.
  - apply (cubic_span s' s (/ a) (- b / a)). intros r' Hr'. rewrite (H r' Hr'). field. exact Ha.
  - apply (cubic_span s s' a b). exact H.
Qed.

(** with four distinct strain values among the data the two cubics coincide as functions,
    i.e. also at the volumes of the finer grid where the code evaluates the fit *)
Lemma cubic4 (c0 c1 c2 c3 f : R) : cubic [c0; c1; c2; c3] f = c0 + c1 * f + c2 * (f * f) + c3 * (f * f * f).
Proof. unfold cubic, fitv, cubic_basis. cbn [map dot]. ropsP. ring. Qed.

Lemma polyfit_affine_reparam_everywhere_l {X} (s s' : X -> R) (a b : R) (pts : list (X * R)) (c d : list R) (fs : list R) :
  a <> 0 -> (forall r, In r pts -> s' (fst r) = a * s (fst r) + b) ->
  length c = 4%nat -> length d = 4%nat ->
  NoDup fs -> (4 <= length fs)%nat -> incl fs (map (fun r => s (fst r)) pts) ->
  gnormal_eq (cubic_basis s) pts c -> gnormal_eq (cubic_basis s') pts d ->
  forall f, cubic c f = cubic d (a * f + b).
Proof.
  intros Ha H Lc Ld ND L4 Inc Hc Hd f.
  destruct c as [|c0 [|c1 [|c2 [|c3 [|]]]]]; try discriminate.
  destruct d as [|d0 [|d1 [|d2 [|d3 [|]]]]]; try discriminate.
  set (p := [c3 - a * a * a * d3; c2 - (3 * a * a * b * d3 + a * a * d2);
             c1 - (3 * a * b * b * d3 + 2 * a * b * d2 + a * d1);
             c0 - (b * b * b * d3 + b * b * d2 + b * d1 + d0)]).
  assert (P : forall x, Poly.pv p x = cubic [c0; c1; c2; c3] x - cubic [d0; d1; d2; d3] (a * x + b)).
  { intros x. rewrite !cubic4. unfold p. cbn [Poly.pv length]. simpl pow. ring. }
  assert (Z : Poly.pv p f = 0).
  { apply (Poly.pv_roots_zero 4 p eq_refl fs ND L4). intros x Hx. rewrite P.
    apply Inc, in_map_iff in Hx. destruct Hx as (r & <- & Hr).
    rewrite <- (H r Hr). rewrite (polyfit_affine_reparam_l s s' a b pts _ _ Ha H Hc Hd r Hr). ring. }
  rewrite P in Z. lra.
Qed.

(* ------------------------------------------------------------------------------------ *)
(** * Eulerian strain: changing the reference volume is an affine re-parametrisation *)

Lemma eulerian_reference_change_l (v0 v1 v : R) :
  0 < v0 -> 0 < v1 -> 0 < v ->
  let a := Rpower (v1 / v0) (2 / 3) in
  eulerian v1 v = a * eulerian v0 v + (a - 1) / 2 /\ 0 < a.
Proof.
  intros H0 H1 Hv a. split.
  - unfold eulerian, a. replace (v1 / v) with ((v1 / v0) * (v0 / v)) by (field; split; lra).
    rewrite <- Rpower_mult_distr.
    + field.
    + apply Rdiv_lt_0_compat; assumption.
    + apply Rdiv_lt_0_compat; assumption.
  - unfold a, Rpower. apply exp_pos.
Qed.

Lemma eulerian_injective (v0 v v' : R) : 0 < v0 -> 0 < v -> 0 < v' -> eulerian v0 v = eulerian v0 v' -> v = v'.
Proof.
  intros H0 Hv Hv' E. unfold eulerian in E.
  assert (P : Rpower (v0 / v) (2 / 3) = Rpower (v0 / v') (2 / 3)) by lra.
  destruct (Rtotal_order v v') as [L|[L|L]]; [|exact L|]; exfalso.
  - assert (Q : Rpower (v0 / v') (2 / 3) < Rpower (v0 / v) (2 / 3)).
    { apply Rlt_Rpower_l; [lra|]. split; [apply Rdiv_lt_0_compat; assumption|].
      unfold Rdiv. apply Rmult_lt_compat_l; [exact H0|]. apply Rinv_lt_contravar; [apply Rmult_lt_0_compat; assumption | exact L]. }
    lra.
  - assert (Q : Rpower (v0 / v) (2 / 3) < Rpower (v0 / v') (2 / 3)).
    { apply Rlt_Rpower_l; [lra|]. split; [apply Rdiv_lt_0_compat; assumption|].
      unfold Rdiv. apply Rmult_lt_compat_l; [exact H0|]. apply Rinv_lt_contravar; [apply Rmult_lt_0_compat; assumption | exact L]. }
    lra.
Qed.

Lemma NoDup_map_inj_in {A B} (f : A -> B) (l : list A) :
  (forall x y, In x l -> In y l -> f x = f y -> x = y) -> NoDup l -> NoDup (map f l).
Proof.
  intros Inj ND. induction ND as [|x l Hn ND IH]; cbn [map]; constructor.
  - intros Hin. apply in_map_iff in Hin. destruct Hin as (y & E & Hy).
    apply Hn. rewrite (Inj x y (or_introl eq_refl) (or_intror Hy) (eq_sym E)). exact Hy.
  - apply IH. intros a b Ha Hb. apply Inj; right; assumption.
Qed.

(** fit_modulus: numpy.polyfit(eulerian(V_ref, V_i), y_i, 3) evaluated at eulerian(V_ref, V):
    neither the order of the table rows nor the reference volume (the code takes the volume of
    the FIRST row) changes the fitted function of V *)
Lemma static_fit_presentation_free_l (v0 v1 : R) (pts pts' : list (R * R)) (c d : list R) :
  0 < v0 -> 0 < v1 -> Forall (fun r => 0 < fst r) pts -> Permutation pts pts' ->
  gnormal_eq (cubic_basis (eulerian v0)) pts c -> gnormal_eq (cubic_basis (eulerian v1)) pts' d ->
  (forall r, In r pts -> cubic c (eulerian v0 (fst r)) = cubic d (eulerian v1 (fst r))) /\
  (length c = 4%nat -> length d = 4%nat ->
   (exists vs, NoDup vs /\ (4 <= length vs)%nat /\ incl vs (map fst pts)) ->
   forall v, 0 < v -> cubic c (eulerian v0 v) = cubic d (eulerian v1 v)).
Proof.
  intros H0 H1 Hpos HP Hc Hd'.
  assert (Hd : gnormal_eq (cubic_basis (eulerian v1)) pts d) by (apply (gnormal_eq_row_perm_l _ _ _ d HP); exact Hd').
  set (a := Rpower (v1 / v0) (2 / 3)).
  assert (Ha : a <> 0) by (pose proof (proj2 (eulerian_reference_change_l v0 v1 1 H0 H1 Rlt_0_1)); fold a in H; lra).
  assert (H : forall r, In r pts -> eulerian v1 (fst r) = a * eulerian v0 (fst r) + (a - 1) / 2).
  { intros r Hr. rewrite Forall_forall in Hpos. apply (eulerian_reference_change_l v0 v1 (fst r) H0 H1 (Hpos r Hr)). }
  split.
  - apply (polyfit_affine_reparam_l (eulerian v0) (eulerian v1) a ((a - 1) / 2) pts c d Ha H Hc Hd).
  - intros Lc Ld (vs & ND & L4 & Inc) v Hv.
    rewrite (proj1 (eulerian_reference_change_l v0 v1 v H0 H1 Hv)). fold a.
    apply (polyfit_affine_reparam_everywhere_l (eulerian v0) (eulerian v1) a ((a - 1) / 2) pts c d
             (map (eulerian v0) vs) Ha H Lc Ld); try assumption.
    + apply NoDup_map_inj_in; [|exact ND].
      intros x y Hx Hy E. rewrite Forall_forall in Hpos.
      apply Inc, in_map_iff in Hx. destruct Hx as (rx & <- & Hrx).
      apply Inc, in_map_iff in Hy. destruct Hy as (ry & <- & Hry).
      apply (eulerian_injective v0); auto.
    + rewrite map_length. exact L4.
    + intros x Hx. apply in_map_iff in Hx. destruct Hx as (v' & <- & Hv').
      apply Inc, in_map_iff in Hv'. destruct Hv' as (r & <- & Hr).
      apply in_map_iff. exists r. split; [reflexivity | exact Hr].
Qed.

(* ------------------------------------------------------------------------------------ *)
(** * Column labels of the static table *)

(** _find_modulus_key (regex ^\D*(\d+)$): the key depends on the trailing digits only - not on the
    digit-free prefix, hence not on letter case ("c11", "C11", "c_11", "Cij_11") *)
Lemma key_parse_canonical_l (p p' : TextModel.bytes) (ds : list Z) :
  ElastDat.nodigit p -> ElastDat.nodigit p' -> ds <> [] -> ElastDat.digit_range ds ->
  ElastDatModel.find_modulus_key (p ++ map TextModel.digit_byte ds)
  = ElastDatModel.find_modulus_key (p' ++ map TextModel.digit_byte ds).
Proof. intros Hp Hp' Hne Hd. rewrite !ElastDat.find_key_digits by assumption. reflexivity. Qed.

Lemma modkey_eqb_spec (a b : VoigtBase.modkey) : VoigtBase.modkey_eqb a b = true <-> a = b.
Proof.
  destruct a as [[a1 a2] [a3 a4]], b as [[b1 b2] [b3 b4]].
  unfold VoigtBase.modkey_eqb, VoigtBase.strain_eqb. cbn [fst snd].
  rewrite !andb_true_iff, !Z.eqb_eq. split.
  - intros [[-> ->] [-> ->]]. reflexivity.
  - intros E. injection E as -> -> -> ->. repeat split.
Qed.
Lemma static_columns_as_map_l {V} (row row' : list (VoigtBase.modkey * V)) :
  NoDup (map fst row) -> Permutation row row' ->
  forall k, alookup VoigtBase.modkey_eqb k row = alookup VoigtBase.modkey_eqb k row'.
Proof. apply columns_as_map_l, modkey_eqb_spec. Qed.
