(** C13 - lemmas over R about PermModel.v / NonShearModel.v: the results of the phonon
    contribution classes, of the static least-squares fit and of the static-table reader do not
    depend on the order / scale / labelling in which the same data are presented. *)
From Coq Require Import Reals Lra Lia List Bool ZArith Permutation Sorted.
From Cij Require Import Ops ROps NonShearModel PermModel.
Import ListNotations.
Local Open Scope R_scope.

Ltac ropsP := cbn [zero one add sub mul div opp ofZ fexp fln fsqrt is0 fleb ROps two three] in *.

(* ------------------------------------------------------------------------------------ *)
(** * Sums and means under permutation *)

Definition Rs (l : list R) : R := sum (OF:=ROps) l.
Lemma Rs_cons x l : Rs (x :: l) = x + Rs l. Proof. reflexivity. Qed.
Lemma Rs_nil : Rs [] = 0. Proof. reflexivity. Qed.

Lemma Rs_perm l l' : Permutation l l' -> Rs l = Rs l'.
Proof.
  induction 1 as [|x l l' _ IH|x y l|l l' l'' _ IH1 _ IH2]; rewrite ?Rs_cons, ?Rs_nil.
  - reflexivity.
  - rewrite IH. reflexivity.
  - ring.
  - congruence.
Qed.
Lemma Rs_map_perm {A} (f : A -> R) l l' : Permutation l l' -> Rs (map f l) = Rs (map f l').
Proof. intros H. apply Rs_perm, Permutation_map, H. Qed.

Lemma len_perm (l l' : list R) : Permutation l l' -> len (OF:=ROps) l = len (OF:=ROps) l'.
Proof. intros H. unfold len. rewrite (Permutation_length H). reflexivity. Qed.
Lemma mean_perm (l l' : list R) : Permutation l l' -> mean (OF:=ROps) l = mean (OF:=ROps) l'.
Proof. intros H. unfold mean. fold (Rs l) (Rs l'). rewrite (Rs_perm _ _ H), (len_perm _ _ H). reflexivity. Qed.

Lemma Rs_zero_first3 (r : list R) : Rs (zero_first3 (OF:=ROps) r) = Rs (skipn 3 r).
Proof.
  destruct r as [|a [|b [|c t]]]; cbn [zero_first3 skipn]; rewrite ?Rs_cons, ?Rs_nil; ropsP; ring.
Qed.
Lemma zero_first3_len (r : list R) : length (zero_first3 (OF:=ROps) r) = length r.
Proof. destruct r as [|a [|b [|c t]]]; reflexivity. Qed.

Lemma gamma_perm_length {A} (r r' : list A) : gamma_perm r r' -> length r = length r'.
Proof.
  intros [H1 H2]. rewrite <- (firstn_skipn 3 r), <- (firstn_skipn 3 r'), !app_length, H1.
  rewrite (Permutation_length H2). reflexivity.
Qed.
Lemma mean_gamma_perm (r r' : list R) :
  gamma_perm r r' -> mean (OF:=ROps) (zero_first3 (OF:=ROps) r) = mean (OF:=ROps) (zero_first3 (OF:=ROps) r').
Proof.
  intros H. unfold mean, len. fold (Rs (zero_first3 (OF:=ROps) r)) (Rs (zero_first3 (OF:=ROps) r')).
  rewrite !Rs_zero_first3, !zero_first3_len, (gamma_perm_length _ _ H).
  destruct H as [_ H]. rewrite (Rs_perm _ _ H). reflexivity.
Qed.
Lemma map_mean_perm (X Y : list (list R)) :
  Forall2 (@Permutation R) X Y -> map (mean (OF:=ROps)) X = map (mean (OF:=ROps)) Y.
Proof. induction 1 as [|x y X Y H _ IH]; cbn [map]; [reflexivity|]. rewrite (mean_perm _ _ H), IH. reflexivity. Qed.

(* ------------------------------------------------------------------------------------ *)
(** * average_over_modes *)

(** modes listed in another order inside each q-point (at Gamma: the first three slots fixed) *)
Lemma avg_modes_perm_modes_l (w : list R) (X Y : list (list R)) :
  modes_perm X Y -> avg_modes (OF:=ROps) w X = avg_modes (OF:=ROps) w Y.
Proof.
  unfold avg_modes. destruct X as [|r X], Y as [|r' Y]; cbn [modes_perm]; try tauto.
  intros [Hg Hr]. cbn [clear_gamma map]. rewrite (mean_gamma_perm _ _ Hg), (map_mean_perm _ _ Hr). reflexivity.
Qed.

Lemma dot_pairs (wr : list (R * list R)) :
  dot (OF:=ROps) (map fst wr) (map (mean (OF:=ROps)) (map snd wr))
  = Rs (map (fun p => fst p * mean (OF:=ROps) (snd p)) wr).
Proof. induction wr as [|p wr IH]; cbn [map dot]; rewrite ?Rs_cons, ?Rs_nil; ropsP; [reflexivity|]. rewrite IH. reflexivity. Qed.

(** q-points 2..n_q listed in another order together with their weights (index 0 = Gamma fixed) *)
Lemma avg_modes_perm_q_l (w0 : R) (r0 : list R) (wr wr' : list (R * list R)) :
  Permutation wr wr' ->
  avg_modes (OF:=ROps) (q_weights w0 wr) (q_rows r0 wr) = avg_modes (OF:=ROps) (q_weights w0 wr') (q_rows r0 wr').
Proof.
  intros H. unfold avg_modes, wavg, q_weights, q_rows. cbn [clear_gamma map dot sum]. ropsP.
  rewrite !dot_pairs. fold (Rs (map fst wr)) (Rs (map fst wr')).
  rewrite (Rs_map_perm _ _ _ H), (Rs_map_perm fst _ _ H). reflexivity.
Qed.

Lemma dot_scale_l (c : R) (w x : list R) :
  dot (OF:=ROps) (map (fun y => c * y) w) x = c * dot (OF:=ROps) w x.
Proof.
  revert x; induction w as [|a w IH]; intros [|b x]; cbn [map dot]; ropsP; try ring.
  rewrite IH. ring.
Qed.
Lemma Rs_scale (c : R) (w : list R) : Rs (map (fun y => c * y) w) = c * Rs w.
Proof. induction w as [|a w IH]; cbn [map]; rewrite ?Rs_cons, ?Rs_nil, ?IH; ring. Qed.
(** all weights multiplied by a common non-zero factor *)
Lemma avg_modes_weight_scale_l (c : R) (w : list R) (X : list (list R)) :
  c <> 0 -> Rs w <> 0 ->
  avg_modes (OF:=ROps) (map (fun y => c * y) w) X = avg_modes (OF:=ROps) w X.
Proof.
  intros Hc Hw. unfold avg_modes, wavg. ropsP. rewrite dot_scale_l. fold (Rs (map (fun y => c * y) w)).
  rewrite Rs_scale. fold (Rs w). field. split; assumption.
Qed.

(* ------------------------------------------------------------------------------------ *)
(** * The term tables are pointwise maps of the input tables *)

Lemma map3q_tab {A} (f : R -> R -> R -> R) (a b c : A -> R) (T : list (list A)) :
  map3q f (tab a T) (tab b T) (tab c T) = tab (fun m => f (a m) (b m) (c m)) T.
Proof.
  unfold map3q, tab. induction T as [|row T IH]; cbn [map zipw]; [reflexivity|]. f_equal; [|exact IH].
  induction row as [|m row IHr]; cbn [map zipw combine fst snd]; [reflexivity|]. f_equal. exact IHr.
Qed.
Lemma map2q_tab {A} (f : R -> R -> R) (a b : A -> R) (T : list (list A)) :
  map2q f (tab a T) (tab b T) = tab (fun m => f (a m) (b m)) T.
Proof.
  unfold map2q, tab. induction T as [|row T IH]; cbn [map zipw]; [reflexivity|]. f_equal; [|exact IH].
  induction row as [|m row IHr]; cbn [map zipw]; [reflexivity|]. f_equal. exact IHr.
Qed.

(** a permutation of the input table is the same permutation of every sampled table *)
Lemma gamma_perm_map {A B} (g : A -> B) (r r' : list A) : gamma_perm r r' -> gamma_perm (map g r) (map g r').
Proof.
  intros [H1 H2]. split.
  - rewrite !firstn_map, H1. reflexivity.
  - rewrite !skipn_map. apply Permutation_map, H2.
Qed.
Lemma modes_perm_tab {A B} (g : A -> B) (T T' : list (list A)) : modes_perm T T' -> modes_perm (tab g T) (tab g T').
Proof.
  unfold tab. destruct T as [|r T], T' as [|r' T']; cbn [modes_perm map]; try tauto.
  intros [Hg Hr]. split; [apply gamma_perm_map, Hg|].
  induction Hr as [|x y X Y H _ IH]; cbn [map]; constructor; [apply Permutation_map, H | exact IH].
Qed.
Lemma q_rows_tab {A B} (g : A -> B) (r0 : list A) (wr : list (R * list A)) :
  tab g (q_rows r0 wr) = q_rows (map g r0) (map (fun p => (fst p, map g (snd p))) wr).
Proof. unfold tab, q_rows. cbn [map]. rewrite !map_map. reflexivity. Qed.
Lemma q_weights_tab {A B} (g : A -> B) (w0 : R) (wr : list (R * list A)) :
  q_weights w0 (map (fun p => (fst p, map g (snd p))) wr) = q_weights w0 wr.
Proof. unfold q_weights. rewrite map_map. reflexivity. Qed.

(** two presentations (w, T) and (w', T') of a spectrum are equivalent for every per-mode term *)
Definition avg_equiv {A} (w w' : list R) (T T' : list (list A)) : Prop :=
  forall term : A -> R, avg_modes (OF:=ROps) w (tab term T) = avg_modes (OF:=ROps) w' (tab term T').

Lemma avg_equiv_perm_modes {A} (w : list R) (T T' : list (list A)) : modes_perm T T' -> avg_equiv w w T T'.
Proof. intros H term. apply avg_modes_perm_modes_l, modes_perm_tab, H. Qed.
Lemma avg_equiv_perm_q {A} (w0 : R) (r0 : list A) (wr wr' : list (R * list A)) :
  Permutation wr wr' -> avg_equiv (q_weights w0 wr) (q_weights w0 wr') (q_rows r0 wr) (q_rows r0 wr').
Proof.
  intros H term. rewrite !q_rows_tab.
  rewrite <- (q_weights_tab term w0 wr), <- (q_weights_tab term w0 wr').
  apply avg_modes_perm_q_l, Permutation_map, H.
Qed.
Lemma avg_equiv_weight_scale {A} (c : R) (w : list R) (T : list (list A)) :
  c <> 0 -> Rs w <> 0 -> avg_equiv (map (fun y => c * y) w) w T T.
Proof. intros Hc Hw term. apply avg_modes_weight_scale_l; assumption. Qed.

(** every output of the contribution classes (zero_point_contribution, thermal_contribution,
    value_isothermal, isothermal_to_adiabatic, value_adiabatic) at every grid point *)
Definition same_outputs {A} (w w' : list R) (T T' : list (list A)) : Prop :=
  forall (K : @consts R) (Q1 Q2 : R -> R) (lg : bool) (na : Z) (fr ga vd : A -> R) (ei ej v t p pst cv : R),
    zero_point (OF:=ROps) K lg w na (tab fr T) (tab ga T) (tab vd T) ei ej v
      = zero_point (OF:=ROps) K lg w' na (tab fr T') (tab ga T') (tab vd T') ei ej v /\
    thermal (OF:=ROps) K Q1 Q2 lg w na (tab fr T) (tab ga T) (tab vd T) ei ej v t
      = thermal (OF:=ROps) K Q1 Q2 lg w' na (tab fr T') (tab ga T') (tab vd T') ei ej v t /\
    isothermal (OF:=ROps) K Q1 Q2 lg w na (tab fr T) (tab ga T) (tab vd T) ei ej v t p pst
      = isothermal (OF:=ROps) K Q1 Q2 lg w' na (tab fr T') (tab ga T') (tab vd T') ei ej v t p pst /\
    gap (OF:=ROps) K Q2 w na (tab fr T) (tab ga T) ei ej v t cv
      = gap (OF:=ROps) K Q2 w' na (tab fr T') (tab ga T') ei ej v t cv /\
    adiabatic (OF:=ROps) K Q1 Q2 lg w na (tab fr T) (tab ga T) (tab vd T) ei ej v t p pst cv
      = adiabatic (OF:=ROps) K Q1 Q2 lg w' na (tab fr T') (tab ga T') (tab vd T') ei ej v t p pst cv.

Lemma avg_equiv_outputs {A} (w w' : list R) (T T' : list (list A)) : avg_equiv w w' T T' -> same_outputs w w' T T'.
Proof.
  intros E K Q1 Q2 lg na fr ga vd ei ej v t p pst cv.
  assert (Hz : zero_point (OF:=ROps) K lg w na (tab fr T) (tab ga T) (tab vd T) ei ej v
               = zero_point (OF:=ROps) K lg w' na (tab fr T') (tab ga T') (tab vd T') ei ej v).
  { unfold zero_point. rewrite !map3q_tab, E. reflexivity. }
  assert (Ht : thermal (OF:=ROps) K Q1 Q2 lg w na (tab fr T) (tab ga T) (tab vd T) ei ej v t
               = thermal (OF:=ROps) K Q1 Q2 lg w' na (tab fr T') (tab ga T') (tab vd T') ei ej v t).
  { unfold thermal. rewrite !map3q_tab, E. reflexivity. }
  assert (Hg : gap (OF:=ROps) K Q2 w na (tab fr T) (tab ga T) ei ej v t cv
               = gap (OF:=ROps) K Q2 w' na (tab fr T') (tab ga T') ei ej v t cv).
  { unfold gap. rewrite !map2q_tab, !E. reflexivity. }
  assert (Hi : isothermal (OF:=ROps) K Q1 Q2 lg w na (tab fr T) (tab ga T) (tab vd T) ei ej v t p pst
               = isothermal (OF:=ROps) K Q1 Q2 lg w' na (tab fr T') (tab ga T') (tab vd T') ei ej v t p pst).
  { unfold isothermal. rewrite Hz, Ht. reflexivity. }
  repeat split; try assumption. unfold adiabatic. rewrite Hi, Hg. reflexivity.
Qed.

Lemma outputs_perm_modes_l {A} (w : list R) (T T' : list (list A)) : modes_perm T T' -> same_outputs w w T T'.
Proof. intros H. apply avg_equiv_outputs, avg_equiv_perm_modes, H. Qed.
Lemma outputs_perm_q_l {A} (w0 : R) (r0 : list A) (wr wr' : list (R * list A)) :
  Permutation wr wr' -> same_outputs (q_weights w0 wr) (q_weights w0 wr') (q_rows r0 wr) (q_rows r0 wr').
Proof. intros H. apply avg_equiv_outputs, avg_equiv_perm_q, H. Qed.
Lemma outputs_weight_scale_l {A} (c : R) (w : list R) (T : list (list A)) :
  c <> 0 -> Rs w <> 0 -> same_outputs (map (fun y => c * y) w) w T T.
Proof. intros Hc Hw. apply avg_equiv_outputs, avg_equiv_weight_scale; assumption. Qed.

(* ------------------------------------------------------------------------------------ *)
(** * Volume order: a sorted presentation is unique *)

Lemma volume_order_ge_l (l l' : list R) :
  Permutation l l' -> StronglySorted Rge l -> StronglySorted Rge l' -> l = l'.
Proof.
  revert l'. induction l as [|a t IH]; intros l' HP Hs Hs'.
  - apply Permutation_nil in HP. congruence.
  - destruct l' as [|b t']; [apply Permutation_sym, Permutation_nil in HP; discriminate|].
    inversion Hs as [|? ? Hst Ha]; subst. inversion Hs' as [|? ? Hst' Hb]; subst.
    rewrite Forall_forall in Ha, Hb.
    assert (Hab : a >= b).
    { assert (I : In b (a :: t)) by (apply (Permutation_in _ (Permutation_sym HP)); left; reflexivity).
      destruct I as [->|I]; [lra | apply Ha, I]. }
    assert (Hba : b >= a).
    { assert (I : In a (b :: t')) by (apply (Permutation_in _ HP); left; reflexivity).
      destruct I as [->|I]; [lra | apply Hb, I]. }
    assert (E : a = b) by lra. subst b.
    f_equal. apply IH; [eapply Permutation_cons_inv; exact HP | assumption | assumption].
Qed.
Lemma sorted_gt_ge (l : list R) : StronglySorted Rgt l -> StronglySorted Rge l.
Proof.
  induction 1 as [|a l _ IH Ha]; constructor; [exact IH|].
  eapply Forall_impl; [|exact Ha]. intros x Hx. cbv beta in Hx. lra.
Qed.
Lemma volume_order_l (l l' : list R) :
  Permutation l l' -> StronglySorted Rgt l -> StronglySorted Rgt l' -> l = l'.
Proof. intros HP H H'. apply volume_order_ge_l; [exact HP | apply sorted_gt_ge, H | apply sorted_gt_ge, H']. Qed.

(** whole volume blocks (volume, data): strictly decreasing volumes fix the order of the blocks *)
Lemma volume_blocks_order_l {D} (l l' : list (R * D)) :
  Permutation l l' ->
  StronglySorted (fun a b => fst a > fst b) l -> StronglySorted (fun a b => fst a > fst b) l' -> l = l'.
Proof.
  revert l'. induction l as [|a t IH]; intros l' HP Hs Hs'.
  - apply Permutation_nil in HP. congruence.
  - destruct l' as [|b t']; [apply Permutation_sym, Permutation_nil in HP; discriminate|].
    inversion Hs as [|? ? Hst Ha]; subst. inversion Hs' as [|? ? Hst' Hb]; subst.
    rewrite Forall_forall in Ha, Hb.
    assert (E : a = b).
    { assert (I : In b (a :: t)) by (apply (Permutation_in _ (Permutation_sym HP)); left; reflexivity).
      assert (J : In a (b :: t')) by (apply (Permutation_in _ HP); left; reflexivity).
      destruct I as [I|I]; [exact I|]. destruct J as [J|J]; [symmetry; exact J|].
      specialize (Ha _ I). specialize (Hb _ J). lra. }
    subst b. f_equal. apply IH; [eapply Permutation_cons_inv; exact HP | assumption | assumption].
Qed.

(** the guard (all(diff(v) <= 0)) accepts exactly the weakly decreasing lists *)
Lemma mono_dec_sorted (l : list R) : mono_dec (OF:=ROps) l = true <-> StronglySorted Rge l.
Proof.
  split.
  - intros H. apply Sorted_StronglySorted; [intros x y z; unfold Rge; lra|].
    induction l as [|a [|b t] IH]; [constructor | repeat constructor |].
    cbn [mono_dec] in H. apply andb_true_iff in H. destruct H as [H1 H2].
    constructor; [apply IH, H2|]. constructor. ropsP. apply Rleb_true in H1. lra.
  - intros H. apply StronglySorted_Sorted in H.
    induction l as [|a [|b t] IH]; [reflexivity | reflexivity |].
    inversion H as [|? ? Hs Hh]; subst. inversion Hh as [|? ? Hab]; subst.
    cbn [mono_dec]. apply andb_true_iff. split; [|apply IH, Hs]. ropsP. apply Rleb_true. lra.
Qed.

(* ------------------------------------------------------------------------------------ *)
(** * The static table as a finite map: column order is irrelevant *)

Section Lookup.
  Context {K V : Type} (eqb : K -> K -> bool).
  Hypothesis eqb_spec : forall a b, eqb a b = true <-> a = b.

  Lemma alookup_In (l : list (K * V)) k v :
    NoDup (map fst l) -> (alookup eqb k l = Some v <-> In (k, v) l).
  Proof.
    induction l as [|[k' v'] l IH]; cbn [alookup map fst In]; intros ND.
    - split; [discriminate | tauto].
    - apply NoDup_cons_iff in ND. destruct ND as [Hn ND]. destruct (eqb k k') eqn:E.
      + apply eqb_spec in E. subst k'. split.
        * intros H. injection H as ->. left; reflexivity.
        * intros [H|H]; [injection H as ->; reflexivity|].
          exfalso. apply Hn. apply in_map_iff. exists (k, v). split; [reflexivity | exact H].
      + rewrite (IH ND). split; [tauto|]. intros [H|H]; [|exact H].
        injection H as -> ->. assert (T : eqb k k = true) by (apply eqb_spec; reflexivity). congruence.
  Qed.

  Lemma columns_as_map_l (l l' : list (K * V)) :
    NoDup (map fst l) -> Permutation l l' -> forall k, alookup eqb k l = alookup eqb k l'.
  Proof.
    intros ND HP k.
    assert (ND' : NoDup (map fst l')) by (eapply Permutation_NoDup; [apply Permutation_map, HP | exact ND]).
    destruct (alookup eqb k l) as [v|] eqn:E.
    - symmetry. apply (alookup_In l' k v ND'). apply (Permutation_in _ HP). apply (alookup_In l k v ND), E.
    - destruct (alookup eqb k l') as [v'|] eqn:E'; [|reflexivity].
      apply (alookup_In l' k v' ND') in E'. apply (Permutation_in _ (Permutation_sym HP)) in E'.
      apply (alookup_In l k v' ND) in E'. congruence.
  Qed.
End Lookup.
