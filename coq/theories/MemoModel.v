(** C14 - models of the cij logic through which hash seed, working directory or process
    history could leak into results.  Definitions only; lemmas are in Memo.v.

    1. [lazy_property.LazyProperty] (site-packages/lazy_property/__init__.py) as a state machine
       over pure producers that may read other properties (cij/core/calculator.py,
       full_modulus.py, phonon_contribution/*.py).
    2. the shear task of cij/core/tasks.py: inputs ASSIGNED to the calculator object just before a
       lazily cached value is read.
    3. [ResultsWriter.__init__/_init_rules] (cij/io/output/results_writer.py): one registry dict per
       writer, built from the shared module-level rule list.
    4. the relations-file lookup of [fill_cij] (cij/util/fill.py) as a function of the cwd listing.
    5. the contract of a fill function under which filling is idempotent. *)
From Coq Require Import List Arith Bool String ZArith.
From Cij Require Import RulesModel.
Import ListNotations.

(* ---------------------------------------------------------------------------------------- *)
(** * 1. LazyProperty *)

Fixpoint omap {A B : Type} (f : A -> option B) (l : list A) : option (list B) :=
  match l with
  | [] => Some []
  | x :: r => match f x, omap f r with Some y, Some ys => Some (y :: ys) | _, _ => None end
  end.

Section Memo.
  Variable V : Type.

  (** a property name; the per-instance cache is the instance attribute dict restricted to the
      [_name] slots: [hasattr(instance, cache_name)] / [getattr] / [setattr].  New entries are
      consed, so [rev (map fst c)] is the order in which producers COMPLETED (the call log). *)
  Definition name := nat.
  Definition cache := list (name * V).
  Fixpoint cget (n : name) (c : cache) : option V :=
    match c with [] => None | (m, v) :: r => if Nat.eqb n m then Some v else cget n r end.

  (** the decorated method of property [n] reads the properties [deps n] (in this order, through
      the descriptor, i.e. through the cache) and is otherwise a pure function [body n] *)
  Variable deps : name -> list name.
  Variable body : name -> list V -> V.

  (** cache-free evaluation (what the method returns when every read recomputes); fuel bounds the
      recursion depth ([None] = RecursionError) *)
  Fixpoint pure (fuel : nat) (n : name) : option V :=
    match fuel with
    | 0 => None
    | S f => option_map (body n) (omap (pure f) (deps n))
    end.
  Definition eval (n : name) : option V := pure (S n) n.

  (** reading a list of properties left to right, threading the cache *)
  Fixpoint read_all (rd : name -> cache -> option V * cache) (l : list name) (c : cache)
    : option (list V) * cache :=
    match l with
    | [] => (Some [], c)
    | m :: r =>
        match rd m c with
        | (Some v, c1) =>
            match read_all rd r c1 with
            | (Some vs, c2) => (Some (v :: vs), c2)
            | (None, c2) => (None, c2)
            end
        | (None, c1) => (None, c1)
        end
    end.

  (** LazyProperty.__get__ :
        if hasattr(instance, cache_name): result = getattr(instance, cache_name)
        else: result = self.method(instance); setattr(instance, cache_name, result)
        return result *)
  Fixpoint read (fuel : nat) (n : name) (c : cache) : option V * cache :=
    match cget n c with
    | Some v => (Some v, c)
    | None =>
        match fuel with
        | 0 => (None, c)
        | S f =>
            match read_all (read f) (deps n) c with
            | (Some vs, c1) => let v := body n vs in (Some v, (n, v) :: c1)
            | (None, c1) => (None, c1)
            end
        end
    end.
  Definition get (n : name) (c : cache) : option V * cache := read (S n) n c.

  (** a history of reads on one instance *)
  Fixpoint run (ns : list name) (c : cache) : list (option V) * cache :=
    match ns with
    | [] => ([], c)
    | n :: r => let '(o, c1) := get n c in let '(os, c2) := run r c1 in (o :: os, c2)
    end.

  (** the call log: names of the producers that ran, in completion order *)
  Definition call_log (c : cache) : list name := rev (map fst c).
End Memo.

(** two instances (two Calculators) used interleaved in one process: each has its own producers
    (its own data) and its own cache - the attribute dict of the instance *)
Section TwoInstances.
  Variable V : Type.
  Variable depsA depsB : name -> list name.
  Variable bodyA bodyB : name -> list V -> V.
  Fixpoint run2 (h : list (bool * name)) (cA cB : cache V) : list (option V) * (cache V * cache V) :=
    match h with
    | [] => ([], (cA, cB))
    | (true, n) :: r =>
        let '(o, cA1) := get V depsA bodyA n cA in
        let '(os, cc) := run2 r cA1 cB in (o :: os, cc)
    | (false, n) :: r =>
        let '(o, cB1) := get V depsB bodyB n cB in
        let '(os, cc) := run2 r cA cB1 in (o :: os, cc)
    end.
  Definition eval2 (x : bool * name) : option V :=
    if fst x then eval V depsA bodyA (snd x) else eval V depsB bodyB (snd x).
End TwoInstances.

(* ---------------------------------------------------------------------------------------- *)
(** * 2. a lazily cached value that reads an ASSIGNED input (tasks.py, shear tasks)

      def get_modulus_isothermal(self):
          if SHEAR: self.calculator.modulus = self.modulus_results
                    self.calculator.modulus_rotated = self.modulus_results_rotated
          return self.calculator.value_isothermal            # LazyProperty
      def get_modulus_adiabatic(self):   (same two assignments)
          return self.calculator.value_adiabatic             # plain property: return self.value_isothermal

    [I] = the pair of assigned dicts, [f] = get_target_elastic_modulus as a function of them. *)
Section InputCell.
  Variables I V : Type.
  Variable f : I -> V.
  Record cell := mkCell { c_inp : option I; c_memo : option V }.
  Definition cell0 : cell := mkCell None None.
  Definition assign (x : I) (s : cell) : cell := mkCell (Some x) (c_memo s).
  (** reading the LazyProperty; [None] = AttributeError (input never assigned) *)
  Definition read_cell (s : cell) : option V * cell :=
    match c_memo s with
    | Some v => (Some v, s)
    | None =>
        match c_inp s with
        | Some x => (Some (f x), mkCell (c_inp s) (Some (f x)))
        | None => (None, s)
        end
    end.
  Definition get_isothermal (x : I) (s : cell) : option V * cell := read_cell (assign x s).
  Definition get_adiabatic (x : I) (s : cell) : option V * cell := read_cell (assign x s).
  (** any history of assign-then-read calls *)
  Fixpoint run_cell (xs : list I) (s : cell) : list (option V) * cell :=
    match xs with
    | [] => ([], s)
    | x :: r => let '(o, s1) := read_cell (assign x s) in let '(os, s2) := run_cell r s1 in (o :: os, s2)
    end.
End InputCell.

(* ---------------------------------------------------------------------------------------- *)
(** * 3. writers and the shared rule list

      DEFAULT_WRITER_RULES = _load_writer_rules_file()          # module level, shared
      class ResultsWriter:
          def __init__(self, base, rules=None):
              self.registry = {}                                 # a NEW dict per writer
              if rules is None: rules = DEFAULT_WRITER_RULES
              self._init_rules(rules)                            # reads [rules], writes self.registry
          def write(self, config): self.registry[config["keyword"]].write(self.base, config)

    A process state: the shared list and the registries of the writers created so far.
    [RulesModel.registry] is the model of [_init_rules]. *)
Record wworld := mkWorld { w_shared : list rule; w_writers : list (list (string * rule)) }.
Inductive wop :=
| WNew (custom : option (list rule))      (* ResultsWriter(base) / ResultsWriter(base, rules) *)
| WWrite (i : nat) (kw : string).         (* writers[i].write(kw): resolves kw in ITS registry *)
Definition wstep (w : wworld) (o : wop) : option rule * wworld :=
  match o with
  | WNew None => (None, mkWorld (w_shared w) (w_writers w ++ [registry (w_shared w)]))
  | WNew (Some rs) => (None, mkWorld (w_shared w) (w_writers w ++ [registry rs]))
  | WWrite i kw => (dget kw (nth i (w_writers w) []), w)
  end.
Fixpoint wrun (w : wworld) (ops : list wop) : list (option rule) * wworld :=
  match ops with
  | [] => ([], w)
  | o :: r => let '(x, w1) := wstep w o in let '(xs, w2) := wrun w1 r in (x :: xs, w2)
  end.
(** the rule list a writer was built from *)
Fixpoint built_from (shared : list rule) (ops : list wop) : list (list rule) :=
  match ops with
  | [] => []
  | WNew None :: r => shared :: built_from shared r
  | WNew (Some rs) :: r => rs :: built_from shared r
  | WWrite _ _ :: r => built_from shared r
  end.

(* ---------------------------------------------------------------------------------------- *)
(** * 4. the relations file of fill_cij as a function of the working directory *)
Inductive ekind := KFile | KDir.
Definition listing := list (string * ekind).
Fixpoint lfind (s : string) (l : listing) : option ekind :=
  match l with [] => None | (n, k) :: r => if String.eqb s n then Some k else lfind s r end.
Inductive located :=
| Packaged (system : string)      (* cij/data/constraints/<system> *)
| UserFile (path : string)        (* the entry of the cwd *)
| Unbound.                        (* UnboundLocalError: `constraints` never assigned *)
Definition located_eqb (a b : located) : bool :=
  match a, b with
  | Packaged x, Packaged y | UserFile x, UserFile y => String.eqb x y
  | Unbound, Unbound => true
  | _, _ => false
  end.
(** before ff7b5dd:   if not Path(system).exists(): constraints = packaged     (no else branch) *)
Definition locate_before_fix (l : listing) (system : string) : located :=
  match lfind system l with None => Packaged system | Some _ => Unbound end.
(** current:          if Path(system).is_file(): constraints = Path(system) else: packaged *)
Definition locate (l : listing) (system : string) : located :=
  match lfind system l with Some KFile => UserFile system | _ => Packaged system end.

(* ---------------------------------------------------------------------------------------- *)
(** * 5. the contract of a fill function (the numeric model is built for C08/C09)

    [fill t] = [fill_cij] on an accepted table ([None] = Warning raised).  [closed t] = [t] satisfies
    the symmetry relations exactly, supplies a sufficient set (rank 21) and has no identically zero
    column.  [agree t t'] = [t'] has the values of [t] on the keys [t] supplies. *)
Section FillContract.
  Variable table : Type.
  Variable fill : table -> option table.
  Variable closed : table -> Prop.
  Variable agree : table -> table -> Prop.
  Record fill_contract : Prop := {
    (** the output of an accepted fill is closed (least-squares solution of a consistent, full-rank
        system; zero columns dropped) and keeps the supplied values *)
    fill_output_closed : forall t t', fill t = Some t' -> closed t' /\ agree t t';
    (** a closed table is reproduced: its residual is 0 at x = t, the solution is unique by full
        rank, the vanishing components regenerate as 0 and are dropped again *)
    fill_fixes_closed : forall t, closed t -> fill t = Some t }.
End FillContract.

(* ---------------------------------------------------------------------------------------- *)
(** indices of failing cases (same convention as FOps.failing) *)
Fixpoint failing_from14 {A : Type} (i : nat) (f : A -> bool) (l : list A) : list nat :=
  match l with [] => [] | x :: t => if f x then failing_from14 (S i) f t else i :: failing_from14 (S i) f t end.
Definition failing14 {A : Type} := @failing_from14 A 0.
