(** C17 - lemmas about the text-level model (TextModel.v): tokenisation, strip, decimal printing
    and parsing.  Main results: [split_join_pad], [strip_pad_tok], [parse_dec_fmt_f]. *)
From Coq Require Import ZArith List Bool Strings.Byte Lia.
From Cij Require Import TextModel.
Import ListNotations.
Local Open Scope Z_scope.

(** ------------------------------------------------------------------ characters *)
Lemma digit_val_byte d : 0 <= d < 10 -> digit_val (digit_byte d) = Some d.
Proof.
  intros H.
  assert (E : d = 0 \/ d = 1 \/ d = 2 \/ d = 3 \/ d = 4 \/ d = 5 \/ d = 6 \/ d = 7 \/ d = 8 \/ d = 9) by lia.
  repeat (destruct E as [E | E]; [subst; reflexivity|]). subst; reflexivity.
Qed.
Lemma digit_not_space c : is_digit c = true -> is_space c = false.
Proof. destruct c; cbn; intros; try reflexivity; discriminate. Qed.
Lemma digit_not_sign c :
  is_digit c = true -> Byte.eqb c c_minus = false /\ Byte.eqb c c_plus = false /\ Byte.eqb c c_dot = false.
Proof. destruct c; cbn; intros; try discriminate; repeat split; reflexivity. Qed.
Lemma is_digit_val c : is_digit c = true -> exists d, digit_val c = Some d.
Proof. unfold is_digit. destruct (digit_val c) as [d|]; [exists d; reflexivity | discriminate]. Qed.
Lemma is_digit_byte d : 0 <= d < 10 -> is_digit (digit_byte d) = true.
Proof. intros H. unfold is_digit. rewrite digit_val_byte by exact H. reflexivity. Qed.

(** a token: non-empty, no white space *)
Definition nsp (t : bytes) : Prop := forallb (fun c => negb (is_space c)) t = true.
Definition tokenlike (t : bytes) : Prop := t <> [] /\ nsp t.

Lemma nsp_app a b : nsp a -> nsp b -> nsp (a ++ b).
Proof. unfold nsp. rewrite forallb_app. intros -> ->. reflexivity. Qed.
Lemma nsp_cons c t : is_space c = false -> nsp t -> nsp (c :: t).
Proof. unfold nsp. cbn. intros -> ->. reflexivity. Qed.
Lemma nsp_nil : nsp [].
Proof. reflexivity. Qed.
Lemma nsp_digits t : forallb is_digit t = true -> nsp t.
Proof.
  unfold nsp. induction t as [|c t IH]; cbn; [reflexivity|].
  rewrite andb_true_iff. intros [Hc Ht]. rewrite (digit_not_space c Hc), IH by exact Ht. reflexivity.
Qed.
Lemma nsp_head c t : nsp (c :: t) -> is_space c = false /\ nsp t.
Proof. unfold nsp. cbn. rewrite andb_true_iff, negb_true_iff. tauto. Qed.

(** ------------------------------------------------------------------ strip *)
Lemma all_space_repeat n : forallb is_space (repeat sp n) = true.
Proof. induction n; cbn; auto. Qed.
Lemma drop_ws_spaces n s : drop_ws (repeat sp n ++ s) = drop_ws s.
Proof. induction n; cbn; auto. Qed.
Lemma drop_ws_ns c s : is_space c = false -> drop_ws (c :: s) = c :: s.
Proof. cbn. intros ->. reflexivity. Qed.
Lemma drop_ws_tok t s : tokenlike t -> drop_ws (t ++ s) = t ++ s.
Proof.
  intros [Hne Hn]. destruct t as [|c t]; [congruence|].
  apply nsp_head in Hn. cbn [app]. apply drop_ws_ns. tauto.
Qed.

Lemma last_app_ne {A} (a b : list A) d : b <> [] -> last (a ++ b) d = last b d.
Proof.
  intros Hb. induction a as [|x a IH]; [reflexivity|].
  cbn [app]. cbn [last]. destruct (a ++ b) eqn:E.
  - destruct a; cbn in E; [congruence | discriminate].
  - exact IH.
Qed.
Lemma last_In {A} (l : list A) d : l <> [] -> In (last l d) l.
Proof.
  induction l as [|x l IH]; [congruence|]. intros _. destruct l as [|y l].
  - left; reflexivity.
  - right. apply IH. discriminate.
Qed.
Lemma nsp_last t : tokenlike t -> is_space (last t sp) = false.
Proof.
  intros [Hne Hn]. unfold nsp in Hn. rewrite forallb_forall in Hn.
  specialize (Hn _ (last_In t sp Hne)). apply negb_true_iff in Hn. exact Hn.
Qed.
Lemma rstrip_cons c s :
  rstrip (c :: s) = match rstrip s with [] => if is_space c then [] else [c] | r' => c :: r' end.
Proof. reflexivity. Qed.
Lemma rstrip_last s : s <> [] -> is_space (last s sp) = false -> rstrip s = s.
Proof.
  induction s as [|c s IH]; [congruence|]. intros _ Hl. destruct s as [|c' s].
  - cbn in *. rewrite Hl. reflexivity.
  - rewrite rstrip_cons. rewrite IH; [reflexivity | discriminate | exact Hl].
Qed.
Lemma rstrip_app_tok pre t : tokenlike t -> rstrip (pre ++ t) = pre ++ t.
Proof.
  intros Ht. apply rstrip_last.
  - destruct Ht as [Hne _]. destruct pre; cbn; [exact Hne | discriminate].
  - rewrite last_app_ne by apply Ht. apply nsp_last, Ht.
Qed.
(** white space, then something that starts with a token and ends with a token *)
Lemma strip_pad n t mid t' :
  tokenlike t -> tokenlike t' -> strip (repeat sp n ++ t ++ mid ++ t') = t ++ mid ++ t'.
Proof.
  intros Ht Ht'. unfold strip. rewrite drop_ws_spaces, drop_ws_tok by exact Ht.
  rewrite !app_assoc. apply rstrip_app_tok, Ht'.
Qed.
Lemma strip_pad_tok n t : tokenlike t -> strip (repeat sp n ++ t) = t.
Proof.
  intros Ht. unfold strip. rewrite drop_ws_spaces.
  rewrite <- (app_nil_r t) at 1. rewrite drop_ws_tok by exact Ht. rewrite app_nil_r.
  apply (rstrip_app_tok [] t Ht).
Qed.
Lemma strip_nonblank c s : is_space c = false -> strip (c :: s) <> [].
Proof.
  intros Hc. unfold strip. rewrite drop_ws_ns by exact Hc. rewrite rstrip_cons.
  destruct (rstrip s); [rewrite Hc|]; discriminate.
Qed.

(** ------------------------------------------------------------------ split *)
Lemma split_ws_space c s : is_space c = true -> split_ws (c :: s) = split_ws s.
Proof. cbn. intros ->. reflexivity. Qed.
Lemma split_ws_ns c c' r :
  is_space c = false ->
  split_ws (c :: c' :: r) =
  if is_space c' then [c] :: split_ws (c' :: r)
  else match split_ws (c' :: r) with t :: ts => (c :: t) :: ts | [] => [[c]] end.
Proof. intros H. cbn [split_ws]. rewrite H. reflexivity. Qed.
Lemma split_ws_spaces n s : split_ws (repeat sp n ++ s) = split_ws s.
Proof. induction n; cbn; auto. Qed.
Lemma split_ws_drop s : split_ws (drop_ws s) = split_ws s.
Proof.
  induction s as [|c s IH]; [reflexivity|]. cbn [drop_ws]. destruct (is_space c) eqn:E.
  - rewrite IH. symmetry. apply split_ws_space, E.
  - reflexivity.
Qed.
Lemma rstrip_nil_space s : rstrip s = [] -> forallb is_space s = true.
Proof.
  induction s as [|c s IH]; [reflexivity|]. rewrite rstrip_cons. destruct (rstrip s) eqn:E.
  - destruct (is_space c) eqn:Ec; [|discriminate]. intros _. cbn. rewrite Ec. apply IH. reflexivity.
  - discriminate.
Qed.
Lemma split_all_space s : forallb is_space s = true -> split_ws s = [].
Proof.
  induction s as [|c s IH]; [reflexivity|]. cbn [forallb]. rewrite andb_true_iff. intros [Hc Hs].
  rewrite split_ws_space by exact Hc. apply IH, Hs.
Qed.
Lemma rstrip_head c s c' r : rstrip (c :: s) = c' :: r -> c' = c.
Proof. rewrite rstrip_cons. destruct (rstrip s); [destruct (is_space c)|]; intros H; inversion H; reflexivity. Qed.
Lemma split_ws_rstrip s : split_ws (rstrip s) = split_ws s.
Proof.
  induction s as [|c s IH]; [reflexivity|].
  rewrite rstrip_cons. destruct (rstrip s) as [|c1 r1] eqn:E.
  - pose proof (rstrip_nil_space s E) as Hs. destruct (is_space c) eqn:Ec.
    + rewrite (split_ws_space c s Ec). rewrite (split_all_space s Hs). reflexivity.
    + destruct s as [|c2 s2]; [reflexivity|].
      cbn [forallb] in Hs. apply andb_true_iff in Hs. destruct Hs as [Hc2 Hs2].
      cbn [split_ws]. rewrite Ec, Hc2. fold (split_ws s2). rewrite (split_all_space s2 Hs2). reflexivity.
  - destruct (is_space c) eqn:Ec.
    + rewrite (split_ws_space c (c1 :: r1) Ec), (split_ws_space c s Ec). exact IH.
    + destruct s as [|c2 s2]; [discriminate|].
      pose proof (rstrip_head _ _ _ _ E) as ->.
      rewrite (split_ws_ns c c2 r1 Ec), (split_ws_ns c c2 s2 Ec). rewrite <- IH. reflexivity.
Qed.
Lemma split_ws_strip s : split_ws (strip s) = split_ws s.
Proof. unfold strip. rewrite split_ws_rstrip. apply split_ws_drop. Qed.

Lemma split_tok_space t c s :
  tokenlike t -> is_space c = true -> split_ws (t ++ c :: s) = t :: split_ws s.
Proof.
  intros [Hne Hn] Hc. induction t as [|a t IH]; [congruence|].
  apply nsp_head in Hn. destruct Hn as [Ha Ht]. destruct t as [|b t].
  - cbn. rewrite Ha, Hc. reflexivity.
  - cbn [app]. rewrite (split_ws_ns a b _ Ha).
    destruct (nsp_head _ _ Ht) as [Hb _]. rewrite Hb.
    change (b :: t ++ c :: s) with ((b :: t) ++ c :: s). rewrite IH; [reflexivity | discriminate | exact Ht].
Qed.
Lemma split_tok t : tokenlike t -> split_ws t = [t].
Proof.
  intros [Hne Hn]. induction t as [|a t IH]; [congruence|].
  apply nsp_head in Hn. destruct Hn as [Ha Ht]. destruct t as [|b t].
  - cbn. rewrite Ha. reflexivity.
  - rewrite (split_ws_ns a b _ Ha).
    destruct (nsp_head _ _ Ht) as [Hb _]. rewrite Hb.
    rewrite IH; [reflexivity | discriminate | exact Ht].
Qed.

Lemma join_cons2 sep x y r : join sep (x :: y :: r) = x ++ sep ++ join sep (y :: r).
Proof. reflexivity. Qed.

(** " ".join of right-justified tokens splits back into the tokens *)
Lemma split_join_pad {A} (f g : A -> bytes) :
  (forall x, exists n, f x = repeat sp n ++ g x) -> (forall x, tokenlike (g x)) ->
  forall xs, split_ws (join [sp] (map f xs)) = map g xs.
Proof.
  intros Hf Hg xs. induction xs as [|x xs IH]; [reflexivity|].
  destruct (Hf x) as [n Hn]. destruct xs as [|y ys].
  - cbn [map join]. rewrite Hn, split_ws_spaces. apply split_tok, Hg.
  - cbn [map] in *. rewrite join_cons2. rewrite Hn, <- app_assoc, split_ws_spaces.
    cbn [app]. rewrite split_tok_space; [|apply Hg | reflexivity]. rewrite IH. reflexivity.
Qed.

Lemma span_ns_tok t s :
  nsp t -> (match s with [] => True | c :: _ => is_space c = true end) -> span_ns (t ++ s) = (t, s).
Proof.
  intros Hn Hs. induction t as [|a t IH].
  - cbn [app]. destruct s as [|c s]; [reflexivity|]. cbn. rewrite Hs. reflexivity.
  - apply nsp_head in Hn. destruct Hn as [Ha Ht]. cbn [app span_ns]. rewrite Ha, IH by exact Ht. reflexivity.
Qed.

(** ------------------------------------------------------------------ digits *)
Definition dstep (a : Z) (c : byte) : Z := 10 * a + match digit_val c with Some d => d | None => 0 end.
Definition dval (acc : Z) (s : bytes) : Z := fold_left dstep s acc.
Definition stops (s : bytes) : Prop := match s with [] => True | c :: _ => digit_val c = None end.

Lemma read_digits_spec s : forall acc cnt rest,
  forallb is_digit s = true -> stops rest ->
  read_digits acc cnt (s ++ rest) = (dval acc s, (cnt + length s)%nat, rest).
Proof.
  induction s as [|c s IH]; intros acc cnt rest Hs Hr.
  - cbn [app length dval fold_left]. rewrite Nat.add_0_r. destruct rest as [|c r]; [reflexivity|].
    cbn in *. rewrite Hr. reflexivity.
  - cbn [forallb] in Hs. apply andb_true_iff in Hs. destruct Hs as [Hc Hs].
    destruct (is_digit_val c Hc) as [d Hd]. cbn [app read_digits]. rewrite Hd.
    rewrite IH by assumption. cbn [length dval fold_left]. unfold dstep at 2. rewrite Hd.
    f_equal. f_equal. lia.
Qed.

Lemma fixdigits_digit k : forall n, forallb is_digit (fixdigits k n) = true.
Proof.
  induction k as [|k IH]; intros n; [reflexivity|]. cbn [fixdigits]. rewrite forallb_app, IH. cbn.
  rewrite is_digit_byte; [reflexivity|]. apply Z.mod_pos_bound. lia.
Qed.
Lemma fixdigits_length k : forall n, length (fixdigits k n) = k.
Proof. induction k as [|k IH]; intros n; [reflexivity|]. cbn [fixdigits]. rewrite app_length, IH. cbn. lia. Qed.
Lemma dval_fixdigits k : forall n acc, 0 <= n < 10 ^ Z.of_nat k -> dval acc (fixdigits k n) = acc * 10 ^ Z.of_nat k + n.
Proof.
  induction k as [|k IH]; intros n acc Hn.
  - cbn in *. lia.
  - cbn [fixdigits]. unfold dval. rewrite fold_left_app. fold (dval acc (fixdigits k (n / 10))).
    rewrite Nat2Z.inj_succ, Z.pow_succ_r in * by lia.
    rewrite IH.
    + cbn [fold_left]. unfold dstep. rewrite digit_val_byte by (apply Z.mod_pos_bound; lia).
      pose proof (Z_div_mod_eq_full n 10). lia.
    + split; [apply Z.div_pos; lia | apply Z.div_lt_upper_bound; lia].
Qed.

Lemma nd_aux_ge fuel : forall n p k, (k <= nd_aux fuel n p k)%nat.
Proof.
  induction fuel as [|f IH]; intros n p k; cbn [nd_aux]; [lia|].
  destruct (n <? p); [lia|]. specialize (IH n (10 * p) (S k)). lia.
Qed.
Lemma nd_aux_bound fuel : forall n p k,
  p = 10 ^ Z.of_nat k -> n < p * 2 ^ Z.of_nat fuel -> n < 10 ^ Z.of_nat (nd_aux fuel n p k).
Proof.
  induction fuel as [|f IH]; intros n p k Hp Hn; cbn [nd_aux].
  - cbn in Hn. lia.
  - destruct (Z.ltb_spec n p) as [Hlt|Hge]; [lia|].
    apply IH.
    + rewrite Nat2Z.inj_succ, Z.pow_succ_r by lia. lia.
    + rewrite Nat2Z.inj_succ, Z.pow_succ_r in Hn by lia.
      assert (0 < p) by (subst p; apply Z.pow_pos_nonneg; lia).
      assert (0 < 2 ^ Z.of_nat f) by (apply Z.pow_pos_nonneg; lia). nia.
Qed.
Lemma ndigits_bound n : 0 <= n -> n < 10 ^ Z.of_nat (ndigits n).
Proof.
  intros Hn. unfold ndigits. apply nd_aux_bound; [reflexivity|].
  destruct (Z.eq_dec n 0) as [->|Hne]; [cbn; lia|].
  assert (Hpos : 0 < n) by lia. pose proof (Z.log2_spec n Hpos) as [_ Hu].
  rewrite Nat2Z.inj_succ, Z2Nat.id by apply Z.log2_nonneg. lia.
Qed.
Lemma ndigits_pos n : (1 <= ndigits n)%nat.
Proof. unfold ndigits. apply nd_aux_ge. Qed.

Lemma digits_digit n : forallb is_digit (digits n) = true.
Proof. apply fixdigits_digit. Qed.
Lemma digits_length n : length (digits n) = ndigits n.
Proof. apply fixdigits_length. Qed.
Lemma digits_ne n : digits n <> [].
Proof.
  intros E. assert (H : length (digits n) = 0%nat) by (rewrite E; reflexivity).
  rewrite digits_length in H. pose proof (ndigits_pos n). lia.
Qed.
Lemma dval_digits n acc : 0 <= n -> dval acc (digits n) = acc * 10 ^ Z.of_nat (ndigits n) + n.
Proof. intros Hn. apply dval_fixdigits. split; [exact Hn | apply ndigits_bound, Hn]. Qed.
Lemma digits_tok n : tokenlike (digits n).
Proof. split; [apply digits_ne | apply nsp_digits, digits_digit]. Qed.

Lemma read_digits_digits n rest : 0 <= n -> stops rest ->
  read_digits 0 0 (digits n ++ rest) = (n, ndigits n, rest).
Proof.
  intros Hn Hr. rewrite read_digits_spec by (auto using digits_digit).
  rewrite dval_digits, digits_length by exact Hn. reflexivity.
Qed.

(** "%<w>d" *)
Lemma fmt_d_pad w n : 0 <= n -> exists k, fmt_d w n = repeat sp k ++ digits n.
Proof.
  intros Hn. unfold fmt_d, rjust. destruct (Z.ltb_spec n 0); [lia|]. eexists. reflexivity.
Qed.

(** ------------------------------------------------------------------ decimals *)
Lemma rhe_nonneg a p : 0 <= a -> 0 < p -> 0 <= rhe a p.
Proof.
  intros Ha Hp. unfold rhe. pose proof (Z.div_pos a p Ha Hp).
  destruct (_ <? _); [lia|]. destruct (_ <? _); [lia|]. destruct (Z.even _); lia.
Qed.
Lemma mag_at_nonneg D x : 0 <= mag_at D x.
Proof.
  unfold mag_at. destruct (_ <=? _)%nat.
  - apply Z.mul_nonneg_nonneg; [apply Z.abs_nonneg | apply Z.pow_nonneg; lia].
  - apply rhe_nonneg; [apply Z.abs_nonneg | apply Z.pow_pos_nonneg; lia].
Qed.
Lemma mag_at_id D x : nfrac x = D -> mag_at D x = Z.abs (mant x).
Proof. intros <-. unfold mag_at. rewrite Nat.leb_refl, Nat.sub_diag. cbn. lia. Qed.
Lemma round_to_id D x : nfrac x = D -> round_to D x = x.
Proof.
  intros H. unfold round_to. rewrite mag_at_id by exact H. destruct x as [m n]. cbn in *. subst.
  f_equal. destruct (Z.ltb_spec m 0); lia.
Qed.

Lemma fmt_f_body_tok D x : tokenlike (fmt_f_body D x).
Proof.
  unfold fmt_f_body. split.
  - destruct (mant x <? 0); cbn [app]; [discriminate|]. intros E. apply app_eq_nil in E. destruct E; discriminate.
  - apply nsp_app; [destruct (mant x <? 0); reflexivity|].
    apply nsp_app; [apply nsp_digits, digits_digit|].
    apply nsp_cons; [reflexivity | apply nsp_digits, fixdigits_digit].
Qed.
Lemma fmt_f_pad W D x : exists n, fmt_f W D x = repeat sp n ++ fmt_f_body D x.
Proof. unfold fmt_f, rjust. eexists. reflexivity. Qed.

Lemma read_sign_digit c r : is_digit c = true -> read_sign (c :: r) = (false, c :: r).
Proof. intros H. destruct (digit_not_sign c H) as [H1 [H2 _]]. unfold read_sign. rewrite H1, H2. reflexivity. Qed.

Lemma digits_head n : exists c r, digits n = c :: r /\ is_digit c = true.
Proof.
  pose proof (digits_ne n) as Hne. pose proof (digits_digit n) as Hd.
  destruct (digits n) as [|c r]; [congruence|]. exists c, r. split; [reflexivity|].
  cbn in Hd. apply andb_true_iff in Hd. tauto.
Qed.

Lemma read_mantissa_fixed ip fp D :
  0 <= ip -> 0 <= fp < 10 ^ Z.of_nat D ->
  read_mantissa (digits ip ++ c_dot :: fixdigits D fp) = Some (ip * 10 ^ Z.of_nat D + fp, D, []).
Proof.
  intros Hip Hfp. unfold read_mantissa.
  rewrite read_digits_digits; [|exact Hip | reflexivity].
  change (Byte.eqb c_dot c_dot) with true. cbv iota.
  rewrite <- (app_nil_r (fixdigits D fp)).
  rewrite read_digits_spec; [|apply fixdigits_digit | exact I].
  rewrite dval_fixdigits by exact Hfp. rewrite fixdigits_length. cbn [Nat.add].
  pose proof (ndigits_pos ip). destruct (ndigits ip + D)%nat eqn:E; [lia|]. reflexivity.
Qed.

(** float(token) of what "%.<D>f" printed is the value rounded to D decimals *)
Lemma parse_dec_fmt_body D x : parse_dec (fmt_f_body D x) = Some (round_to D x).
Proof.
  unfold parse_dec, fmt_f_body, round_to.
  pose proof (mag_at_nonneg D x) as Hm. set (m := mag_at D x) in *.
  assert (Hp : 0 < 10 ^ Z.of_nat D) by (apply Z.pow_pos_nonneg; lia).
  assert (Hq : 0 <= m / 10 ^ Z.of_nat D) by (apply Z.div_pos; lia).
  pose proof (Z.mod_pos_bound m _ Hp) as Hr.
  assert (Hrec : m / 10 ^ Z.of_nat D * 10 ^ Z.of_nat D + m mod 10 ^ Z.of_nat D = m)
    by (pose proof (Z_div_mod_eq_full m (10 ^ Z.of_nat D)); lia).
  destruct (mant x <? 0).
  - cbn [app]. unfold read_sign. change (Byte.eqb c_minus c_minus) with true. cbv iota.
    rewrite read_mantissa_fixed by assumption. cbn [read_exponent]. rewrite Hrec.
    unfold dec_shift. cbn. rewrite Nat.sub_0_r. reflexivity.
  - cbn [app]. destruct (digits_head (m / 10 ^ Z.of_nat D)) as [c [r [E Hc]]].
    assert (Hs : read_sign (digits (m / 10 ^ Z.of_nat D) ++ c_dot :: fixdigits D (m mod 10 ^ Z.of_nat D))
                 = (false, digits (m / 10 ^ Z.of_nat D) ++ c_dot :: fixdigits D (m mod 10 ^ Z.of_nat D))).
    { rewrite E. cbn [app]. apply read_sign_digit, Hc. }
    rewrite Hs. rewrite read_mantissa_fixed by assumption. cbn [read_exponent]. rewrite Hrec.
    unfold dec_shift. cbn. rewrite Nat.sub_0_r. reflexivity.
Qed.
Lemma parse_dec_fmt_f W D x : parse_dec (strip (fmt_f W D x)) = Some (round_to D x).
Proof.
  destruct (fmt_f_pad W D x) as [n ->]. rewrite strip_pad_tok by apply fmt_f_body_tok.
  apply parse_dec_fmt_body.
Qed.

Lemma map_opt_parse_bodies D xs : map_opt parse_dec (map (fmt_f_body D) xs) = Some (map (round_to D) xs).
Proof.
  induction xs as [|x xs IH]; [reflexivity|]. cbn [map map_opt]. rewrite parse_dec_fmt_body, IH. reflexivity.
Qed.
(** a line  " ".join("%W.Df" % c for c in xs)  read by  map(float, line.strip().split()) *)
Lemma parse_fields_line W D xs :
  map_opt parse_dec (split_ws (strip (join [sp] (map (fmt_f W D) xs)))) = Some (map (round_to D) xs).
Proof.
  rewrite split_ws_strip.
  rewrite (split_join_pad (fmt_f W D) (fmt_f_body D) (fmt_f_pad W D) (fmt_f_body_tok D)).
  apply map_opt_parse_bodies.
Qed.

(** ------------------------------------------------------------------ lines *)
Definition nl_free (l : bytes) : Prop := forallb (fun c => negb (Byte.eqb c c_nl)) l = true.
Lemma split_lines_aux_line l : forall cur rest, nl_free l ->
  split_lines_aux cur (l ++ c_nl :: rest) = (rev cur ++ l) :: split_lines_aux [] rest.
Proof.
  induction l as [|c l IH]; intros cur rest Hl.
  - cbn [app split_lines_aux]. change (Byte.eqb c_nl c_nl) with true. cbv iota. rewrite app_nil_r. reflexivity.
  - unfold nl_free in Hl. cbn [forallb] in Hl. apply andb_true_iff in Hl. destruct Hl as [Hc Hl].
    apply negb_true_iff in Hc. cbn [app split_lines_aux]. rewrite Hc. rewrite IH by exact Hl.
    cbn [rev]. rewrite <- app_assoc. reflexivity.
Qed.
Lemma split_lines_unlines ls : Forall nl_free ls -> split_lines (unlines ls) = ls.
Proof.
  unfold split_lines, unlines. induction ls as [|l ls IH]; intros H; [reflexivity|].
  inversion H; subst. cbn [flat_map]. rewrite <- app_assoc. cbn [app].
  rewrite split_lines_aux_line by assumption. cbn [rev app]. f_equal. apply IH. assumption.
Qed.
