(** Finite sums / matrix-vector algebra on lists, written once over a small ring
    record [Rng T] (instances: R here, Q and Q(sqrt 3) in Q3.v) and reasoned about at R.
    All vector operations are total and PADDING (never truncating), so the algebraic
    lemmas hold without any well-shapedness side conditions. *)
From Coq Require Import Reals Lra List Bool Arith Lia.
Import ListNotations.

Class Rng (T : Type) := {
  r0 : T; r1 : T;
  radd : T -> T -> T; rmul : T -> T -> T; ropp : T -> T;
  reqb : T -> T -> bool;      (* decidable equality test used by certificate checks (R: classical) *)
}.

Section Generic.
  Context {T : Type} {RT : Rng T}.

  Fixpoint dot (a b : list T) : T :=
    match a, b with
    | x :: a', y :: b' => radd (rmul x y) (dot a' b')
    | _, _ => r0
    end.
  Fixpoint vadd (a b : list T) : list T :=
    match a, b with
    | [], _ => b
    | _, [] => a
    | x :: a', y :: b' => radd x y :: vadd a' b'
    end.
  Definition vscale (s : T) (a : list T) : list T := map (rmul s) a.
  Definition vopp (a : list T) : list T := map ropp a.
  Definition vsub (a b : list T) : list T := vadd a (vopp b).
  (** sum_i m_i * A_i  (a linear combination of the rows of A = m^T A = A^T m) *)
  Fixpoint lincomb (m : list T) (A : list (list T)) : list T :=
    match m, A with
    | x :: m', r :: A' => vadd (vscale x r) (lincomb m' A')
    | _, _ => []
    end.
  Definition matvec (A : list (list T)) (v : list T) : list T := map (fun r => dot r v) A.
  Definition matmul (M A : list (list T)) : list (list T) := map (fun m => lincomb m A) M.
  Definition col (j : nat) (A : list (list T)) : list T := map (fun r => nth j r r0) A.
  Definition transpose (n : nat) (A : list (list T)) : list (list T) := map (fun j => col j A) (seq 0 n).
  Definition unitv (n j : nat) : list T := map (fun i => if i =? j then r1 else r0) (seq 0 n).
  Definition ident (n : nat) : list (list T) := map (unitv n) (seq 0 n).
  Definition sumsq (a : list T) : T := dot a a.

  Definition is_zero_vec (a : list T) : bool := forallb (fun x => reqb x r0) a.
  (** equality of vectors up to trailing zeros (a missing entry counts as zero) *)
  Fixpoint veqb (a b : list T) : bool :=
    match a, b with
    | [], _ => is_zero_vec b
    | _, [] => is_zero_vec a
    | x :: a', y :: b' => reqb x y && veqb a' b'
    end.
  Fixpoint rows_eqb (A B : list (list T)) : bool :=
    match A, B with
    | [], [] => true
    | x :: a', y :: b' => veqb x y && rows_eqb a' b'
    | _, _ => false
    end.
End Generic.

(* ------------------------------------------------------------------------------------ *)
Local Open Scope R_scope.

Definition Reqb (x y : R) : bool := if Req_EM_T x y then true else false.
#[export] Instance RRng : Rng R := {|
  r0 := 0; r1 := 1; radd := Rplus; rmul := Rmult; ropp := Ropp; reqb := Reqb |}.

Ltac rrng := cbn [r0 r1 radd rmul ropp reqb RRng] in *.

Lemma dot_nil_r (a : list R) : dot a [] = 0.
Proof. destruct a; reflexivity. Qed.

Lemma dot_vadd (a b v : list R) : dot (vadd a b) v = dot a v + dot b v.
Proof.
  revert b v. induction a as [|x a IH]; intros b v; cbn [vadd dot]; rrng.
  - lra.
  - destruct b as [|y b]; [cbn [dot]; rrng; rewrite ?dot_nil_r; destruct v; cbn [dot]; rrng; lra|].
    destruct v as [|z v]; cbn [dot]; rrng; [lra|]. rewrite IH. ring.
Qed.
Lemma dot_vscale (s : R) (a v : list R) : dot (vscale s a) v = s * dot a v.
Proof.
  revert v. induction a as [|x a IH]; intros v; cbn [vscale map dot]; rrng; [ring|].
  destruct v as [|z v]; [ring|]. fold (vscale s a). rewrite IH. ring.
Qed.
Lemma dot_comm (a b : list R) : dot a b = dot b a.
Proof.
  revert b. induction a as [|x a IH]; intros [|y b]; cbn [dot]; rrng; try reflexivity.
  rewrite IH. ring.
Qed.
(** (m^T A) . v = m . (A v) *)
Lemma dot_lincomb (m : list R) (A : list (list R)) (v : list R) :
  dot (lincomb m A) v = dot m (matvec A v).
Proof.
  revert A. induction m as [|x m IH]; intros A; cbn [lincomb dot]; rrng; [reflexivity|].
  destruct A as [|r A]; cbn [matvec map dot lincomb]; rrng; [reflexivity|].
  rewrite dot_vadd, dot_vscale. fold (matvec A v). rewrite IH. reflexivity.
Qed.
(** associativity: (M A) v = M (A v) *)
Lemma matvec_matmul (M A : list (list R)) (v : list R) :
  matvec (matmul M A) v = matvec M (matvec A v).
Proof.
  unfold matvec, matmul. rewrite map_map. apply map_ext. intros m. apply dot_lincomb.
Qed.

Lemma matvec_zero_lincomb (m : list R) (A : list (list R)) (v : list R) :
  (forall r, In r A -> dot r v = 0) -> dot (lincomb m A) v = 0.
Proof.
  intros H. rewrite dot_lincomb. revert A H. induction m as [|x m IH]; intros A H; [reflexivity|].
  destruct A as [|r A]; [reflexivity|]. cbn [matvec map dot]; rrng.
  rewrite (H r) by (left; reflexivity). fold (matvec A v).
  rewrite IH by (intros r' Hr'; apply H; right; exact Hr'). ring.
Qed.

Lemma dot_unitv (n j : nat) (v : list R) : (j < n)%nat -> length v = n -> dot (unitv n j) v = nth j v 0.
Proof.
  intros Hj Hl. unfold unitv.
  assert (G : forall (s : nat) (v : list R), (s <= j)%nat -> (j < s + length v)%nat ->
            dot (map (fun i => if (i =? j)%nat then 1 else 0) (seq s (length v))) v = nth (j - s) v 0).
  { clear. intros s v. revert s. induction v as [|z v IH]; intros s Hs Hj; cbn [length] in *; [lia|].
    cbn [seq map dot]; rrng. destruct (Nat.eqb_spec s j) as [->|Hne].
    - replace (j - j)%nat with 0%nat by lia. cbn [nth].
      assert (Z : forall (t : nat) (w : list R), (j < t)%nat ->
                dot (map (fun i => if (i =? j)%nat then 1 else 0) (seq t (length w))) w = 0).
      { clear. intros t w. revert t. induction w as [|y w IH]; intros t Ht; [reflexivity|].
        cbn [length seq map dot]; rrng. destruct (Nat.eqb_spec t j); [lia|].
        rewrite IH by lia. ring. }
      rewrite Z by lia. ring.
    - rewrite IH by lia. replace (j - s)%nat with (S (j - S s)) by lia. cbn [nth]. ring. }
  subst n. specialize (G 0%nat v ltac:(lia) ltac:(lia)). rewrite Nat.sub_0_r in G.
  cbn [r0 r1 RRng]. exact G.
Qed.

(** sum of squares controls every entry *)
Lemma sumsq_nonneg (a : list R) : 0 <= sumsq a.
Proof.
  unfold sumsq. induction a as [|x a IH]; cbn [dot]; rrng; [lra|]. nra.
Qed.
Lemma sumsq_bound (a : list R) (t : R) :
  sumsq a <= t -> forall x, In x a -> x * x <= t.
Proof.
  unfold sumsq. revert t. induction a as [|y a IH]; intros t H x Hx; [destruct Hx|].
  cbn [dot] in H; rrng. pose proof (sumsq_nonneg a) as Hn. unfold sumsq in Hn.
  destruct Hx as [->|Hx].
  - lra.
  - apply (IH (t - y * y)); [lra | exact Hx] || (apply Rle_trans with (t - y * y); [apply IH; [lra|exact Hx] | nra]).
Qed.
Lemma sumsq_zero (a : list R) : sumsq a = 0 -> forall x, In x a -> x = 0.
Proof.
  intros H x Hx. pose proof (sumsq_bound a 0 ltac:(lra) x Hx). nra.
Qed.
Lemma sq_le_sqrt (x t : R) : 0 <= t -> x * x <= t -> Rabs x <= sqrt t.
Proof.
  intros Ht H. rewrite <- (sqrt_Rsqr_abs x). apply sqrt_le_1_alt. unfold Rsqr. exact H.
Qed.

(** generic ring homomorphism into R *)
Class RHom {T : Type} {RT : Rng T} (h : T -> R) := {
  h_0 : h r0 = 0; h_1 : h r1 = 1;
  h_add : forall x y, h (radd x y) = h x + h y;
  h_mul : forall x y, h (rmul x y) = h x * h y;
  h_opp : forall x, h (ropp x) = - h x;
  h_eqb : forall x y, reqb x y = true -> h x = h y;
}.

Section Hom.
  Context {T : Type} {RT : Rng T} (h : T -> R) {HH : RHom h}.

  Lemma h_dot (a b : list T) : h (dot a b) = dot (map h a) (map h b).
  Proof.
    revert b. induction a as [|x a IH]; intros [|y b]; cbn [dot map]; rrng; try apply h_0.
    rewrite h_add, h_mul, IH. reflexivity.
  Qed.
  Lemma h_vadd (a b : list T) : map h (vadd a b) = vadd (map h a) (map h b).
  Proof.
    revert b. induction a as [|x a IH]; intros [|y b]; cbn [vadd map]; try reflexivity.
    rewrite h_add, IH. reflexivity.
  Qed.
  Lemma h_vscale (s : T) (a : list T) : map h (vscale s a) = vscale (h s) (map h a).
  Proof.
    unfold vscale. rewrite !map_map. apply map_ext. intros x. apply h_mul.
  Qed.
  Lemma h_lincomb (m : list T) (A : list (list T)) :
    map h (lincomb m A) = lincomb (map h m) (map (map h) A).
  Proof.
    revert A. induction m as [|x m IH]; intros [|r A]; cbn [lincomb map]; try reflexivity.
    rewrite h_vadd, h_vscale, IH. reflexivity.
  Qed.
  Lemma h_matmul (M A : list (list T)) :
    map (map h) (matmul M A) = matmul (map (map h) M) (map (map h) A).
  Proof.
    unfold matmul. rewrite !map_map. apply map_ext. intros m. apply h_lincomb.
  Qed.
  Lemma h_zero_vec (a : list T) (v : list R) : is_zero_vec a = true -> dot (map h a) v = 0.
  Proof.
    revert v. induction a as [|x a IH]; intros v; cbn [is_zero_vec forallb map dot]; [reflexivity|].
    rewrite andb_true_iff. intros [E1 E2]. destruct v as [|z v]; [reflexivity|]. rrng.
    rewrite (h_eqb _ _ E1), h_0. fold (is_zero_vec a) in E2. rewrite (IH v E2). ring.
  Qed.
  Lemma h_veqb (a b : list T) (v : list R) : veqb a b = true -> dot (map h a) v = dot (map h b) v.
  Proof.
    revert b v. induction a as [|x a IH]; intros b v E.
    - cbn [veqb] in E. cbn [map dot]. symmetry. apply h_zero_vec, E.
    - destruct b as [|y b].
      + cbn [veqb] in E. transitivity 0; [apply h_zero_vec, E | reflexivity].
      + cbn [veqb] in E. apply andb_true_iff in E. destruct E as [E1 E2]. cbn [map dot].
        destruct v as [|z v]; [reflexivity|]. rrng. rewrite (h_eqb _ _ E1), (IH _ v E2). reflexivity.
  Qed.
  Lemma h_rows_eqb (A B : list (list T)) :
    rows_eqb A B = true -> forall b, In b B -> exists a, In a A /\ veqb a b = true.
  Proof.
    revert B. induction A as [|x A IH]; intros [|y B]; cbn [rows_eqb]; try discriminate.
    - intros _ b [].
    - rewrite andb_true_iff. intros [E1 E2] b [<-|Hb].
      + exists x. split; [left; reflexivity | exact E1].
      + destruct (IH _ E2 b Hb) as [a [Ha Hab]]. exists a. split; [right; exact Ha | exact Hab].
  Qed.
  Lemma h_unitv (n j : nat) : map h (unitv n j) = unitv n j.
  Proof.
    unfold unitv. rewrite map_map. apply map_ext. intros i. destruct (i =? j)%nat; [apply h_1 | apply h_0].
  Qed.
  Lemma h_ident (n : nat) : map (map h) (ident n) = ident n.
  Proof.
    unfold ident. rewrite map_map. apply map_ext. intros j. apply h_unitv.
  Qed.
End Hom.

(** B = M A (checked over T) and A v = 0 over R  ==>  B v = 0 over R *)
Lemma rowspace_transfer {T : Type} {RT : Rng T} (h : T -> R) {HH : RHom h}
      (M A B : list (list T)) (v : list R) :
  rows_eqb (matmul M A) B = true ->
  (forall r, In r A -> dot (map h r) v = 0) ->
  forall b, In b B -> dot (map h b) v = 0.
Proof.
  intros Hc HA b Hb. destruct (h_rows_eqb _ _ Hc b Hb) as [a [Ha Hab]].
  rewrite <- (h_veqb h _ _ v Hab). unfold matmul in Ha. apply in_map_iff in Ha.
  destruct Ha as [m [<- _]]. rewrite (h_lincomb h).
  apply matvec_zero_lincomb. intros r Hr. apply in_map_iff in Hr. destruct Hr as [r' [<- Hr']].
  apply HA, Hr'.
Qed.
