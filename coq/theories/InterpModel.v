(** C11 - model of cij/core/mode_gamma.py and of the array selection in
    cij/plot/modes.py (ModePlotter.plot_modes).  Written once over [Ops F]; no proofs here.

    Conventions: coefficient lists are highest-degree first (numpy); the input table is
    [freqs : list (list (list F))] indexed [v][q][m]; the output is one table of triples
    (omega, gamma, V dgamma/dV) indexed [v][q][m].  The four library methods (spline, pchip,
    akima, hermite) are ORACLES: a function from the nodes handed to scipy to three functions
    (value, nu=1, nu=2). *)
From Coq Require Import ZArith List Bool.
From Cij Require Import Ops PolyModel.
Import ListNotations.

Inductive method := Spline | Lagrange | Krogh | Pchip | Akima | Hermite | LsqPoly.

(** ---- plot selection (exact structures, no numbers) ------------------------------------ *)
Inductive quantity := QOmega | QGamma | QVdGdV | QGammaSq.
Inductive plot_src := SFreq | SModeGamma (i : nat).
Definition quantity_eqb (a b : quantity) : bool :=
  match a, b with
  | QOmega, QOmega | QGamma, QGamma | QVdGdV, QVdGdV | QGammaSq, QGammaSq => true
  | _, _ => false
  end.
Definition oq_eqb (a b : option quantity) : bool :=
  match a, b with
  | Some x, Some y => quantity_eqb x y
  | None, None => true
  | _, _ => false
  end.
Fixpoint zfind {A} (k : Z) (t : list (Z * A)) : option A :=
  match t with [] => None | (k', v) :: r => if Z.eqb k k' then Some v else zfind k r end.

(** [tbl]: the if/elif chain of plot_modes (n |-> calculator.freq_array or calculator.mode_gamma[i]);
    [layout]: what Calculator._interpolate_modes stores in mode_gamma. *)
Definition plot_select (tbl : list (Z * plot_src)) (layout : list quantity) (n : Z) : option quantity :=
  match zfind n tbl with
  | Some SFreq => Some QOmega
  | Some (SModeGamma i) => nth_error layout i
  | None => None
  end.
(** the property: n = 0, 1, 2 draw omega, gamma, V dgamma/dV *)
Definition plot_spec : list (Z * quantity) := [(0%Z, QOmega); (1%Z, QGamma); (2%Z, QVdGdV)].
Definition plot_ok (tbl : list (Z * plot_src)) (layout : list quantity) : bool :=
  forallb (fun nq => oq_eqb (plot_select tbl layout (fst nq)) (Some (snd nq))) plot_spec.
(** the code as it is on the pinned tree (modes.py lines 44-49, calculator.py line 86) *)
Definition pinned_table : list (Z * plot_src) :=
  [(0%Z, SFreq); (1%Z, SModeGamma 0); (2%Z, SModeGamma 1)].
Definition pinned_layout : list quantity := [QVdGdV; QGamma; QGammaSq].
Definition src_eqb (a b : plot_src) : bool :=
  match a, b with SFreq, SFreq => true | SModeGamma i, SModeGamma j => Nat.eqb i j | _, _ => false end.
Fixpoint list_eqb {A} (e : A -> A -> bool) (a b : list A) : bool :=
  match a, b with
  | [], [] => true
  | x :: a', y :: b' => e x y && list_eqb e a' b'
  | _, _ => false
  end.
Definition is_pinned (tbl : list (Z * plot_src)) (layout : list quantity) : bool :=
  list_eqb (fun a b => Z.eqb (fst a) (fst b) && src_eqb (snd a) (snd b)) tbl pinned_table &&
  list_eqb quantity_eqb layout pinned_layout.
(** modes k drawn for q-point iq: all but the three acoustic ones at iq = 0 *)
Definition plot_modes_drawn (np : nat) (iq : nat) : list nat :=
  filter (fun k => negb (Nat.eqb iq 0 && Nat.ltb k 3)) (seq 0 np).

(** ---- numeric part ---------------------------------------------------------------------- *)
Section InterpModel.
  Context {F : Type} {OF : Ops F}.
  Local Open Scope ops_scope.

  Definition triple : Type := (F * F * F)%type.
  Definition zero3 : triple := (zero, zero, zero).

  (** l[::k]  (k >= 1) *)
  Fixpoint take_every_from (k i : nat) {A} (l : list A) : list A :=
    match l with
    | [] => []
    | x :: t => match i with
                | O => x :: take_every_from k (k - 1) t
                | S i' => take_every_from k i' t
                end
    end.
  (** interval = int(ceil(n / order));  l[::interval] *)
  Definition interval (n order : nat) : nat := (n + order - 1) / order.
  Definition subsample {A} (order : nat) (l : list A) : list A :=
    take_every_from (interval (length l) order) 0 l.

  (** Newton divided differences.  [dd_step d xlo xhi]: next column from column d,
      pairing xlo_i with xhi_i *)
  Fixpoint dd_step (d xlo xhi : list F) : list F :=
    match d, xlo, xhi with
    | d0 :: ((d1 :: _) as d'), a :: xlo', b :: xhi' => (d1 - d0) / (b - a) :: dd_step d' xlo' xhi'
    | _, _, _ => []
    end.
  (** heads of the successive columns = Newton coefficients f[x0], f[x0,x1], ... *)
  Fixpoint dd_cols (fuel : nat) (d xs xhi : list F) : list F :=
    match fuel with
    | O => []
    | S f => match d with
             | [] => []
             | d0 :: _ => d0 :: dd_cols f (dd_step d xs (tl xhi)) xs (tl xhi)
             end
    end.
  Definition newton_coeffs (xs ys : list F) : list F := dd_cols (length xs) ys xs xs.
  (** c0 + (x-x0)(c1 + (x-x1)(c2 + ...)) expanded to monomial coefficients *)
  Fixpoint newton_expand (cs xs : list F) : list F :=
    match cs, xs with
    | [], _ => []
    | c :: cs', x0 :: xs' => plin_step (newton_expand cs' xs') one (- x0) c
    | c :: _, [] => [c]
    end.
  (** the interpolating polynomial through (xs_i, ys_i) - what scipy.interpolate.lagrange and
      KroghInterpolator both represent *)
  Definition interp_coeffs (xs ys : list F) : list F := newton_expand (newton_coeffs xs ys) xs.

  (** ---- least squares ---- *)
  Definition hdF (l : list F) : F := match l with [] => zero | x :: _ => x end.
  Fixpoint extract_max (best : list F) (rest acc : list (list F)) : list F * list (list F) :=
    match rest with
    | [] => (best, acc)
    | r :: rest' =>
        if fleb (fabs (hdF r)) (fabs (hdF best)) then extract_max best rest' (r :: acc)
        else extract_max r rest' (best :: acc)
    end.
  (** Gaussian elimination with partial pivoting on augmented rows (coefficients ++ [rhs]).
      UNVERIFIED: only the executable tie uses it; theorems characterise least-squares
      coefficients by the normal equations. *)
  Fixpoint gauss (fuel : nat) (rows : list (list F)) : list F :=
    match fuel with
    | O => []
    | S f =>
        match rows with
        | [] => []
        | r0 :: rest =>
            let '(pv, others) := extract_max r0 rest [] in
            let a := hdF pv in
            let pt := tl pv in
            let others' := map (fun o => let fct := hdF o / a in
                                         zipw (fun u v => u - fct * v) (tl o) pt) others in
            let sol := gauss f others' in
            ((last pt zero - dot (removelast pt) sol) / a) :: sol
        end
    end.
  (** exponents order, order-1, ..., 0 (numpy.vander(xs, order+1)) *)
  Definition vander_exps (order : nat) : list nat := rev (seq 0 (S order)).
  Definition vander_cols (order : nat) (ts : list F) : list (list F) :=
    map (fun k => map (fun t => powN t k) ts) (vander_exps order).
  Definition normal_system (order : nat) (ts ys : list F) : list (list F) :=
    let cols := vander_cols order ts in
    map (fun cj => map (dot cj) cols ++ [dot cj ys]) cols.
  (** k-th normal equation residual  sum_i x_i^k (p(x_i) - y_i)  of a coefficient list c *)
  Definition normal_resid (k : nat) (xs ys c : list F) : F :=
    sum (zipw (fun x y => powN x k * (polyval c x - y)) xs ys).
  (** least-squares polynomial of degree <= order: normal equations solved on centred/scaled
      abscissae t = (x - mid)/hw (conditioning), re-expanded in x *)
  Definition lsq_coeffs (order : nat) (xs ys : list F) : list F :=
    let x0 := hdF xs in
    let x1 := last xs zero in
    let mid := (x0 + x1) / two in
    let hw0 := (x1 - x0) / two in
    let hw := if is0 hw0 then one else hw0 in
    let ts := map (fun x => (x - mid) / hw) xs in
    let q := gauss (S order) (normal_system order ts ys) in
    pcompose_affine q (one / hw) (- (mid / hw)).

  (** ---- per-mode functions: (volumes, frequencies of one mode, grid) -> triples ---- *)
  Definition poly_mode (p : list F) (grid : list F) : list triple :=
    map (fun v => poly_triple p (fln v)) grid.

  (** interpolate_mode_lagrange / interpolate_mode_krogh *)
  Definition node_poly (order : nat) (vols freqs : list F) : list F :=
    interp_coeffs (rev (map fln (subsample order vols))) (rev (map fln (subsample order freqs))).
  (** interpolate_mode_lsq_poly (no subsampling, no flip) *)
  Definition lsq_poly (order : nat) (vols freqs : list F) : list F :=
    lsq_coeffs order (map fln vols) (map fln freqs).

  Record interp_oracle := { o_val : F -> F; o_d1 : F -> F; o_d2 : F -> F }.
  Definition oracle_mode (o : interp_oracle) (grid : list F) : list triple :=
    map (fun v => let x := fln v in (fexp (o_val o x), - o_d1 o x, - o_d2 o x)) grid.
  (** [lib m k xs ys]: the scipy object built from nodes (xs, ys); k is the spline degree
      (0 for the classes that take none) *)
  Definition library := method -> nat -> list F -> list F -> interp_oracle.

  Definition mode_fn (lib : library) (m : method) (order : nat) (vols freqs grid : list F) : list triple :=
    match m with
    | Lagrange | Krogh => poly_mode (node_poly order vols freqs) grid
    | LsqPoly => poly_mode (lsq_poly order vols freqs) grid
    | Spline => oracle_mode (lib Spline order (rev (map fln vols)) (rev (map fln freqs))) grid
    | Pchip | Akima | Hermite =>
        oracle_mode (lib m O (rev (map fln (subsample order vols)))
                              (rev (map fln (subsample order freqs)))) grid
    end.

  (** ---- interpolate_modes: the double loop ---- *)
  Definition mode_col (freqs : list (list (list F))) (q m : nat) : list F :=
    map (fun vol => nth m (nth q vol []) zero) freqs.
  Definition skipped (q m : nat) : bool := Nat.eqb q 0 && Nat.ltb m 3.
  Definition interpolate_modes (mf : list F -> list F -> list F -> list triple)
             (nq np : nat) (vols : list F) (freqs : list (list (list F))) (grid : list F)
    : list (list (list triple)) :=
    let cols := map (fun q => map (fun m => if skipped q m then []
                                           else mf vols (mode_col freqs q m) grid) (seq 0 np))
                    (seq 0 nq) in
    map (fun iv => map (fun q => map (fun m => nth iv (nth m (nth q cols []) []) zero3) (seq 0 np))
                       (seq 0 nq))
        (seq 0 (length grid)).

  Definition get3 (a : list (list (list triple))) (v q m : nat) : triple :=
    nth m (nth q (nth v a []) []) zero3.
End InterpModel.
