(** C17 - the phonon-file writer and reader are inverse to each other (QhaInputModel.v).
    Main results: [qha_roundtrip_rounding_l], [qha_roundtrip_l], [qha_roundtrip_text_l]. *)
From Coq Require Import ZArith List Bool Strings.Byte Lia.
From Cij Require Import VoigtBase TextModel Text QhaInputModel.
Import ListNotations.
Local Open Scope Z_scope.

(** ------------------------------------------------------------------ header line *)
Lemma re_int_digits n rest : 0 <= n -> stops rest -> re_int (digits n ++ rest) = Some (n, rest).
Proof.
  intros Hn Hr. unfold re_int. rewrite read_digits_digits by assumption.
  pose proof (ndigits_pos n). destruct (ndigits n); [lia | reflexivity].
Qed.
Lemma re_int_digits_end n : 0 <= n -> re_int (digits n) = Some (n, []).
Proof. intros Hn. rewrite <- (app_nil_r (digits n)). apply re_int_digits; [exact Hn | exact I]. Qed.
Lemma re_ws1_pad k t R : tokenlike t -> re_ws1 (sp :: repeat sp k ++ t ++ R) = Some (t ++ R).
Proof. intros Ht. cbn [re_ws1]. change (is_space sp) with true. cbv iota. rewrite drop_ws_spaces, drop_ws_tok by exact Ht. reflexivity. Qed.

Lemma header_counts a b c d e :
  0 <= a -> 0 <= b -> 0 <= c -> 0 <= d -> 0 <= e ->
  header_match (strip (join [sp] (map (fmt_d 4) [a; b; c; d; e]))) = Some (a, b, c, d, e).
Proof.
  intros Ha Hb Hc Hd He.
  destruct (fmt_d_pad 4 a Ha) as [ka Ea]. destruct (fmt_d_pad 4 b Hb) as [kb Eb].
  destruct (fmt_d_pad 4 c Hc) as [kc Ec]. destruct (fmt_d_pad 4 d Hd) as [kd Ed].
  destruct (fmt_d_pad 4 e He) as [ke Ee].
  cbn [map join]. rewrite Ea, Eb, Ec, Ed, Ee.
  assert (E : (repeat sp ka ++ digits a) ++ [sp] ++ (repeat sp kb ++ digits b) ++ [sp] ++
              (repeat sp kc ++ digits c) ++ [sp] ++ (repeat sp kd ++ digits d) ++ [sp] ++
              repeat sp ke ++ digits e
              = repeat sp ka ++ digits a ++
                ([sp] ++ repeat sp kb ++ digits b ++ [sp] ++ repeat sp kc ++ digits c ++ [sp] ++
                 repeat sp kd ++ digits d ++ [sp] ++ repeat sp ke) ++ digits e).
  { repeat rewrite <- app_assoc. reflexivity. }
  rewrite E. rewrite strip_pad by apply digits_tok.
  pose (R4 := digits e).
  pose (R3 := digits d ++ sp :: repeat sp ke ++ R4).
  pose (R2 := digits c ++ sp :: repeat sp kd ++ R3).
  pose (R1 := digits b ++ sp :: repeat sp kc ++ R2).
  assert (E2 : digits a ++ ([sp] ++ repeat sp kb ++ digits b ++ [sp] ++ repeat sp kc ++ digits c ++ [sp] ++
                 repeat sp kd ++ digits d ++ [sp] ++ repeat sp ke) ++ digits e
               = digits a ++ sp :: repeat sp kb ++ R1).
  { unfold R1, R2, R3, R4. repeat rewrite <- app_assoc. reflexivity. }
  rewrite E2. unfold header_match.
  rewrite re_int_digits by (auto; reflexivity). cbn [obind]. cbv beta iota.
  unfold R1. rewrite re_ws1_pad by apply digits_tok. cbn [obind].
  rewrite re_int_digits by (auto; reflexivity). cbn [obind]. cbv beta iota.
  unfold R2. rewrite re_ws1_pad by apply digits_tok. cbn [obind].
  rewrite re_int_digits by (auto; reflexivity). cbn [obind]. cbv beta iota.
  unfold R3. rewrite re_ws1_pad by apply digits_tok. cbn [obind].
  rewrite re_int_digits by (auto; reflexivity). cbn [obind]. cbv beta iota.
  unfold R4. rewrite <- (app_nil_r (digits e)) at 1. rewrite re_ws1_pad by apply digits_tok. cbn [obind].
  rewrite app_nil_r. rewrite re_int_digits_end by exact He. cbn [obind]. reflexivity.
Qed.

(** the comment must not look like the header *)
Definition comment_ok (comment : bytes) : Prop := header_match (strip comment) = None.

Lemma find_header_print comment d rest :
  comment_ok comment -> 0 <= nv d -> 0 <= nq d -> 0 <= np d -> 0 <= nm d -> 0 <= na d ->
  find_header (comment :: [] :: s_labels :: print_counts d :: rest)
  = Some (nv d, nq d, np d, nm d, na d, rest).
Proof.
  intros Hc H1 H2 H3 H4 H5. cbn [find_header]. unfold comment_ok in Hc. rewrite Hc.
  change (header_match (strip [])) with (@None (Z * Z * Z * Z * Z)). cbv iota.
  assert (El : header_match (strip s_labels) = None) by (vm_compute; reflexivity).
  rewrite El. unfold print_counts. rewrite header_counts by assumption. reflexivity.
Qed.

(** ------------------------------------------------------------------ P= V= E= line *)
Lemma pve_field_spec c k t R :
  is_space c = false -> tokenlike t ->
  match R with [] => True | c' :: _ => is_space c' = true end ->
  pve_field (c :: c_eq :: sp :: repeat sp k ++ t ++ R) = Some (t, R).
Proof.
  intros Hc Ht HR. unfold pve_field. rewrite Hc. change (Byte.eqb c_eq c_eq) with true. cbn [negb andb].
  rewrite re_ws1_pad by exact Ht. cbn [obind]. rewrite span_ns_tok; [|apply Ht | exact HR].
  destruct Ht as [Hne _]. destruct t; [congruence | reflexivity].
Qed.

Lemma pve_line p v e :
  pve_search (s_P ++ fmt_f 12 6 p ++ s_V ++ fmt_f 12 6 v ++ s_E ++ fmt_f 12 6 e)
  = Some (fmt_f_body 6 p, fmt_f_body 6 v, fmt_f_body 6 e).
Proof.
  destruct (fmt_f_pad 12 6 p) as [kp ->]. destruct (fmt_f_pad 12 6 v) as [kv ->].
  destruct (fmt_f_pad 12 6 e) as [ke ->].
  set (tp := fmt_f_body 6 p). set (tv := fmt_f_body 6 v). set (te := fmt_f_body 6 e).
  assert (Hp : tokenlike tp) by apply fmt_f_body_tok.
  assert (Hv : tokenlike tv) by apply fmt_f_body_tok.
  assert (He : tokenlike te) by apply fmt_f_body_tok.
  set (R2 := sp :: x45 :: c_eq :: sp :: repeat sp ke ++ te ++ []).
  set (R1 := sp :: x56 :: c_eq :: sp :: repeat sp kv ++ tv ++ R2).
  assert (E : s_P ++ (repeat sp kp ++ tp) ++ s_V ++ (repeat sp kv ++ tv) ++ s_E ++ repeat sp ke ++ te
              = x50 :: c_eq :: sp :: repeat sp kp ++ tp ++ R1).
  { unfold R1, R2, s_P, s_V, s_E. rewrite app_nil_r. repeat rewrite <- app_assoc. reflexivity. }
  rewrite E.
  assert (A : pve_at (x50 :: c_eq :: sp :: repeat sp kp ++ tp ++ R1) = Some (tp, tv, te)).
  { unfold pve_at. rewrite pve_field_spec; [|reflexivity | exact Hp | reflexivity].
    cbn [obind]. cbv beta iota. unfold R1 at 1.
    change (re_ws1 (sp :: x56 :: c_eq :: sp :: repeat sp kv ++ tv ++ R2))
      with (Some (x56 :: c_eq :: sp :: repeat sp kv ++ tv ++ R2)).
    cbn [obind]. rewrite pve_field_spec; [|reflexivity | exact Hv | reflexivity].
    cbn [obind]. cbv beta iota. unfold R2 at 1.
    change (re_ws1 (sp :: x45 :: c_eq :: sp :: repeat sp ke ++ te ++ []))
      with (Some (x45 :: c_eq :: sp :: repeat sp ke ++ te ++ [])).
    cbn [obind]. rewrite pve_field_spec; [|reflexivity | exact He | exact I].
    reflexivity. }
  cbn [pve_search]. rewrite A. reflexivity.
Qed.

Lemma pve_line_nonblank p v e :
  strip (s_P ++ fmt_f 12 6 p ++ s_V ++ fmt_f 12 6 v ++ s_E ++ fmt_f 12 6 e) <> [].
Proof. unfold s_P. cbn [app]. apply strip_nonblank. reflexivity. Qed.

(** ------------------------------------------------------------------ blocks *)
Lemma read_modes_print ms : forall rest,
  read_modes (length ms) (map (fmt_f 12 6) ms ++ rest) = Some (map (round_to 6) ms, rest).
Proof.
  induction ms as [|m ms IH]; intros rest; [reflexivity|].
  cbn [length map app read_modes]. rewrite parse_dec_fmt_f. cbn [obind]. rewrite IH. reflexivity.
Qed.

Lemma read_qpoints_print np qs : forall rest,
  Forall (fun q => length (q_modes q) = np) qs ->
  read_qpoints (length qs) np (flat_map print_qpoint qs ++ rest) = Some (map round_qpoint qs, rest).
Proof.
  induction qs as [|q qs IH]; intros rest H; [reflexivity|].
  apply Forall_cons_iff in H; destruct H as [Hq Hqs].
  cbn [length flat_map]. unfold print_qpoint at 1. cbn [app read_qpoints].
  rewrite parse_fields_line. cbn [obind]. rewrite <- app_assoc.
  rewrite <- Hq at 1. rewrite read_modes_print. cbn [obind]. cbv beta iota.
  rewrite IH by exact Hqs. reflexivity.
Qed.

Lemma read_volumes_print nq np vs : forall rest,
  Forall (fun v => length (v_q v) = nq /\ Forall (fun q => length (q_modes q) = np) (v_q v)) vs ->
  read_volumes (length vs) nq np (flat_map print_volume vs ++ rest) = Some (map round_volume vs, rest).
Proof.
  induction vs as [|v vs IH]; intros rest H; [reflexivity|].
  apply Forall_cons_iff in H; destruct H as [[Hl Hq] Hvs].
  cbn [length flat_map]. unfold print_volume at 1. cbn [app read_volumes next_nonblank].
  pose proof (pve_line_nonblank (v_P v) (v_V v) (v_E v)) as Hnb.
  destruct (strip (s_P ++ fmt_f 12 6 (v_P v) ++ s_V ++ fmt_f 12 6 (v_V v) ++ s_E ++ fmt_f 12 6 (v_E v)))
    eqn:Es; [congruence|].
  cbn [obind]. cbv beta iota. rewrite pve_line. cbn [obind]. cbv beta iota.
  rewrite !parse_dec_fmt_body. cbn [obind]. rewrite <- app_assoc.
  pose proof (read_qpoints_print np (v_q v) (flat_map print_volume vs ++ rest) Hq) as Hr.
  rewrite Hl in Hr. rewrite Hr. cbn [obind]. cbv beta iota.
  rewrite IH by exact Hvs. reflexivity.
Qed.

Lemma read_weights_print ws :
  Forall (fun w => length (w_coord w) = 3%nat) ws ->
  read_weights (length ws) (map print_weight ws) = Some (map round_weight ws).
Proof.
  induction ws as [|w ws IH]; intros H; [reflexivity|].
  apply Forall_cons_iff in H; destruct H as [Hw Hws].
  cbn [length map read_weights]. unfold print_weight at 1.
  destruct w as [cs wv]. cbn [w_coord w_val] in *.
  destruct cs as [|a [|b [|c [|? ?]]]]; try discriminate.
  cbn [app]. rewrite split_ws_strip.
  rewrite (split_join_pad (fmt_f 10 6) (fmt_f_body 6) (fmt_f_pad 10 6) (fmt_f_body_tok 6)).
  cbn [map map_opt]. rewrite !parse_dec_fmt_body. cbn [obind]. rewrite IH by exact Hws. reflexivity.
Qed.

Lemma after_weight_print ws : after_weight ([] :: s_weight :: ws) = ws.
Proof.
  cbn [after_weight]. change (strip []) with (@nil byte).
  change (bytes_eqb [] s_weight || bytes_eqb [] s_weights) with false. cbv iota.
  assert (E : bytes_eqb (strip s_weight) s_weight = true) by (vm_compute; reflexivity).
  rewrite E. reflexivity.
Qed.

(** ------------------------------------------------------------------ the theorems *)
Definition well_formed (d : qha) : Prop :=
  nv d = Z.of_nat (length (volumes d)) /\
  nq d = Z.of_nat (length (weights d)) /\
  0 <= np d /\ 0 <= nm d /\ 0 <= na d /\
  Forall (fun v => length (v_q v) = length (weights d) /\
                   Forall (fun q => length (q_modes q) = Z.to_nat (np d)) (v_q v)) (volumes d) /\
  Forall (fun w => length (w_coord w) = 3%nat) (weights d).

(** every number carries exactly the written number of decimals *)
Definition at_written_precision (d : qha) : Prop :=
  Forall (fun v => nfrac (v_P v) = 6%nat /\ nfrac (v_V v) = 6%nat /\ nfrac (v_E v) = 6%nat /\
                   Forall (fun q => Forall (fun c => nfrac c = 4%nat) (q_coord q) /\
                                    Forall (fun m => nfrac m = 6%nat) (q_modes q)) (v_q v)) (volumes d) /\
  Forall (fun w => Forall (fun c => nfrac c = 6%nat) (w_coord w) /\ nfrac (w_val w) = 6%nat) (weights d).

Theorem qha_roundtrip_rounding_l comment d :
  comment_ok comment -> well_formed d -> parse_qha (print_qha comment d) = Some (round_qha d).
Proof.
  intros Hc (Hnv & Hnq & Hnp & Hnm & Hna & Hvs & Hws).
  unfold parse_qha, print_qha. cbn [app].
  rewrite find_header_print by (try assumption; lia). cbn [obind]. cbv beta iota.
  rewrite Hnv, Hnq, !Nat2Z.id.
  match goal with |- obind (read_volumes ?n ?q ?p ?L) _ = _ =>
    match L with _ :: _ ++ ?W =>
    assert (Hv : read_volumes n q p L = Some (map round_volume (volumes d), W)
                 \/ (volumes d = [] /\ read_volumes n q p L = Some ([], [] :: W)))
    end
  end.
  { destruct (volumes d) as [|v vs] eqn:Ev.
    - right. split; reflexivity.
    - left. rewrite <- Ev in *.
      assert (Hs : forall n ls, read_volumes (S n) (length (weights d)) (Z.to_nat (np d)) ([] :: ls)
                              = read_volumes (S n) (length (weights d)) (Z.to_nat (np d)) ls) by reflexivity.
      rewrite Ev at 1. cbn [length]. rewrite Hs.
      change (S (length vs)) with (length (v :: vs)). rewrite <- Ev.
      apply read_volumes_print. exact Hvs. }
  destruct Hv as [Hv | [Ev Hv]]; rewrite Hv; cbn [obind]; cbv beta iota.
  - rewrite after_weight_print. rewrite read_weights_print by exact Hws. cbn [obind].
    unfold round_qha. rewrite <- Hnv, <- Hnq. reflexivity.
  - assert (Ea : forall ws, after_weight ([] :: [] :: s_weight :: ws) = after_weight ([] :: s_weight :: ws)) by reflexivity.
    rewrite Ea, after_weight_print. rewrite read_weights_print by exact Hws. cbn [obind].
    unfold round_qha. rewrite Ev. cbn [map length]. rewrite <- Hnq. rewrite Ev in Hnv. cbn [length] in Hnv. rewrite <- Hnv.
    reflexivity.
Qed.

Lemma map_id_on {A} (f : A -> A) l : Forall (fun x => f x = x) l -> map f l = l.
Proof. induction 1 as [|x l Hx Hl IH]; [reflexivity|]. cbn. rewrite Hx, IH. reflexivity. Qed.

Lemma round_qha_id d : at_written_precision d -> round_qha d = d.
Proof.
  intros [Hv Hw]. destruct d as [a b c e f ws vs]. unfold round_qha. cbn [nv nq np nm na weights volumes] in *.
  f_equal.
  - apply map_id_on. eapply Forall_impl; [|exact Hw]. intros [cs w] [H1 H2]. cbn in *.
    unfold round_weight. cbn. f_equal.
    + apply map_id_on. eapply Forall_impl; [|exact H1]. intros x Hx. apply round_to_id, Hx.
    + apply round_to_id, H2.
  - apply map_id_on. eapply Forall_impl; [|exact Hv]. intros [p v e0 qs] (H1 & H2 & H3 & H4). cbn in *.
    unfold round_volume. cbn. rewrite !round_to_id by assumption. f_equal.
    apply map_id_on. eapply Forall_impl; [|exact H4]. intros [cs ms] [H5 H6]. cbn in *.
    unfold round_qpoint. cbn. f_equal; apply map_id_on.
    + eapply Forall_impl; [|exact H5]. intros x Hx. apply round_to_id, Hx.
    + eapply Forall_impl; [|exact H6]. intros x Hx. apply round_to_id, Hx.
Qed.

Theorem qha_roundtrip_l comment d :
  comment_ok comment -> well_formed d -> at_written_precision d ->
  parse_qha (print_qha comment d) = Some d.
Proof.
  intros Hc Hw Hp. rewrite qha_roundtrip_rounding_l by assumption. rewrite round_qha_id by exact Hp. reflexivity.
Qed.

(** file level: the text written by write_energy, split into lines again by the file iterator *)
Lemma nl_free_app a b : nl_free a -> nl_free b -> nl_free (a ++ b).
Proof. unfold nl_free. rewrite forallb_app. intros -> ->. reflexivity. Qed.
Lemma nl_free_repeat n : nl_free (repeat sp n).
Proof. induction n; [reflexivity|]. exact IHn. Qed.
Lemma nl_free_digitsb t : forallb is_digit t = true -> nl_free t.
Proof.
  unfold nl_free. induction t as [|c t IH]; [reflexivity|]. cbn [forallb]. rewrite !andb_true_iff.
  intros [Hc Ht]. split; [|apply IH, Ht]. destruct c; cbn in Hc; try discriminate; reflexivity.
Qed.
Lemma nl_free_fmt_f W D x : nl_free (fmt_f W D x).
Proof.
  unfold fmt_f, rjust, fmt_f_body. apply nl_free_app; [apply nl_free_repeat|].
  apply nl_free_app; [destruct (mant x <? 0); reflexivity|].
  apply nl_free_app; [apply nl_free_digitsb, digits_digit|].
  change (c_dot :: ?l) with ([c_dot] ++ l). apply nl_free_app; [reflexivity | apply nl_free_digitsb, fixdigits_digit].
Qed.
Lemma nl_free_fmt_d W n : 0 <= n -> nl_free (fmt_d W n).
Proof.
  intros Hn. destruct (fmt_d_pad W n Hn) as [k ->].
  apply nl_free_app; [apply nl_free_repeat | apply nl_free_digitsb, digits_digit].
Qed.
Lemma nl_free_join l : Forall nl_free l -> nl_free (join [sp] l).
Proof.
  induction 1 as [|x l Hx Hl IH]; [reflexivity|]. destruct l as [|y l]; [exact Hx|].
  rewrite join_cons2. apply nl_free_app; [exact Hx|]. apply nl_free_app; [reflexivity | exact IH].
Qed.
Lemma Forall_map_all {A B} (P : B -> Prop) (f : A -> B) l : (forall x, P (f x)) -> Forall P (map f l).
Proof. intros H. induction l; constructor; auto. Qed.
Lemma Forall_flat_map {A B} (P : B -> Prop) (f : A -> list B) l :
  (forall x, Forall P (f x)) -> Forall P (flat_map f l).
Proof. intros H. induction l; cbn; [constructor | apply Forall_app; auto]. Qed.

Lemma print_qha_nl_free comment d :
  nl_free comment -> 0 <= nv d -> 0 <= nq d -> 0 <= np d -> 0 <= nm d -> 0 <= na d ->
  Forall nl_free (print_qha comment d).
Proof.
  intros Hc H1 H2 H3 H4 H5. unfold print_qha.
  apply Forall_app; split; [|apply Forall_app; split; [|apply Forall_app; split]].
  - constructor; [exact Hc|]. constructor; [reflexivity|]. constructor; [reflexivity|].
    constructor; [|constructor; [reflexivity | constructor]].
    unfold print_counts. apply nl_free_join. repeat constructor; apply nl_free_fmt_d; assumption.
  - apply Forall_flat_map. intros v. unfold print_volume. constructor.
    + repeat (apply nl_free_app; [first [reflexivity | apply nl_free_fmt_f]|]). apply nl_free_fmt_f.
    + apply Forall_flat_map. intros q. unfold print_qpoint. constructor.
      * apply nl_free_join, Forall_map_all, nl_free_fmt_f.
      * apply Forall_map_all, nl_free_fmt_f.
  - constructor; [reflexivity|]. constructor; [reflexivity | constructor].
  - apply Forall_map_all. intros w. unfold print_weight. apply nl_free_join, Forall_map_all, nl_free_fmt_f.
Qed.

Theorem qha_roundtrip_text_l comment d :
  nl_free comment -> comment_ok comment -> well_formed d -> at_written_precision d ->
  parse_qha_text (print_qha_text comment d) = Some d.
Proof.
  intros Hn Hc Hw Hp. unfold parse_qha_text, print_qha_text.
  destruct Hw as (Hnv & Hnq & Hnp & Hnm & Hna & Hvs & Hws).
  rewrite split_lines_unlines by (apply print_qha_nl_free; try assumption; lia).
  apply qha_roundtrip_l; [exact Hc | repeat split; assumption | exact Hp].
Qed.

(** ------------------------------------------------------------------ non-vacuity *)
Definition default_comment : bytes :=
  [x51; x48; x41; x20; x49; x6e; x70; x75; x74; x20; x64; x61; x74; x61].   (* "QHA Input data" *)
Lemma default_comment_ok : comment_ok default_comment /\ nl_free default_comment.
Proof. split; vm_compute; reflexivity. Qed.

Definition example_qha : qha :=
  mkqha 2 2 3 1 1
    [mkw [mkdec 0 6; mkdec 0 6; mkdec 0 6] (mkdec 1000000 6);
     mkw [mkdec 500000 6; mkdec (-250000) 6; mkdec 125000 6] (mkdec 2000000 6)]
    [mkv (mkdec (-12345678) 6) (mkdec 100000000000 6) (mkdec (-1) 6)
       [mkq [mkdec 0 4; mkdec 0 4; mkdec 0 4] [mkdec (-31200) 6; mkdec 2 6; mkdec 99999999999 6];
        mkq [mkdec 5000 4; mkdec (-2500) 4; mkdec 1250 4] [mkdec 100000001 6; mkdec 0 6; mkdec (-100000000000) 6]];
     mkv (mkdec 250000000 6) (mkdec 95500000 6) (mkdec (-573864985) 6)
       [mkq [mkdec 0 4; mkdec 0 4; mkdec 0 4] [mkdec 1 6; mkdec 2 6; mkdec 3 6];
        mkq [mkdec 5000 4; mkdec (-2500) 4; mkdec 1250 4] [mkdec 4 6; mkdec 5 6; mkdec 6 6]]].
Lemma example_qha_ok : well_formed example_qha /\ at_written_precision example_qha.
Proof.
  split.
  - unfold well_formed, example_qha. cbn. repeat split; try lia; repeat constructor.
  - unfold at_written_precision, example_qha. cbn. repeat split; repeat constructor.
Qed.
