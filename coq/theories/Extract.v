(** C19 - lemmas about the extract / extract-geotherm model, at F := R. *)
From Coq Require Import String List Bool ZArith Reals Lra Lia.
From Cij Require Import Ops ROps ExtractModel.
Import ListNotations.
Local Open Scope R_scope.

Lemma Rleb_false x y : Rleb x y = false <-> y < x.
Proof. unfold Rleb; destruct (Rle_dec x y); split; intros; try discriminate; try lra; reflexivity. Qed.

Notation argminR := (@argmin R ROps).
Notation argmin_absR := (@argmin_abs R ROps).

(** numpy.argmin on a non-empty list: the index is in range, its entry is minimal, and every earlier
    entry is strictly larger (it is the FIRST minimum) *)
Lemma argmin_spec (l : list R) :
  l <> [] ->
  (argminR l < length l)%nat /\
  (forall j, (j < length l)%nat -> nth (argminR l) l 0 <= nth j l 0) /\
  (forall j, (j < argminR l)%nat -> nth (argminR l) l 0 < nth j l 0).
Proof.
  induction l as [|x r IH]; [congruence|]. intros _.
  destruct r as [|x' r'].
  - cbn. split; [lia|]. split.
    + intros j Hj. assert (j = 0)%nat by lia. subst. cbn. lra.
    + intros j Hj. lia.
  - specialize (IH ltac:(discriminate)). destruct IH as [Hk [Hmin Hfirst]].
    set (r := x' :: r') in *. set (k := argminR r) in *.
    assert (E : argminR (x :: r) = if Rleb x (nth k r x) then O else S k) by reflexivity.
    rewrite (nth_indep r x 0 Hk) in E.
    destruct (Rleb x (nth k r 0)) eqn:L; rewrite E.
    + apply Rleb_true in L. split; [cbn; lia|]. split.
      * intros [|j] Hj; cbn [nth]; [lra|]. cbn [length] in Hj.
        specialize (Hmin j ltac:(lia)). lra.
      * intros j Hj. lia.
    + apply Rleb_false in L. split; [cbn [length]; lia|]. split.
      * intros [|j] Hj; cbn [nth]; [lra|]. cbn [length] in Hj. apply Hmin. lia.
      * intros [|j] Hj; cbn [nth]; [exact L|]. apply Hfirst. lia.
Qed.

Lemma fabs_R x : @fabs R ROps x = Rabs x.
Proof.
  unfold fabs. rops. destruct (Rleb 0 x) eqn:E.
  - apply Rleb_true in E. rewrite Rabs_right; lra.
  - apply Rleb_false in E. rewrite Rabs_left; lra.
Qed.

(** argmin_nearest: for every non-empty xs and every y the selected index i is in range,
    |xs[i] - y| <= |xs[j] - y| for all j, and i is the first index with that property *)
Lemma argmin_nearest_l (xs : list R) (y : R) :
  xs <> [] ->
  let i := argmin_absR xs y in
  (i < length xs)%nat /\
  (forall j, (j < length xs)%nat -> Rabs (nth i xs 0 - y) <= Rabs (nth j xs 0 - y)) /\
  (forall j, (j < i)%nat -> Rabs (nth i xs 0 - y) < Rabs (nth j xs 0 - y)).
Proof.
  intros Hne i. unfold i, argmin_abs.
  set (d := fun x : R => @fabs R ROps (@sub R ROps x y)).
  assert (Hd : forall k, nth k (map d xs) 0 = if lt_dec k (length xs) then Rabs (nth k xs 0 - y) else 0).
  { intros k. destruct (lt_dec k (length xs)) as [H|H].
    - rewrite (nth_indep _ 0 (d 0)) by (rewrite map_length; exact H).
      rewrite map_nth. unfold d. rewrite fabs_R. reflexivity.
    - apply nth_overflow. rewrite map_length. lia. }
  assert (Hne' : map d xs <> []) by (destruct xs; [congruence | discriminate]).
  destruct (argmin_spec (map d xs) Hne') as [Hk [Hmin Hfirst]].
  rewrite map_length in Hk, Hmin. split; [exact Hk|]. split.
  - intros j Hj. specialize (Hmin j Hj). rewrite !Hd in Hmin.
    destruct (lt_dec _ _); [|lia]. destruct (lt_dec j _); [|lia]. exact Hmin.
  - intros j Hj. specialize (Hfirst j Hj). rewrite !Hd in Hfirst.
    destruct (lt_dec (argminR (map d xs)) _); [|lia]. destruct (lt_dec j _); [|lia]. exact Hfirst.
Qed.

(** a tie is resolved towards the earlier grid value (what numpy does for a request exactly half way) *)
Example argmin_tie : argmin_absR [100; 200; 300] 150 = 0%nat.
Proof.
  destruct (argmin_nearest_l [100; 200; 300] 150 ltac:(discriminate)) as [H1 [H2 H3]].
  remember (argmin_absR [100; 200; 300] 150) as i eqn:E. clear E.
  destruct i as [|[|[|i]]]; [reflexivity | | | cbn in H1; lia]; exfalso.
  - specialize (H3 0%nat ltac:(lia)). cbn [nth] in H3.
    rewrite (Rabs_left (100 - 150)) in H3 by lra. rewrite (Rabs_right (200 - 150)) in H3 by lra. lra.
  - specialize (H2 1%nat ltac:(cbn; lia)). cbn [nth] in H2.
    replace (300 - 150) with 150 in H2 by lra. replace (200 - 150) with 50 in H2 by lra.
    rewrite !Rabs_right in H2 by lra. lra.
Qed.

(* ---------- alignment and extract ------------------------------------------------------- *)
Notation feqR := (@feq R ROps).
Lemma feqR_true a b : feqR a b = true <-> a = b.
Proof. unfold feq. rops. rewrite Ris0_true. split; intros; lra. Qed.

Lemma series_get_self (L V : list R) (k : nat) :
  NoDup L -> length V = length L -> (k < length L)%nat ->
  @series_get R ROps (nth k L 0) L V = Some (nth k V 0).
Proof.
  revert V k; induction L as [|l L IH]; intros V k ND HV Hk; [cbn in Hk; lia|].
  destruct V as [|v V]; [discriminate|]. cbn [series_get].
  destruct k as [|k].
  - cbn [nth]. replace (feqR l l) with true by (symmetry; apply feqR_true; reflexivity). reflexivity.
  - cbn [nth]. inversion ND as [|? ? Hn ND']; subst.
    destruct (feqR (nth k L 0) l) eqn:E.
    + apply feqR_true in E. exfalso. apply Hn. rewrite <- E. apply nth_In. cbn in Hk. lia.
    + apply IH; [exact ND' | cbn in HV; lia | cbn in Hk; lia].
Qed.

Lemma align_self (L V : list R) :
  NoDup L -> length V = length L -> @align R ROps L (L, V) = map Some V.
Proof.
  intros ND HV. unfold align. cbn [fst snd].
  apply nth_ext with (d := None) (d' := None).
  - rewrite !map_length. symmetry. exact HV.
  - intros k Hk. rewrite map_length in Hk.
    rewrite (nth_indep _ None ((fun x => @series_get R ROps x L V) 0)) by (rewrite map_length; exact Hk).
    rewrite (map_nth (fun x => @series_get R ROps x L V) L 0 k).
    rewrite series_get_self by assumption.
    rewrite (nth_indep _ None (Some 0)) by (rewrite map_length; lia).
    rewrite (map_nth Some V 0 k). reflexivity.
Qed.

Notation tableR := (@table R).
Notation selectR := (@select R ROps).
Notation orientR := (@orient R ROps).

(** the labels ("the other coordinate") and the selected line of one variable *)
Definition other_labels (s : @selector R) (t : tableR) : list R := t_cols (orientR s t).
Definition selected_line (s : @selector R) (t : tableR) : list R :=
  nth (@selected_index R ROps s t) (t_vals (orientR s t)) [].

(** well-formed for the selection: the selected line has one entry per label *)
Definition line_ok (s : @selector R) (t : tableR) : Prop :=
  length (selected_line s t) = length (other_labels s t).

(** extract_row_spec: for ANY number of variables whose tables carry the same labels L (no duplicates),
    the output is indexed by L and the output column of each variable is the selected table line verbatim;
    the line is row argmin|T - y| for -T and, after transposition, column argmin|P - y| for -P *)
Lemma extract_row_spec_l (s : @selector R) (tabs : list (string * tableR)) (L : list R) :
  tabs <> [] -> NoDup L ->
  (forall v t, In (v, t) tabs -> other_labels s t = L /\ line_ok s t) ->
  @extract R ROps s tabs = (L, map (fun vt => (fst vt, map Some (selected_line s (snd vt)))) tabs).
Proof.
  intros Hne ND Hall. unfold extract.
  assert (HX : match rev tabs with (_, t) :: _ => fst (selectR s t) | [] => [] end = L).
  { destruct (rev tabs) as [|[v t] r] eqn:E.
    - exfalso. apply Hne. rewrite <- (rev_involutive tabs), E. reflexivity.
    - assert (Hin : In (v, t) tabs) by (apply in_rev; rewrite E; left; reflexivity).
      destruct (Hall v t Hin) as [H1 _]. exact H1. }
  rewrite HX. f_equal. apply map_ext_in. intros [v t] Hin. cbn [fst snd].
  destruct (Hall v t Hin) as [H1 H2]. f_equal.
  unfold select. change (t_cols (orientR s t)) with (other_labels s t). rewrite H1.
  change (nth (@selected_index R ROps s t) (t_vals (orientR s t)) []) with (selected_line s t).
  apply align_self; [exact ND|]. unfold line_ok in H2. rewrite H2, H1. reflexivity.
Qed.

(** for -P the selected line is a COLUMN of the table as stored: entry r of the line is vals[r][i] *)
Lemma selected_line_P (y : R) (t : tableR) :
  t_cols t <> [] ->
  let i := argmin_absR (t_cols t) y in
  (i < length (t_cols t))%nat /\
  selected_line (AtP y) t = map (fun row => nth i row 0) (t_vals t) /\ other_labels (AtP y) t = t_idx t.
Proof.
  intros Hne i. destruct (argmin_nearest_l (t_cols t) y Hne) as [Hi _]. fold i in Hi.
  split; [exact Hi|]. split; [|reflexivity].
  unfold selected_line, selected_index, orient, transpose, sel_y. cbn [t_vals t_idx]. fold i.
  rewrite (nth_indep _ [] ((fun j => @column R ROps j (t_vals t)) 0%nat)) by (rewrite map_length, seq_length; exact Hi).
  rewrite (map_nth (fun j => @column R ROps j (t_vals t)) (seq 0 (length (t_cols t))) 0%nat i).
  rewrite seq_nth by exact Hi. reflexivity.
Qed.
Lemma selected_line_T (y : R) (t : tableR) :
  selected_line (AtT y) t = nth (argmin_absR (t_idx t) y) (t_vals t) [] /\ other_labels (AtT y) t = t_cols t.
Proof. split; reflexivity. Qed.

(* ---------- geotherm -------------------------------------------------------------------- *)
Section Geo.
  Context (spline : @spline_t R).

  (** geotherm_axes: with the defaults written in geotherm.py (--t-col "P", --p-col "T") the spline over
      (x = index = temperatures, y = columns = pressures) is evaluated at (T_geo, P_geo) *)
  Lemma geotherm_axes_l (geo : @frame R) (t : tableR) (Tg Pg : list R) :
    fget "T" geo = Some Tg -> fget "P" geo = Some Pg ->
    @geotherm_eval R spline default_t_col default_p_col geo t =
    Some (zipw (fun T P => spline (t_idx t) (t_cols t) (t_vals t) T P) Tg Pg).
  Proof. intros HT HP. unfold geotherm_eval, default_t_col, default_p_col. rewrite HT, HP. reflexivity. Qed.

  (** the option NAMES are the other way round: the column named by --t-col is fed to the PRESSURE axis and
      the one named by --p-col to the TEMPERATURE axis (the help strings say so too) *)
  Lemma geotherm_option_wiring (geo : @frame R) (t : tableR) (tc pc : string) (A B : list R) :
    fget tc geo = Some A -> fget pc geo = Some B ->
    @geotherm_eval R spline tc pc geo t =
    Some (zipw (fun x_temperature_axis y_pressure_axis =>
                  spline (t_idx t) (t_cols t) (t_vals t) x_temperature_axis y_pressure_axis) B A).
  Proof. intros HA HB. unfold geotherm_eval. rewrite HA, HB. reflexivity. Qed.

  Lemma fget_fset_other n m c (fr : @frame R) : n <> m -> fget n (fset m c fr) = fget n fr.
  Proof.
    intros Hnm. induction fr as [|[k c'] r IH]; cbn.
    - destruct (String.eqb_spec n m); [contradiction | reflexivity].
    - destruct (String.eqb_spec m k); cbn.
      + subst k. destruct (String.eqb_spec n m); [contradiction | reflexivity].
      + destruct (String.eqb_spec n k); [reflexivity | exact IH].
  Qed.
  Lemma fset_names_new m c (fr : @frame R) :
    ~ In m (map fst fr) -> fset m c fr = fr ++ [(m, c)].
  Proof.
    induction fr as [|[k c'] r IH]; cbn; [reflexivity|]. intros H.
    destruct (String.eqb_spec m k); [exfalso; apply H; left; auto|].
    rewrite IH; [reflexivity | intros Hin; apply H; right; exact Hin].
  Qed.

  (** geotherm_passthrough: when the variable names are new and distinct, the output frame is the geotherm's
      own columns, unchanged and in order, followed by one column per variable in the order requested *)
  Lemma geotherm_passthrough_l (tc pc : string) (tabs : list (string * tableR)) :
    forall (geo out : @frame R),
    NoDup (map fst geo ++ map fst tabs) ->
    @geotherm R spline tc pc geo tabs = Some out ->
    exists cols, out = geo ++ cols /\ map fst cols = map fst tabs.
  Proof.
    induction tabs as [|[v t] r IH]; intros geo out ND H; cbn in H.
    - inversion H; subst. exists []. rewrite app_nil_r. split; reflexivity.
    - destruct (geotherm_eval spline tc pc geo t) as [c|]; [|discriminate].
      assert (Hv : ~ In v (map fst geo)).
      { intros Hin. cbn in ND. apply NoDup_remove_2 in ND. apply ND. apply in_or_app. left. exact Hin. }
      rewrite (fset_names_new v c geo Hv) in H.
      apply IH in H.
      + destruct H as [cols [H1 H2]]. exists ((v, c) :: cols). split.
        * rewrite H1, <- app_assoc. reflexivity.
        * cbn. rewrite H2. reflexivity.
      + rewrite map_app. cbn [map fst]. rewrite <- app_assoc. cbn [app].
        cbn in ND.
        exact ND.
  Qed.

  (** the oracle contract: an interpolating spline reproduces the data at the grid nodes *)
  Definition interpolates_at_nodes : Prop :=
    forall xs ys z i j, NoDup xs -> NoDup ys -> (i < length xs)%nat -> (j < length ys)%nat ->
      spline xs ys z (nth i xs 0) (nth j ys 0) = nth j (nth i z []) 0.

  (** geotherm_at_nodes: under the contract, with the default options, a geotherm point that is the grid node
      (T_i, P_j) yields the table entry itself *)
  Lemma geotherm_at_nodes_l (geo : @frame R) (t : tableR) (Tg Pg : list R) (n i j : nat) :
    interpolates_at_nodes -> NoDup (t_idx t) -> NoDup (t_cols t) ->
    fget "T" geo = Some Tg -> fget "P" geo = Some Pg ->
    (n < length Tg)%nat -> (n < length Pg)%nat ->
    (i < length (t_idx t))%nat -> (j < length (t_cols t))%nat ->
    nth n Tg 0 = nth i (t_idx t) 0 -> nth n Pg 0 = nth j (t_cols t) 0 ->
    exists out, @geotherm_eval R spline default_t_col default_p_col geo t = Some out /\
      nth n out 0 = nth j (nth i (t_vals t) []) 0.
  Proof.
    intros C NDx NDy HT HP Hn1 Hn2 Hi Hj ET EP.
    rewrite (geotherm_axes_l geo t Tg Pg HT HP). eexists; split; [reflexivity|].
    assert (Z : forall (f : R -> R -> R) a b k, (k < length a)%nat -> (k < length b)%nat ->
              nth k (zipw f a b) 0 = f (nth k a 0) (nth k b 0)).
    { intros f a. induction a as [|x a IHa]; intros b k Ha Hb; [cbn in Ha; lia|].
      destruct b as [|y b]; [cbn in Hb; lia|]. destruct k; [reflexivity|].
      cbn. apply IHa; cbn in Ha, Hb; lia. }
    rewrite Z by assumption. rewrite ET, EP. apply C; assumption.
  Qed.
End Geo.

(** the contract is satisfiable (non-vacuity): "table lookup at matching labels" meets it *)
Definition lookup_spline : @spline_t R := fun xs ys z x y =>
  match @node_value R ROps (mkTable xs ys z) x y with Some v => v | None => 0 end.

Lemma index_of_nth (l : list R) (i : nat) :
  NoDup l -> (i < length l)%nat -> @index_of R ROps (nth i l 0) l = Some i.
Proof.
  revert i; induction l as [|a l IH]; intros i ND Hi; [cbn in Hi; lia|].
  inversion ND as [|? ? Hn ND']; subst. cbn [index_of]. destruct i as [|i]; cbn [nth].
  - replace (feqR a a) with true by (symmetry; apply feqR_true; reflexivity). reflexivity.
  - destruct (feqR (nth i l 0) a) eqn:E.
    + apply feqR_true in E. exfalso. apply Hn. rewrite <- E. apply nth_In. cbn in Hi. lia.
    + rewrite IH; [reflexivity | exact ND' | cbn in Hi; lia].
Qed.

Example contract_satisfiable : interpolates_at_nodes lookup_spline.
Proof.
  intros xs ys z i j NDx NDy Hi Hj. unfold lookup_spline, node_value. cbn [t_idx t_cols t_vals].
  rewrite (index_of_nth xs i NDx Hi), (index_of_nth ys j NDy Hj). reflexivity.
Qed.
