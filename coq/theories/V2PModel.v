(** C06 - model of the (T,V) -> (T,P) conversion.  No proofs here.

    Transcribed from
      qha 1.1.3  qha/tools.py : vectorized_find_nearest
                 qha/v2p.py   : _lagrange4, v2p
      cij        core/calculator.py  : CijPressureBaseInterface.{v2p, __getattr__, named properties, volumes},
                                       CijPressureBaseModulusInterface.__getitem__
                 core/qha_adapter.py : QHACalculator.desired_pressure_status,
                                       QHAVolumeBaseInterface.pressures, QHAPressureBaseInterface.{p_array, volumes}
                 qha/thermodynamics.py : volume  (V(T,P) = v2p of the volume grid repeated per temperature)

    Arrays are lists, matrices are lists of rows (one row per temperature).  Where the Python code
    raises (IndexError for fewer than 4 columns, ValueError from unpacking a short slice, ValueError of
    the range check) the model returns [None]; shapes that numpy would broadcast or silently truncate
    (row-count / column-count mismatch between the quantity and the pressure field) are also [None]:
    the model covers equal shapes only. *)
From Coq Require Import ZArith List Bool Arith.
From Cij Require Import Ops.
Import ListNotations.

Section V2PModel.
  Context {F : Type} {OF : Ops F}.
  Local Open Scope ops_scope.

  Definition nthF (l : list F) (i : nat) : F := nth i l zero.

  (** ** qha/tools.py : vectorized_find_nearest (one value)

<<
      n = len(array)
      if   values[i] <= array[0]:  result[i] = 0          # guard 1  (dead: overwritten below)
      elif values[i] >= array[-1]: result[i] = n - 2      # guard 2  (dead: overwritten below)
      j_low = 0; j_up = n - 1
      while j_up - j_low > 1:
          j_mid = (j_up + j_low) // 2
          if values[i] >= array[j_mid]: j_low = j_mid
          else:                         j_up  = j_mid
      result[i] = j_low                                   # unconditional
>>
      The loop is run on fuel; [length array] iterations are more than enough (V2P.bsearch_fuel). *)
  Fixpoint bsearch (fuel : nat) (arr : list F) (x : F) (lo up : nat) : nat :=
    match fuel with
    | O => lo
    | S fuel' =>
        if (1 <? up - lo)%nat then
          let mid := ((up + lo) / 2)%nat in
          if fleb (nthF arr mid) x then bsearch fuel' arr x mid up
          else bsearch fuel' arr x lo mid
        else lo
    end.

  (** what the two guard branches store (the third case leaves the caller's initial 0) *)
  Definition guard_result (arr : list F) (x : F) : nat :=
    if fleb x (nthF arr 0) then 0
    else if fleb (nthF arr (length arr - 1)%nat) x then (length arr - 2)%nat
    else 0.

  Definition find_nearest (arr : list F) (x : F) : nat :=
    let _overwritten := guard_result arr x in
    bsearch (length arr) arr x 0 (length arr - 1)%nat.

  (** ** qha/v2p.py : _lagrange4, same association of the operations *)
  Definition lagrange4 (x x0 x1 x2 x3 y0 y1 y2 y3 : F) : F :=
      (x - x1) * (x - x2) * (x - x3) / (x0 - x1) / (x0 - x2) / (x0 - x3) * y0
    + (x - x0) * (x - x2) * (x - x3) / (x1 - x0) / (x1 - x2) / (x1 - x3) * y1
    + (x - x0) * (x - x1) * (x - x3) / (x2 - x0) / (x2 - x1) / (x2 - x3) * y2
    + (x - x0) * (x - x1) * (x - x2) / (x3 - x0) / (x3 - x1) / (x3 - x2) * y3.

  (** ** qha/v2p.py : v2p *)

  (** [np.hstack((a[:, 3], a, a[:, -4]))] for one row (needs >= 4 columns, checked in [v2p_row]) *)
  Definition pad (row : list F) : list F :=
    nthF row 3 :: row ++ [nthF row (length row - 4)%nat].

  (** [a, b, c, d = ext[k-1 : k+3]]: the slice is empty for k = 0 (start -1 wraps to the end) and short
      for k+3 > len; both make the unpacking raise ValueError *)
  Definition window (ext : list F) (k : nat) : option (F * F * F * F) :=
    match k with
    | O => None
    | S k' => match skipn k' ext with
              | a :: b :: c :: d :: _ => Some (a, b, c, d)
              | _ => None
              end
    end.

  Definition v2p_point (ext_f ext_p : list F) (x : F) : option F :=
    let k := find_nearest ext_p x in
    match window ext_p k, window ext_f k with
    | Some (x0, x1, x2, x3), Some (y0, y1, y2, y3) => Some (lagrange4 x x0 x1 x2 x3 y0 y1 y2 y3)
    | _, _ => None
    end.

  Fixpoint mapM {A B} (f : A -> option B) (l : list A) : option (list B) :=
    match l with
    | [] => Some []
    | a :: t => match f a, mapM f t with
                | Some b, Some bt => Some (b :: bt)
                | _, _ => None
                end
    end.

  Definition v2p_row (frow prow pd : list F) : option (list F) :=
    if ((length prow <? 4) || negb (length frow =? length prow))%nat then None
    else mapM (v2p_point (pad frow) (pad prow)) pd.

  Fixpoint v2p (f p : list (list F)) (pd : list F) : option (list (list F)) :=
    match f, p with
    | [], [] => Some []
    | fr :: ft, pr :: pt =>
        match v2p_row fr pr pd, v2p ft pt pd with
        | Some r, Some rt => Some (r :: rt)
        | _, _ => None
        end
    | _, _ => None
    end.

  (** index-only view, for the exact comparison with vectorized_find_nearest *)
  Definition find_nearest_all (arr values : list F) : list nat := map (find_nearest arr) values.

  (** ** cij layer *)

  (** what CijPressureBaseInterface reads from the QHA adapter *)
  Record qha_view := {
    vb_pressures : list (list F);   (* qha_calculator.volume_base.pressures   = p_tv_au   *)
    vb_v_array   : list F;          (* qha_calculator.volume_base.v_array     = finer_volumes_bohr3 *)
    pb_p_array   : list F;          (* qha_calculator.pressure_base.p_array   = desired_pressures *)
  }.

  (** CijPressureBaseInterface.v2p, .__getattr__(name), every named property, and
      CijPressureBaseModulusInterface.__getitem__:  v2p(<volume-base quantity of the same name>,
      QHA pressure field, requested grid) *)
  Definition pressure_base (c : qha_view) (volume_base_quantity : list (list F)) : option (list (list F)) :=
    v2p volume_base_quantity (vb_pressures c) (pb_p_array c).

  (** QHAPressureBaseInterface.volumes = qha.thermodynamics.volume(v_array, desired, p_tv) *)
  Definition pb_volumes (c : qha_view) : option (list (list F)) :=
    v2p (repeat (vb_v_array c) (length (vb_pressures c))) (vb_pressures c) (pb_p_array c).

  (** ** qha_adapter.py : QHACalculator.desired_pressure_status
<<
      if self.p_tv_gpa[:, -1].min() < self.desired_pressures_gpa.max(): raise ValueError
>>
      [Some true] = accepted, [Some false] = ValueError, [None] = numpy raises on empty input.
      [a < b] is modelled as [negb (b <= a)] (equal on non-NaN data). *)
  Definition flt (a b : F) : bool := negb (fleb b a).
  Definition fmin2 (a b : F) : F := if fleb a b then a else b.
  Definition fmax2 (a b : F) : F := if fleb a b then b else a.
  Definition min_list (l : list F) : option F :=
    match l with [] => None | a :: t => Some (fold_left fmin2 t a) end.
  Definition max_list (l : list F) : option F :=
    match l with [] => None | a :: t => Some (fold_left fmax2 t a) end.
  Definition last_col (m : list (list F)) : list F := map (fun row => nthF row (length row - 1)%nat) m.

  Definition pressure_status (p_tv : list (list F)) (desired : list F) : option bool :=
    match min_list (last_col p_tv), max_list desired with
    | Some lo, Some hi => Some (negb (flt lo hi))
    | _, _ => None
    end.

  (** what QHACalculatorAdapter._load_qha_calculator + CijPressureBaseInterface do together:
      the range check comes first (on the GPa copies of field and grid), then the conversion *)
  Definition checked_pressure_base (c : qha_view) (p_tv_gpa : list (list F)) (desired_gpa : list F)
             (q : list (list F)) : option (list (list F)) :=
    match pressure_status p_tv_gpa desired_gpa with
    | Some true => pressure_base c q
    | _ => None
    end.
End V2PModel.
