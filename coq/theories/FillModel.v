(** Model of cij/util/fill.py : fill_cij (no proofs here).
    Numeric core: rows A = [unit rows of the supplied symbols (column order of the table);
    relation rows], b per volume = [supplied values; 0]; numpy.linalg.lstsq is modelled by the
    (minimum-norm) normal-equation solution x = N A^T b with N = (A^T A + K^T K)^-1, K a basis
    of ker A.  N and K come from an UNVERIFIED Gauss-Jordan elimination over Q below and are
    only used through boolean certificate checks ([determines], [underdetermined], ...).
    The matrices are rational; the table values live in any [Rng T] (Q for the executable
    tie, R for the theorems) into which Q is injected by [inj]. *)
From Coq Require Import QArith List Bool Arith String Ascii.
From Cij Require Import LinSum Q3.
Import ListNotations.

(* ---- unverified Gauss-Jordan over Q ---------------------------------------------------- *)
Definition qnth (r : list Q) (j : nat) : Q := nth j r 0%Q.
Fixpoint zipq (f : Q -> Q -> Q) (a b : list Q) : list Q :=
  match a, b with x :: a', y :: b' => f x y :: zipq f a' b' | _, _ => [] end.
Definition row_sub (r : list Q) (f : Q) (p : list Q) : list Q := zipq (fun x y => Qred (x - f * y)) r p.
Fixpoint find_pivot (c : nat) (rows : list (list Q)) : option (list Q * list (list Q)) :=
  match rows with
  | [] => None
  | r :: t => if Qeq_bool (qnth r c) 0 then
                match find_pivot c t with Some (p, t') => Some (p, r :: t') | None => None end
              else Some (r, t)
  end.
(** returns (pivot rows in pivot order, remaining rows, pivot columns) *)
Fixpoint gj (cols : list nat) (done rest : list (list Q)) (piv : list nat)
  : list (list Q) * list (list Q) * list nat :=
  match cols with
  | [] => (done, rest, piv)
  | c :: cs =>
      match find_pivot c rest with
      | None => gj cs done rest piv
      | Some (p, rest') =>
          let d := qnth p c in
          let p' := map (fun x => Qred (x / d)) p in
          let elim r := let f := qnth r c in if Qeq_bool f 0 then r else row_sub r f p' in
          gj cs (map elim done ++ [p']) (map elim rest') (piv ++ [c])
      end
  end.
Definition nmem (x : nat) (l : list nat) : bool := existsb (Nat.eqb x) l.
(** kernel basis of A (n columns) from its reduced row echelon form *)
Definition kernel_basis (n : nat) (A : list (list Q)) : list (list Q) :=
  let '(done, _, piv) := gj (seq 0 n) [] A [] in
  map (fun f => map (fun j =>
         if (j =? f)%nat then 1%Q
         else match find (fun ip => (snd ip =? j)%nat) (combine done piv) with
              | Some (r, _) => Qopp (qnth r f)
              | None => 0%Q
              end) (seq 0 n))
      (filter (fun f => negb (nmem f piv)) (seq 0 n)).
(** inverse of a square n x n matrix (garbage if singular - only used through checks) *)
Definition inverse (n : nat) (G : list (list Q)) : list (list Q) :=
  let aug := map (fun ir => snd ir ++ unitv n (fst ir)) (combine (seq 0 n) G) in
  let '(done, _, _) := gj (seq 0 n) [] aug [] in
  map (skipn n) done.

(* ---- the linear system of fill_cij ------------------------------------------------------ *)
Definition NS : nat := 21.
Definition Amat (sup : list nat) (rel : list (list Q)) : list (list Q) := map (unitv NS) sup ++ rel.
Definition gram (A : list (list Q)) : list (list Q) := matmul (transpose NS A) A.
Definition Kmat (sup : list nat) (rel : list (list Q)) : list (list Q) := kernel_basis NS (Amat sup rel).
Definition Nmat (sup : list nat) (rel : list (list Q)) : list (list Q) :=
  inverse NS (gram (Amat sup rel ++ Kmat sup rel)).
(** P = N A^T  (21 x m): the solution operator of the normal equations *)
Definition Pmat (sup : list nat) (rel : list (list Q)) : list (list Q) :=
  matmul (Nmat sup rel) (transpose NS (Amat sup rel)).

(** certificate checks *)
Definition determines (sup : list nat) (rel : list (list Q)) : bool :=
  rows_eqb (matmul (Pmat sup rel) (Amat sup rel)) (ident NS).
Definition underdetermined (sup : list nat) (rel : list (list Q)) : bool :=
  match Kmat sup rel with
  | y :: _ => is_zero_vec (matvec (Amat sup rel) y) && negb (is_zero_vec y) && (List.length y =? NS)%nat
  | [] => false
  end.
(** A^T A P = A^T : the model solution satisfies the normal equations for EVERY right-hand side *)
Definition normal_eq_ok (sup : list nat) (rel : list (list Q)) : bool :=
  rows_eqb (matmul (gram (Amat sup rel)) (Pmat sup rel)) (transpose NS (Amat sup rel)).
(** K P = 0 : the model solution is orthogonal to the kernel (minimum norm), and A K^T = 0 *)
Definition min_norm_ok (sup : list nat) (rel : list (list Q)) : bool :=
  forallb (fun y => is_zero_vec (matvec (Amat sup rel) y)) (Kmat sup rel) &&
  forallb is_zero_vec (matmul (Kmat sup rel) (Pmat sup rel)).
(** square full-rank systems are solved exactly: A P = I_m *)
Definition square_exact_ok (sup : list nat) (rel : list (list Q)) : bool :=
  rows_eqb (matmul (Amat sup rel) (Pmat sup rel)) (ident (List.length (Amat sup rel))).

(* ---- labels ---------------------------------------------------------------------------- *)
Definition lower_ascii (c : ascii) : ascii :=
  let n := nat_of_ascii c in if (65 <=? n)%nat && (n <=? 90)%nat then ascii_of_nat (n + 32) else c.
Fixpoint lower (s : string) : string :=
  match s with EmptyString => EmptyString | String c r => String (lower_ascii c) (lower r) end.
Definition is_digit (c : ascii) : bool := let n := nat_of_ascii c in (48 <=? n)%nat && (n <=? 57)%nat.
(** re.search(r"c(\d)(\d)", s) *)
Fixpoint has_cdd (s : string) : bool :=
  match s with
  | String c ((String d1 (String d2 _)) as r) =>
      (Ascii.eqb c "c" && is_digit d1 && is_digit d2) || has_cdd r
  | _ => false
  end.
Definition sym_name (ij : nat * nat) : string :=
  String "c" (String (ascii_of_nat (48 + fst ij)) (String (ascii_of_nat (48 + snd ij)) EmptyString)).
Definition keys21n : list (nat * nat) :=
  [(1,1);(1,2);(1,3);(1,4);(1,5);(1,6);(2,2);(2,3);(2,4);(2,5);(2,6);
   (3,3);(3,4);(3,5);(3,6);(4,4);(4,5);(4,6);(5,5);(5,6);(6,6)]%nat.
Definition sym_names : list string := map sym_name keys21n.
Fixpoint index_of (s : string) (l : list string) (i : nat) : option nat :=
  match l with [] => None | x :: r => if String.eqb s x then Some i else index_of s r (S i) end.
(** list(symbols.keys()).index(sym) *)
Definition sym_index (s : string) : option nat := index_of s sym_names 0.

Inductive kind := RankWarning | ResidualWarning | ValueErr | IndexErr | FileNotFound.
Definition kind_eqb (a b : kind) : bool :=
  match a, b with
  | RankWarning, RankWarning | ResidualWarning, ResidualWarning | ValueErr, ValueErr
  | IndexErr, IndexErr | FileNotFound, FileNotFound => true
  | _, _ => false
  end.

(** how the residuals used by the refusal test are obtained.
    [NumpyResiduals]: as returned by numpy.linalg.lstsq - EMPTY unless rank = 21 and rows > 21.
    [ComputedResiduals]: computed from a @ x - b for every volume (the planned repair of D12). *)
Inductive variant := NumpyResiduals | ComputedResiduals.
(** default used by the C08 shards (consistent, determining tables: both forms agree).  C09
    does not use it: tools/props/c09.py classifies fill.py on every run into Gen_fill.v. *)
Definition current_variant : variant := ComputedResiduals.

(** relations lookup (repaired form): Path(system).is_file() -> that file, else packaged file *)
Record env := {
  is_file : string -> bool;                       (* relative to the cwd; false for directories *)
  file_rel : string -> list (list Q);             (* parsed content of a user-written relations file *)
  packaged : string -> option (list (list Q));    (* cij/data/constraints/<name> *)
}.
Definition lookup (e : env) (system : string) : option (list (list Q)) :=
  if is_file e system then Some (file_rel e system) else packaged e system.

Section Fill.
  Context {T : Type} {RT : Rng T} (inj : Q -> T) (leb : T -> T -> bool).

  Definition table := list (string * list T).
  Inductive result := Ok (t : table) | Raise (k : kind).
  Record opts := { ign_res : bool; ign_rank : bool; drop_atol : T; resid_atol : T }.

  Definition tabs (x : T) : T := if leb r0 x then x else ropp x.
  Definition injm (M : list (list Q)) : list (list T) := map (map inj) M.

  (** scan of the columns: Some (indices, value columns) or ValueError *)
  Fixpoint scan (t : table) : option (list nat * list (list T)) :=
    match t with
    | [] => Some ([], [])
    | (lab, vals) :: r =>
        let s := lower lab in
        if has_cdd s then
          match sym_index s, scan r with
          | Some i, Some (sup, B) => Some (i :: sup, vals :: B)
          | _, _ => None
          end
        else scan r
    end.
  (** left-to-right: the first offending label raises; a later one is never reached.  The
      result is the same ([ValueErr]) either way, so [scan] need not track the order. *)

  Definition nvol (B : list (list T)) : nat := match B with c :: _ => List.length c | [] => 0 end.
  (** right-hand side for volume v: supplied values then zeros *)
  Definition rhs (B : list (list T)) (nrel : nat) (v : nat) : list T :=
    map (fun c => nth v c r0) B ++ repeat r0 nrel.
  Definition solve (sup : list nat) (rel : list (list Q)) (b : list T) : list T :=
    matvec (injm (Pmat sup rel)) b.
  Definition residual_vec (sup : list nat) (rel : list (list Q)) (b : list T) : list T :=
    vsub (matvec (injm (Amat sup rel)) (solve sup rel b)) b.
  Definition residual (sup : list nat) (rel : list (list Q)) (b : list T) : T :=
    sumsq (residual_vec sup rel b).

  (** which residuals the refusal test sees *)
  Definition residuals_seen (var : variant) (sup : list nat) (rel : list (list Q)) (bs : list (list T)) : list T :=
    match var with
    | ComputedResiduals => map (residual sup rel) bs
    | NumpyResiduals =>
        if determines sup rel && (NS <? List.length (Amat sup rel))%nat then map (residual sup rel) bs else []
    end.
  Definition gtb (x y : T) : bool := negb (leb x y).

  (** write-back: for each of the 21 symbols, first column whose lower-cased label is the
      symbol, else a new column named by the (lower-case) symbol, appended *)
  Fixpoint set_first (name : string) (vals : list T) (t : table) : option table :=
    match t with
    | [] => None
    | (lab, old) :: r =>
        if String.eqb (lower lab) name then Some ((lab, vals) :: r)
        else match set_first name vals r with Some r' => Some ((lab, old) :: r') | None => None end
    end.
  Definition write_col (t : table) (name : string) (vals : list T) : table :=
    match set_first name vals t with Some t' => t' | None => t ++ [(name, vals)] end.
  Definition write_back (t : table) (xs : list (list T)) : table :=
    fold_left (fun acc ix => write_col acc (fst ix) (map (fun x => nth (snd ix) x r0) xs))
              (combine sym_names (seq 0 NS)) t.
  (** drop loop (repaired form): `if index.lower() not in symbols: continue`, then
      numpy.allclose(col, 0, atol=drop_atol) - only tensor components are dropped *)
  Definition is_sym (s : string) : bool := existsb (String.eqb s) sym_names.
  Definition droppable (o : opts) (vals : list T) : bool := forallb (fun x => leb (tabs x) (drop_atol o)) vals.
  Definition drop_cols (o : opts) (t : table) : table :=
    filter (fun c => negb (is_sym (lower (fst c)) && droppable o (snd c))) t.

  Definition fill_with (var : variant) (o : opts) (rel : list (list Q)) (t : table) : result :=
    match scan t with
    | None => Raise ValueErr
    | Some (sup, B) =>
        match rel with
        | [] => Ok t                                  (* `if len(eqns) == 0: return elast` *)
        | _ :: _ =>
            match sup with
            | [] => Raise IndexErr                    (* b.shape[1] of an empty 1-d array *)
            | _ :: _ =>
                let bs := map (rhs B (List.length rel)) (seq 0 (nvol B)) in
                let xs := map (solve sup rel) bs in
                if negb (determines sup rel) && negb (ign_rank o) then Raise RankWarning
                else if existsb (fun r => gtb r (resid_atol o)) (residuals_seen var sup rel bs)
                        && negb (ign_res o) then Raise ResidualWarning
                else Ok (drop_cols o (write_back t xs))
            end
        end
    end.

  (** the same function with the solution operator computed once (what the case shards run);
      Fill.v proves [fill_with_fast = fill_with] by conversion *)
  Definition fill_with_fast (var : variant) (o : opts) (rel : list (list Q)) (t : table) : result :=
    match scan t with
    | None => Raise ValueErr
    | Some (sup, B) =>
        match rel with
        | [] => Ok t
        | _ :: _ =>
            match sup with
            | [] => Raise IndexErr
            | _ :: _ =>
                let A := Amat sup rel in
                let P := Pmat sup rel in
                let det := rows_eqb (matmul P A) (ident NS) in
                let Pt := injm P in
                let At := injm A in
                let bs := map (rhs B (List.length rel)) (seq 0 (nvol B)) in
                let xs := map (matvec Pt) bs in
                let res := map (fun b => sumsq (vsub (matvec At (matvec Pt b)) b)) bs in
                let seen := match var with
                            | ComputedResiduals => res
                            | NumpyResiduals => if det && (NS <? List.length A)%nat then res else []
                            end in
                if negb det && negb (ign_rank o) then Raise RankWarning
                else if existsb (fun r => gtb r (resid_atol o)) seen && negb (ign_res o) then Raise ResidualWarning
                else Ok (drop_cols o (write_back t xs))
            end
        end
    end.

  Definition fill_cij (var : variant) (o : opts) (e : env) (system : option string) (t : table) : result :=
    match system with
    | None => Ok t
    | Some s => match scan t with
                | None => Raise ValueErr            (* raised in the column loop, before the lookup *)
                | Some _ => match lookup e s with
                            | None => Raise FileNotFound
                            | Some rel => fill_with var o rel t
                            end
                end
    end.
End Fill.

Arguments Ok {T} t.
Arguments Raise {T} k.
