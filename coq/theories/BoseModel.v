(** C12 model part (no proofs here): value-class predicates on IEEE binary64 used by the
    class-aware comparison of the non-shear tables. *)
From Coq Require Import List Bool ZArith PrimFloat.
From Cij Require Import Ops FOps NonShearModel.
Import ListNotations.

(** [Q1_neg]/[Q2_neg] (the exp(-Q) forms of the repaired code) and [Q1_exp]/[Q2_exp] live in
    NonShearModel.v. *)

(** IEEE value class of a float *)
Definition finite (x : float) : bool :=
  match classify x with VFin => true | _ => false end.
Definition all_finite (l : list float) : bool := forallb finite l.
Definition all_finite2 (l : list (list float)) : bool := forallb all_finite l.

(** same class, and equal up to [c] where both are finite *)
Definition cclose (c : float -> float -> bool) (a b : float) : bool :=
  vclass_eqb (classify a) (classify b) && (if finite a then c a b else true).

(** largest finite magnitude of a table (NaN and inf entries are skipped) *)
Definition maxabs_fin (l : list (list float)) : float :=
  fold_right (fun r acc =>
     fold_right (fun x a => if finite x then (if (a <? abs x)%float then abs x else a) else a) acc r)
     0%float l.
