(** C14 - a dependency graph with a checked topological rank satisfies the hypothesis [deps_lt]
    of the memoisation theorems of Memo.v.

    [tools/translate_lazy.py] extracts from the cij sources, on every run, the graph
    "producer p reads producers ds" of all @LazyProperty / @property methods (file Gen_lazy.v:
    [lazy_graph : graph], ids in source order) and SEARCHES a rank function; Coq only CHECKS it
    ([rank_ok], a closed boolean, by [vm_compute]).  The lemmas below turn the checked boolean into
      - [rank_ok_deps_lt]   : the hypothesis [forall n m, In m (deps n) -> m < n] of
                              memo_refines_pure_l / read_history_independent_l / instances_isolated_l
                              for [deps := ranked_deps rank g] (producers named by their rank),
      - [ranked_deps_faithful] : [ranked_deps] IS the extracted graph (no producer is lost or merged),
      - [rank_ok_acyclic]   : no producer reaches itself through one or more reads.
    A cycle in the extracted graph admits no rank: the per-run certificate then fails. *)
From Coq Require Import List Arith Bool Lia Relations.
From Cij Require Import RulesModel MemoModel Memo.
Import ListNotations.

Definition graph := list (nat * list nat).

(** the certificate checked on every run *)
Definition rank_ok (rank : nat -> nat) (g : graph) : bool :=
  forallb (fun pd : nat * list nat => forallb (fun d => rank d <? rank (fst pd)) (snd pd)) g.

(** every dependency is a node of the graph; node ids and node ranks are pairwise different *)
Definition memb (n : nat) (l : list nat) : bool := existsb (Nat.eqb n) l.
Fixpoint nodupb (l : list nat) : bool :=
  match l with [] => true | x :: r => negb (memb x r) && nodupb r end.
Definition closed_graph (g : graph) : bool :=
  forallb (fun pd : nat * list nat => forallb (fun d => memb d (map fst g)) (snd pd)) g.
Definition well_formed (rank : nat -> nat) (g : graph) : bool :=
  closed_graph g && nodupb (map fst g) && nodupb (map (fun pd : nat * list nat => rank (fst pd)) g).

(** the [deps] function of the memo model: producers are NAMED BY THEIR RANK *)
Definition by_rank (rank : nat -> nat) (g : graph) (n : nat) : option (nat * list nat) :=
  find (fun pd : nat * list nat => rank (fst pd) =? n) g.
Definition ranked_deps (rank : nat -> nat) (g : graph) : name -> list name :=
  fun n => match by_rank rank g n with Some pd => map rank (snd pd) | None => [] end.

(** one read: producer [p] reads producer [d] *)
Definition edge (g : graph) (p d : nat) : Prop := exists ds, In (p, ds) g /\ In d ds.

Lemma rank_ok_edge rank g : rank_ok rank g = true -> forall p d, edge g p d -> rank d < rank p.
Proof.
  intros H p d [ds [Hin Hd]]. unfold rank_ok in H. rewrite forallb_forall in H.
  specialize (H _ Hin). cbn [fst snd] in H. rewrite forallb_forall in H.
  apply Nat.ltb_lt. exact (H _ Hd).
Qed.

(** ** the hypothesis of the Memo.v theorems *)
Theorem rank_ok_deps_lt : forall rank g, rank_ok rank g = true ->
  forall n m, In m (ranked_deps rank g n) -> m < n.
Proof.
  intros rank g H n m. unfold ranked_deps, by_rank.
  destruct (find _ g) as [[p ds]|] eqn:E; [|intros []].
  destruct (find_some _ _ E) as [Hin Hn]. cbn [fst snd] in *. apply Nat.eqb_eq in Hn. subst n.
  intros Hm. apply in_map_iff in Hm. destruct Hm as [d [<- Hd]].
  apply (rank_ok_edge rank g H). exists ds. split; assumption.
Qed.

(** ** acyclicity *)
Theorem rank_ok_acyclic : forall rank g, rank_ok rank g = true ->
  forall p, ~ clos_trans nat (edge g) p p.
Proof.
  intros rank g H.
  assert (L : forall p q, clos_trans nat (edge g) p q -> rank q < rank p).
  { intros p q Hc. induction Hc as [p q He | p q r _ IH1 _ IH2].
    - exact (rank_ok_edge rank g H p q He).
    - lia. }
  intros p Hc. specialize (L p p Hc). lia.
Qed.

(** ** faithfulness: looking a producer up by its rank returns ITS dependency list *)
Lemma memb_In n l : memb n l = true <-> In n l.
Proof.
  unfold memb. rewrite existsb_exists. split.
  - intros [x [Hx E]]. apply Nat.eqb_eq in E. subst x. exact Hx.
  - intros Hn. exists n. split; [exact Hn | apply Nat.eqb_refl].
Qed.
Lemma nodupb_NoDup l : nodupb l = true -> NoDup l.
Proof.
  induction l as [|x r IH]; cbn [nodupb]; intros H; [constructor|].
  apply andb_true_iff in H. destruct H as [H1 H2]. constructor; [|exact (IH H2)].
  intros Hin. apply memb_In in Hin. rewrite Hin in H1. discriminate.
Qed.
Theorem ranked_deps_faithful : forall rank g, well_formed rank g = true ->
  forall p ds, In (p, ds) g -> ranked_deps rank g (rank p) = map rank ds.
Proof.
  intros rank g W p ds Hin. unfold well_formed in W.
  apply andb_true_iff in W. destruct W as [_ W]. apply nodupb_NoDup in W.
  unfold ranked_deps, by_rank.
  induction g as [|[q es] r IH]; [destruct Hin|].
  cbn [map fst] in W. inversion W as [|x l Hnot Hnd]; subst.
  cbn [find fst]. destruct Hin as [E|Hin].
  - injection E as -> ->. rewrite Nat.eqb_refl. reflexivity.
  - destruct (Nat.eqb_spec (rank q) (rank p)) as [Heq|Hne].
    + exfalso. apply Hnot. rewrite Heq.
      change (rank p) with ((fun pd : nat * list nat => rank (fst pd)) (p, ds)). apply in_map. exact Hin.
    + apply IH; assumption.
Qed.
(** every dependency of a node is again a node (so its own reads are recorded too) *)
Theorem closed_graph_spec : forall rank g, well_formed rank g = true ->
  forall p d, edge g p d -> exists es, In (d, es) g.
Proof.
  intros rank g W p d [ds [Hin Hd]]. unfold well_formed in W.
  apply andb_true_iff in W. destruct W as [W _]. apply andb_true_iff in W. destruct W as [W _].
  unfold closed_graph in W. rewrite forallb_forall in W. specialize (W _ Hin). cbn [snd] in W.
  rewrite forallb_forall in W. specialize (W _ Hd). apply memb_In in W.
  apply in_map_iff in W. destruct W as [[d' es] [E Hin']]. cbn [fst] in E. subst d'. exists es. exact Hin'.
Qed.

(** ** the generic theorems of Memo.v, instantiated at a graph with a checked rank *)
Section Instantiated.
  Variable rank : nat -> nat.
  Variable g : graph.
  Hypothesis cert : rank_ok rank g = true.
  Let deps := ranked_deps rank g.

  Theorem graph_memo_refines_pure : forall (V : Type) (body : name -> list V -> V) ns c,
    inv V deps body c ->
    fst (run V deps body ns c) = map (eval V deps body) ns /\
    sound V deps body (snd (run V deps body ns c)) /\
    NoDup (map fst (snd (run V deps body ns c))) /\
    Memo.extends V c (snd (run V deps body ns c)) /\
    (forall n, In n ns -> cget V n (snd (run V deps body ns c)) = eval V deps body n).
  Proof using cert. intros V body. exact (memo_refines_pure_l V deps body (rank_ok_deps_lt rank g cert)). Qed.

  Theorem graph_read_history_independent : forall (V : Type) (body : name -> list V -> V) h1 h2 n,
    fst (get V deps body n (snd (run V deps body h1 []))) =
    fst (get V deps body n (snd (run V deps body h2 []))).
  Proof using cert. intros V body. exact (read_history_independent_l V deps body (rank_ok_deps_lt rank g cert)). Qed.

  (** two instances of the same classes (two Calculators with their own data [bodyA], [bodyB]) *)
  Theorem graph_instances_isolated : forall (V : Type) (bodyA bodyB : name -> list V -> V) h cA cB,
    inv V deps bodyA cA -> inv V deps bodyB cB ->
    fst (run2 V deps deps bodyA bodyB h cA cB) = map (eval2 V deps deps bodyA bodyB) h /\
    inv V deps bodyA (fst (snd (run2 V deps deps bodyA bodyB h cA cB))) /\
    inv V deps bodyB (snd (snd (run2 V deps deps bodyA bodyB h cA cB))).
  Proof using cert.
    intros V bodyA bodyB.
    exact (instances_isolated_l V deps deps bodyA bodyB (rank_ok_deps_lt rank g cert) (rank_ok_deps_lt rank g cert)).
  Qed.
End Instantiated.

(** non-vacuity / the certificate rejects cycles *)
Example rank_example :
  let g := [(0, [1; 2]); (1, [2]); (2, [])] in
  let rank := fun n => 2 - n in
  rank_ok rank g = true /\ well_formed rank g = true /\ ranked_deps rank g 2 = [1; 0].
Proof. vm_compute. auto. Qed.
Example cycle_has_no_rank : forall rank, rank_ok rank [(0, [1]); (1, [0])] = false.
Proof.
  intros rank. destruct (rank_ok rank [(0, [1]); (1, [0])]) eqn:E; [exfalso|reflexivity].
  apply (rank_ok_acyclic rank _ E 0). apply t_trans with 1; apply t_step.
  - exists [1]. cbn. auto.
  - exists [0]. cbn. auto.
Qed.
Example self_read_has_no_rank : forall rank, rank_ok rank [(0, [0])] = false.
Proof.
  intros rank. destruct (rank_ok rank [(0, [0])]) eqn:E; [exfalso|reflexivity].
  apply (rank_ok_acyclic rank _ E 0). apply t_step. exists [0]. cbn. auto.
Qed.
