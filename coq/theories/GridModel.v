(** C15 - the grids and the table writers.
    qha.tools.arange / qha.calculator.Calculator.{temperature_array, desired_pressures_gpa, desired_pressures},
    qha.basic_io.out.{save_x_tp, save_x_tv} as called by cij's write_table of both bases.
    Written once over [Ops F]; definitions only. *)
From Coq Require Import ZArith List.
From Cij Require Import Ops.
Import ListNotations.

(** df.iloc[:-n] *)
Definition drop_last {A} (n : nat) (l : list A) : list A := firstn (length l - n) l.

Section Grid.
  Context {F : Type} {OF : Ops F}.
  Local Open Scope ops_scope.

  Definition grid_point (start step : F) (n : nat) : F := start + step * ofZ (Z.of_nat n).
  (** qha.tools.arange(start, num, step) = [start + step * n for n in range(num)] *)
  Definition arange (start : F) (num : nat) (step : F) : list F := map (grid_point start step) (seq 0 num).

  (** Calculator.temperature_array: NT + 4 entries (4 guard rows for the finite differences) *)
  Definition temperature_array (t_min : F) (nt : nat) (dt : F) : list F := arange t_min (nt + 4) dt.
  Definition desired_pressures_gpa (p_min : F) (ntv : nat) (delta_p : F) : list F := arange p_min ntv delta_p.
  (** desired_pressures = gpa_to_ry_b3(desired_pressures_gpa): multiplication by the qha factor [b] *)
  Definition desired_pressures (b : F) (p_min : F) (ntv : nat) (delta_p : F) : list F :=
    map (fun x => x * b) (desired_pressures_gpa p_min ntv delta_p).

  Record table := mkTable { t_rows : list F; t_cols : list F; t_vals : list (list F) }.

  (** CijPressureBaseInterface.write_table -> save_x_tp(value, t_array, _to_gpa(p_array), same, fname):
      DataFrame(value, index = t, columns = p).iloc[:-4, :]; the column filter isin(p) keeps every column.
      [a] is the pint factor Ry/bohr^3 -> GPa. *)
  Definition written_tp (a : F) (t_array p_array : list F) (value : list (list F)) : table :=
    mkTable (drop_last 4 t_array) (map (fun x => x * a) p_array) (drop_last 4 value).
  (** CijVolumeBaseInterface.write_table -> save_x_tv(value, t_array, _to_ang3(v_array), t_array, fname):
      .iloc[:-4, :], the row filter isin(t[:-4]) keeps every remaining row.  [c]: bohr^3 -> A^3. *)
  Definition written_tv (c : F) (t_array v_array : list F) (value : list (list F)) : table :=
    mkTable (drop_last 4 t_array) (map (fun x => x * c) v_array) (drop_last 4 value).

  (** convert(variable): every entry times the unit factor *)
  Definition convert (f : F) (value : list (list F)) : list (list F) := map (map (fun x => x * f)) value.

  Definition t_labels (t_min : F) (nt : nat) (dt : F) : list F := drop_last 4 (temperature_array t_min nt dt).
  Definition p_labels (a b : F) (p_min : F) (ntv : nat) (delta_p : F) : list F :=
    t_cols (written_tp a [] (desired_pressures b p_min ntv delta_p) []).
End Grid.
