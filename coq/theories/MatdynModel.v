(** C20 - model of cij/misc/evec_load.py (parser) and of the matdyn.x eigenvector
    layout (printer).  No proofs here.

    A file is a list of lines (the harness splits at "\n" exactly as Python's file
    iteration does; [strip] removes the newline together with other whitespace).
    A decimal numeral is kept as its digits: (negative?, integer digits, fraction
    digits) - "the printed value"; [num_val] gives mantissa and scale.

    regexes (Python [re], str patterns; ASCII subset modelled; written here with a blank
    between a star and a closing parenthesis so that the Coq comment stays open):
      Q_COORDS_REGEX   q\s*=\s*(-?\d+\.?\d* )\s+(-?\d+\.?\d* )\s+(-?\d+\.?\d* )
      MODE_INDEX_REGEX freq\s*\(\s*(\d+)\)\s*=\s*(-?\d+\.?\d* )\s*\[THz\]\s*=\s*(-?\d+\.?\d* )\s*\[cm\-1\]
    are matched by a backtracking matcher with Python's semantics for this fragment
    (greedy quantifiers over one-character classes, longest count first, leftmost start
    first, groups = first successful path).
    [float(...)] / [int(...)] are modelled on plain decimals only (optional sign, digits,
    optional point, digits, surrounding whitespace); anything else is [None]. *)
From Coq Require Import Ascii String List Arith Bool NArith.
Import ListNotations.
Local Open Scope list_scope.

Definition line := list ascii.
Definition lit (s : string) : line := list_ascii_of_string s.

(** str.isspace / regex \s on ASCII: 9-13, 28-32 *)
Definition is_space (c : ascii) : bool :=
  let n := nat_of_ascii c in ((9 <=? n) && (n <=? 13)) || ((28 <=? n) && (n <=? 32)).
Definition is_digit (c : ascii) : bool :=
  let n := nat_of_ascii c in (48 <=? n) && (n <=? 57).
Definition is_c (a : ascii) (c : ascii) : bool := Ascii.eqb a c.

Fixpoint dropw (s : line) : line :=
  match s with c :: r => if is_space c then dropw r else s | [] => [] end.
Definition strip (s : line) : line := rev (dropw (rev (dropw s))).

(** Python s[a:b] *)
Definition slice (a b : nat) (s : line) : line := firstn (b - a) (skipn a s).

(* ------------------------------------------------------------------ numerals *)
Definition num : Type := (bool * list nat * list nat)%type.

Definition digit_of (c : ascii) : nat := nat_of_ascii c - 48.
Definition char_of (d : nat) : ascii := ascii_of_nat (48 + d).
Definition digits_of (s : line) : list nat := map digit_of s.
Definition chars_of (ds : list nat) : line := map char_of ds.

Fixpoint run (p : ascii -> bool) (s : line) : nat :=
  match s with c :: r => if p c then S (run p r) else 0 | [] => 0 end.

(** float(s) on plain decimals *)
Definition parse_float (s0 : line) : option num :=
  let s := strip s0 in
  let '(neg, s) := match s with
                   | "-"%char :: r => (true, r)
                   | "+"%char :: r => (false, r)
                   | _ => (false, s)
                   end in
  let k := run is_digit s in
  let ip := firstn k s in
  match skipn k s with
  | [] => if k =? 0 then None else Some (neg, digits_of ip, [])
  | "."%char :: fr =>
      let kf := run is_digit fr in
      if negb (length fr =? kf) then None
      else if k + kf =? 0 then None
      else Some (neg, digits_of ip, digits_of fr)
  | _ => None
  end.

(** int(s) on the regex group \d+ *)
Definition parse_int (s : line) : option (list nat) :=
  if (negb (length s =? 0)) && (run is_digit s =? length s) then Some (digits_of s) else None.

(** value: mantissa and number of fraction digits; x = (-1)^neg * mant / 10^scale *)
Fixpoint digits_val (ds : list nat) (acc : N) : N :=
  match ds with [] => acc | d :: r => digits_val r (acc * 10 + N.of_nat d)%N end.
Definition num_val (x : num) : bool * N * nat :=
  let '(neg, ip, fr) := x in (neg, digits_val (ip ++ fr) 0%N, length fr).

(* ------------------------------------------------------------------ regex *)
Inductive atom :=
| Ch (p : ascii -> bool)
| Star (p : ascii -> bool)
| Plus (p : ascii -> bool)
| Opt (p : ascii -> bool)
| Open
| Close.

(** matcher state: [cur] = text consumed so far inside the currently open group (groups are
    not nested in the two patterns), [cs] = finished groups, last first *)
Definition caps := list line.
Definition rec (cur : option line) (x : line) : option line :=
  match cur with Some b => Some (b ++ x) | None => None end.

(** tries counts lo+k, lo+k-1, ..., lo *)
Fixpoint try_down (cont : nat -> option caps) (lo k : nat) : option caps :=
  match cont (lo + k) with
  | Some r => Some r
  | None => match k with O => None | S k' => try_down cont lo k' end
  end.

Fixpoint mseq (re : list atom) (s : line) (cur : option line) (cs : caps) : option caps :=
  match re with
  | [] => Some (rev cs)
  | Ch p :: re' =>
      match s with
      | c :: r => if p c then mseq re' r (rec cur [c]) cs else None
      | [] => None
      end
  | Star p :: re' =>
      try_down (fun k => mseq re' (skipn k s) (rec cur (firstn k s)) cs) 0 (run p s)
  | Plus p :: re' =>
      match run p s with
      | O => None
      | S m => try_down (fun k => mseq re' (skipn k s) (rec cur (firstn k s)) cs) 1 m
      end
  | Opt p :: re' =>
      try_down (fun k => mseq re' (skipn k s) (rec cur (firstn k s)) cs) 0 (Nat.min 1 (run p s))
  | Open :: re' => mseq re' s (Some []) cs
  | Close :: re' =>
      match cur with
      | Some b => mseq re' s None (b :: cs)
      | None => None
      end
  end.

(** re.search: leftmost start; result = the groups *)
Fixpoint search (re : list atom) (s : line) : option (list line) :=
  match mseq re s None [] with
  | Some c => Some c
  | None => match s with [] => None | _ :: r => search re r end
  end.

Definition lits (s : string) : list atom := map (fun c => Ch (is_c c)) (list_ascii_of_string s).
Definition re_num : list atom := [Open; Opt (is_c "-"%char); Plus is_digit; Opt (is_c "."%char); Star is_digit; Close].

Definition Q_COORDS_REGEX : list atom :=
  [Ch (is_c "q"%char); Star is_space; Ch (is_c "="%char); Star is_space]
  ++ re_num ++ [Plus is_space] ++ re_num ++ [Plus is_space] ++ re_num.

Definition MODE_INDEX_REGEX : list atom :=
  lits "freq" ++ [Star is_space; Ch (is_c "("%char); Star is_space; Open; Plus is_digit; Close; Ch (is_c ")"%char);
                  Star is_space; Ch (is_c "="%char); Star is_space]
  ++ re_num ++ [Star is_space] ++ lits "[THz]" ++ [Star is_space; Ch (is_c "="%char); Star is_space]
  ++ re_num ++ [Star is_space] ++ lits "[cm-1]".

(* ------------------------------------------------------------------ parser *)
Definition cnum : Type := (num * num)%type.                       (* re + im*1j *)
Definition mode : Type := ((list nat * num * num) * list cnum)%type.  (* (id, THz, cm-1), vector *)
Definition qpoint : Type := ((num * num * num) * list mode)%type.

Definition parse_vec_line (l0 : line) : option (list cnum) :=
  let l := strip l0 in
  match parse_float (slice 2 12 l), parse_float (slice 13 23 l),
        parse_float (slice 26 36 l), parse_float (slice 37 47 l),
        parse_float (slice 50 60 l), parse_float (slice 61 71 l) with
  | Some a, Some b, Some c, Some d, Some e, Some f => Some [(a, b); (c, d); (e, f)]
  | _, _, _, _, _, _ => None
  end.

Definition parse_mode_line (l0 : line) : option (list nat * num * num) :=
  match search MODE_INDEX_REGEX (strip (strip l0)) with
  | Some [g1; g2; g3] =>
      match parse_int g1, parse_float g2, parse_float g3 with
      | Some i, Some a, Some b => Some (i, a, b)
      | _, _, _ => None
      end
  | _ => None
  end.

Definition parse_q_line (l0 : line) : option (num * num * num) :=
  match search Q_COORDS_REGEX (strip l0) with
  | Some [g1; g2; g3] =>
      match parse_float g1, parse_float g2, parse_float g3 with
      | Some a, Some b, Some c => Some (a, b, c)
      | _, _, _ => None
      end
  | _ => None
  end.

(** _read_vecs: np // 3 lines *)
Fixpoint read_vecs (k : nat) (fp : list line) : option (list cnum * list line) :=
  match k with
  | O => Some ([], fp)
  | S k' =>
      match fp with
      | [] => None
      | l :: fp1 =>
          match parse_vec_line l with
          | None => None
          | Some v =>
              match read_vecs k' fp1 with
              | None => None
              | Some (vs, fp2) => Some (v ++ vs, fp2)
              end
          end
      end
  end.

(** _read_modes: [l] modes still to read *)
Fixpoint read_modes (l np : nat) (fp : list line) : option (list mode * list line) :=
  match l with
  | O => Some ([], fp)
  | S l' =>
      match fp with
      | [] => None
      | ln :: fp1 =>
          match parse_mode_line ln with
          | None => None
          | Some hdr =>
              match read_vecs (np / 3) fp1 with
              | None => None
              | Some (vs, fp2) =>
                  match read_modes l' np fp2 with
                  | None => None
                  | Some (ms, fp3) => Some ((hdr, vs) :: ms, fp3)
                  end
              end
          end
      end
  end.

(** _read_q_points: two skipped lines, q line, one skipped line, modes, one skipped line *)
Fixpoint read_q_points (k np : nat) (fp : list line) : option (list qpoint) :=
  match k with
  | O => Some []
  | S k' =>
      match fp with
      | _ :: _ :: ql :: _ :: fp1 =>
          match parse_q_line ql with
          | None => None
          | Some q =>
              match read_modes np np fp1 with
              | None => None
              | Some (ms, fp2) =>
                  match fp2 with
                  | [] => None
                  | _ :: fp3 =>
                      match read_q_points k' np fp3 with
                      | None => None
                      | Some qs => Some ((q, ms) :: qs)
                      end
                  end
              end
          end
      | _ => None
      end
  end.

Definition parse_matdyn (nq np : nat) (file : list line) : option (list qpoint) :=
  read_q_points nq np file.

(* ------------------------------------------------------------------ printer *)
Definition padl (w : nat) (s : line) : line := repeat " "%char (w - length s) ++ s.

(** Fortran Fw.d of a numeral that carries d fraction digits *)
Definition show_num (x : num) : line :=
  let '(neg, ip, fr) := x in
  (if neg then ["-"%char] else []) ++ chars_of ip ++ ["."%char] ++ chars_of fr.
Definition fmt (w : nat) (x : num) : line := padl w (show_num x).

Definition stars : line := " "%char :: repeat "*"%char 74.
Definition banner : line := lit "     diagonalizing the dynamical matrix ...".

Definition print_vec_line (a b c : cnum) : line :=
  lit " (" ++ fmt 10 (fst a) ++ [" "%char] ++ fmt 10 (snd a) ++ lit "   "
           ++ fmt 10 (fst b) ++ [" "%char] ++ fmt 10 (snd b) ++ lit "   "
           ++ fmt 10 (fst c) ++ [" "%char] ++ fmt 10 (snd c) ++ lit "   )".

Fixpoint print_vecs (vs : list cnum) : list line :=
  match vs with
  | a :: b :: c :: r => print_vec_line a b c :: print_vecs r
  | _ => []
  end.

Definition print_mode_line (h : list nat * num * num) : line :=
  let '(i, thz, cm) := h in
  lit "     freq (" ++ padl 5 (chars_of i) ++ lit ") =" ++ fmt 15 thz ++ lit " [THz] ="
                    ++ fmt 15 cm ++ lit " [cm-1]".

Definition print_mode (m : mode) : list line :=
  print_mode_line (fst m) :: print_vecs (snd m).

Definition print_q_line (q : num * num * num) : line :=
  let '(x, y, z) := q in lit " q = " ++ fmt 12 x ++ fmt 12 y ++ fmt 12 z.

Definition print_q (q : qpoint) : list line :=
  [banner; []; print_q_line (fst q); stars] ++ flat_map print_mode (snd q) ++ [stars].

Definition print_matdyn (d : list qpoint) : list line := flat_map print_q d.
