(** C12 (clause "averages and velocities are finite wherever the stiffness is positive definite") and C07:
    over the reals, positive definiteness of the stiffness alone makes every VRH quantity well defined:
    no Reuss denominator vanishes, every average is strictly positive, the radicands of both velocities are
    strictly positive (so the square roots are those of positive numbers) and the velocities themselves are
    strictly positive.  The hypotheses of [velocity_relations] are therefore consequences of positive
    definiteness, not extra assumptions. *)
From Coq Require Import Reals ZArith List Bool Lia Lra.
From Cij Require Import Ops ROps VRHModel VRH VRHBounds.
Local Open Scope R_scope.

Lemma pos_inv_pos (n d : R) : 0 < n -> 0 < n / d -> 0 < d.
Proof.
  intros Hn H. destruct (Rtotal_order d 0) as [Hneg | [Hz | Hp]]; [| | exact Hp].
  - assert (Hi : / d < 0) by (apply Rinv_lt_0_compat; exact Hneg).
    unfold Rdiv in H. assert (0 < n * (- / d)) by (apply Rmult_lt_0_compat; lra). lra.
  - subst d. unfold Rdiv in H. rewrite Rinv_0 in H. lra.
Qed.

Section Pos.
  Variables c s : Z -> Z -> R.
  Hypothesis Hc : msym c.
  Hypothesis Hpd : posdef c.
  Hypothesis Hinv : left_inverse s c.

  Lemma reuss_denominators_positive : 0 < den_K s /\ 0 < den_G s.
  Proof.
    destruct (reuss_le_hill_le_voigt_l c s Hc Hpd Hinv) as [K0 [G0 _]].
    rewrite bulk_reuss_den in K0. rewrite shear_reuss_den in G0.
    split; [apply (pos_inv_pos 1) | apply (pos_inv_pos 15)]; (lra || assumption).
  Qed.

  Lemma averages_positive :
    0 < bulk_reuss s /\ 0 < bulk_vrh c s /\ 0 < bulk_voigt c /\
    0 < shear_reuss s /\ 0 < shear_vrh c s /\ 0 < shear_voigt c.
  Proof.
    destruct (reuss_le_hill_le_voigt_l c s Hc Hpd Hinv) as [K0 [G0 [[K1 K2] [G1 G2]]]].
    repeat split; lra.
  Qed.

  Section Vel.
    Variables ry M V : R.
    Hypothesis Hry : 0 < ry.
    Hypothesis HM : 0 < M.
    Hypothesis HV : 0 < V.

    Lemma mass_positive : 0 < mass (OF:=ROps) M.
    Proof.
      unfold mass, milli, N_A. rops.
      apply Rdiv_lt_0_compat.
      - apply Rmult_lt_0_compat; [exact HM|]. apply Rdiv_lt_0_compat; [lra|].
        apply (IZR_lt 0). reflexivity.
      - apply Rmult_lt_0_compat; apply (IZR_lt 0); reflexivity.
    Qed.

    Lemma radicands_positive :
      0 < ((bulk_vrh c s + 4 / 3 * shear_vrh c s) * V) * ry / mass (OF:=ROps) M /\
      0 < (shear_vrh c s * V) * ry / mass (OF:=ROps) M.
    Proof.
      destruct averages_positive as [_ [K [_ [_ [G _]]]]]. pose proof mass_positive as Hm.
      assert (KG : 0 < bulk_vrh c s + 4 / 3 * shear_vrh c s) by lra.
      split; (apply Rdiv_lt_0_compat; [| exact Hm]).
      - apply Rmult_lt_0_compat; [apply Rmult_lt_0_compat |]; assumption.
      - apply Rmult_lt_0_compat; [apply Rmult_lt_0_compat |]; assumption.
    Qed.

    Theorem velocities_positive :
      0 < v_primary (OF:=ROps) ry M V c s /\ 0 < v_secondary (OF:=ROps) ry M V c s.
    Proof.
      destruct radicands_positive as [Hp Hs]. unfold v_primary, v_secondary. rops.
      split; apply sqrt_lt_R0.
      - replace (IZR 4 / IZR 3) with (4 / 3) by reflexivity. exact Hp.
      - exact Hs.
    Qed.

    (** the velocity relations of C07 need nothing beyond positive definiteness *)
    Theorem velocity_relations_posdef :
      let rho := mass (OF:=ROps) M / V in
      rho * (v_secondary (OF:=ROps) ry M V c s)² = ry * shear_vrh c s /\
      rho * (v_primary (OF:=ROps) ry M V c s)² = ry * (bulk_vrh c s + 4 / 3 * shear_vrh c s).
    Proof.
      destruct averages_positive as [_ [K [_ [_ [G _]]]]].
      apply velocity_relations_l; lra.
    Qed.
  End Vel.
End Pos.

(** everything at once, as the property states it *)
Theorem vrh_well_defined_for_posdef :
  forall (c s : Z -> Z -> R) (ry M V : R),
    msym c -> posdef c -> left_inverse s c -> 0 < ry -> 0 < M -> 0 < V ->
    den_K s <> 0 /\ den_G s <> 0 /\
    0 < bulk_reuss s /\ 0 < bulk_vrh c s /\ 0 < bulk_voigt c /\
    0 < shear_reuss s /\ 0 < shear_vrh c s /\ 0 < shear_voigt c /\
    0 < v_primary (OF:=ROps) ry M V c s /\ 0 < v_secondary (OF:=ROps) ry M V c s.
Proof.
  intros c s ry M V Hc Hpd Hinv Hry HM HV.
  destruct (reuss_denominators_positive c s Hc Hpd Hinv) as [DK DG].
  destruct (averages_positive c s Hc Hpd Hinv) as [A1 [A2 [A3 [A4 [A5 A6]]]]].
  destruct (velocities_positive c s Hc Hpd Hinv ry M V Hry HM HV) as [V1 V2].
  repeat split; try assumption; lra.
Qed.

(** non-vacuity: the explicit positive definite stiffness of VRHBounds.v *)
Example vrh_well_defined_example :
  0 < v_primary (OF:=ROps) 1 1 1 c_ex s_ex /\ 0 < v_secondary (OF:=ROps) 1 1 1 c_ex s_ex.
Proof.
  apply velocities_positive; try lra.
  - exact c_ex_sym.
  - exact c_ex_posdef.
  - exact s_ex_inverse.
Qed.
