(** The field Q(sqrt 3) as pairs (a, b) = a + b*sqrt 3 of rationals, its [Rng] instance (the
    instance the symmetry certificates are COMPUTED at), the [Rng] instance of Q, and the
    ring homomorphisms phi : Q(sqrt 3) -> R and Q2R : Q -> R. *)
From Coq Require Import QArith Qreals Reals Lra List Bool.
From Cij Require Import LinSum.
Import ListNotations.

Definition Q3 := (Q * Q)%type.
Definition q3_add (x y : Q3) : Q3 := (Qred (fst x + fst y), Qred (snd x + snd y)).
Definition q3_mul (x y : Q3) : Q3 :=
  (Qred (fst x * fst y + 3 * (snd x * snd y)), Qred (fst x * snd y + snd x * fst y)).
Definition q3_opp (x : Q3) : Q3 := (- fst x, - snd x).
Definition q3_eqb (x y : Q3) : bool := Qeq_bool (fst x) (fst y) && Qeq_bool (snd x) (snd y).
Definition q3_ofQ (a : Q) : Q3 := (a, 0).
(** 1/(a + b s) = (a - b s)/(a^2 - 3 b^2): only used by unverified eliminations *)
Definition q3_inv (x : Q3) : Q3 :=
  let d := fst x * fst x - 3 * (snd x * snd x) in (Qred (fst x / d), Qred (- snd x / d)).

#[export] Instance Q3Rng : Rng Q3 := {|
  r0 := (0, 0); r1 := (1, 0); radd := q3_add; rmul := q3_mul; ropp := q3_opp; reqb := q3_eqb |}.
#[export] Instance QRng : Rng Q := {|
  r0 := 0; r1 := 1; radd := fun x y => Qred (x + y); rmul := fun x y => Qred (x * y);
  ropp := Qopp; reqb := Qeq_bool |}.

Local Open Scope R_scope.
Definition phi (x : Q3) : R := Q2R (fst x) + Q2R (snd x) * sqrt 3.

Lemma sqrt3_sq : sqrt 3 * sqrt 3 = 3.
Proof. apply sqrt_sqrt. lra. Qed.
Lemma Q2R_Qred (a : Q) : Q2R (Qred a) = Q2R a.
Proof. apply Qeq_eqR, Qred_correct. Qed.
Lemma Q2R_0 : Q2R 0 = 0.
Proof. unfold Q2R. cbn. lra. Qed.
Lemma Q2R_1 : Q2R 1 = 1.
Proof. unfold Q2R. cbn. lra. Qed.
Lemma Q2R_3 : Q2R 3 = 3.
Proof. unfold Q2R. cbn. lra. Qed.

#[export] Instance phi_hom : RHom phi.
Proof.
  constructor.
  - unfold phi. cbn [r0 Q3Rng fst snd]. rewrite Q2R_0. lra.
  - unfold phi. cbn [r1 Q3Rng fst snd]. rewrite Q2R_0, Q2R_1. lra.
  - intros [a b] [c d]. unfold phi. cbn [radd Q3Rng q3_add fst snd].
    rewrite !Q2R_Qred, !Q2R_plus. lra.
  - intros [a b] [c d]. unfold phi. cbn [rmul Q3Rng q3_mul fst snd].
    rewrite !Q2R_Qred, !Q2R_plus, !Q2R_mult, Q2R_3. cbn [rmul RRng].
    pose proof sqrt3_sq as H. set (s := sqrt 3) in *.
    replace ((Q2R a + Q2R b * s) * (Q2R c + Q2R d * s))
      with (Q2R a * Q2R c + Q2R b * Q2R d * (s * s) + (Q2R a * Q2R d + Q2R b * Q2R c) * s) by ring.
    rewrite H. ring.
  - intros [a b]. unfold phi. cbn [ropp Q3Rng q3_opp fst snd]. rewrite !Q2R_opp. cbn [ropp RRng]. lra.
  - intros [a b] [c d] E. unfold reqb, Q3Rng, q3_eqb in E. cbn [fst snd] in E.
    apply andb_true_iff in E. destruct E as [E1 E2]. apply Qeq_bool_eq in E1. apply Qeq_bool_eq in E2. unfold phi. cbn [fst snd].
    rewrite (Qeq_eqR _ _ E1), (Qeq_eqR _ _ E2). reflexivity.
Qed.

#[export] Instance Q2R_hom : RHom Q2R.
Proof.
  constructor.
  - exact Q2R_0.
  - exact Q2R_1.
  - intros x y. cbn [radd QRng RRng]. rewrite Q2R_Qred. apply Q2R_plus.
  - intros x y. cbn [rmul QRng RRng]. rewrite Q2R_Qred. apply Q2R_mult.
  - intros x. cbn [ropp QRng RRng]. apply Q2R_opp.
  - intros x y E. unfold reqb, QRng in E. apply Qeq_bool_eq in E. apply Qeq_eqR, E.
Qed.

Lemma phi_ofQ (a : Q) : phi (q3_ofQ a) = Q2R a.
Proof. unfold phi, q3_ofQ. cbn [fst snd]. rewrite Q2R_0. lra. Qed.
Lemma map_phi_ofQ (r : list Q) : map phi (map q3_ofQ r) = map Q2R r.
Proof. rewrite map_map. apply map_ext. intros a. apply phi_ofQ. Qed.

Lemma Q2R_nonzero (a : Q) : Qeq_bool a 0 = false -> Q2R a <> 0.
Proof.
  intros H E. rewrite <- Q2R_0 in E. apply eqR_Qeq in E. apply Qeq_eq_bool in E. congruence.
Qed.
