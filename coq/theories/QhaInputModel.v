(** C17 - Gallina transcription of cij/io/traditional/qha_input.py: write_energy / read_energy.
    Definitions only (executed by the case shards); lemmas are in QhaInput.v. *)
From Coq Require Import ZArith List Bool Strings.Byte.
From Cij Require Import VoigtBase TextModel.
Import ListNotations.
Local Open Scope Z_scope.

Record qpoint := mkq { q_coord : list dec; q_modes : list dec }.                 (* QPointData *)
Record volume := mkv { v_P : dec; v_V : dec; v_E : dec; v_q : list qpoint }.      (* VolumeData *)
Record weight := mkw { w_coord : list dec; w_val : dec }.                        (* QPointWeight *)
Record qha := mkqha { nv : Z; nq : Z; np : Z; nm : Z; na : Z;
                      weights : list weight; volumes : list volume }.            (* QHAInputData *)

(** ------------------------------------------------------------------ write_energy *)
Definition s_labels : bytes := [x20; x20; x6e; x76; x20; x20; x20; x6e; x71; x20; x20; x20; x6e; x70; x20; x20; x20; x6e; x6d; x20; x20; x20; x6e; x61].  (* "  nv   nq   np   nm   na" *)
Definition s_P : bytes := [x50; x3d; x20].  (* "P= " *)
Definition s_V : bytes := [x20; x56; x3d; x20].  (* " V= " *)
Definition s_E : bytes := [x20; x45; x3d; x20].  (* " E= " *)
Definition s_weight : bytes := [x77; x65; x69; x67; x68; x74].  (* "weight" *)
Definition s_weights : bytes := [x77; x65; x69; x67; x68; x74; x73].  (* "weights" *)

Definition print_counts (d : qha) : bytes :=
  join [sp] (map (fmt_d 4) [nv d; nq d; np d; nm d; na d]).
Definition print_qpoint (q : qpoint) : list bytes :=
  join [sp] (map (fmt_f 10 4) (q_coord q)) :: map (fmt_f 12 6) (q_modes q).
Definition print_volume (v : volume) : list bytes :=
  (s_P ++ fmt_f 12 6 (v_P v) ++ s_V ++ fmt_f 12 6 (v_V v) ++ s_E ++ fmt_f 12 6 (v_E v))
  :: flat_map print_qpoint (v_q v).
(** "%10.6f %10.6f %10.6f %10.6f" % ( *coords, weight): Python raises unless there are exactly
    three coordinates; the model is meant for that case only (it is part of [well_formed]). *)
Definition print_weight (w : weight) : bytes :=
  join [sp] (map (fmt_f 10 6) (w_coord w ++ [w_val w])).

(** the list [lines] of write_energy; the file is [unlines (print_qha comment d)] *)
Definition print_qha (comment : bytes) (d : qha) : list bytes :=
  [comment; []; s_labels; print_counts d; []]
  ++ flat_map print_volume (volumes d)
  ++ [[]; s_weight]
  ++ map print_weight (weights d).

(** ------------------------------------------------------------------ read_energy *)
(** [\d+] with its value *)
Definition re_int (s : bytes) : option (Z * bytes) :=
  match read_digits 0 0 s with
  | (_, O, _) => None
  | (v, _, r) => Some (v, r)
  end.
(** [\s+] *)
Definition re_ws1 (s : bytes) : option bytes :=
  match s with
  | c :: r => if is_space c then Some (drop_ws r) else None
  | [] => None
  end.

(** REGEX_INFO_START = ^(\d+)\s+(\d+)\s+(\d+)\s+(\d+)\s+(\d+)$  applied to line.strip()
    (all quantified classes are disjoint from their successors, so the backtracking matcher
    is deterministic: greedy runs or failure) *)
Definition header_match (s : bytes) : option (Z * Z * Z * Z * Z) :=
  obind (re_int s) (fun '(a, s) => obind (re_ws1 s) (fun s =>
  obind (re_int s) (fun '(b, s) => obind (re_ws1 s) (fun s =>
  obind (re_int s) (fun '(c, s) => obind (re_ws1 s) (fun s =>
  obind (re_int s) (fun '(d, s) => obind (re_ws1 s) (fun s =>
  obind (re_int s) (fun '(e, s) =>
  match s with [] => Some (a, b, c, d, e) | _ => None end))))))))).

(** for line in fp: res = re.search(REGEX_INFO_START, line.strip()); if res: break *)
Fixpoint find_header (ls : list bytes) : option (Z * Z * Z * Z * Z * list bytes) :=
  match ls with
  | [] => None       (* NameError: nv is not defined *)
  | l :: r => match header_match (strip l) with
              | Some h => Some (h, r)
              | None => find_header r
              end
  end.

(** one  \S=\s+(\S+)  at the head of s: the captured token and the rest *)
Definition pve_field (s : bytes) : option (bytes * bytes) :=
  match s with
  | c :: e :: r =>
      if negb (is_space c) && Byte.eqb e c_eq then
        obind (re_ws1 r) (fun r1 =>
          match span_ns r1 with
          | ([], _) => None
          | (t, r2) => Some (t, r2)
          end)
      else None
  | _ => None
  end.
(** REGEX_PVE = \S=\s+(\S+)\s+\S=\s+(\S+)\s+\S=\s+(\S+)  anchored at the head of s *)
Definition pve_at (s : bytes) : option (bytes * bytes * bytes) :=
  obind (pve_field s) (fun '(t1, s) => obind (re_ws1 s) (fun s =>
  obind (pve_field s) (fun '(t2, s) => obind (re_ws1 s) (fun s =>
  obind (pve_field s) (fun '(t3, _) => Some (t1, t2, t3)))))).
(** re.search: leftmost start position *)
Fixpoint pve_search (s : bytes) : option (bytes * bytes * bytes) :=
  match pve_at s with
  | Some r => Some r
  | None => match s with [] => None | _ :: s' => pve_search s' end
  end.

(** _yield_mode_data: np times float(next(lines)) *)
Fixpoint read_modes (n : nat) (ls : list bytes) : option (list dec * list bytes) :=
  match n with
  | O => Some ([], ls)
  | S n' => match ls with
            | [] => None
            | l :: r => obind (parse_dec (strip l)) (fun x =>
                        obind (read_modes n' r) (fun '(xs, r') => Some (x :: xs, r')))
            end
  end.
(** _yield_q_point_data *)
Fixpoint read_qpoints (n np : nat) (ls : list bytes) : option (list qpoint * list bytes) :=
  match n with
  | O => Some ([], ls)
  | S n' => match ls with
            | [] => None
            | l :: r => obind (map_opt parse_dec (split_ws (strip l))) (fun c =>
                        obind (read_modes np r) (fun '(ms, r1) =>
                        obind (read_qpoints n' np r1) (fun '(qs, r2) => Some (mkq c ms :: qs, r2))))
            end
  end.
(** while True: line = next(lines); if line.strip() == "": continue; break *)
Fixpoint next_nonblank (ls : list bytes) : option (bytes * list bytes) :=
  match ls with
  | [] => None
  | l :: r => match strip l with [] => next_nonblank r | _ => Some (l, r) end
  end.
(** _yield_volume_data *)
Fixpoint read_volumes (n nq np : nat) (ls : list bytes) : option (list volume * list bytes) :=
  match n with
  | O => Some ([], ls)
  | S n' => obind (next_nonblank ls) (fun '(l, r) =>
            obind (pve_search l) (fun '(tp, tv, te) =>
            obind (parse_dec tp) (fun p => obind (parse_dec tv) (fun v => obind (parse_dec te) (fun e =>
            obind (read_qpoints nq np r) (fun '(qs, r1) =>
            obind (read_volumes n' nq np r1) (fun '(vs, r2) => Some (mkv p v e qs :: vs, r2))))))))
  end.
(** for line in fp: if line.strip() in ["weight", "weights"]: break *)
Fixpoint after_weight (ls : list bytes) : list bytes :=
  match ls with
  | [] => []
  | l :: r => if bytes_eqb (strip l) s_weight || bytes_eqb (strip l) s_weights then r
              else after_weight r
  end.
(** _read_weights *)
Fixpoint read_weights (n : nat) (ls : list bytes) : option (list weight) :=
  match n with
  | O => Some []
  | S n' => match ls with
            | [] => None
            | l :: r => match split_ws (strip l) with
                        | a :: b :: c :: w :: _ =>
                            obind (map_opt parse_dec [a; b; c]) (fun cs =>
                            obind (parse_dec w) (fun wv =>
                            obind (read_weights n' r) (fun ws => Some (mkw cs wv :: ws))))
                        | _ => None       (* float() of a bad word / IndexError words[3] *)
                        end
            end
  end.

Definition parse_qha (ls : list bytes) : option qha :=
  obind (find_header ls) (fun '(a, b, c, d, e, r) =>
  obind (read_volumes (Z.to_nat a) (Z.to_nat b) (Z.to_nat c) r) (fun '(vs, r1) =>
  obind (read_weights (Z.to_nat b) (after_weight r1)) (fun ws =>
  Some (mkqha a b c d e ws vs)))).

(** file level *)
Definition print_qha_text (comment : bytes) (d : qha) : bytes := unlines (print_qha comment d).
Definition parse_qha_text (t : bytes) : option qha := parse_qha (split_lines t).

(** ------------------------------------------------------------------ comparison helpers for the shards *)
Definition qpoint_veq (a b : qpoint) : bool :=
  list_eqb dec_veq (q_coord a) (q_coord b) && list_eqb dec_veq (q_modes a) (q_modes b).
Definition volume_veq (a b : volume) : bool :=
  dec_veq (v_P a) (v_P b) && dec_veq (v_V a) (v_V b) && dec_veq (v_E a) (v_E b) &&
  list_eqb qpoint_veq (v_q a) (v_q b).
Definition weight_veq (a b : weight) : bool :=
  list_eqb dec_veq (w_coord a) (w_coord b) && dec_veq (w_val a) (w_val b).
Definition qha_veq (a b : qha) : bool :=
  (nv a =? nv b) && (nq a =? nq b) && (np a =? np b) && (nm a =? nm b) && (na a =? na b) &&
  list_eqb weight_veq (weights a) (weights b) && list_eqb volume_veq (volumes a) (volumes b).
Definition oqha_veq (a b : option qha) : bool :=
  match a, b with Some x, Some y => qha_veq x y | None, None => true | _, _ => false end.

(** the data rounded to the written decimals *)
Definition round_qpoint (q : qpoint) : qpoint := mkq (map (round_to 4) (q_coord q)) (map (round_to 6) (q_modes q)).
Definition round_volume (v : volume) : volume :=
  mkv (round_to 6 (v_P v)) (round_to 6 (v_V v)) (round_to 6 (v_E v)) (map round_qpoint (v_q v)).
Definition round_weight (w : weight) : weight := mkw (map (round_to 6) (w_coord w)) (round_to 6 (w_val w)).
Definition round_qha (d : qha) : qha :=
  mkqha (nv d) (nq d) (np d) (nm d) (na d) (map round_weight (weights d)) (map round_volume (volumes d)).
