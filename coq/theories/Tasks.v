(** C04: proofs about the abstract scheduler of TasksModel.v *)
From Coq Require Import List Bool Arith Lia.
From Cij Require Import TasksModel.
Import ListNotations.

Section Sched.
  Context {task V : Type}.
  Variable teq : task -> task -> bool.
  Variable deps : task -> list task.
  Variable ev : task -> (task -> option V) -> option V.
  Variable rank : task -> nat.

  Hypothesis teq_refl : forall a, teq a a = true.
  Hypothesis teq_sym : forall a b, teq a b = true -> teq b a = true.
  Hypothesis teq_trans : forall a b c, teq a b = true -> teq b c = true -> teq a c = true.
  Hypothesis deps_rank : forall t d, In d (deps t) -> rank d < rank t.

  (** membership up to task equality *)
  Definition Inq (t : task) (l : list task) : Prop := exists x, In x l /\ teq x t = true.

  Lemma find_idx_some t l i j : find_idx teq t l i = Some j -> exists x, In x l /\ teq x t = true.
  Proof.
    revert i; induction l as [|x l IH]; cbn [find_idx]; intros i H; [discriminate|].
    destruct (teq x t) eqn:E; [exists x; split; [left; reflexivity | exact E]|].
    destruct (IH _ H) as (y & Hy & Ey). exists y; split; [right; exact Hy | exact Ey].
  Qed.
  Lemma find_idx_none t l i : find_idx teq t l i = None -> forall x, In x l -> teq x t = false.
  Proof.
    revert i; induction l as [|x l IH]; cbn [find_idx]; intros i H y Hy; [destruct Hy|].
    destruct (teq x t) eqn:E; [discriminate|]. destruct Hy as [<- | Hy]; [exact E | eapply IH; eauto].
  Qed.
  Lemma Inq_app_l t a b : Inq t a -> Inq t (a ++ b).
  Proof. intros (x & Hx & E). exists x; split; [apply in_or_app; left; exact Hx | exact E]. Qed.
  Lemma Inq_teq a b l : teq a b = true -> Inq a l -> Inq b l.
  Proof. intros E (x & Hx & Ex). exists x; split; [exact Hx | eapply teq_trans; eauto]. Qed.

  (** ** 2. resolve: partial correctness by invariant *)
  Definition pending (q : list (task * option nat)) : list task := map fst q.
  Definition Inv (req : list task) (st : list (task * option nat) * list task * list (nat * nat)) : Prop :=
    let '(q, tasks, _) := st in
    (forall r, In r req -> Inq r tasks \/ Inq r (pending q)) /\
    (forall t d, In t tasks -> In d (deps t) -> Inq d tasks \/ Inq d (pending q)).

  Lemma pending_push t c q :
    pending (rev (map (fun d => (d, Some c)) (deps t)) ++ q) = rev (deps t) ++ pending q.
  Proof. unfold pending. rewrite map_app, map_rev, map_map. cbn [fst]. rewrite map_id. reflexivity. Qed.

  Lemma step_inv req st : Inv req st -> Inv req (step teq deps st).
  Proof.
    destruct st as [[q tasks] edges]. destruct q as [|[t dep] q']; [trivial|].
    intros [Hreq Hcl]. unfold step.
    destruct (find_idx teq t tasks 0) as [i|] eqn:Ef.
    - (* already known *)
      destruct (find_idx_some _ _ _ _ Ef) as (x & Hx & Ex).
      assert (Hfix : forall d, Inq d tasks \/ Inq d (pending ((t, dep) :: q')) ->
                               Inq d tasks \/ Inq d (pending (rev (map (fun d0 => (d0, Some i)) (deps t)) ++ q'))).
      { intros d [H | (y & Hy & Ey)]; [left; exact H|]. cbn [pending map fst] in Hy.
        destruct Hy as [<- | Hy].
        - left. exists x; split; [exact Hx | eapply teq_trans; eauto].
        - right. rewrite pending_push. exists y; split; [apply in_or_app; right; exact Hy | exact Ey]. }
      split; intros; apply Hfix; eauto.
    - (* new task *)
      assert (Hfix : forall d, Inq d tasks \/ Inq d (pending ((t, dep) :: q')) ->
                  Inq d (tasks ++ [t]) \/
                  Inq d (pending (rev (map (fun d0 => (d0, Some (length tasks))) (deps t)) ++ q'))).
      { intros d [H | (y & Hy & Ey)]; [left; apply Inq_app_l; exact H|]. cbn [pending map fst] in Hy.
        destruct Hy as [<- | Hy].
        - left. exists t; split; [apply in_or_app; right; left; reflexivity | exact Ey].
        - right. rewrite pending_push. exists y; split; [apply in_or_app; right; exact Hy | exact Ey]. }
      split; [intros; apply Hfix; eauto|].
      intros t0 d Ht0 Hd. apply in_app_or in Ht0. destruct Ht0 as [Ht0 | [<- | []]].
      + apply Hfix; eauto.
      + right. rewrite pending_push. exists d; split; [|apply teq_refl].
        apply in_or_app; left. apply -> in_rev. exact Hd.
  Qed.
  Lemma run_inv req n st : Inv req st -> Inv req (run teq deps n st).
  Proof.
    revert st; induction n as [|n IH]; intros st H; cbn [run]; [exact H|].
    destruct st as [[[|x q] tasks] edges]; [exact H|]. apply IH, step_inv, H.
  Qed.

  Theorem resolve_closed_l (fuel : nat) (req : list task) tasks edges :
    resolve teq deps fuel req = ([], tasks, edges) ->
    (forall r, In r req -> Inq r tasks) /\
    (forall t d, In t tasks -> In d (deps t) -> Inq d tasks).
  Proof.
    intros H. assert (I : Inv req (resolve teq deps fuel req)).
    { apply run_inv. split.
      - intros r Hr. right. exists r; split; [|apply teq_refl].
        unfold pending. rewrite map_rev, map_map. cbn [fst]. rewrite map_id. apply -> in_rev. exact Hr.
      - intros t d []. }
    rewrite H in I. destruct I as [I1 I2]. split.
    - intros r Hr. destruct (I1 r Hr) as [?|(x & [] & _)]; assumption.
    - intros t d Ht Hd. destruct (I2 t d Ht Hd) as [?|(x & [] & _)]; assumption.
  Qed.

  (** ** termination: the loop stops after at most [weight] iterations *)
  Variable D : nat.
  Hypothesis deps_bound : forall t, length (deps t) <= D.
  Fixpoint cost (r : nat) : nat := match r with O => 1 | S k => 1 + S D * cost k end.
  Definition weight (q : list (task * option nat)) : nat :=
    fold_right (fun x acc => cost (rank (fst x)) + acc) 0 q.
  Lemma cost_pos r : 1 <= cost r.
  Proof. destruct r; cbn [cost]; [apply le_n | apply Nat.le_add_r]. Qed.
  Lemma cost_mono a b : a <= b -> cost a <= cost b.
  Proof.
    induction 1 as [|b _ IH]; [apply le_n|]. cbn [cost].
    assert (cost b <= S D * cost b) by (cbn [Nat.mul]; apply Nat.le_add_r). lia.
  Qed.
  Lemma weight_app a b : weight (a ++ b) = weight a + weight b.
  Proof. induction a as [|x a IH]; cbn [app weight fold_right]; [reflexivity|]. fold (weight (a ++ b)) (weight a). lia. Qed.
  Lemma weight_deps t c : S (weight (rev (map (fun d => (d, Some c)) (deps t)))) <= cost (rank t).
  Proof.
    assert (G : forall l, (forall d, In d l -> rank d < rank t) ->
                weight (map (fun d => (d, Some c)) l) <= length l * cost (pred (rank t))).
    { induction l as [|d l IH]; intros Hl; cbn [map weight fold_right length]; [lia|].
      fold (weight (map (fun d0 => (d0, Some c)) l)). cbn [fst].
      assert (rank d < rank t) by (apply Hl; left; reflexivity).
      assert (cost (rank d) <= cost (pred (rank t))) by (apply cost_mono; lia).
      assert (weight (map (fun d0 => (d0, Some c)) l) <= length l * cost (pred (rank t)))
        by (apply IH; intros; apply Hl; right; assumption). lia. }
    assert (R : forall l : list (task * option nat), weight (rev l) = weight l).
    { induction l as [|x l IH]; [reflexivity|]. cbn [rev]. rewrite weight_app, IH.
      cbn [weight fold_right]. fold (weight l). lia. }
    rewrite R. specialize (G (deps t) (deps_rank t)). pose proof (deps_bound t) as B.
    destruct (rank t) as [|r] eqn:Er.
    - destruct (deps t) as [|d l] eqn:Ed; [cbn; lia|].
      exfalso. assert (rank d < rank t) by (apply deps_rank; rewrite Ed; left; reflexivity). lia.
    - cbn [pred] in G. cbn [cost]. assert (length (deps t) * cost r <= S D * cost r) by (apply Nat.mul_le_mono_r; lia). lia.
  Qed.
  Theorem resolve_terminates_l (st : list (task * option nat) * list task * list (nat * nat)) n :
    weight (fst (fst st)) <= n -> fst (fst (run teq deps n st)) = [].
  Proof.
    revert st; induction n as [|n IH]; intros [[q tasks] edges] H; cbn [fst] in *.
    - destruct q as [|x q]; [reflexivity|]. cbn [weight fold_right] in H.
      pose proof (cost_pos (rank (fst x))). lia.
    - cbn [run]. destruct q as [|[t dep] q]; [reflexivity|]. apply IH.
      unfold step. destruct (find_idx teq t tasks 0); cbn [fst]; rewrite weight_app;
        cbn [weight fold_right fst] in H; fold (weight q) in H;
        match goal with |- weight (rev (map (fun d => (d, Some ?c)) _)) + _ <= _ =>
          pose proof (weight_deps t c) end; lia.
  Qed.

  (** ** 3. calculate assigns the denotational value, for every admissible order *)
  Hypothesis ev_ext : forall t r r', (forall d, In d (deps t) -> r d = r' d) -> ev t r = ev t r'.
  Definition val (t : task) : option V := valn ev (S (rank t)) t.
  Hypothesis val_teq : forall a b, teq a b = true -> val a = val b.

  Lemma valn_stable2 n : forall m t, rank t < n -> rank t < m -> valn ev n t = valn ev m t.
  Proof.
    induction n as [|n IH]; intros m t Hn Hm; [lia|]. destruct m as [|m]; [lia|]. cbn [valn].
    apply ev_ext. intros d Hd. pose proof (deps_rank _ _ Hd). apply IH; lia.
  Qed.
  Lemma valn_stable n t : rank t < n -> valn ev n t = val t.
  Proof. intros H. unfold val. apply valn_stable2; lia. Qed.
  Lemma lookup_teq tbl a b : teq a b = true -> lookup teq tbl a = lookup teq (V:=V) tbl b.
  Proof.
    intros E. induction tbl as [|[x v] r IH]; cbn [lookup]; [reflexivity|].
    destruct (teq x a) eqn:Ea, (teq x b) eqn:Eb; try reflexivity; try exact IH.
    - rewrite (teq_trans _ _ _ Ea E) in Eb. discriminate.
    - rewrite (teq_trans _ _ _ Eb (teq_sym _ _ E)) in Ea. discriminate.
  Qed.
  Lemma lookup_app_some tbl tbl' t v : lookup teq tbl t = Some v -> lookup teq (V:=V) (tbl ++ tbl') t = Some v.
  Proof.
    induction tbl as [|[x w] r IH]; cbn [lookup app]; [discriminate|].
    destruct (teq x t); [trivial | exact IH].
  Qed.
  Lemma lookup_app_none tbl tbl' t : lookup teq tbl t = None -> lookup teq (V:=V) (tbl ++ tbl') t = lookup teq tbl' t.
  Proof.
    induction tbl as [|[x w] r IH]; cbn [lookup app]; [reflexivity|].
    destruct (teq x t); [discriminate | exact IH].
  Qed.
  Lemma lookup_some_in tbl t v : lookup teq (V:=V) tbl t = Some v -> exists x, In x (map fst tbl) /\ teq x t = true.
  Proof.
    induction tbl as [|[x w] r IH]; cbn [lookup map fst]; [discriminate|].
    destruct (teq x t) eqn:E; [intros _; exists x; split; [left; reflexivity | exact E]|].
    intros H. destruct (IH H) as (y & Hy & Ey). exists y; split; [right; exact Hy | exact Ey].
  Qed.

  (** an order is admissible if every dependency of a task occurs (up to equality) before it *)
  Fixpoint admissible (done : list task) (order : list task) : Prop :=
    match order with
    | [] => True
    | t :: r => (forall d, In d (deps t) -> Inq d done) /\ admissible (done ++ [t]) r
    end.

  Definition TInv (done : list task) (tbl : list (task * V)) : Prop :=
    (forall t, In t done -> lookup teq tbl t = val t) /\ (forall x, In x (map fst tbl) -> In x done).

  Lemma calc_step done tbl t :
    TInv done tbl -> (forall d, In d (deps t) -> Inq d done) ->
    TInv (done ++ [t]) (match ev t (lookup teq tbl) with Some v => tbl ++ [(t, v)] | None => tbl end).
  Proof.
    intros [I1 I2] Hd.
    assert (Ev : ev t (lookup teq tbl) = val t).
    { unfold val. cbn [valn]. apply ev_ext. intros d Hdd. destruct (Hd d Hdd) as (x & Hx & Ex).
      rewrite <- (lookup_teq tbl x d Ex), (I1 x Hx), (val_teq _ _ Ex).
      symmetry. apply valn_stable. apply deps_rank, Hdd. }
    assert (Lt : lookup teq tbl t = None \/ lookup teq tbl t = val t).
    { destruct (lookup teq tbl t) as [v|] eqn:L; [right | left; reflexivity].
      destruct (lookup_some_in _ _ _ L) as (x & Hx & Ex).
      rewrite <- L, <- (lookup_teq tbl x t Ex), (I1 x (I2 x Hx)). apply val_teq, Ex. }
    destruct Lt as [Ln | Ls].
    - (* no earlier entry for t *)
      rewrite Ev. destruct (val t) as [v|] eqn:Vt; split.
      + intros u Hu. apply in_app_or in Hu. destruct Hu as [Hu | [<- | []]].
        * destruct (lookup teq tbl u) as [w|] eqn:Lu.
          -- rewrite (lookup_app_some _ _ _ _ Lu), <- Lu. apply I1, Hu.
          -- rewrite lookup_app_none by exact Lu. rewrite <- (I1 u Hu), Lu. cbn [lookup].
             destruct (teq t u) eqn:E; [|reflexivity].
             rewrite (lookup_teq tbl t u E) in Ln. rewrite (I1 u Hu) in Ln.
             rewrite <- (val_teq _ _ E) in Ln. congruence.
        * rewrite lookup_app_none by exact Ln. cbn [lookup]. rewrite teq_refl. symmetry; exact Vt.
      + intros x Hx. rewrite map_app in Hx. apply in_app_or in Hx. apply in_or_app.
        destruct Hx as [Hx | [<- | []]]; [left; apply I2, Hx | right; left; reflexivity].
      + intros u Hu. apply in_app_or in Hu. destruct Hu as [Hu | [<- | []]]; [apply I1, Hu|].
        rewrite Ln. symmetry; exact Vt.
      + intros x Hx. apply in_or_app. left. apply I2, Hx.
    - (* an equal task was evaluated before: first match wins, with the same value *)
      rewrite Ev. destruct (val t) as [v|] eqn:Vt; split.
      + intros u Hu. apply in_app_or in Hu. destruct Hu as [Hu | [<- | []]].
        * destruct (lookup teq tbl u) as [w|] eqn:Lu.
          -- rewrite (lookup_app_some _ _ _ _ Lu), <- Lu. apply I1, Hu.
          -- rewrite lookup_app_none by exact Lu. rewrite <- (I1 u Hu), Lu. cbn [lookup].
             destruct (teq t u) eqn:E; [|reflexivity].
             rewrite (lookup_teq tbl t u E) in Ls. congruence.
        * rewrite (lookup_app_some _ _ _ _ Ls). symmetry; exact Vt.
      + intros x Hx. rewrite map_app in Hx. apply in_app_or in Hx. apply in_or_app.
        destruct Hx as [Hx | [<- | []]]; [left; apply I2, Hx | right; left; reflexivity].
      + intros u Hu. apply in_app_or in Hu. destruct Hu as [Hu | [<- | []]]; [apply I1, Hu|].
        rewrite Ls. symmetry; exact Vt.
      + intros x Hx. apply in_or_app. left. apply I2, Hx.
  Qed.

  Lemma calc_fold done tbl order :
    TInv done tbl -> admissible done order ->
    TInv (done ++ order)
         (fold_left (fun tb t => match ev t (lookup teq tb) with Some v => tb ++ [(t, v)] | None => tb end) order tbl).
  Proof.
    revert done tbl; induction order as [|t r IH]; intros done tbl I A; cbn [fold_left].
    - rewrite app_nil_r. exact I.
    - destruct A as [A1 A2]. replace (done ++ t :: r) with ((done ++ [t]) ++ r) by (rewrite <- app_assoc; reflexivity).
      apply IH; [apply calc_step; assumption | exact A2].
  Qed.

  Theorem calculate_correct_l (order : list task) :
    admissible [] order -> forall t, In t order -> lookup teq (calculate teq ev order) t = val t.
  Proof.
    intros A t Ht. unfold calculate.
    destruct (calc_fold [] [] order) as [I1 _]; [split; intros ? [] | exact A |].
    apply I1. exact Ht.
  Qed.

  (** request independence: the value of a task is [val t], whatever else was requested *)
  Corollary request_independent_l (o1 o2 : list task) t :
    admissible [] o1 -> admissible [] o2 -> In t o1 -> In t o2 ->
    lookup teq (calculate teq ev o1) t = lookup teq (calculate teq ev o2) t.
  Proof. intros A1 A2 H1 H2. rewrite !calculate_correct_l by assumption. reflexivity. Qed.
End Sched.
