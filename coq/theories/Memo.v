(** C14 - lemmas about MemoModel.v: memoisation refines pure evaluation for every read history,
    instances are isolated, assigned inputs make a cached value stale exactly when they differ,
    writer registries are functions of the rule list, the relations-file lookup ignores everything
    in the cwd except a regular file named like the system, fill is idempotent under its contract. *)
From Coq Require Import List Arith Bool String ZArith Lia.
From Cij Require Import RulesModel Rules MemoModel.
Import ListNotations.

(* ---------------------------------------------------------------------------------------- *)
Lemma omap_ext {A B} (f g : A -> option B) l :
  (forall x, In x l -> f x = g x) -> omap f l = omap g l.
Proof.
  induction l as [|x r IH]; intros H; cbn; [reflexivity|].
  rewrite (H x (or_introl eq_refl)), IH; [reflexivity|]. intros y Hy; apply H; right; exact Hy.
Qed.
Lemma omap_total {A B} (f : A -> option B) l :
  (forall x, In x l -> exists y, f x = Some y) -> exists ys, omap f l = Some ys.
Proof.
  induction l as [|x r IH]; intros H; cbn; [eexists; reflexivity|].
  destruct (H x (or_introl eq_refl)) as [y ->].
  destruct IH as [ys ->]; [intros z Hz; apply H; right; exact Hz|]. eexists; reflexivity.
Qed.

Section MemoLemmas.
  Variable V : Type.
  Variable deps : name -> list name.
  Variable body : name -> list V -> V.
  (** the properties form a finite dependency order: a method only reads properties that come
      earlier (no cycles; a cycle is a RecursionError in Python) *)
  Hypothesis deps_lt : forall n m, In m (deps n) -> m < n.

  Notation cache := (cache V).
  Notation cget := (cget V).
  Notation pure := (pure V deps body).
  Notation eval := (eval V deps body).
  Notation read := (read V deps body).
  Notation read_all := (read_all V).
  Notation get := (get V deps body).
  Notation run := (run V deps body).

  Lemma pure_stable : forall f1 f2 n, n < f1 -> n < f2 -> pure f1 n = pure f2 n.
  Proof using deps_lt.
    induction f1 as [|f1 IH]; intros f2 n H1 H2; [lia|]. destruct f2 as [|f2]; [lia|].
    cbn [MemoModel.pure]. f_equal. apply omap_ext. intros m Hm. specialize (deps_lt _ _ Hm).
    apply IH; lia.
  Qed.
  Lemma pure_eval fuel n : n < fuel -> pure fuel n = eval n.
  Proof using deps_lt. intros H. unfold MemoModel.eval. apply pure_stable; lia. Qed.

  (** [eval] IS the cache-free evaluation: the method body applied to the (cache-free) values
      of the properties it reads *)
  Lemma eval_unfold n : eval n = option_map (body n) (omap eval (deps n)).
  Proof using deps_lt.
    unfold MemoModel.eval at 1. cbn [MemoModel.pure]. f_equal. apply omap_ext.
    intros m Hm. apply pure_eval. exact (deps_lt _ _ Hm).
  Qed.
  Lemma eval_total n : exists v, eval n = Some v.
  Proof using deps_lt.
    induction n as [n IH] using lt_wf_ind. rewrite eval_unfold.
    destruct (omap_total eval (deps n)) as [ys ->]; [|eexists; reflexivity].
    intros m Hm. apply IH. exact (deps_lt _ _ Hm).
  Qed.

  (** cache invariants *)
  Definition sound (c : cache) : Prop := forall n v, cget n c = Some v -> eval n = Some v.
  Definition extends (c c' : cache) : Prop := forall n v, cget n c = Some v -> cget n c' = Some v.
  Definition added_below (b : nat) (c c' : cache) : Prop :=
    forall k, In k (map fst c') -> In k (map fst c) \/ k < b.
  Definition inv (c : cache) : Prop := sound c /\ NoDup (map fst c).

  Lemma cget_None_notin n (c : cache) : cget n c = None <-> ~ In n (map fst c).
  Proof.
    induction c as [|[m v] r IH]; cbn; [tauto|].
    destruct (Nat.eqb_spec n m) as [->|Hne].
    - split; [discriminate | intros H; exfalso; apply H; left; reflexivity].
    - rewrite IH. split; [intros H [E|E]; [congruence | tauto] | tauto].
  Qed.
  Lemma extends_refl c : extends c c.
  Proof. intros n v H; exact H. Qed.
  Lemma extends_trans a b c : extends a b -> extends b c -> extends a c.
  Proof. intros H1 H2 n v H; apply H2, H1, H. Qed.
  Lemma added_below_refl b c : added_below b c c.
  Proof. intros k H; left; exact H. Qed.
  Lemma added_below_trans b a c d : added_below b a c -> added_below b c d -> added_below b a d.
  Proof. intros H1 H2 k H. destruct (H2 k H) as [H3|H3]; [apply H1, H3 | right; exact H3]. Qed.
  Lemma added_below_mono b b' c c' : b <= b' -> added_below b c c' -> added_below b' c c'.
  Proof. intros Hb H k Hk. destruct (H k Hk); [left; assumption | right; lia]. Qed.

  (** the specification of one read *)
  Definition read_ok (rd : name -> cache -> option V * cache) (n : name) : Prop :=
    forall c, inv c ->
      fst (rd n c) = eval n /\ inv (snd (rd n c)) /\ extends c (snd (rd n c)) /\
      added_below (S n) c (snd (rd n c)) /\ cget n (snd (rd n c)) = eval n.

  Lemma read_all_spec rd l b :
    (forall m, In m l -> read_ok rd m /\ m < b) ->
    forall c, inv c ->
      fst (read_all rd l c) = omap eval l /\ inv (snd (read_all rd l c)) /\
      extends c (snd (read_all rd l c)) /\ added_below b c (snd (read_all rd l c)).
  Proof using deps_lt.
    induction l as [|m r IH]; intros Hrd c Hc; cbn [MemoModel.read_all omap].
    - cbn. repeat split; try apply Hc; [apply extends_refl | apply added_below_refl].
    - destruct (Hrd m (or_introl eq_refl)) as [Hm Hmb].
      destruct (Hm c Hc) as [E1 [I1 [X1 [A1 _]]]].
      destruct (rd m c) as [o c1] eqn:Erd. cbn [fst snd] in *.
      destruct (eval_total m) as [v Hv]. rewrite Hv in E1. subst o. rewrite Hv.
      assert (Hrd' : forall m', In m' r -> read_ok rd m' /\ m' < b) by (intros m' H'; apply Hrd; right; exact H').
      destruct (IH Hrd' c1 I1) as [E2 [I2 [X2 A2]]].
      destruct (read_all rd r c1) as [o2 c2] eqn:Era. cbn [fst snd] in *.
      assert (A1' : added_below b c c1) by (apply (added_below_mono (S m)); [lia | exact A1]).
      destruct o2 as [vs|]; cbn [fst snd]; rewrite <- E2;
        (repeat split; try apply I2; [eapply extends_trans; eassumption | eapply added_below_trans; eassumption]).
  Qed.

  Lemma read_spec : forall fuel n, n < fuel -> read_ok (read fuel) n.
  Proof using deps_lt.
    induction fuel as [|f IH]; intros n Hn c Hc; [lia|].
    cbn [MemoModel.read]. destruct (cget n c) as [v|] eqn:Eg.
    - cbn [fst snd]. repeat split; try apply Hc.
      + symmetry. apply (proj1 Hc _ _ Eg).
      + apply extends_refl.
      + apply added_below_refl.
      + rewrite Eg. symmetry. apply (proj1 Hc _ _ Eg).
    - assert (Hrd : forall m, In m (deps n) -> read_ok (read f) m /\ m < n).
      { intros m Hm. specialize (deps_lt _ _ Hm). split; [apply IH; lia | exact deps_lt]. }
      destruct (read_all_spec (read f) (deps n) n Hrd c Hc) as [E [I [X A]]].
      destruct (read_all (read f) (deps n) c) as [o c1] eqn:Era. cbn [fst snd] in *.
      destruct (omap_total eval (deps n)) as [ys Hys]; [intros m _; apply eval_total|].
      rewrite Hys in E. subst o. cbn [fst snd].
      assert (Hev : eval n = Some (body n ys)) by (rewrite eval_unfold, Hys; reflexivity).
      assert (Hnot : ~ In n (map fst c1)).
      { intros Hin. destruct (A n Hin) as [H|H]; [|lia]. apply cget_None_notin in Eg. exact (Eg H). }
      repeat split.
      + symmetry; exact Hev.
      + intros k v. cbn [MemoModel.cget]. destruct (Nat.eqb_spec k n) as [->|Hne].
        * intros H; injection H as <-; exact Hev.
        * apply (proj1 I).
      + cbn [map fst]. constructor; [exact Hnot | apply I].
      + intros k v Hk. cbn [MemoModel.cget]. destruct (Nat.eqb_spec k n) as [->|Hne].
        * congruence.
        * apply X, Hk.
      + intros k Hk. cbn [map fst] in Hk. destruct Hk as [<-|Hk]; [right; lia|].
        destruct (A k Hk); [left; assumption | right; lia].
      + cbn [MemoModel.cget]. rewrite Nat.eqb_refl. symmetry; exact Hev.
  Qed.

  Lemma get_spec n : read_ok get n.
  Proof using deps_lt. apply read_spec; lia. Qed.

  Lemma inv_nil : inv [].
  Proof. split; [intros n v H; discriminate | constructor]. Qed.

  (** ** memo_refines_pure: for every history of reads (any order, any repetition), from any
      cache reachable so far, each read returns the cache-free value [eval name]; the cache only
      grows, only holds such values, and no producer ran twice *)
  Theorem memo_refines_pure_l : forall ns c, inv c ->
    fst (run ns c) = map eval ns /\
    sound (snd (run ns c)) /\ NoDup (map fst (snd (run ns c))) /\ extends c (snd (run ns c)) /\
    (forall n, In n ns -> cget n (snd (run ns c)) = eval n).
  Proof using deps_lt.
    induction ns as [|n r IH]; intros c Hc; cbn [MemoModel.run map].
    - cbn. repeat split; try apply Hc; [apply extends_refl | intros n []].
    - destruct (get_spec n c Hc) as [E [I [X [A G]]]]. destruct (get n c) as [o c1]. cbn [fst snd] in *.
      destruct (IH c1 I) as [E2 [S2 [N2 [X2 R2]]]]. destruct (run r c1) as [os c2]. cbn [fst snd] in *.
      repeat split; try assumption.
      + congruence.
      + eapply extends_trans; eassumption.
      + intros k [<-|Hk]; [|apply R2, Hk].
        destruct (eval_total n) as [v Hv]. rewrite Hv in *. apply X2. exact G.
  Qed.
End MemoLemmas.

(* ---------------------------------------------------------------------------------------- *)
(** ** corollaries for a fresh instance (empty cache) *)
Section MemoCorollaries.
  Variable V : Type.
  Variable deps : name -> list name.
  Variable body : name -> list V -> V.
  Hypothesis deps_lt : forall n m, In m (deps n) -> m < n.

  (** what a read returns does not depend on the history of earlier reads *)
  Theorem read_history_independent_l : forall h1 h2 n,
    fst (get V deps body n (snd (run V deps body h1 []))) =
    fst (get V deps body n (snd (run V deps body h2 []))).
  Proof using deps_lt.
    intros h1 h2 n.
    destruct (memo_refines_pure_l V deps body deps_lt h1 [] (inv_nil V deps body)) as [_ [S1 [N1 _]]].
    destruct (memo_refines_pure_l V deps body deps_lt h2 [] (inv_nil V deps body)) as [_ [S2 [N2 _]]].
    rewrite (proj1 (get_spec V deps body deps_lt n _ (conj S1 N1))).
    rewrite (proj1 (get_spec V deps body deps_lt n _ (conj S2 N2))). reflexivity.
  Qed.

  (** reading twice (with anything read in between) gives equal values, and they are defined *)
  Theorem read_twice_equal_l : forall h1 h2 n,
    let r := fst (run V deps body (h1 ++ [n] ++ h2 ++ [n]) []) in
    nth (List.length h1) r None = nth (List.length h1 + 1 + List.length h2) r None /\
    nth (List.length h1) r None = eval V deps body n /\ eval V deps body n <> None.
  Proof using deps_lt.
    intros h1 h2 n r. subst r.
    rewrite (proj1 (memo_refines_pure_l V deps body deps_lt _ [] (inv_nil V deps body))).
    rewrite !map_app. cbn [map].
    assert (L1 : List.length (map (eval V deps body) h1) = List.length h1) by apply map_length.
    assert (L2 : List.length (map (eval V deps body) h2) = List.length h2) by apply map_length.
    rewrite (app_nth2 (map (eval V deps body) h1)) by lia. rewrite L1, Nat.sub_diag. cbn [app nth].
    rewrite (app_nth2 (map (eval V deps body) h1)) by lia. rewrite L1.
    replace (List.length h1 + 1 + List.length h2 - List.length h1) with (S (List.length h2)) by lia. cbn [nth].
    rewrite app_nth2 by lia. rewrite L2, Nat.sub_diag. cbn [nth].
    repeat split. destruct (eval_total V deps body deps_lt n) as [v ->]. discriminate.
  Qed.
End MemoCorollaries.

(** ** two instances interleaved: every read returns the cache-free value of ITS instance,
       whatever was done with the other instance before *)
Section TwoInstancesLemmas.
  Variable V : Type.
  Variable depsA depsB : name -> list name.
  Variable bodyA bodyB : name -> list V -> V.
  Hypothesis ltA : forall n m, In m (depsA n) -> m < n.
  Hypothesis ltB : forall n m, In m (depsB n) -> m < n.

  Theorem instances_isolated_l : forall h cA cB,
    inv V depsA bodyA cA -> inv V depsB bodyB cB ->
    fst (run2 V depsA depsB bodyA bodyB h cA cB) = map (eval2 V depsA depsB bodyA bodyB) h /\
    inv V depsA bodyA (fst (snd (run2 V depsA depsB bodyA bodyB h cA cB))) /\
    inv V depsB bodyB (snd (snd (run2 V depsA depsB bodyA bodyB h cA cB))).
  Proof using ltA ltB.
    induction h as [|[[|] n] r IH]; intros cA cB HA HB; cbn [run2 map].
    - cbn. auto.
    - destruct (get_spec V depsA bodyA ltA n cA HA) as [E [I _]].
      destruct (get V depsA bodyA n cA) as [o c1]. cbn [fst snd] in *.
      destruct (IH c1 cB I HB) as [E2 [I2 J2]].
      destruct (run2 V depsA depsB bodyA bodyB r c1 cB) as [os cc]. cbn [fst snd] in *.
      repeat split; try assumption; try apply I2; try apply J2. unfold eval2 at 1. cbn [fst snd]. congruence.
    - destruct (get_spec V depsB bodyB ltB n cB HB) as [E [I _]].
      destruct (get V depsB bodyB n cB) as [o c1]. cbn [fst snd] in *.
      destruct (IH cA c1 HA I) as [E2 [I2 J2]].
      destruct (run2 V depsA depsB bodyA bodyB r cA c1) as [os cc]. cbn [fst snd] in *.
      repeat split; try assumption; try apply I2; try apply J2. unfold eval2 at 1. cbn [fst snd]. congruence.
  Qed.

  (** A, B, A again: A's reads equal those of a process that only ever used A *)
  Theorem interleaving_equals_alone_l : forall h,
    map snd (filter (fun x => fst (fst x)) (combine h (fst (run2 V depsA depsB bodyA bodyB h [] [])))) =
    fst (run V depsA bodyA (map snd (filter (fun x => fst x) h)) []).
  Proof using ltA ltB.
    intros h.
    rewrite (proj1 (instances_isolated_l h [] [] (inv_nil V depsA bodyA) (inv_nil V depsB bodyB))).
    rewrite (proj1 (memo_refines_pure_l V depsA bodyA ltA _ [] (inv_nil V depsA bodyA))).
    induction h as [|[[|] n] r IH]; cbn [map combine filter fst snd]; [reflexivity| |exact IH].
    rewrite IH. reflexivity.
  Qed.
End TwoInstancesLemmas.

(* ---------------------------------------------------------------------------------------- *)
(** ** assigned inputs *)
Section InputCellLemmas.
  Variables I V : Type.
  Variable f : I -> V.

  (** get_modulus_isothermal(x1); get_modulus_adiabatic(x2) on a fresh shear calculator: both
      return [f x1]; the second read ignores what was assigned in between *)
  Theorem shear_second_read_is_first_l : forall x1 x2,
    let '(o1, s1) := get_isothermal I V f x1 (cell0 I V) in
    let '(o2, s2) := get_adiabatic I V f x2 s1 in
    o1 = Some (f x1) /\ o2 = Some (f x1) /\ (o2 = Some (f x2) <-> f x1 = f x2).
  Proof.
    intros x1 x2. cbn. repeat split; intros H; [injection H; auto | f_equal; exact H].
  Qed.

  (** every assign-then-read on a fresh cell returns [f] of the FIRST assigned input *)
  Lemma run_cell_cached : forall xs v s, c_memo I V s = Some v ->
    fst (run_cell I V f xs s) = map (fun _ => Some v) xs /\ c_memo I V (snd (run_cell I V f xs s)) = Some v.
  Proof.
    induction xs as [|x r IH]; intros v s Hs; cbn [run_cell map]; [auto|].
    unfold read_cell, assign. cbn [c_memo]. rewrite Hs.
    specialize (IH v (mkCell I V (Some x) (Some v)) eq_refl).
    destruct (run_cell I V f r (mkCell I V (Some x) (Some v))) as [os s2]. cbn [fst snd] in *.
    destruct IH as [-> H2]. split; [reflexivity | exact H2].
  Qed.
  Theorem cell_reads_first_input_l : forall x xs,
    fst (run_cell I V f (x :: xs) (cell0 I V)) = map (fun _ => Some (f x)) (x :: xs).
  Proof.
    intros x xs. cbn [run_cell map]. unfold read_cell, assign, cell0. cbn [c_memo c_inp].
    destruct (run_cell_cached xs (f x) (mkCell I V (Some x) (Some (f x))) eq_refl) as [H _].
    destruct (run_cell I V f xs (mkCell I V (Some x) (Some (f x)))) as [os s2]. cbn [fst snd] in *.
    rewrite H. reflexivity.
  Qed.
  (** hence: the reads are the cache-free values [f x_i] for all i iff [f] agrees on all inputs
      with the first one; in particular when the same input is assigned every time (tasks.py:
      both getters assign the task's own modulus_results, set once in calculate()) *)
  Theorem cell_pure_iff_inputs_agree_l : forall x xs,
    fst (run_cell I V f (x :: xs) (cell0 I V)) = map (fun y => Some (f y)) (x :: xs) <->
    (forall y, In y xs -> f y = f x).
  Proof.
    intros x xs. rewrite cell_reads_first_input_l. cbn [map]. split.
    - intros H y Hy. injection H as H. clear - H Hy. induction xs as [|z r IH]; [destruct Hy|].
      cbn [map] in H. injection H as H1 H2. destruct Hy as [<-|Hy]; [congruence | apply IH; assumption].
    - intros H. f_equal. induction xs as [|z r IH]; [reflexivity|]. cbn [map]. f_equal.
      + f_equal. symmetry. apply H. left; reflexivity.
      + apply IH. intros y Hy. apply H. right; exact Hy.
  Qed.
End InputCellLemmas.

(** the hazard is real at model level: with different inputs in between, the second read is NOT
    the cache-free value *)
Lemma shear_stale_when_inputs_differ_l :
  exists (f : nat -> nat) x1 x2,
    fst (get_adiabatic nat nat f x2 (snd (get_isothermal nat nat f x1 (cell0 nat nat)))) <> Some (f x2).
Proof. exists (fun x => x), 0, 1. cbn. discriminate. Qed.

(* ---------------------------------------------------------------------------------------- *)
(** ** writers *)
Lemma wrun_shared ops : forall w, w_shared (snd (wrun w ops)) = w_shared w.
Proof.
  induction ops as [|o r IH]; intros w; cbn [wrun]; [reflexivity|].
  destruct (wstep w o) as [x w1] eqn:E. specialize (IH w1). destruct (wrun w1 r) as [xs w2]. cbn [snd] in *.
  rewrite IH. destruct o as [[rs|]|i kw]; cbn in E; injection E as _ <-; reflexivity.
Qed.
Lemma wrun_writers ops : forall w,
  w_writers (snd (wrun w ops)) = w_writers w ++ map registry (built_from (w_shared w) ops).
Proof.
  induction ops as [|o r IH]; intros w; cbn [wrun built_from].
  - cbn. rewrite app_nil_r. reflexivity.
  - destruct (wstep w o) as [x w1] eqn:E. specialize (IH w1). destruct (wrun w1 r) as [xs w2]. cbn [snd] in *.
    rewrite IH. destruct o as [[rs|]|i kw]; cbn in E; injection E as _ <-; cbn [w_writers w_shared map];
      rewrite <- ?app_assoc; reflexivity.
Qed.

(** registry_fresh: after ANY history of creating writers and writing with them,
    - the shared rule list is what it was,
    - writer number i resolves every keyword to the LAST rule listing it in the rule list that
      writer was built from - a function of that list alone, not of the history. *)
Theorem registry_fresh_l : forall shared ops,
  let w := snd (wrun (mkWorld shared []) ops) in
  w_shared w = shared /\
  forall i kw, i < List.length (built_from shared ops) ->
    dget kw (nth i (w_writers w) []) = lookup_last (nth i (built_from shared ops) []) kw.
Proof.
  intros shared ops w. subst w. split; [apply wrun_shared|].
  intros i kw Hi. rewrite wrun_writers. cbn [w_writers w_shared app].
  rewrite <- (lookup_is_last (nth i (built_from shared ops) []) kw). unfold lookup.
  f_equal. change (@nil (string * rule)) with (registry []). apply map_nth.
Qed.
Lemma built_from_app shared a b :
  built_from shared (a ++ b) = built_from shared a ++ built_from shared b.
Proof.
  induction a as [|[[rs|]|j k] r IH]; cbn [app built_from]; rewrite ?IH; reflexivity.
Qed.
(** a write resolves the same rule before and after any other activity (other writers created,
    other writes, writers with custom rule lists) *)
Theorem write_unaffected_by_others_l : forall shared ops1 ops2 i kw,
  i < List.length (built_from shared ops1) ->
  fst (wstep (snd (wrun (mkWorld shared []) ops1)) (WWrite i kw)) =
  fst (wstep (snd (wrun (mkWorld shared []) (ops1 ++ ops2))) (WWrite i kw)).
Proof.
  intros shared ops1 ops2 i kw Hi. cbn [wstep fst].
  rewrite (proj2 (registry_fresh_l shared ops1) i kw Hi).
  rewrite (proj2 (registry_fresh_l shared (ops1 ++ ops2)) i kw)
    by (rewrite built_from_app, app_length; lia).
  rewrite built_from_app, app_nth1 by exact Hi. reflexivity.
Qed.

(* ---------------------------------------------------------------------------------------- *)
(** ** relations-file lookup and the working directory *)
Lemma lfind_app s a b : lfind s (a ++ b) = match lfind s a with Some k => Some k | None => lfind s b end.
Proof.
  induction a as [|[n k] r IH]; cbn [app lfind]; [reflexivity|]. destruct (String.eqb s n); [reflexivity | exact IH].
Qed.
(** cwd_independence, current code: unless the cwd holds a REGULAR FILE named like the system
    (which the API documents as "a path to a relations file"), the packaged relations are used:
    directories of that name and all other entries are irrelevant *)
Theorem cwd_independence_l : forall l system,
  lfind system l <> Some KFile -> locate l system = locate [] system /\ locate l system = Packaged system.
Proof.
  intros l system H. unfold locate. cbn [lfind].
  destruct (lfind system l) as [[|]|]; [congruence | auto | auto].
Qed.
(** entries with other names never matter (also next to a user file) *)
Theorem cwd_unrelated_entries_irrelevant_l : forall l extra system,
  lfind system extra = None -> locate (l ++ extra) system = locate l system /\ locate (extra ++ l) system = locate l system.
Proof.
  intros l extra system H. unfold locate. rewrite !lfind_app, H. split; [|reflexivity].
  destruct (lfind system l); reflexivity.
Qed.
(** full strength (ALL listings) is false by design: a regular file named like the system is used *)
Theorem cwd_independence_full_refuted_l :
  exists l system, locate l system <> locate [] system.
Proof. exists [("cubic"%string, KFile)], "cubic"%string. cbn. discriminate. Qed.
(** the code before ff7b5dd: any entry of that name left `constraints` unbound (D7) *)
Theorem cwd_independence_refuted_before_fix_l :
  exists l system, locate_before_fix [] system = Packaged system /\ locate_before_fix l system = Unbound.
Proof. exists [("cubic"%string, KDir)], "cubic"%string. cbn. auto. Qed.

(* ---------------------------------------------------------------------------------------- *)
(** ** fill is idempotent under its contract *)
Section FillIdempotent.
  Variable table : Type.
  Variable fill : table -> option table.
  Variable closed : table -> Prop.
  Variable agree : table -> table -> Prop.
  Hypothesis contract : fill_contract table fill closed agree.

  Theorem fill_idempotent_l : forall t t', fill t = Some t' -> fill t' = Some t'.
  Proof using contract.
    intros t t' H. apply (fill_fixes_closed _ _ _ _ contract).
    exact (proj1 (fill_output_closed _ _ _ _ contract t t' H)).
  Qed.
  (** in the form fill (fill t) = fill t *)
  Theorem fill_fill_l : forall t,
    match fill t with Some t' => fill t' | None => None end = fill t.
  Proof using contract.
    intros t. destruct (fill t) as [t'|] eqn:E; [exact (fill_idempotent_l t t' E) | reflexivity].
  Qed.
End FillIdempotent.

(** the contract is satisfiable by a fill that really fills: tables over the two keys of the
    relation  c11 = c22 : a table supplies each key or not; [fill] copies the supplied value to the
    other key, rejects a table supplying neither (rank) or two different values (residual) *)
Definition t2 := (option Z * option Z)%type.
Definition fill2 (t : t2) : option t2 :=
  match t with
  | (Some a, Some b) => if Z.eqb a b then Some t else None
  | (Some a, None) => Some (Some a, Some a)
  | (None, Some b) => Some (Some b, Some b)
  | (None, None) => None
  end.
Definition closed2 (t : t2) : Prop := exists a, t = (Some a, Some a).
Definition agree2 (t t' : t2) : Prop :=
  (forall a, fst t = Some a -> fst t' = Some a) /\ (forall b, snd t = Some b -> snd t' = Some b).
Lemma fill2_contract : fill_contract t2 fill2 closed2 agree2.
Proof.
  split.
  - intros [[a|] [b|]] t'; cbn.
    + destruct (Z.eqb_spec a b) as [->|]; [|discriminate]. intros H; injection H as <-.
      split; [exists b; reflexivity | split; cbn; auto].
    + intros H; injection H as <-. split; [exists a; reflexivity | split; cbn; [auto | discriminate]].
    + intros H; injection H as <-. split; [exists b; reflexivity | split; cbn; [discriminate | auto]].
    + discriminate.
  - intros t [a ->]. cbn. rewrite Z.eqb_refl. reflexivity.
Qed.
Lemma fill2_fills : fill2 (Some 300%Z, None) = Some (Some 300%Z, Some 300%Z).
Proof. reflexivity. Qed.
