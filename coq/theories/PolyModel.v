(** C11 - polynomials as coefficient lists, numpy convention (HIGHEST degree first):
    [polyval] is numpy.polyval / poly1d.__call__ (Horner), [polyder] is numpy.polyder (m=1),
    [plin_step] is the one polynomial-arithmetic primitive the interpolation models need
    (r(x) * (al*x + be) + c).  Written once over [Ops F]; no proofs here. *)
From Coq Require Import ZArith List.
From Cij Require Import Ops.
Import ListNotations.

Section PolyModel.
  Context {F : Type} {OF : Ops F}.
  Local Open Scope ops_scope.

  Definition horner (x : F) (y c : F) : F := y * x + c.

  (** numpy.polyval(p, x):  y = 0; for c in p: y = y*x + c *)
  Definition polyval (p : list F) (x : F) : F := fold_left (horner x) p zero.

  (** numpy.polyder(p):  p[:-1] * arange(n, 0, -1) with n = len(p)-1 *)
  Fixpoint polyder (p : list F) : list F :=
    match p with
    | [] => []
    | c :: r =>
        match r with
        | [] => []
        | _ :: _ => ofZ (Z.of_nat (length r)) * c :: polyder r
        end
    end.

  (** coefficients of  r(x) * (al*x + be) + c  (one degree higher than r) *)
  Definition plin_step (r : list F) (al be c : F) : list F :=
    zipw add (map (mul al) r ++ [c]) (zero :: map (mul be) r).

  (** coefficients of q(al*x + be) *)
  Definition pcompose_affine (q : list F) (al be : F) : list F :=
    fold_left (fun r c => plin_step r al be c) q [].

  (** the triple every polynomial method returns at x = ln V *)
  Definition poly_triple (p : list F) (x : F) : F * F * F :=
    (fexp (polyval p x), - polyval (polyder p) x, - polyval (polyder (polyder p)) x).
End PolyModel.
