(** C05 - model of the end-to-end composition in cij/core/calculator.py and
    cij/core/full_modulus.py:  total modulus = interpolated static table + phonon part.
    Written once over [Ops F]; no proofs here (lemmas are in Total.v).

    Reused models: eulerian strain, numpy.gradient, CODATA GPa factor (StaticModel.v),
    polyval (PolyModel.v), normal-equation residual (InterpModel.v), the per-(T,V) phonon
    contribution of the non-shear classes (NonShearModel.v), the shear solver (ShearModel.v)
    and the task evaluation [valn]/[cev]/[col] (TasksModel.v).

    ORACLE inputs (record [oracle]): the QHA layer (v_array, t_array, P(T,V), C_V(T,V)), the
    interpolated spectrum (freq, gamma, V dgamma/dV on the grid - C11), the eigen-frames of the
    fictitious strains (LAPACK), the unit constants, and the coefficient vectors returned by
    numpy.polyfit / numpy.linalg.lstsq.  The coefficient vectors are CERTIFIED inside the model:
    [cert_ok] checks the normal equations A^T (A c - y) = 0 to a relative residual [tol]
    (tol = 0 over R: the exact normal equations). *)
From Coq Require Import ZArith List Bool Arith.
From Cij Require Import Ops PolyModel InterpModel StaticModel NonShearModel Voigt ShearModel TasksModel.
Import ListNotations.

Section Total.
  Context {F : Type} {OF : Ops F}.
  Local Open Scope ops_scope.

  (* ------------------------------------------------------------------ strain, units *)
  (** qha.grid_interpolation.calculate_eulerian_strain:  1/2 ((v0/v)^(2/3) - 1) *)
  Definition eulerian (v0 v : F) : F := s_strain v0 v.
  Definition eul (v0 : F) (vs : list F) : list F := map (eulerian v0) vs.

  (** cij.util._from_gpa / _to_gpa: [g] = 1 Ry/bohr^3 in GPa *)
  Definition from_gpa (g x : F) : F := x / g.
  Definition to_gpa (g x : F) : F := x * g.
  (** the CODATA-2018 value of [g] (13.605693122994 eV, 1.602176634e-19 C, 0.529177210903 A) *)
  Definition gpa_codata : F := s_gpa_factor.

  (* ------------------------------------------------------------------ least-squares certificate *)
  Definition abs_moment (k : nat) (xs ys : list F) : F :=
    sum (zipw (fun x y => fabs (powN x k * y)) xs ys).
  (** |sum_i x_i^k (p(x_i) - y_i)| <= tol * sum_i |x_i^k y_i|   for k = 0..deg *)
  Definition cert_ok (tol : F) (deg : nat) (xs ys c : list F) : bool :=
    Nat.eqb (length c) (S deg) && Nat.eqb (length xs) (length ys) &&
    forallb (fun k => fleb (fabs (normal_resid k xs ys c)) (tol * abs_moment k xs ys)) (seq 0 (S deg)).

  (* ------------------------------------------------------------------ fit_modulus *)
  (** numpy.polyval(p, strain_array) / v_array,  reference volume = volumes[0] *)
  Definition fit_with (c vols varr : list F) : list F :=
    let v0 := s_nth 0 vols in
    map (fun v => polyval c (eulerian v0 v) / v) varr.
  (** the data handed to numpy.polyfit: (strains, volumes * moduli), deg = order + 1 = 3 *)
  Definition fit_deg : nat := 3.
  Definition fit_cert (tol : F) (c vols ys : list F) : bool :=
    cert_ok tol fit_deg (eul (s_nth 0 vols) vols) (zipw mul vols ys) c.
  Definition fit_modulus_with (tol : F) (c vols varr ys : list F) : option (list F) :=
    if fit_cert tol c vols ys then Some (fit_with c vols varr) else None.

  (** get_static_modulus *)
  Definition static_col (tol g : F) (c vols varr col : list F) : option (list F) :=
    fit_modulus_with tol c vols varr (map (from_gpa g) col).

  (* ------------------------------------------------------------------ get_axial_strains *)
  (** params[[0, 0..n-1, -1]] *)
  Definition pad_edges (p : list F) : list F := s_nth 0 p :: p ++ [last p zero].
  (** (tmp[2:] - tmp[:-2]) / (tmp[2:] + tmp[:-2]) *)
  Definition logdiff (p : list F) : list F :=
    let tmp := pad_edges p in
    map (fun k => (s_nth (k + 2) tmp - s_nth k tmp) / (s_nth (k + 2) tmp + s_nth k tmp))
        (seq 0 (length p)).
  Definition column (i : nat) (rows : list (list F)) : list F := map (fun r => nth i r zero) rows.
  (** un-normalised strain column of axis i: only column i of the lattice block enters *)
  Definition raw_strain (tol : F) (c vols varr : list F) (lattice : list (list F)) (i : nat) : option (list F) :=
    match fit_modulus_with tol c vols varr (column i lattice) with
    | Some p => Some (logdiff p)
    | None => None
    end.
  (** strains / numpy.sum(strains, axis=1, keepdims=True) *)
  Definition normalise_row (r : list F) : list F := map (fun x => x / suml r) r.
  Definition rows_of3 (a b c : list F) : list (list F) :=
    zipw (fun x yz => [x; fst yz; snd yz]) a (combine b c).
  Definition ones_frame (varr : list F) : list (list F) := map (fun _ => [one; one; one]) varr.
  Definition axial_strains (tol : F) (cs : list (list F)) (vols varr : list F) (lattice : list (list F))
    : option (list (list F)) :=
    match lattice with
    | [] => Some (ones_frame varr)
    | _ :: _ =>
        match raw_strain tol (nth 0 cs []) vols varr lattice 0,
              raw_strain tol (nth 1 cs []) vols varr lattice 1,
              raw_strain tol (nth 2 cs []) vols varr lattice 2 with
        | Some a, Some b, Some c => Some (map normalise_row (rows_of3 a b c))
        | _, _, _ => None
        end
    end.

  (* ------------------------------------------------------------------ _interpolate_modes *)
  Definition sq3 (g : list (list (list F))) : list (list (list F)) := map (map (map (fun x => x * x))) g.
  (** self.mode_gamma = [vdr_dv, gamma_i, gamma_i**2] *)
  Definition mode_gamma (vdr gam : list (list (list F))) : list (list (list (list F))) := [vdr; gam; sq3 gam].

  (* ------------------------------------------------------------------ _calculate_pressure_static *)
  (** energies: cubic in Eulerian strain (reference = first volume of the phonon file), coefficients
      HIGHEST degree first here (the harness reverses numpy.vander(increasing=True) order) *)
  Definition static_energy (ce qvols varr : list F) : list F :=
    map (fun v => polyval ce (eulerian (s_nth 0 qvols) v)) varr.
  (** - numpy.gradient(E) / numpy.gradient(V) *)
  Definition static_p (tol : F) (ce qvols ens varr : list F) : option (list F) :=
    if cert_ok tol fit_deg (eul (s_nth 0 qvols) qvols) ens ce
    then Some (s_pgrid (static_energy ce qvols varr) varr) else None.

  (* ------------------------------------------------------------------ inputs *)
  Fixpoint alook {A} (k : vkey) (l : list (vkey * A)) : option A :=
    match l with [] => None | (k', v) :: r => if vkey_eqb k k' then Some v else alook k r end.

  (** what the three files contain (after parsing - C17 - and, when a crystal system is requested,
      after apply_symetry_on_elast_data - C08: 'fill first') *)
  Record files := {
    f_evols : list F;                     (* elast.dat volumes *)
    f_table : list (vkey * list F);       (* key -> column in GPa *)
    f_lattice : list (list F);            (* [] or one row (a, b, c) per volume *)
    f_qvols : list F; f_energies : list F;   (* phonon file: volumes, static energies *)
    f_weights : list F; f_na : Z }.

  Record oracle := {
    o_gpa : F; o_K : @consts F;
    o_varr : list F; o_tarr : list F;                       (* QHA grid *)
    o_p : list (list F); o_cv : list (list F);              (* P(T,V), C_V(T,V)   [t][v] *)
    o_freq : list (list (list F)); o_gam : list (list (list F)); o_vdr : list (list (list F));  (* [v][q][m] *)
    o_cstat : list (vkey * list F);                         (* polyfit coefficients per key *)
    o_clat : list (list F);                                 (* polyfit coefficients per axis *)
    o_cen : list F;                                         (* lstsq coefficients of the static energy *)
    o_eig : list (vkey * (list F * list (list F))) }.        (* eigh(fictitious strain) per shear key *)

  Definition nanF : F := zero / zero.
  Definition eig_of (l : list (vkey * (list F * list (list F)))) (k : vkey) : (nat -> F) * (nat -> nat -> F) :=
    match alook k l with
    | Some (lam, T) => (vec3 lam, mat3 T)
    | None => (fun _ => nanF, fun _ _ => nanF)
    end.
  (** numpy.isclose(x, 0): |x| <= 1e-8 *)
  Definition isz (x : F) : bool := fleb (fabs x) (ofQ' 1 100000000).

  (* ------------------------------------------------------------------ the three parts *)
  Section Run.
    Variable tol : F.
    Variable fl : files.
    Variable orc : oracle.

    Definition static_of_col (key : vkey) (col : list F) : option (list F) :=
      match alook key (o_cstat orc) with
      | Some c => static_col tol (o_gpa orc) c (f_evols fl) (o_varr orc) col
      | None => None
      end.
    (** static part of one key: NO temperature argument *)
    Definition static_part (key : vkey) : option (list F) :=
      match alook key (f_table fl) with
      | Some col => static_of_col key col
      | None => None
      end.
    Definition frame0 : option (list (list F)) :=
      axial_strains tol (o_clat orc) (f_evols fl) (o_varr orc) (f_lattice fl).
    Definition pstatic : option (list F) :=
      static_p tol (o_cen orc) (f_qvols fl) (f_energies fl) (o_varr orc).

    (** value of a non-shear task at grid point (ti, vi): the C01/C02 model *)
    Definition ns_at (adi : bool) (pst : list F) (ti vi : nat) (t : @ctask F) : option F :=
      let '(CT f k) := t in
      if is_shear k then None else
      let mg := mode_gamma (o_vdr orc) (o_gam orc) in
      let fr := nth vi (o_freq orc) [] in
      let ga := nth vi (nth 1 mg []) [] in
      let vd := nth vi (nth 0 mg []) [] in
      let ei := nth vi (col (fst k - 1) f) zero in
      let ej := nth vi (col (snd k - 1) f) zero in
      let v := nth vi (o_varr orc) zero in
      let t := nth ti (o_tarr orc) zero in
      let p := nth vi (nth ti (o_p orc) []) zero in
      let ps := nth vi pst zero in
      Some (if adi
            then adiabatic (o_K orc) Q1_neg Q2_neg (is_long k) (f_weights fl) (f_na fl) fr ga vd ei ej v t p ps
                           (nth vi (nth ti (o_cv orc) []) zero)
            else isothermal (o_K orc) Q1_neg Q2_neg (is_long k) (f_weights fl) (f_na fl) fr ga vd ei ej v t p ps).

    (** phonon part of one key at (ti, vi).  Shear keys: TasksModel.valn with the isothermal
        non-shear values (value_adiabatic of the shear class IS value_isothermal). *)
    Definition phonon_at (adi : bool) (fr0 : list (list F)) (pst : list F) (ti vi : nat) (key : vkey) : option F :=
      if is_shear key then
        valn (cev (eig_of (o_eig orc)) isz (fun _ _ => None) (ns_at false pst ti vi)) 3 (CT fr0 key)
      else ns_at adi pst ti vi (CT fr0 key).

    (** the phonon part sees the static table only through its key set *)
    Definition phonon_part (keys : list vkey) (adi : bool) (ti vi : nat) (key : vkey) : option F :=
      if existsb (vkey_eqb key) keys then
        match frame0, pstatic with
        | Some fr0, Some pst => phonon_at adi fr0 pst ti vi key
        | _, _ => None
        end
      else None.

    (** modulus_isothermal[key][ti, vi] / modulus_adiabatic[key][ti, vi] *)
    Definition total (adi : bool) (ti vi : nat) (key : vkey) : option F :=
      match static_part key, phonon_part (map fst (f_table fl)) adi ti vi key with
      | Some st, Some ph => Some (nth vi st zero + ph)
      | _, _ => None
      end.
  End Run.
End Total.
