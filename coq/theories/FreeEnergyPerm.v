(** Presentation invariance of the harmonic free energy itself (C13, and the oracle side of C01/C02).

    Every thermodynamic quantity of the quasiharmonic model that C01/C02 use - F_zp, F_th, F_ph and their
    volume derivatives, the thermal pressure P_th and dP/dT - has the shape
         dsum w (phys_rows sp) f / Rsum w
    for a per-mode function [f].  Such a quantity does not depend on the order in which modes are listed
    within a q-point (at Gamma: modes 4.. ; the three acoustic slots stay first), on the order of the
    q-points 2..n_q listed together with their weights, or on a common non-zero factor of the weights. *)
From Coq Require Import Reals List ZArith Lra Lia Permutation.
From Coquelicot Require Import Coquelicot.
From Cij Require Import Ops ROps NonShearModel NonShear PermModel.
Import ListNotations.
Local Open Scope R_scope.

Lemma Rsum_perm (l l' : list R) : Permutation l l' -> Rsum l = Rsum l'.
Proof.
  induction 1 as [| x l l' _ IH | x y l | l l' l'' _ IH1 _ IH2]; rewrite ?Rsum_cons, ?Rsum_nil.
  - reflexivity.
  - rewrite IH. reflexivity.
  - ring.
  - rewrite IH1. exact IH2.
Qed.

Lemma Rsum_map_perm {A} (f : A -> R) (l l' : list A) : Permutation l l' -> Rsum (map f l) = Rsum (map f l').
Proof. intros H. apply Rsum_perm, Permutation_map, H. Qed.

(** 1. modes in another order within each q-point *)
Lemma dsum_rows_perm {A} (f : A -> R) (w : list R) (rows rows' : list (list A)) :
  Forall2 (@Permutation A) rows rows' -> dsum w rows f = dsum w rows' f.
Proof.
  intros H. revert w. induction H as [| r r' rows rows' Hr _ IH]; intros [| wq w]; cbn [dsum]; try reflexivity.
  rewrite (Rsum_map_perm f _ _ Hr), IH. reflexivity.
Qed.

Lemma phys_rows_modes_perm {A} (T T' : list (list A)) :
  modes_perm T T' -> Forall2 (@Permutation A) (phys_rows T) (phys_rows T').
Proof.
  destruct T as [| r rest], T' as [| r' rest']; cbn [modes_perm phys_rows]; try tauto.
  - intros _. constructor.
  - intros [[_ Hp] Hrest]. constructor; assumption.
Qed.

Theorem dsum_phys_modes_perm {A} (f : A -> R) (w : list R) (T T' : list (list A)) :
  modes_perm T T' -> dsum w (phys_rows T) f = dsum w (phys_rows T') f.
Proof. intros H. apply dsum_rows_perm, phys_rows_modes_perm, H. Qed.

(** 2. q-points 2..n_q in another order, listed together with their weights *)
Lemma dsum_pairs {A} (f : A -> R) (wr : list (R * list A)) :
  dsum (map fst wr) (map snd wr) f = Rsum (map (fun p => fst p * Rsum (map f (snd p))) wr).
Proof. induction wr as [| [wq r] wr IH]; cbn [map dsum fst snd]; rewrite ?Rsum_nil, ?Rsum_cons, ?IH; reflexivity. Qed.

Theorem dsum_phys_q_perm {A} (f : A -> R) (w0 : R) (r0 : list A) (wr wr' : list (R * list A)) :
  Permutation wr wr' ->
  dsum (q_weights w0 wr) (phys_rows (q_rows r0 wr)) f = dsum (q_weights w0 wr') (phys_rows (q_rows r0 wr')) f.
Proof.
  intros H. unfold q_weights, q_rows. cbn [phys_rows dsum]. f_equal.
  rewrite !dsum_pairs. apply Rsum_map_perm, H.
Qed.

Lemma Rsum_q_weights_perm {A} (w0 : R) (wr wr' : list (R * list A)) :
  Permutation wr wr' -> Rsum (q_weights w0 wr) = Rsum (q_weights w0 wr').
Proof. intros H. unfold q_weights. rewrite !Rsum_cons. f_equal. apply Rsum_map_perm, H. Qed.

(** 3. all weights multiplied by a common non-zero factor *)
Lemma dsum_weight_scale {A} (f : A -> R) (c : R) (w : list R) (rows : list (list A)) :
  dsum (map (fun x => c * x) w) rows f = c * dsum w rows f.
Proof.
  revert rows. induction w as [| wq w IH]; intros [| r rows]; cbn [map dsum]; try ring.
  rewrite IH. ring.
Qed.

Lemma Rsum_weight_scale (c : R) (w : list R) : Rsum (map (fun x => c * x) w) = c * Rsum w.
Proof. induction w as [| x w IH]; cbn [map]; rewrite ?Rsum_nil, ?Rsum_cons, ?IH; ring. Qed.

Theorem wavg_weight_scale {A} (f : A -> R) (c : R) (w : list R) (rows : list (list A)) :
  c <> 0 -> Rsum w <> 0 ->
  dsum (map (fun x => c * x) w) rows f / Rsum (map (fun x => c * x) w) = dsum w rows f / Rsum w.
Proof. intros Hc Hw. rewrite dsum_weight_scale, Rsum_weight_scale. field. split; assumption. Qed.

(** * The free energy, the thermal pressure and dP/dT of the whole spectrum *)
Section FreeEnergy.
  Variable K : @consts R.

  (** any quantity of the shape the spectrum functions have *)
  Definition spectral (f : mode -> R) (w : list R) (sp : list (list mode)) : R :=
    dsum w (phys_rows sp) f / Rsum w.

  Lemma F_zp_spectral w sp V : F_zp K w sp V = spectral (fun m => Fzp K m V) w sp.
  Proof. reflexivity. Qed.
  Lemma F_th_spectral w sp T V : F_th K w sp T V = spectral (fun m => Fth K T m V) w sp.
  Proof. reflexivity. Qed.
  Lemma P_th_spectral w sp T V : P_th K w sp T V = - spectral (fun m => Fth1 K T m V) w sp.
  Proof. reflexivity. Qed.
  Lemma dPdT_spectral w sp T V :
    dPdT K w sp T V = spectral (fun m => c_k K / V * (gamma_of m V * Q2_exp (OF:=ROps) (Qm K T m V))) w sp.
  Proof. reflexivity. Qed.

  Theorem spectral_modes_perm f w sp sp' : modes_perm sp sp' -> spectral f w sp = spectral f w sp'.
  Proof. intros H. unfold spectral. rewrite (dsum_phys_modes_perm f w sp sp' H). reflexivity. Qed.

  Theorem spectral_q_perm f w0 r0 (wr wr' : list (R * list mode)) :
    Permutation wr wr' ->
    spectral f (q_weights w0 wr) (q_rows r0 wr) = spectral f (q_weights w0 wr') (q_rows r0 wr').
  Proof.
    intros H. unfold spectral.
    rewrite (dsum_phys_q_perm f w0 r0 wr wr' H), (Rsum_q_weights_perm w0 wr wr' H). reflexivity.
  Qed.

  Theorem spectral_weight_scale f c w sp :
    c <> 0 -> Rsum w <> 0 -> spectral f (map (fun x => c * x) w) sp = spectral f w sp.
  Proof. intros Hc Hw. unfold spectral. apply wavg_weight_scale; assumption. Qed.

  (** the free energy of C01 under the three re-presentations *)
  Theorem F_ph_modes_perm w sp sp' T V : modes_perm sp sp' -> F_ph K w sp T V = F_ph K w sp' T V.
  Proof.
    intros H. unfold F_ph. rewrite !F_zp_spectral, !F_th_spectral.
    rewrite (spectral_modes_perm _ w sp sp' H), (spectral_modes_perm (fun m => Fth K T m V) w sp sp' H). reflexivity.
  Qed.

  Theorem F_ph_q_perm w0 r0 (wr wr' : list (R * list mode)) T V :
    Permutation wr wr' ->
    F_ph K (q_weights w0 wr) (q_rows r0 wr) T V = F_ph K (q_weights w0 wr') (q_rows r0 wr') T V.
  Proof.
    intros H. unfold F_ph. rewrite !F_zp_spectral, !F_th_spectral.
    rewrite (spectral_q_perm _ w0 r0 wr wr' H), (spectral_q_perm (fun m => Fth K T m V) w0 r0 wr wr' H). reflexivity.
  Qed.

  Theorem F_ph_weight_scale c w sp T V :
    c <> 0 -> Rsum w <> 0 -> F_ph K (map (fun x => c * x) w) sp T V = F_ph K w sp T V.
  Proof.
    intros Hc Hw. unfold F_ph. rewrite !F_zp_spectral, !F_th_spectral.
    rewrite !spectral_weight_scale by assumption. reflexivity.
  Qed.

  (** hence everything derived from F_ph by differentiation in V or T is presentation independent:
      equal functions have equal derivatives (stated with Coquelicot's [Derive]) *)
  Corollary dF_ph_dV_modes_perm w sp sp' T V :
    modes_perm sp sp' -> Derive (F_ph K w sp T) V = Derive (F_ph K w sp' T) V.
  Proof. intros H. apply Derive_ext. intros v. apply F_ph_modes_perm, H. Qed.

  Corollary dF_ph_dT_modes_perm w sp sp' T V :
    modes_perm sp sp' -> Derive (fun t => F_ph K w sp t V) T = Derive (fun t => F_ph K w sp' t V) T.
  Proof. intros H. apply Derive_ext. intros t. apply F_ph_modes_perm, H. Qed.

  Corollary d2F_ph_dT2_modes_perm w sp sp' T V :
    modes_perm sp sp' -> Derive_n (fun t => F_ph K w sp t V) 2 T = Derive_n (fun t => F_ph K w sp' t V) 2 T.
  Proof. intros H. apply Derive_n_ext. intros t. apply F_ph_modes_perm, H. Qed.

  Corollary dF_ph_dV_q_perm w0 r0 (wr wr' : list (R * list mode)) T V :
    Permutation wr wr' ->
    Derive (F_ph K (q_weights w0 wr) (q_rows r0 wr) T) V = Derive (F_ph K (q_weights w0 wr') (q_rows r0 wr') T) V.
  Proof. intros H. apply Derive_ext. intros v. apply F_ph_q_perm, H. Qed.

  Corollary d2F_ph_dT2_q_perm w0 r0 (wr wr' : list (R * list mode)) T V :
    Permutation wr wr' ->
    Derive_n (fun t => F_ph K (q_weights w0 wr) (q_rows r0 wr) t V) 2 T
    = Derive_n (fun t => F_ph K (q_weights w0 wr') (q_rows r0 wr') t V) 2 T.
  Proof. intros H. apply Derive_n_ext. intros t. apply F_ph_q_perm, H. Qed.

  Corollary dF_ph_dV_weight_scale c w sp T V :
    c <> 0 -> Rsum w <> 0 -> Derive (F_ph K (map (fun x => c * x) w) sp T) V = Derive (F_ph K w sp T) V.
  Proof. intros Hc Hw. apply Derive_ext. intros v. apply F_ph_weight_scale; assumption. Qed.

  Corollary d2F_ph_dT2_weight_scale c w sp T V :
    c <> 0 -> Rsum w <> 0 ->
    Derive_n (fun t => F_ph K (map (fun x => c * x) w) sp t V) 2 T = Derive_n (fun t => F_ph K w sp t V) 2 T.
  Proof. intros Hc Hw. apply Derive_n_ext. intros t. apply F_ph_weight_scale; assumption. Qed.

  (** the closed forms used by C02 *)
  Theorem P_th_modes_perm w sp sp' T V : modes_perm sp sp' -> P_th K w sp T V = P_th K w sp' T V.
  Proof. intros H. rewrite !P_th_spectral, (spectral_modes_perm _ w sp sp' H). reflexivity. Qed.
  Theorem dPdT_modes_perm w sp sp' T V : modes_perm sp sp' -> dPdT K w sp T V = dPdT K w sp' T V.
  Proof. intros H. rewrite !dPdT_spectral, (spectral_modes_perm _ w sp sp' H). reflexivity. Qed.
  Theorem dPdT_q_perm w0 r0 (wr wr' : list (R * list mode)) T V :
    Permutation wr wr' ->
    dPdT K (q_weights w0 wr) (q_rows r0 wr) T V = dPdT K (q_weights w0 wr') (q_rows r0 wr') T V.
  Proof. intros H. rewrite !dPdT_spectral, (spectral_q_perm _ w0 r0 wr wr' H). reflexivity. Qed.
  Theorem dPdT_weight_scale c w sp T V :
    c <> 0 -> Rsum w <> 0 -> dPdT K (map (fun x => c * x) w) sp T V = dPdT K w sp T V.
  Proof. intros Hc Hw. rewrite !dPdT_spectral. apply spectral_weight_scale; assumption. Qed.
End FreeEnergy.

(** non-vacuity: a two-q-point spectrum whose Gamma row lists its optical modes in another order *)
Example modes_perm_example :
  forall a b c d e : mode, modes_perm [[a; b; c; d; e]; [d; e]] [[a; b; c; e; d]; [e; d]].
Proof.
  intros. cbn [modes_perm]. split.
  - split; [reflexivity | cbn [skipn]; apply perm_swap].
  - constructor; [apply perm_swap | constructor].
Qed.
