(** C11 - theorems about InterpModel at the real instance. *)
From Coq Require Import Reals ZArith List Bool Lia Lra.
From Coquelicot Require Import Coquelicot.
From Cij Require Import Ops ROps PolyModel InterpModel Poly.
Import ListNotations.
Local Open Scope R_scope.

(** ---- 1. consistency of the triple for the three polynomial methods -------------------- *)
Definition poly_method (m : method) : Prop := m = Lagrange \/ m = Krogh \/ m = LsqPoly.

(** Every polynomial method returns, on every grid, the triple of ONE coefficient list p
    evaluated at x = ln V; for that triple gamma = - d ln(omega)/dx and third = d gamma/dx. *)
Lemma triple_consistent_poly_l :
  forall (lib : @library R) (m : method) (order : nat) (vols freqs : list R),
    poly_method m ->
    exists p : list R,
      (forall grid, @mode_fn R ROps lib m order vols freqs grid = map (fun v => poly_tripleR p (ln v)) grid) /\
      forall x,
        is_derive (fun t => ln (fst (fst (poly_tripleR p t)))) x (- snd (fst (poly_tripleR p x))) /\
        is_derive (fun t => snd (fst (poly_tripleR p t))) x (snd (poly_tripleR p x)).
Proof.
  intros lib m order vols freqs [ -> | [ -> | -> ] ].
  - exists (@node_poly R ROps order vols freqs). split; [reflexivity | apply Poly.triple_consistent_poly_l].
  - exists (@node_poly R ROps order vols freqs). split; [reflexivity | apply Poly.triple_consistent_poly_l].
  - exists (@lsq_poly R ROps order vols freqs). split; [reflexivity | apply Poly.triple_consistent_poly_l].
Qed.

(** ---- 5. the four library methods: consistency under the library contract --------------- *)
Definition oracle_tripleR (o : @interp_oracle R) (t : R) : R * R * R :=
  (exp (o_val o t), - o_d1 o t, - o_d2 o t).
Definition library_contract (o : @interp_oracle R) : Prop :=
  (forall t, is_derive (o_val o) t (o_d1 o t)) /\ (forall t, is_derive (o_d1 o) t (o_d2 o t)).

Lemma triple_consistent_oracle_l :
  forall (o : @interp_oracle R),
    (forall grid, @oracle_mode R ROps o grid = map (fun v => oracle_tripleR o (ln v)) grid) /\
    (library_contract o -> forall x,
        is_derive (fun t => ln (fst (fst (oracle_tripleR o t)))) x (- snd (fst (oracle_tripleR o x))) /\
        is_derive (fun t => snd (fst (oracle_tripleR o t))) x (snd (oracle_tripleR o x))).
Proof.
  intros o. split; [reflexivity|]. intros [H1 H2] x. unfold oracle_tripleR. cbn [fst snd]. split.
  - rewrite Ropp_involutive.
    apply (is_derive_ext (o_val o)); [intros t; symmetry; apply ln_exp | apply H1].
  - apply (is_derive_opp (o_d1 o) x). apply H2.
Qed.

(** ---- 2. power-law data: the Newton form is exact --------------------------------------- *)
Notation dd_stepR := (@dd_step R ROps).
Notation dd_colsR := (@dd_cols R ROps).
Notation newton_expandR := (@newton_expand R ROps).
Notation interp_coeffsR := (@interp_coeffs R ROps).

Lemma dd_step_linear a b l :
  NoDup l -> List.Forall (eq b) (dd_stepR (map (fun x => a + b * x) l) l (tl l)).
Proof.
  induction l as [|x0 l1 IH]; intros ND; [constructor|].
  destruct l1 as [|x1 l2]; [constructor|].
  apply NoDup_cons_iff in ND. destruct ND as [Hnin ND].
  cbn [map tl dd_step]. constructor.
  - rops. assert (x1 - x0 <> 0) by (intros E; apply Hnin; left; lra). field. exact H.
  - exact (IH ND).
Qed.

Lemma dd_step_const c d : forall xlo xhi, List.Forall (eq c) d -> List.Forall (eq 0) (dd_stepR d xlo xhi).
Proof.
  induction d as [|d0 d' IH]; intros xlo xhi H; [constructor|].
  destruct d' as [|d1 d'']; [constructor|].
  destruct xlo as [|a xlo']; [constructor|]. destruct xhi as [|b xhi']; [constructor|].
  cbn [dd_step]. inversion H as [|? ? E0 H']; subst. inversion H' as [|? ? E1 H'']; subst.
  constructor.
  - rops. unfold Rdiv. rewrite Rminus_diag_eq by reflexivity. ring.
  - apply IH. exact H'.
Qed.

Lemma dd_cols_zero fuel : forall d xs xhi, List.Forall (eq 0) d -> List.Forall (eq 0) (dd_colsR fuel d xs xhi).
Proof.
  induction fuel as [|f IH]; intros d xs xhi H; [constructor|].
  destruct d as [|d0 d']; [constructor|]. cbn [dd_cols]. constructor.
  - inversion H; assumption.
  - apply IH. apply (dd_step_const 0). exact H.
Qed.

Lemma newton_expand_zero zs : List.Forall (eq 0) zs -> forall xs x, polyvalR (newton_expandR zs xs) x = 0.
Proof.
  induction zs as [|z zs IH]; intros H xs x.
  - cbn [newton_expand]. unfold polyval. cbn [fold_left]. rops. reflexivity.
  - inversion H as [|? ? E H']; subst. destruct xs as [|x0 xs']; cbn [newton_expand].
    + unfold polyval. cbn [fold_left]. unfold horner. rops. ring.
    + rewrite polyval_plin_step, (IH H'). ring.
Qed.

(** the interpolating polynomial through >= 2 distinct nodes of linear data is that line,
    at EVERY x (inside or outside the node range) *)
Lemma interp_linear_exact a b xs :
  NoDup xs -> (2 <= length xs)%nat ->
  forall x, polyvalR (interp_coeffsR xs (map (fun t => a + b * t) xs)) x = a + b * x.
Proof.
  intros ND Ln x. destruct xs as [|x0 [|x1 l2]]; try (cbn in Ln; lia).
  unfold interp_coeffs, newton_coeffs.
  set (xs := x0 :: x1 :: l2) in *. set (ys := map (fun t => a + b * t) xs).
  pose proof (dd_step_linear a b xs ND) as C1. fold ys in C1.
  assert (E : dd_colsR (length xs) ys xs xs =
              (a + b * x0) :: dd_colsR (S (length l2)) (dd_stepR ys xs (tl xs)) xs (tl xs)) by reflexivity.
  rewrite E. clear E.
  remember (dd_stepR ys xs (tl xs)) as col1 eqn:Ec1.
  assert (Ne : exists r, col1 = b :: r).
  { rewrite Ec1. unfold ys, xs. cbn [map tl dd_step]. eexists. f_equal.
    apply NoDup_cons_iff in ND. destruct ND as [Hnin _]. rops.
    assert (x1 - x0 <> 0) by (intros E; apply Hnin; left; lra). field. assumption. }
  destruct Ne as [r Er]. rewrite Er in *.
  cbn [dd_cols].
  set (zs := dd_colsR (length l2) (dd_stepR (b :: r) xs (tl (tl xs))) xs (tl (tl xs))).
  assert (Z : List.Forall (eq 0) zs).
  { apply dd_cols_zero. apply (dd_step_const b). exact C1. }
  unfold xs at 1. cbn [newton_expand].
  rewrite !polyval_plin_step, (newton_expand_zero zs Z). rops. ring.
Qed.

(** sub-sampling lemmas *)
Lemma take_every_map {A B} (f : A -> B) k l : forall i,
  take_every_from k i (map f l) = map f (take_every_from k i l).
Proof.
  induction l as [|x t IH]; intros i; cbn [map take_every_from]; [reflexivity|].
  destruct i; rewrite IH; reflexivity.
Qed.
Lemma subsample_map {A B} (f : A -> B) order l : subsample order (map f l) = map f (subsample order l).
Proof. unfold subsample. rewrite map_length. apply take_every_map. Qed.
Lemma take_every_In {A} k (l : list A) : forall i x, In x (take_every_from k i l) -> In x l.
Proof.
  induction l as [|y t IH]; intros i x H; cbn [take_every_from] in H; [exact H|].
  destruct i; [destruct H as [->|H]; [left; reflexivity | right; eapply IH; exact H] | right; eapply IH; exact H].
Qed.
Lemma take_every_NoDup {A} k (l : list A) : forall i, NoDup l -> NoDup (take_every_from k i l).
Proof.
  induction l as [|y t IH]; intros i ND; cbn [take_every_from]; [constructor|].
  apply NoDup_cons_iff in ND. destruct ND as [Hnin ND].
  destruct i; [|apply IH; exact ND].
  constructor; [|apply IH; exact ND]. intros H. apply Hnin. eapply take_every_In. exact H.
Qed.
Lemma NoDup_map_ln l : List.Forall (fun v => 0 < v) l -> NoDup l -> NoDup (map ln l).
Proof.
  induction l as [|x t IH]; intros P ND; cbn [map]; [constructor|].
  inversion P as [|? ? Px Pt]; subst. apply NoDup_cons_iff in ND. destruct ND as [Hnin ND].
  constructor; [|apply IH; assumption].
  intros H. apply in_map_iff in H. destruct H as [y [E Hy]].
  apply Hnin. rewrite Forall_forall in Pt. rewrite <- (ln_inv y x (Pt y Hy) Px E). exact Hy.
Qed.

Definition power_law (a b : R) (V : R) : R := exp (a + b * ln V).

Lemma node_poly_power_law order vols a b :
  List.Forall (fun v => 0 < v) vols -> NoDup vols -> (2 <= length (subsample order vols))%nat ->
  forall x, polyvalR (@node_poly R ROps order vols (map (power_law a b) vols)) x = a + b * x.
Proof.
  intros P ND Ln x. unfold node_poly. rops.
  rewrite subsample_map, map_map.
  rewrite (map_ext (fun v => ln (power_law a b v)) (fun v => a + b * ln v))
    by (intros v; unfold power_law; apply ln_exp).
  replace (rev (map (fun v => a + b * ln v) (subsample order vols)))
    with (map (fun t => a + b * t) (rev (map ln (subsample order vols))))
    by (rewrite map_rev, map_map; reflexivity).
  apply interp_linear_exact.
  - apply NoDup_rev. apply NoDup_map_ln.
    + rewrite Forall_forall in *. intros v Hv. apply P. unfold subsample in Hv. eapply take_every_In. exact Hv.
    + unfold subsample. apply take_every_NoDup. exact ND.
  - rewrite rev_length, map_length. exact Ln.
Qed.

Lemma line_triple a b x : poly_tripleR [b; a] x = (exp (a + b * x), - b, 0).
Proof.
  unfold poly_triple, polyval. cbn [polyder length fold_left]. unfold horner. rops.
  f_equal; [f_equal|]; [f_equal; ring | simpl; ring | ring].
Qed.

(** power_law_exact for lagrange / krogh *)
Lemma power_law_exact_l :
  forall (lib : @library R) (m : method) (order : nat) (vols : list R) (a b : R) (grid : list R),
    m = Lagrange \/ m = Krogh ->
    List.Forall (fun v => 0 < v) vols -> NoDup vols -> (2 <= length (subsample order vols))%nat ->
    @mode_fn R ROps lib m order vols (map (power_law a b) vols) grid =
    map (fun V => (exp (a + b * ln V), - b, 0)) grid.
Proof.
  intros lib m order vols a b grid Hm P ND Ln.
  assert (E : @mode_fn R ROps lib m order vols (map (power_law a b) vols) grid =
              @poly_mode R ROps (@node_poly R ROps order vols (map (power_law a b) vols)) grid)
    by (destruct Hm as [ -> | -> ]; reflexivity).
  rewrite E. unfold poly_mode. apply map_ext. intros V. rops.
  rewrite (poly_triple_ext _ [b; a]).
  - apply line_triple.
  - intros x. rewrite (node_poly_power_law order vols a b P ND Ln x).
    unfold polyval. cbn [fold_left]. unfold horner. rops. ring.
Qed.

(** ---- least squares ---- *)
(** any coefficient list that satisfies the normal equations of the (ln V, ln omega) Vandermonde
    system reproduces data that are a polynomial q of degree <= order, on the whole line *)
Lemma lsq_poly_exact_upto_order_l :
  forall (order : nat) (xs q c roots : list R),
    length q = S order -> length c = S order ->
    NoDup roots -> incl roots xs -> (order < length roots)%nat ->
    normal_eqs order xs (map (polyvalR q) xs) c ->
    forall x, poly_tripleR c x = poly_tripleR q x.
Proof.
  intros order xs q c roots Lq Lc ND Inc Ln NE. apply poly_triple_ext.
  exact (lsq_exact_fun order xs q c roots Lq Lc ND Inc Ln NE).
Qed.

Lemma polyval_zeros_app n l x : polyvalR (repeat 0 n ++ l) x = polyvalR l x.
Proof. rewrite !polyval_pv. apply pv_zeros_app. Qed.

(** power law through lsq_poly of any order >= 1 *)
Lemma lsq_power_law_exact_l :
  forall (order : nat) (vols c : list R) (a b : R),
    (1 <= order)%nat -> length c = S order ->
    List.Forall (fun v => 0 < v) vols -> NoDup vols -> (order < length vols)%nat ->
    normal_eqs order (map ln vols) (map ln (map (power_law a b) vols)) c ->
    forall x, poly_tripleR c x = (exp (a + b * x), - b, 0).
Proof.
  intros order vols c a b Ho Lc P ND Ln NE x.
  set (q := repeat 0 (order - 1) ++ [b; a]).
  assert (Lq : length q = S order) by (unfold q; rewrite app_length, repeat_length; cbn [length]; lia).
  assert (Eq : forall t, polyvalR q t = a + b * t).
  { intros t. unfold q. rewrite polyval_zeros_app. unfold polyval. cbn [fold_left]. unfold horner. rops. ring. }
  assert (Ey : map ln (map (power_law a b) vols) = map (polyvalR q) (map ln vols)).
  { rewrite !map_map. apply map_ext. intros v. rewrite Eq. unfold power_law. apply ln_exp. }
  rewrite Ey in NE.
  rewrite (lsq_poly_exact_upto_order_l order (map ln vols) q c (map ln vols) Lq Lc
             (NoDup_map_ln vols P ND) (incl_refl _) ltac:(rewrite map_length; exact Ln) NE x).
  rewrite (poly_triple_ext q [b; a]); [apply line_triple|].
  intros t. rewrite Eq. unfold polyval. cbn [fold_left]. unfold horner. rops. ring.
Qed.

(** ---- 3. loop indexing (any number domain) ---------------------------------------------- *)
Section Loop.
  Context {F : Type} {OF : Ops F}.

  Lemma nth_map_seq {A} (f : nat -> A) n i d : (i < n)%nat -> nth i (map f (seq 0 n)) d = f i.
  Proof.
    intros H. rewrite (nth_indep _ d (f 0%nat)) by (rewrite map_length, seq_length; exact H).
    rewrite (map_nth f (seq 0 n) 0%nat i), seq_nth by exact H. reflexivity.
  Qed.

  Lemma interp_entry (mf : list F -> list F -> list F -> list (@triple F)) nq np vols freqs grid iv q m :
    (iv < length grid)%nat -> (q < nq)%nat -> (m < np)%nat ->
    get3 (interpolate_modes mf nq np vols freqs grid) iv q m =
    if skipped q m then zero3 else nth iv (mf vols (mode_col freqs q m) grid) zero3.
  Proof.
    intros Hv Hq Hm. unfold get3, interpolate_modes.
    rewrite (nth_map_seq _ _ _ _ Hv), (nth_map_seq _ _ _ _ Hq), (nth_map_seq _ _ _ _ Hm).
    rewrite (nth_map_seq _ _ _ _ Hq), (nth_map_seq _ _ _ _ Hm).
    destruct (skipped q m); [destruct iv; reflexivity | reflexivity].
  Qed.

  (** output [v][q][m] is 0 for the Gamma acoustic modes and otherwise a function of the input
      column [.][q][m] alone *)
  Lemma loop_indexing_l (mf : list F -> list F -> list F -> list (@triple F)) nq np vols freqs freqs' grid iv q m :
    (iv < length grid)%nat -> (q < nq)%nat -> (m < np)%nat ->
    (q = 0%nat /\ (m < 3)%nat -> get3 (interpolate_modes mf nq np vols freqs grid) iv q m = zero3) /\
    (~ (q = 0%nat /\ (m < 3)%nat) ->
       get3 (interpolate_modes mf nq np vols freqs grid) iv q m = nth iv (mf vols (mode_col freqs q m) grid) zero3) /\
    (mode_col freqs q m = mode_col freqs' q m ->
       get3 (interpolate_modes mf nq np vols freqs grid) iv q m =
       get3 (interpolate_modes mf nq np vols freqs' grid) iv q m).
  Proof.
    intros Hv Hq Hm. rewrite !interp_entry by assumption. unfold skipped. repeat split.
    - intros [-> H]. apply Nat.ltb_lt in H. rewrite H. reflexivity.
    - intros H. destruct (Nat.eqb_spec q 0); destruct (Nat.ltb_spec m 3); cbn [andb]; try reflexivity.
      exfalso. apply H. split; assumption.
    - intros E. rewrite E. reflexivity.
  Qed.
End Loop.

(** ---- 4. plot selection -------------------------------------------------------------- *)
Lemma oq_eqb_eq a b : oq_eqb a b = true <-> a = b.
Proof. destruct a as [[]|], b as [[]|]; cbn; split; intros H; try reflexivity; try discriminate. Qed.

(** the property for a selection table: plot_ok decides it *)
Lemma plot_select_spec_iff_l : forall tbl layout,
  plot_ok tbl layout = true <->
  (plot_select tbl layout 0 = Some QOmega /\ plot_select tbl layout 1 = Some QGamma /\
   plot_select tbl layout 2 = Some QVdGdV).
Proof.
  intros tbl layout. unfold plot_ok, plot_spec. cbn [forallb fst snd].
  rewrite !andb_true_iff, !oq_eqb_eq. tauto.
Qed.

(** ... and the code as it is on the pinned tree does NOT satisfy it: n=1 draws V dgamma/dV, n=2 draws gamma *)
Lemma plot_select_refuted_l :
  plot_select pinned_table pinned_layout 1 = Some QVdGdV /\
  plot_select pinned_table pinned_layout 2 = Some QGamma /\
  exists n q, In (n, q) plot_spec /\ plot_select pinned_table pinned_layout n <> Some q.
Proof.
  repeat split; try reflexivity.
  exists 1%Z, QGamma. split; [right; left; reflexivity | cbn; discriminate].
Qed.

(** ---- non-vacuity of the hypotheses ---------------------------------------------------- *)
Example power_law_hyps_satisfiable :
  let vols := [5; 4; 3; 2; 1] in
  List.Forall (fun v => 0 < v) vols /\ NoDup vols /\ (2 <= length (subsample 3 vols))%nat.
Proof.
  cbv zeta. split; [|split].
  - repeat constructor; lra.
  - repeat constructor; cbn [In]; intuition lra.
  - unfold subsample, interval. cbn. lia.
Qed.

(** the generating coefficients themselves solve the normal equations (residual 0) *)
Lemma normal_eqs_self order xs q : normal_eqs order xs (map (polyvalR q) xs) q.
Proof.
  intros k _. unfold normal_resid. rewrite zipw_map_same, sum_rsum. apply rsum_zero.
  intros x. rops. ring.
Qed.
Example lsq_hyps_satisfiable :
  let xs := [1; 2; 3; 4] in let q := [1; 0; 2] in
  length q = 3%nat /\ NoDup xs /\ incl xs xs /\ (2 < length xs)%nat /\
  normal_eqs 2 xs (map (polyvalR q) xs) q.
Proof.
  cbv zeta. repeat split; try (cbn; lia).
  - repeat constructor; cbn [In]; intuition lra.
  - apply incl_refl.
  - apply normal_eqs_self.
Qed.
Example library_contract_satisfiable :
  library_contract {| o_val := fun t => t * t; o_d1 := fun t => 2 * t; o_d2 := fun _ => 2 |}.
Proof. split; intros t; cbn [o_val o_d1 o_d2]; auto_derive; try exact I; ring. Qed.
