(** C15 - model of cij/io/output/results_writer.py (ResultsWriter, ResultsWriterRule).
    The rule table itself is NOT here: it is regenerated on every run from
    cij/data/output/writer_rules.yml into Gen_rules.v (tools/translate_rules.py).
    Definitions only; lemmas are in Rules.v. *)
From Coq Require Import String Ascii List Bool ZArith QArith.
Import ListNotations.
Local Open Scope string_scope.

Inductive var_type := VValue | VIjValue.

(** ResultsWriterRule (NamedTuple); the yaml field [description] is not read by the code *)
Record rule := mkRule {
  r_keywords : list string;
  r_pattern : string;          (* fname_pattern *)
  r_prop : string;
  r_unit : string;
  r_unit_internal : string;
  r_vt : var_type }.

Definition vt_eqb (a b : var_type) : bool :=
  match a, b with VValue, VValue | VIjValue, VIjValue => true | _, _ => false end.
Fixpoint smem (s : string) (l : list string) : bool :=
  match l with [] => false | x :: r => (s =? x) || smem s r end.
Fixpoint slist_eqb (a b : list string) : bool :=
  match a, b with
  | [], [] => true
  | x :: a', y :: b' => (x =? y) && slist_eqb a' b'
  | _, _ => false
  end.
Definition rule_eqb (a b : rule) : bool :=
  slist_eqb (r_keywords a) (r_keywords b) && (r_pattern a =? r_pattern b) && (r_prop a =? r_prop b) &&
  (r_unit a =? r_unit b) && (r_unit_internal a =? r_unit_internal b) && vt_eqb (r_vt a) (r_vt b).

(** Python dict with string keys: insertion-ordered, assignment to an existing key replaces the value *)
Fixpoint upsert {A} (k : string) (v : A) (d : list (string * A)) : list (string * A) :=
  match d with
  | [] => [(k, v)]
  | (k', v') :: r => if k =? k' then (k, v) :: r else (k', v') :: upsert k v r
  end.
Fixpoint dget {A} (k : string) (d : list (string * A)) : option A :=
  match d with [] => None | (k', v) :: r => if k =? k' then Some v else dget k r end.

(** ResultsWriter._init_rules:  for rule in rules: for keyword in rule.keywords: registry[keyword] = rule *)
Definition add_rule (reg : list (string * rule)) (r : rule) : list (string * rule) :=
  fold_left (fun reg k => upsert k r reg) (r_keywords r) reg.
Definition registry (rules : list rule) : list (string * rule) := fold_left add_rule rules [].
Definition lookup (rules : list rule) (kw : string) : option rule := dget kw (registry rules).

(** the same thing said directly: the LAST rule that lists the keyword *)
Fixpoint lookup_last (rules : list rule) (kw : string) : option rule :=
  match rules with
  | [] => None
  | r :: t => match lookup_last t kw with
              | Some r' => Some r'
              | None => if smem kw (r_keywords r) then Some r else None
              end
  end.

(** str.format with keyword arguments [env], restricted to plain replacement fields {name}:  a missing name is a KeyError,
    an unbalanced brace a ValueError (both None).  "{{" / "}}" escapes, conversions and format specs
    are rejected by the translator, so they never reach this function. *)
Definition lbrace : ascii := "{"%char.
Definition rbrace : ascii := "}"%char.
Fixpoint fmt (env : list (string * string)) (s : string) (fld : option string) : option string :=
  match s with
  | EmptyString => match fld with None => Some EmptyString | Some _ => None end
  | String c r =>
      match fld with
      | None =>
          if Ascii.eqb c lbrace then fmt env r (Some EmptyString)
          else if Ascii.eqb c rbrace then None
          else option_map (String c) (fmt env r None)
      | Some name =>
          if Ascii.eqb c rbrace then
            match dget name env with
            | Some v => option_map (append v) (fmt env r None)
            | None => None
            end
          else if Ascii.eqb c lbrace then None
          else fmt env r (Some (name ++ String c EmptyString))
      end
  end.
Definition format (pat : string) (env : list (string * string)) : option string := fmt env pat None.

(** "%d%d" % key.v  - key.v is the Voigt pair, both entries in 1..6 (property C10) *)
Definition zdigit (z : Z) : string :=
  match z with
  | 0 => "0" | 1 => "1" | 2 => "2" | 3 => "3" | 4 => "4" | 5 => "5" | 6 => "6" | 7 => "7" | 8 => "8" | 9 => "9"
  | _ => "?"
  end%Z.
Definition key := (Z * Z)%type.
Definition format_ij (k : key) : string := zdigit (fst k) ++ zdigit (snd k).
Definition key_eqb (a b : key) : bool := (fst a =? fst b)%Z && (snd a =? snd b)%Z.
Definition okey_eqb (a b : option key) : bool :=
  match a, b with Some x, Some y => key_eqb x y | None, None => true | _, _ => false end.

(** the dict form of an output entry: only these entries of the user dict have an effect
    (prop / fname_pattern / var_type are read from the rule itself, not from the merged dict) *)
Record config := mkCfg { c_fname : option string; c_unit : option string; c_unit_internal : option string }.
Definition no_cfg : config := mkCfg None None None.

(** one call  base.write_table(fname, convert(getattr(base, prop)[key])) *)
Record out := mkOut { o_fname : string; o_prop : string; o_from : string; o_to : string; o_key : option key }.

Definition odefault {A} (o : option A) (d : A) : A := match o with Some x => x | None => d end.
Fixpoint omap_all {A B} (f : A -> option B) (l : list A) : option (list B) :=
  match l with
  | [] => Some []
  | x :: r => match f x, omap_all f r with Some y, Some ys => Some (y :: ys) | _, _ => None end
  end.
Definition obind {A B} (o : option A) (f : A -> option B) : option B :=
  match o with Some x => f x | None => None end.

Definition fname_value (r : rule) (base : string) (cfg : config) : option string :=
  match c_fname cfg with
  | Some f => Some f
  | None => format (r_pattern r) [("base", base)]
  end.
Definition fname_ij (r : rule) (base : string) (cfg : config) (k : key) : option string :=
  match c_fname cfg with
  | Some f => Some f                  (* verbatim for EVERY component *)
  | None => format (r_pattern r) [("base", base); ("ij", format_ij k)]
  end.

(** ResultsWriterRule.write / write_variable / write_ij_variable; [keys] = keys of getattr(base, prop) in order *)
Definition write_rule (r : rule) (base : string) (keys : list key) (cfg : config) : option (list out) :=
  let uf := odefault (c_unit_internal cfg) (r_unit_internal r) in
  let ut := odefault (c_unit cfg) (r_unit r) in
  match r_vt r with
  | VValue => option_map (fun f => [mkOut f (r_prop r) uf ut None]) (fname_value r base cfg)
  | VIjValue => omap_all (fun k => option_map (fun f => mkOut f (r_prop r) uf ut (Some k)) (fname_ij r base cfg k)) keys
  end.

(** ResultsWriter.write(config)  (KeyError for an unknown keyword = None) *)
Definition write (rules : list rule) (kw base : string) (keys : list key) (cfg : config) : option (list out) :=
  obind (lookup rules kw) (fun r => write_rule r base keys cfg).

(** write_variables: the calls of all entries in order (None as soon as one raises) *)
Fixpoint write_all (rules : list rule) (base : string) (keys : list key) (entries : list (string * config))
  : option (list out) :=
  match entries with
  | [] => Some []
  | (kw, cfg) :: r =>
      match write rules kw base keys cfg, write_all rules base keys r with
      | Some a, Some b => Some (a ++ b)%list
      | _, _ => None
      end
  end.

(** the file system after the calls: open(name, "w") truncates, so the last call per name survives *)
Definition files_after (outs : list out) : list (string * out) :=
  fold_left (fun d o => upsert (o_fname o) o d) outs [].

(* ---------------------------------------------------------------------------------------- *)
(** Units.  Dimension and SI scale of the unit strings that occur in the rules / in overrides.
    CODATA 2022:  R_inf h c = 2.1798723611030e-18 J,  a0 = 5.29177210544e-11 m. *)
Inductive dim := DPressure | DVolume | DVelocity.
Definition dim_eqb (a b : dim) : bool :=
  match a, b with DPressure, DPressure | DVolume, DVolume | DVelocity, DVelocity => true | _, _ => false end.

Definition pow10 (n : positive) : Q := inject_Z (Z.pow_pos 10 n).
Definition rydberg_J : Q := 21798723611030 # (Pos.pow 10 31).
Definition bohr_m : Q := 529177210544 # (Pos.pow 10 22).
Definition bohr3_m3 : Q := bohr_m * bohr_m * bohr_m.

Fixpoint strip_spaces (s : string) : string :=
  match s with
  | EmptyString => EmptyString
  | String c r => if Ascii.eqb c " "%char then strip_spaces r else String c (strip_spaces r)
  end.

Definition unit_table : list (string * (dim * Q)) :=
  [ ("rydberg/bohr^3", (DPressure, rydberg_J / bohr3_m3));
    ("GPa", (DPressure, pow10 9));
    ("kbar", (DPressure, pow10 8));
    ("MPa", (DPressure, pow10 6));
    ("Pa", (DPressure, 1));
    ("bohr^3", (DVolume, bohr3_m3));
    ("angstrom^3", (DVolume, 1 / pow10 30));
    ("nm^3", (DVolume, 1 / pow10 27));
    ("km/s", (DVelocity, pow10 3));
    ("m/s", (DVelocity, 1)) ]%Q.
Definition unit_si (u : string) : option (dim * Q) := dget (strip_spaces u) unit_table.

(** convert_unit(from, to)(x) = x * unit_factor from to *)
Definition unit_factor (ufrom uto : string) : option Q :=
  match unit_si ufrom, unit_si uto with
  | Some (d1, s1), Some (d2, s2) => if dim_eqb d1 d2 then Some (Qred (s1 / s2)) else None
  | _, _ => None
  end.

(** what the property statement documents: moduli and pressures in GPa, volumes in A^3, velocities in km/s *)
Definition documented_unit (prop : string) : string :=
  if prop =? "volumes" then "angstrom^3"
  else if (prop =? "primary_velocities") || (prop =? "secondary_velocities") then "km/s"
  else "GPa".
Definition internal_unit (prop : string) : string :=
  if prop =? "volumes" then "bohr^3"
  else if (prop =? "primary_velocities") || (prop =? "secondary_velocities") then "km/s"
  else "rydberg/bohr^3".
Definition qeqb_opt (a b : option Q) : bool :=
  match a, b with Some x, Some y => Qeq_bool x y | _, _ => false end.
Definition rule_units_ok (r : rule) : bool :=
  (strip_spaces (r_unit r) =? documented_unit (r_prop r)) &&
  (strip_spaces (r_unit_internal r) =? internal_unit (r_prop r)) &&
  match unit_factor (r_unit_internal r) (r_unit r) with Some _ => true | None => false end.

(** the 21 Voigt keys and the two bases *)
Definition all_keys : list key :=
  flat_map (fun i => flat_map (fun j => if (i <=? j)%Z then [(i, j)] else []) [1; 2; 3; 4; 5; 6]%Z) [1; 2; 3; 4; 5; 6]%Z.
Definition bases : list string := ["tp"; "tv"].
