(** C04: concrete facts - dependency ranks of the 15 shear keys, and the isotropic limit. *)
From Coq Require Import Reals Lra Lia List Bool Arith ZArith.
From Cij Require Import Ops ROps Voigt ShearModel Shear TasksModel.
Import ListNotations.
Local Open Scope R_scope.

Definition krank (k : vkey) : nat :=
  if negb (is_shear k) then 0 else if (fst k =? snd k)%nat then 1 else 2.

(** 1. every key the solver asks for has strictly smaller rank: the dependency graph is acyclic *)
Lemma keys_orig_rank_l :
  forall k k', In k shear_keys -> In k' (keys_orig (OF:=ROps) Ris0 k) -> (krank k' < krank k)%nat.
Proof.
  intros k k' Hk. unfold shear_keys, all_keys in Hk.
  cbn [filter is_shear fst snd Nat.ltb Nat.leb orb] in Hk.
  repeat (destruct Hk as [<- | Hk];
    [unfold keys_orig, energy_keys; crunch; cbn [In]; intros H;
     repeat (destruct H as [<- | H]; [vm_compute; lia|]); destruct H|]).
  destruct Hk.
Qed.
Lemma keys_rot_rank_l :
  forall lam k k', In k shear_keys -> In k' (keys_rot (OF:=ROps) Ris0 lam) -> (krank k' < krank k)%nat.
Proof.
  intros lam k k' Hk Hk'. apply keys_rot_nonshear_l in Hk'.
  assert (krank k' = 0%nat) by (unfold krank; rewrite Hk'; reflexivity).
  assert (is_shear k = true).
  { unfold shear_keys in Hk. apply filter_In in Hk. tauto. }
  unfold krank at 2. rewrite H0. cbn [negb]. destruct (fst k =? snd k)%nat; lia.
Qed.
Lemma deps_count_l :
  forall k, In k shear_keys -> (length (keys_orig (OF:=ROps) Ris0 k) <= 81)%nat.
Proof.
  intros k Hk. unfold shear_keys, all_keys in Hk.
  cbn [filter is_shear fst snd Nat.ltb Nat.leb orb] in Hk.
  repeat (destruct Hk as [<- | Hk]; [unfold keys_orig, energy_keys; crunch; cbn [length]; lia|]).
  destruct Hk.
Qed.

(** 4. isotropic limit *)
Definition c_iso (L O : R) (k : vkey) : R :=
  if is_long k then L else if is_offd k then O else if (fst k =? snd k)%nat then (L - O) / 2 else 0.
Definition gram (T : nat -> nat -> R) (i j : nat) : R := sum3 (fun a => T a i * T a j).

Lemma iso_rotate_gram (L O : R) (T : nat -> nat -> R) (i j : nat) :
  (i < 3)%nat -> (j < 3)%nat ->
  rotate T (c_iso L O) i j = O * gram T i i * gram T j j + (L - O) * (gram T i j * gram T i j).
Proof.
  intros Hi Hj. unfold rotate, gram, sum3, cget, c_iso.
  destruct i as [|[|[|i]]]; [| | |lia]; destruct j as [|[|[|j]]]; try lia;
    cbn [canon4 vsort v_of Nat.ltb Nat.leb is_long is_offd is_shear fst snd Nat.eqb andb orb negb];
    cbn [zero one add sub mul div opp ROps]; field.
Qed.
Lemma iso_rotate (L O : R) (T : nat -> nat -> R) :
  (forall i j, (i < 3)%nat -> (j < 3)%nat -> gram T i j = if (i =? j)%nat then 1 else 0) ->
  forall i j, (i < 3)%nat -> (j < 3)%nat ->
    rotate T (c_iso L O) i j = if (i =? j)%nat then L else O.
Proof.
  intros HG i j Hi Hj. rewrite iso_rotate_gram by assumption.
  rewrite !HG by assumption. rewrite !Nat.eqb_refl. destruct (i =? j)%nat; ring.
Qed.

(** with equal axial strains and an orthonormal frame the assembled tensor is isotropic:
    every shear component the solver returns is the isotropic one *)
Theorem isotropic_limit_l (L O : R) (k : vkey) (lam : nat -> R) (T : nat -> nat -> R) (crot : vkey -> R) :
  In k shear_keys ->
  (forall a b, (a < 3)%nat -> (b < 3)%nat -> recompose T lam a b = fict (OF:=ROps) k a b) ->
  (forall i j, (i < 3)%nat -> (j < 3)%nat -> gram T i j = if (i =? j)%nat then 1 else 0) ->
  (forall i j, (i < 3)%nat -> (j < 3)%nat -> crot (canon4 i i j j) = if (i =? j)%nat then L else O) ->
  solve (OF:=ROps) Ris0 k lam (c_iso L O) crot = if (fst k =? snd k)%nat then (L - O) / 2 else 0.
Proof.
  intros Hk Hd HG Hc.
  rewrite (shear_solver_exact_l (c_iso L O) k lam T crot Hk Hd).
  - unfold c_iso. assert (Hs : is_shear k = true) by (unfold shear_keys in Hk; apply filter_In in Hk; tauto).
    unfold is_long, is_offd. rewrite Hs. cbn [negb andb]. rewrite andb_false_r. reflexivity.
  - intros i j Hi Hj. rewrite Hc, iso_rotate by assumption. reflexivity.
Qed.

(** equal thirds stay equal thirds in every frame whose columns are normalised *)
Lemma strain_rot_thirds_l (T : nat -> nat -> R) (i : nat) :
  gram T i i = 1 -> strain_rot T (fun _ => / 3) i = / 3.
Proof. unfold gram, strain_rot, sum3. cbn [add mul ROps]. intros H. lra. Qed.
