(** JSON/YAML value trees as Python sees them after loading, and the recursive merge
    `update_config` of cij/io/config/config.py, transcribed line by line.
    Models only (no proofs): the case shards of C16 execute these definitions. *)
From Coq Require Import ZArith List Bool String Ascii.
Import ListNotations.
Local Open Scope Z_scope.

(** Python numbers: `int` (unbounded) and `float` (binary64: m * 2^e, or inf / nan).
    `bool` is a separate constructor of [json]: for jsonschema a bool is not a number. *)
Inductive num :=
| NInt (z : Z)
| NFlt (m e : Z)          (* finite float, value m * 2^e *)
| NInf (neg : bool)
| NNan.

Inductive json :=
| JNull
| JBool (b : bool)
| JNum (n : num)
| JStr (s : string)
| JArr (l : list json)
| JObj (l : list (string * json)).   (* dict: association list, first binding wins *)

Definition is_obj (j : json) : bool := match j with JObj _ => true | _ => false end.

Fixpoint lookup {A : Type} (k : string) (l : list (string * A)) : option A :=
  match l with
  | [] => None
  | (k', v) :: r => if String.eqb k k' then Some v else lookup k r
  end.
Definition keys {A : Type} (l : list (string * A)) : list string := map fst l.
Definition mem (k : string) (l : list string) : bool := existsb (String.eqb k) l.

(** first-occurrence de-duplication: one possible iteration order of Python's set(...) *)
Fixpoint dedup (l : list string) : list string :=
  match l with
  | [] => []
  | x :: r => x :: filter (fun y => negb (String.eqb x y)) (dedup r)
  end.

Fixpoint collect {A : Type} (l : list (string * option A)) : option (list (string * A)) :=
  match l with
  | [] => Some []
  | (k, None) :: _ => None
  | (k, Some v) :: r => match collect r with Some r' => Some ((k, v) :: r') | None => None end
  end.

(** numbers: exact (type-sensitive) equality, Python's `<`, and float.is_integer *)
Definition num_eqb (a b : num) : bool :=
  match a, b with
  | NInt x, NInt y => x =? y
  | NFlt m e, NFlt m' e' => (m =? m') && (e =? e')
  | NInf s, NInf s' => Bool.eqb s s'
  | NNan, NNan => true
  | _, _ => false
  end.
Definition fin_ltb (m1 e1 m2 e2 : Z) : bool :=
  let e := Z.min e1 e2 in m1 * 2 ^ (e1 - e) <? m2 * 2 ^ (e2 - e).
Definition num_ltb (a b : num) : bool :=
  match a, b with
  | NNan, _ | _, NNan => false
  | NInf true, NInf true => false
  | NInf true, _ => true
  | _, NInf true => false
  | NInf false, _ => false
  | _, NInf false => true
  | NInt x, NInt y => x <? y
  | NInt x, NFlt m e => fin_ltb x 0 m e
  | NFlt m e, NInt y => fin_ltb m e y 0
  | NFlt m e, NFlt m' e' => fin_ltb m e m' e'
  end.
Definition num_is_integral (n : num) : bool :=
  match n with
  | NInt _ => true
  | NFlt m e => if e >=? 0 then true else m mod 2 ^ (- e) =? 0
  | _ => false
  end.

(** ------------------------------------------------------------------------------------
    update_config(input_dict, default_dict)               [cij/io/config/config.py, after e564612]

      output_dict = {}
      for k in set([*input_dict.keys(), *default_dict.keys()]):
          if k not in input_dict.keys():       output_dict[k] = default_dict[k]
          elif k not in default_dict.keys():   output_dict[k] = input_dict[k]
          elif isinstance(input_dict[k], dict) and isinstance(default_dict[k], dict):
              output_dict[k] = update_config(input_dict[k], default_dict[k])
          else:                                output_dict[k] = input_dict[k]
      return output_dict

    [ord] is the enumeration order of the key set (hash-seed dependent in Python).
    A non-dict ARGUMENT has no `.keys()`: AttributeError, modelled by [None]; the recursive
    call is made on two dicts only, so on two dicts the function is total ([merge_total]).
    The result dict is built in enumeration order. *)
Section Update.
  Variable ord : list string -> list string.

  Fixpoint update_config (u d : json) {struct u} : option json :=
    match u with
    | JObj us =>
        match d with
        | JObj ds =>
            let value (k : string) : option json :=
              (fix find (l : list (string * json)) : option json :=
                 match l with
                 | [] => lookup k ds                              (* k not in input_dict *)
                 | (k', v) :: r =>
                     if String.eqb k k' then
                       match lookup k ds with
                       | None => Some v                            (* k not in default_dict *)
                       | Some dv =>
                           if is_obj v && is_obj dv
                           then update_config v dv                 (* both dicts: recursive merge *)
                           else Some v                             (* user value wins (leaf or subtree) *)
                       end
                     else find r
                 end) us in
            option_map JObj
              (collect (map (fun k => (k, value k)) (ord (keys us ++ keys ds))))
        | _ => None
        end
    | _ => None
    end.
End Update.

(** apply_default_config(input) = update_config(input, <packaged default/settings.yaml>) *)
Definition apply_default_config (defaults : json) (u : json) : option json :=
  update_config dedup u defaults.

(** extensional (order-insensitive on dicts, type-exact on leaves) equality *)
Fixpoint jeqb (a b : json) {struct a} : bool :=
  match a, b with
  | JNull, JNull => true
  | JBool x, JBool y => Bool.eqb x y
  | JNum x, JNum y => num_eqb x y
  | JStr x, JStr y => String.eqb x y
  | JArr xs, JArr ys =>
      (fix go (xs ys : list json) : bool :=
         match xs, ys with
         | [], [] => true
         | x :: xr, y :: yr => jeqb x y && go xr yr
         | _, _ => false
         end) xs ys
  | JObj xs, JObj ys =>
      (fix go (l : list (string * json)) : bool :=
         match l with
         | [] => true
         | (k, v) :: r =>
             match lookup k ys with Some w => jeqb v w | None => false end && go r
         end) xs
      && forallb (fun kv => mem (fst kv) (keys xs)) ys
  | _, _ => false
  end.
Definition ojeqb (a b : option json) : bool :=
  match a, b with
  | None, None => true
  | Some x, Some y => jeqb x y && jeqb y x
  | _, _ => false
  end.

(** executable side conditions *)
Fixpoint nodupb (l : list string) : bool :=
  match l with [] => true | x :: r => negb (mem x r) && nodupb r end.
(** every dict at every depth has distinct keys (true of every Python dict) *)
Fixpoint wf (j : json) : bool :=
  match j with
  | JArr l => forallb wf l
  | JObj l => nodupb (keys l) && forallb (fun kv => wf (snd kv)) l
  | _ => true
  end.
(** HISTORY (before e564612): no user dict meets a non-dict default (and both arguments are dicts) *)
Fixpoint no_clash (u d : json) {struct u} : bool :=
  match u with
  | JObj us =>
      match d with
      | JObj ds =>
          (fix go (l : list (string * json)) : bool :=
             match l with
             | [] => true
             | (k, v) :: r =>
                 match lookup k ds with
                 | None => true
                 | Some dv => if is_obj v then no_clash v dv else true
                 end && go r
             end) us
      | _ => false
      end
  | _ => false
  end.

(** value at a key path (descends through dicts only) *)
Fixpoint get_path (p : list string) (j : json) : option json :=
  match p with
  | [] => Some j
  | k :: p' => match j with
               | JObj l => match lookup k l with Some v => get_path p' v | None => None end
               | _ => None
               end
  end.

(** ------------------------------------------------------------------------------------
    HISTORY: update_config as it was before the repair e564612 (defect D11)   [cij/io/config/config.py]

      output_dict = {}
      for k in set([*input_dict.keys(), *default_dict.keys()]):
          if k not in input_dict.keys():       output_dict[k] = default_dict[k]
          elif k not in default_dict.keys():   output_dict[k] = input_dict[k]
          elif isinstance(input_dict[k], dict):
              output_dict[k] = update_config(input_dict[k], default_dict[k])
          else:                                output_dict[k] = input_dict[k]
      return output_dict

    [ord] is the enumeration order of the key set (hash-seed dependent in Python).
    A non-dict argument has no `.keys()`: AttributeError, modelled by [None]; in the
    recursive call the user value is a dict, so this happens exactly when the default
    value is not a dict.  The result dict is built in enumeration order. *)
Section UpdateBeforeFix.
  Variable ord : list string -> list string.

  Fixpoint update_config_before_fix (u d : json) {struct u} : option json :=
    match u with
    | JObj us =>
        match d with
        | JObj ds =>
            let value (k : string) : option json :=
              (fix find (l : list (string * json)) : option json :=
                 match l with
                 | [] => lookup k ds                              (* k not in input_dict *)
                 | (k', v) :: r =>
                     if String.eqb k k' then
                       match lookup k ds with
                       | None => Some v                            (* k not in default_dict *)
                       | Some dv =>
                           if is_obj v then update_config_before_fix v dv     (* recursive merge *)
                           else Some v                             (* user leaf wins *)
                       end
                     else find r
                 end) us in
            option_map JObj
              (collect (map (fun k => (k, value k)) (ord (keys us ++ keys ds))))
        | _ => None
        end
    | _ => None
    end.
End UpdateBeforeFix.

(** indices of failing cases (same convention as FOps.failing, without the float dependency) *)
Fixpoint failing_from {A : Type} (f : A -> bool) (l : list A) (i : nat) : list nat :=
  match l with
  | [] => []
  | x :: r => if f x then failing_from f r (S i) else i :: failing_from f r (S i)
  end.
Definition failingj {A : Type} (f : A -> bool) (l : list A) : list nat := failing_from f l 0%nat.
