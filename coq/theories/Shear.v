(** C03: the shear solver is exact tensor algebra - proofs over R about ShearModel.v *)
From Coq Require Import Reals Lra Lia List Bool Arith ZArith.
From Cij Require Import Ops ROps Voigt ShearModel.
Import ListNotations.
Local Open Scope R_scope.

Lemma Ris0_0 : Ris0 0 = true.  Proof. apply Ris0_true; reflexivity. Qed.
Lemma Ris0_1 : Ris0 1 = false. Proof. apply Ris0_false; lra. Qed.

Ltac rops' := cbn [zero one add sub mul div opp ofZ fexp fln fsqrt is0 fleb ROps two three].

(** strain energy of the full tensor in a strain [e] *)
Definition full_energy (e : nat -> nat -> R) (c : vkey -> R) : R :=
  sum3 (fun a => sum3 (fun b => sum3 (fun p => sum3 (fun q =>
    cget c a b p q * e a b * e p q)))) / 2.

(** 1. the strain energy is invariant: computed from the rotated longitudinal and
    off-diagonal components and the eigenvalues it equals the energy of the full tensor in
    the recomposed strain T diag(lam) T^T.  A polynomial identity in 9+3+21 variables. *)
Lemma energy_invariant_l (T : nat -> nat -> R) (lam : nat -> R) (c : vkey -> R) :
  sum3 (fun i => sum3 (fun j => rotate T c i j * lam i * lam j)) / 2
  = full_energy (recompose T lam) c.
Proof.
  unfold full_energy, rotate, recompose, sum3, cget, canon4, vsort; cbn [v_of Nat.ltb Nat.leb].
  rops'. field.
Qed.

(** the code sums only over eigenvalues that are not (close to) zero; dropped terms vanish *)
Lemma energy_rot_all (lam : nat -> R) (crot : vkey -> R) :
  energy (OF:=ROps) Ris0 (diag3 lam) crot None
  = sum3 (fun i => sum3 (fun j => crot (canon4 i i j j) * lam i * lam j)) / 2.
Proof.
  unfold energy, nz, idx9, diag3, sum3, is_target.
  cbn [filter fst snd Nat.eqb negb].
  rops'. rewrite ?Ris0_0. cbn [negb].
  destruct (Ris0 (lam 0%nat)) eqn:E0; destruct (Ris0 (lam 1%nat)) eqn:E1;
    destruct (Ris0 (lam 2%nat)) eqn:E2;
    cbn [negb flat_map map app sum fst snd Nat.eqb]; rops';
    repeat match goal with
           | H : Ris0 _ = true |- _ => apply Ris0_true in H; rewrite ?H
           | H : Ris0 _ = false |- _ => clear H
           end; field.
Qed.

(** 5. rotated axial strains: trace, sign and order *)
Lemma strain_rot_trace_l (T : nat -> nat -> R) (e : nat -> R) :
  (forall a, (a < 3)%nat -> sum3 (fun i => T a i * T a i) = 1) ->
  sum3 (strain_rot T e) = sum3 e.
Proof.
  intros H. pose proof (H 0%nat ltac:(lia)) as H0. pose proof (H 1%nat ltac:(lia)) as H1.
  pose proof (H 2%nat ltac:(lia)) as H2. clear H. unfold strain_rot, sum3 in *.
  cbn [zero one add sub mul div opp ROps] in *.
  set (t00 := T 0%nat 0%nat) in *. set (t01 := T 0%nat 1%nat) in *. set (t02 := T 0%nat 2%nat) in *.
  set (t10 := T 1%nat 0%nat) in *. set (t11 := T 1%nat 1%nat) in *. set (t12 := T 1%nat 2%nat) in *.
  set (t20 := T 2%nat 0%nat) in *. set (t21 := T 2%nat 1%nat) in *. set (t22 := T 2%nat 2%nat) in *.
  set (e0 := e 0%nat). set (e1 := e 1%nat). set (e2 := e 2%nat).
  apply Rminus_diag_uniq.
  replace (t00 * e0 * t00 + (t10 * e1 * t10 + t20 * e2 * t20) +
           (t01 * e0 * t01 + (t11 * e1 * t11 + t21 * e2 * t21) +
            (t02 * e0 * t02 + (t12 * e1 * t12 + t22 * e2 * t22))) - (e0 + (e1 + e2)))
    with (e0 * ((t00 * t00 + (t01 * t01 + t02 * t02)) - 1) +
          (e1 * ((t10 * t10 + (t11 * t11 + t12 * t12)) - 1) +
           e2 * ((t20 * t20 + (t21 * t21 + t22 * t22)) - 1))) by ring.
  rewrite H0, H1, H2. ring.
Qed.
Lemma strain_rot_sign_l (T : nat -> nat -> R) (s : nat -> R) (e : nat -> R) i :
  (forall j, s j = 1 \/ s j = -1) ->
  strain_rot (fun a j => T a j * s j) e i = strain_rot T e i.
Proof.
  intros Hs. unfold strain_rot, sum3. rops'.
  destruct (Hs i) as [-> | ->]; ring.
Qed.
Lemma strain_rot_perm_l (T : nat -> nat -> R) (pi : nat -> nat) (e : nat -> R) i :
  strain_rot (fun a j => T a (pi j)) e i = strain_rot T e (pi i).
Proof. reflexivity. Qed.
Lemma recompose_sign_perm_l (T : nat -> nat -> R) (lam s : nat -> R) a b :
  (forall j, s j = 1 \/ s j = -1) ->
  recompose (fun x j => T x j * s j) lam a b = recompose T lam a b.
Proof.
  intros Hs. unfold recompose, sum3. rops'.
  destruct (Hs 0%nat) as [-> | ->], (Hs 1%nat) as [-> | ->], (Hs 2%nat) as [-> | ->]; ring.
Qed.

(** 3. THE SHEAR SOLVER IS EXACT: for every symmetric tensor c (21 free components), each
    of the 15 shear-type keys and EVERY pair (lam, T) that diagonalises the key's
    fictitious strain, the solver - fed c's own components in the original frame and the
    rotated frame - returns c k. *)
Ltac crunch :=
  repeat (cbn [energy nz idx9 filter fict std_of fst snd Nat.eqb Nat.ltb Nat.leb andb orb negb
               flat_map map app sum is_target vkey_eqb canon4 vsort v_of cget mult Nat.mul
               Z.of_nat Pos.of_succ_nat Pos.succ diag3];
          rops'; rewrite ?Ris0_0, ?Ris0_1);
  unfold cget;
  cbn [canon4 vsort v_of Nat.ltb Nat.leb];
  repeat match goal with
         | |- context [Z.of_nat ?n] =>
             let v := eval vm_compute in (Z.of_nat n) in change (Z.of_nat n) with v
         end.

Lemma shear_solver_exact_l :
  forall (c : vkey -> R) (k : vkey) (lam : nat -> R) (T : nat -> nat -> R) (crot : vkey -> R),
    In k shear_keys ->
    (forall a b, (a < 3)%nat -> (b < 3)%nat -> recompose T lam a b = fict (OF:=ROps) k a b) ->
    (forall i j, (i < 3)%nat -> (j < 3)%nat -> crot (canon4 i i j j) = rotate T c i j) ->
    solve (OF:=ROps) Ris0 k lam c crot = c k.
Proof.
  intros c k lam T crot Hk Hdiag Hrot.
  unfold solve. rewrite energy_rot_all.
  assert (E : sum3 (fun i => sum3 (fun j => crot (canon4 i i j j) * lam i * lam j)) / 2
              = full_energy (fict (OF:=ROps) k) c).
  { transitivity (full_energy (recompose T lam) c).
    - rewrite <- energy_invariant_l. unfold sum3. rewrite !Hrot by lia. reflexivity.
    - unfold full_energy, sum3. rewrite !Hdiag by lia. reflexivity. }
  cbn [sub ROps]. rewrite E. clear E Hdiag Hrot crot T lam.
  unfold full_energy, sum3, shear_keys, all_keys in *.
  cbn [filter is_shear fst snd Nat.ltb Nat.leb orb] in Hk.
  repeat (destruct Hk as [<- | Hk]; [crunch; field|]). destruct Hk.
Qed.

(** 2./4. what the solver asks for (finite facts about the key lists) *)
Definition R01 (x : R) : bool := Ris0 x.
Lemma keys_orig_no_target_l :
  forall k, In k shear_keys -> ~ In k (keys_orig (OF:=ROps) Ris0 k).
Proof.
  intros k Hk. unfold shear_keys, all_keys in Hk.
  cbn [filter is_shear fst snd Nat.ltb Nat.leb orb] in Hk.
  repeat (destruct Hk as [<- | Hk];
    [unfold keys_orig, energy_keys; crunch;
     cbn [In]; intros H; repeat (destruct H as [H | H]; [discriminate H|]); exact H|]).
  destruct Hk.
Qed.
Lemma keys_rot_nonshear_l :
  forall lam k, In k (keys_rot (OF:=ROps) Ris0 lam) -> is_shear k = false.
Proof.
  intros lam k. unfold keys_rot, energy_keys, nz, idx9, diag3, is_target.
  cbn [filter fst snd Nat.eqb negb]. rops'. rewrite ?Ris0_0. cbn [negb].
  destruct (Ris0 (lam 0%nat)); destruct (Ris0 (lam 1%nat)); destruct (Ris0 (lam 2%nat));
    cbn [negb flat_map app fst snd canon4 vsort v_of Nat.ltb Nat.leb In];
    intros H; repeat (destruct H as [<- | H]; [reflexivity|]); destruct H.
Qed.
(** the pair (ij,kl) of the target occurs [mult k] times among the non-zero strain pairs and
    the product of the two strain entries is 1 *)
Definition count_target (k : vkey) : nat :=
  let l := filter (fun ij => let '(p, q) := std_of (fst k) in let '(r, s) := std_of (snd k) in
       ((fst ij =? p) && (snd ij =? q)) || ((fst ij =? q) && (snd ij =? p)) ||
       ((fst ij =? r) && (snd ij =? s)) || ((fst ij =? s) && (snd ij =? r))) idx9 in
  length (filter (fun p => vkey_eqb (canon4 (fst (fst p)) (snd (fst p)) (fst (snd p)) (snd (snd p))) k)
                 (list_prod l l)).
Lemma mult_counts_target_l : forall k, In k shear_keys -> count_target k = mult k.
Proof.
  assert (H : forallb (fun k => count_target k =? mult k) shear_keys = true) by (vm_compute; reflexivity).
  intros k Hk. rewrite forallb_forall in H. apply Nat.eqb_eq, H, Hk.
Qed.

(** 6. non-vacuity: an explicit diagonalisation of the c44 strain (eigenvalues 1,-1,0) *)
Example c44_frame_exists :
  exists (lam : nat -> R) (T : nat -> nat -> R),
    forall a b, (a < 3)%nat -> (b < 3)%nat -> recompose T lam a b = fict (OF:=ROps) (4, 4)%nat a b.
Proof.
  set (r := / sqrt 2).
  assert (Hs : sqrt 2 * sqrt 2 = 2) by (apply sqrt_sqrt; lra).
  assert (Hn : sqrt 2 <> 0) by (intro E; rewrite E in Hs; lra).
  assert (Hr : r * r = / 2).
  { unfold r. rewrite <- Rinv_mult. rewrite Hs. reflexivity. }
  exists (fun i => match i with 0%nat => 1 | 1%nat => -1 | _ => 0 end).
  exists (fun a i => match a, i with
                     | 1%nat, 0%nat => r | 2%nat, 0%nat => r
                     | 1%nat, 1%nat => r | 2%nat, 1%nat => - r
                     | 0%nat, 2%nat => 1 | _, _ => 0 end).
  intros a b Ha Hb.
  destruct a as [|[|[|a]]]; [| | |lia]; destruct b as [|[|[|b]]]; try lia;
    unfold recompose, sum3; crunch; nra.
Qed.
