(** C20 - model of cij/misc/evec_disp2eig.py (no proofs here).

    N = len(mass); m = numpy.repeat(mass, 3)                 [repeat3 mass]
    if a.shape[1] == 3*N:                                    every row has length 3*N (a is 2-D)
        a *= sqrt(m[nax, :])                                 column 3k+c times sqrt(m_k)
        norm = diag(conj(a) @ a.T)                           row norm^2 = sum |a_ij|^2
        a /= sqrt(norm)[:, nax]                              each row divided by its norm
    else: raise RuntimeError                                 [None]

    Real data: [disp2eig];  complex data (pairs re, im): [disp2eig_c]. *)
From Coq Require Import List Arith Bool.
From Cij Require Import Ops.
Import ListNotations.

Section Disp2Eig.
  Context {F : Type} {OF : Ops F}.
  Local Open Scope ops_scope.

  Fixpoint repeat3 (mass : list F) : list F :=
    match mass with [] => [] | x :: r => x :: x :: x :: repeat3 r end.

  Definition shape_ok {B} (a : list (list B)) (nmass : nat) : bool :=
    forallb (fun row => length row =? 3 * nmass) a.

  (* ---- real ---- *)
  Definition weight_row (row sq : list F) : list F := zipw mul row sq.
  Definition norm2 (row : list F) : F := dot row row.
  Definition normalize_row (row : list F) : list F :=
    let nr := fsqrt (norm2 row) in map (fun x => x / nr) row.
  Definition disp2eig_row (sq : list F) (row : list F) : list F :=
    normalize_row (weight_row row sq).
  Definition disp2eig (a : list (list F)) (mass : list F) : option (list (list F)) :=
    if shape_ok a (length mass)
    then Some (map (disp2eig_row (map fsqrt (repeat3 mass))) a)
    else None.

  (* ---- complex ---- *)
  Definition cpx : Type := (F * F)%type.
  Definition weight_row_c (row : list cpx) (sq : list F) : list cpx :=
    zipw (fun x s => (fst x * s, snd x * s)) row sq.
  Fixpoint norm2_c (row : list cpx) : F :=
    match row with [] => zero | x :: r => (fst x * fst x + snd x * snd x) + norm2_c r end.
  Definition normalize_row_c (row : list cpx) : list cpx :=
    let nr := fsqrt (norm2_c row) in map (fun x => (fst x / nr, snd x / nr)) row.
  Definition disp2eig_row_c (sq : list F) (row : list cpx) : list cpx :=
    normalize_row_c (weight_row_c row sq).
  Definition disp2eig_c (a : list (list cpx)) (mass : list F) : option (list (list cpx)) :=
    if shape_ok a (length mass)
    then Some (map (disp2eig_row_c (map fsqrt (repeat3 mass))) a)
    else None.
End Disp2Eig.
