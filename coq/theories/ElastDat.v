(** C17 - the static-table reader (ElastDatModel.v) returns exactly the tabulated data.
    Main results: [tokens_render] (any white-space layout), [find_modulus_key_voigt],
    [find_modulus_key_standard], [find_modulus_key_label] (any non-digit prefix / letter case),
    [dict_of_distinct], [elast_parse_spec_l]. *)
From Coq Require Import ZArith List Bool Strings.Byte Lia.
From Cij Require Import VoigtBase TextModel Text ElastDatModel.
Import ListNotations.
Local Open Scope Z_scope.

Definition tokens (l : bytes) : list bytes := split_ws (strip l).

(** ------------------------------------------------------------------ layout of a line *)
Definition all_space (w : bytes) : Prop := forallb is_space w = true.
(** fields = (white space before the token, token); [trail] = white space after the last token *)
Fixpoint render_fields (fs : list (bytes * bytes)) (trail : bytes) : bytes :=
  match fs with
  | [] => trail
  | (w, t) :: r => w ++ t ++ render_fields r trail
  end.
Definition field_ok (p : bytes * bytes) : Prop := all_space (fst p) /\ tokenlike (snd p).
Definition fields_ok (fs : list (bytes * bytes)) : Prop :=
  Forall field_ok fs /\ Forall (fun p => fst p <> []) (tl fs).

Lemma split_all_space_app w s : all_space w -> split_ws (w ++ s) = split_ws s.
Proof.
  unfold all_space. induction w as [|c w IH]; [reflexivity|]. cbn [forallb app].
  rewrite andb_true_iff. intros [Hc Hw]. rewrite split_ws_space by exact Hc. apply IH, Hw.
Qed.

Lemma split_render fs trail :
  Forall field_ok fs -> Forall (fun p => fst p <> []) (tl fs) -> all_space trail ->
  split_ws (render_fields fs trail) = map snd fs.
Proof.
  intros Hf Hs Ht. induction fs as [|[w t] r IH].
  - cbn. rewrite <- (app_nil_r trail). rewrite split_all_space_app by exact Ht. reflexivity.
  - apply Forall_cons_iff in Hf. destruct Hf as [[Hw Htok] Hr]. cbn [fst snd] in *.
    cbn [render_fields map snd]. rewrite split_all_space_app by exact Hw.
    cbn [tl] in Hs. destruct r as [|[w2 t2] r2].
    + cbn [render_fields map]. destruct trail as [|c trail].
      * rewrite app_nil_r. apply split_tok, Htok.
      * unfold all_space in Ht. cbn [forallb] in Ht. apply andb_true_iff in Ht. destruct Ht as [Hc Ht].
        rewrite split_tok_space by assumption.
        rewrite <- (app_nil_r trail). rewrite split_all_space_app by exact Ht. reflexivity.
    + apply Forall_cons_iff in Hs. destruct Hs as [Hne Hs2]. cbn [fst] in Hne.
      specialize (IH Hr).
      assert (Htl : Forall (fun p : bytes * bytes => fst p <> []) (tl ((w2, t2) :: r2))).
      { cbn [tl]. destruct r2 as [|x r3]; [constructor|]. exact Hs2. }
      specialize (IH Htl). cbn [render_fields] in *.
      apply Forall_cons_iff in Hr. destruct Hr as [[Hw2 _] _]. cbn [fst] in Hw2.
      destruct w2 as [|c w2]; [congruence|].
      unfold all_space in Hw2. cbn [forallb] in Hw2. apply andb_true_iff in Hw2. destruct Hw2 as [Hc Hw2].
      cbn [app] in *. rewrite split_tok_space by assumption.
      rewrite split_ws_space in IH by exact Hc. rewrite IH. reflexivity.
Qed.

(** line.strip().split() of a line laid out with arbitrary white space gives back the tokens *)
Lemma tokens_render fs trail : fields_ok fs -> all_space trail -> tokens (render_fields fs trail) = map snd fs.
Proof. intros [Hf Hs] Ht. unfold tokens. rewrite split_ws_strip. apply split_render; assumption. Qed.

(** ------------------------------------------------------------------ column labels *)
Definition nodigit (p : bytes) : Prop := forallb (fun c => negb (is_digit c)) p = true.
Definition digit_range (ds : list Z) : Prop := Forall (fun d => 0 <= d < 10) ds.

Lemma drop_nondigit_prefix p c s : nodigit p -> is_digit c = true -> drop_nondigit (p ++ c :: s) = c :: s.
Proof.
  unfold nodigit. intros Hp Hc. induction p as [|a p IH].
  - cbn. rewrite Hc. reflexivity.
  - cbn [forallb] in Hp. apply andb_true_iff in Hp. destruct Hp as [Ha Hp]. apply negb_true_iff in Ha.
    cbn [app drop_nondigit]. rewrite Ha. apply IH, Hp.
Qed.
Lemma drop_nondigit_all p : nodigit p -> drop_nondigit p = [].
Proof.
  unfold nodigit. induction p as [|a p IH]; [reflexivity|]. cbn [forallb]. rewrite andb_true_iff.
  intros [Ha Hp]. apply negb_true_iff in Ha. cbn [drop_nondigit]. rewrite Ha. apply IH, Hp.
Qed.
Lemma all_digits_bytes ds : digit_range ds -> all_digits (map digit_byte ds) = Some ds.
Proof.
  induction 1 as [|d ds Hd Hds IH]; [reflexivity|]. cbn [map all_digits].
  rewrite digit_val_byte by exact Hd. rewrite IH. reflexivity.
Qed.

(** a label <non-digit prefix><digits> is keyed by c_(digits) *)
Lemma find_key_digits p ds :
  nodigit p -> ds <> [] -> digit_range ds ->
  find_modulus_key (p ++ map digit_byte ds) =
  match key_of_digits ds with Some k => Some (KMod k) | None => None end.
Proof.
  intros Hp Hne Hd. destruct ds as [|d ds]; [congruence|].
  unfold find_modulus_key. cbn [map].
  assert (Hc : is_digit (digit_byte d) = true).
  { apply is_digit_byte. apply Forall_cons_iff in Hd. tauto. }
  rewrite drop_nondigit_prefix by assumption.
  change (digit_byte d :: map digit_byte ds) with (map digit_byte (d :: ds)).
  rewrite all_digits_bytes by exact Hd. reflexivity.
Qed.
(** a label without digits stays a string key *)
Lemma find_modulus_key_label tok : nodigit tok -> find_modulus_key tok = Some (KStr tok).
Proof. intros H. unfold find_modulus_key. rewrite drop_nondigit_all by exact H. reflexivity. Qed.

Definition r6 : list Z := [1; 2; 3; 4; 5; 6].
Definition r3 : list Z := [1; 2; 3].
(** Voigt index of the unordered pair {i, j}, i, j in 1..3 *)
Definition vidx (i j : Z) : Z := if i =? j then i else 9 - i - j.
Definition okey_eqb (a b : option modkey) : bool := option_eqb modkey_eqb a b.
Lemma strain_eqb_eq a b : strain_eqb a b = true -> a = b.
Proof.
  destruct a, b; unfold strain_eqb; cbn [fst snd]. rewrite andb_true_iff, !Z.eqb_eq. intros [-> ->]; reflexivity.
Qed.
Lemma okey_eqb_eq a b : okey_eqb a b = true -> a = b.
Proof.
  destruct a as [[a1 a2]|], b as [[b1 b2]|]; cbn; try discriminate; try reflexivity.
  unfold modkey_eqb. cbn [fst snd]. rewrite andb_true_iff. intros [H1 H2].
  apply strain_eqb_eq in H1, H2. subst. reflexivity.
Qed.

(** two-digit (Voigt) labels: the key exists, does not depend on the order of the two indices, and
    its Voigt view is the sorted pair *)
Lemma voigt_keys_canonical a b :
  In a r6 -> In b r6 ->
  exists k, key_from_voigt a b = Some k /\ key_from_voigt b a = Some k /\ key_voigt k = (Z.min a b, Z.max a b).
Proof.
  assert (H : forallb (fun a => forallb (fun b =>
              match key_from_voigt a b with
              | Some k => okey_eqb (key_from_voigt b a) (Some k) &&
                          (fst (key_voigt k) =? Z.min a b) && (snd (key_voigt k) =? Z.max a b)
              | None => false
              end) r6) r6 = true) by (vm_compute; reflexivity).
  intros Ha Hb. rewrite forallb_forall in H. specialize (H a Ha). rewrite forallb_forall in H.
  specialize (H b Hb). destruct (key_from_voigt a b) as [k|]; [|discriminate].
  rewrite !andb_true_iff, !Z.eqb_eq in H. destruct H as [[H1 H2] H3].
  exists k. split; [reflexivity|]. split; [apply okey_eqb_eq, H1|].
  destruct (key_voigt k); cbn in *; subst; reflexivity.
Qed.
(** four-digit (standard) labels give the key of the corresponding Voigt pair *)
Lemma standard_keys_canonical i j k l :
  In i r3 -> In j r3 -> In k r3 -> In l r3 ->
  key_from_standard i j k l = key_from_voigt (vidx i j) (vidx k l).
Proof.
  assert (H : forallb (fun i => forallb (fun j => forallb (fun k => forallb (fun l =>
              okey_eqb (key_from_standard i j k l) (key_from_voigt (vidx i j) (vidx k l))) r3) r3) r3) r3 = true)
    by (vm_compute; reflexivity).
  intros Hi Hj Hk Hl. rewrite forallb_forall in H. specialize (H i Hi). rewrite forallb_forall in H.
  specialize (H j Hj). rewrite forallb_forall in H. specialize (H k Hk). rewrite forallb_forall in H.
  specialize (H l Hl). apply okey_eqb_eq, H.
Qed.

Lemma r6_range a : In a r6 -> 0 <= a < 10.
Proof. cbn. intros H. repeat (destruct H as [H|H]; [lia|]). contradiction. Qed.
Lemma r3_range a : In a r3 -> 0 <= a < 10.
Proof. cbn. intros H. repeat (destruct H as [H|H]; [lia|]). contradiction. Qed.

(** whatever the (digit-free) prefix and letter case, <prefix>ab is the canonical key of {a, b} *)
Lemma find_modulus_key_voigt p a b :
  nodigit p -> In a r6 -> In b r6 ->
  exists k, find_modulus_key (p ++ [digit_byte a; digit_byte b]) = Some (KMod k) /\
            find_modulus_key (p ++ [digit_byte b; digit_byte a]) = Some (KMod k) /\
            key_voigt k = (Z.min a b, Z.max a b).
Proof.
  intros Hp Ha Hb. destruct (voigt_keys_canonical a b Ha Hb) as [k [H1 [H2 H3]]].
  exists k. pose proof (r6_range a Ha). pose proof (r6_range b Hb).
  change [digit_byte a; digit_byte b] with (map digit_byte [a; b]).
  change [digit_byte b; digit_byte a] with (map digit_byte [b; a]).
  assert (D1 : digit_range [a; b]) by (unfold digit_range; repeat (apply Forall_cons; [assumption|]); apply Forall_nil).
  assert (D2 : digit_range [b; a]) by (unfold digit_range; repeat (apply Forall_cons; [assumption|]); apply Forall_nil).
  rewrite (find_key_digits p [a; b] Hp) by (discriminate || exact D1).
  rewrite (find_key_digits p [b; a] Hp) by (discriminate || exact D2).
  cbn [key_of_digits]. rewrite H1, H2. auto.
Qed.
Lemma find_modulus_key_standard p i j k l :
  nodigit p -> In i r3 -> In j r3 -> In k r3 -> In l r3 ->
  find_modulus_key (p ++ map digit_byte [i; j; k; l]) =
  find_modulus_key (p ++ map digit_byte [vidx i j; vidx k l]).
Proof.
  intros Hp Hi Hj Hk Hl.
  pose proof (r3_range i Hi). pose proof (r3_range j Hj). pose proof (r3_range k Hk). pose proof (r3_range l Hl).
  assert (0 <= vidx i j < 10 /\ 0 <= vidx k l < 10) as [V1 V2].
  { unfold vidx. cbn in Hi, Hj, Hk, Hl. destruct (i =? j), (k =? l); lia. }
  assert (D1 : digit_range [i; j; k; l]) by (unfold digit_range; repeat (apply Forall_cons; [assumption|]); apply Forall_nil).
  assert (D2 : digit_range [vidx i j; vidx k l]) by (unfold digit_range; repeat (apply Forall_cons; [assumption|]); apply Forall_nil).
  rewrite (find_key_digits p [i; j; k; l] Hp) by (discriminate || exact D1).
  rewrite (find_key_digits p [vidx i j; vidx k l] Hp) by (discriminate || exact D2).
  cbn [key_of_digits]. rewrite standard_keys_canonical by assumption. reflexivity.
Qed.

(** ------------------------------------------------------------------ dict(zip(keys, values)) *)
Definition fresh_for {V} (d : list (key * V)) (k : key) : Prop :=
  Forall (fun kv => key_eqb k (fst kv) = false) d.
Lemma dict_set_fresh {V} (d : list (key * V)) k v : fresh_for d k -> dict_set d k v = d ++ [(k, v)].
Proof.
  induction 1 as [|[k' v'] d Hk Hd IH]; [reflexivity|]. cbn [dict_set fst] in *. rewrite Hk, IH. reflexivity.
Qed.
(** keys pairwise different (later against earlier, the order in which dict_set compares) *)
Fixpoint keys_distinct (ks : list key) : Prop :=
  match ks with
  | [] => True
  | k :: r => Forall (fun k' => key_eqb k' k = false) r /\ keys_distinct r
  end.
Lemma dict_of_distinct_acc {V} : forall (l : list (key * V)) acc,
  keys_distinct (map fst l) -> Forall (fun kv => fresh_for acc (fst kv)) l ->
  fold_left (fun d kv => dict_set d (fst kv) (snd kv)) l acc = acc ++ l.
Proof.
  induction l as [|[k v] l IH]; intros acc Hd Hf; [rewrite app_nil_r; reflexivity|].
  cbn [fold_left fst snd]. apply Forall_cons_iff in Hf. destruct Hf as [Hk Hf]. cbn [fst] in Hk.
  rewrite dict_set_fresh by exact Hk. cbn [map fst keys_distinct] in Hd. destruct Hd as [Hd1 Hd2].
  rewrite IH.
  - rewrite <- app_assoc. reflexivity.
  - exact Hd2.
  - rewrite Forall_forall in *. intros kv Hin. unfold fresh_for. apply Forall_app. split.
    + apply Hf, Hin.
    + constructor; [|constructor]. cbn [fst]. apply Hd1. apply in_map, Hin.
Qed.
(** with pairwise different keys the dictionary is the list of (key, value) pairs, in column order *)
Lemma dict_of_distinct {V} (l : list (key * V)) : keys_distinct (map fst l) -> dict_of l = l.
Proof.
  intros H. unfold dict_of. rewrite dict_of_distinct_acc; [reflexivity | exact H|].
  apply Forall_forall. intros; constructor.
Qed.

(** ------------------------------------------------------------------ the reader *)
Definition row_of (keys : list key) (r : dec * list dec) : dec * list (key * dec) :=
  (fst r, dict_of (combine (tl keys) (snd r))).

Lemma read_rows_spec keys rowlines rows : forall rest,
  Forall2 (fun l r => floats_of l = Some (fst r :: snd r)) rowlines rows ->
  read_rows (length rowlines) keys (rowlines ++ rest) = Some (map (row_of keys) rows, rest).
Proof.
  intros rest H. induction H as [|l r ls rs Hl Hrest IH]; [reflexivity|].
  cbn [length app read_rows readline]. rewrite Hl. rewrite IH. reflexivity.
Qed.
Lemma read_lattice_spec latlines lat : forall tail,
  Forall2 (fun l r => floats_of l = Some r) latlines lat ->
  read_lattice (length latlines) (latlines ++ tail) = Some lat.
Proof.
  intros tail H. induction H as [|l r ls rs Hl Hrest IH]; [reflexivity|].
  cbn [length app read_lattice readline]. rewrite Hl. rewrite IH. reflexivity.
Qed.

(** what follows the rows: end of file, a blank line (no lattice block), or one separator line and
    nv lines of lattice parameters *)
Inductive lattice_block (n : nat) : list bytes -> list (list dec) -> Prop :=
| lb_eof : lattice_block n [] []
| lb_blank b tail : strip b = [] -> lattice_block n (b :: tail) []
| lb_rows sep latlines tail lat :
    strip sep <> [] -> length latlines = n ->
    Forall2 (fun l r => floats_of l = Some r) latlines lat ->
    lattice_block n (sep :: latlines ++ tail) lat.

Theorem elast_parse_spec_l hdr l1 l2 rowlines rest tv tn tm extra vref n mass keys rows lat :
  tokens l1 = tv :: tn :: tm :: extra ->
  parse_dec tv = Some vref -> parse_int tn = Some n -> parse_dec tm = Some mass ->
  map_opt find_modulus_key (tokens l2) = Some keys ->
  length rowlines = Z.to_nat n ->
  Forall2 (fun l r => floats_of l = Some (fst r :: snd r)) rowlines rows ->
  lattice_block (Z.to_nat n) rest lat ->
  parse_elast (hdr :: l1 :: l2 :: rowlines ++ rest)
  = Some (mkelast vref n mass (map (row_of keys) rows) lat).
Proof.
  intros H1 Hv Hn Hm Hk Hlen Hrows Hlat. unfold parse_elast. fold (tokens l1). fold (tokens l2).
  rewrite H1, Hv, Hn, Hm, Hk. rewrite <- Hlen. rewrite (read_rows_spec keys rowlines rows rest Hrows).
  destruct Hlat as [|b tail Hb|sep latlines tail lat Hs Hl Hf].
  - reflexivity.
  - cbn [readline]. rewrite Hb. reflexivity.
  - cbn [readline]. destruct (strip sep) eqn:E; [congruence|].
    rewrite Hlen, <- Hl. rewrite (read_lattice_spec latlines lat tail Hf). reflexivity.
Qed.

(** ------------------------------------------------------------------ non-vacuity *)
Definition ex_l1 : bytes := [x20; x31; x30; x30; x2e; x35; x09; x32; x20; x35; x30; x2e; x32; x35; x20].  (* " 100.5\t2 50.25 " *)
Definition ex_l2 : bytes := [x56; x20; x43; x31; x31; x20; x20; x63; x5f; x32; x31; x20; x78; x31; x32; x31; x32].  (* "V C11  c_21 x1212" *)
Definition ex_r1 : bytes := [x31; x30; x30; x2e; x35; x20; x33; x30; x30; x20; x2d; x31; x2e; x35; x65; x32; x20; x37; x30; x2e; x32; x35].  (* "100.5 300 -1.5e2 70.25" *)
Definition ex_r2 : bytes := [x39; x30; x2e; x32; x35; x20; x33; x35; x30; x2e; x35; x20; x31; x32; x30; x20; x38; x35].  (* "90.25 350.5 120 85" *)
Definition ex_sep : bytes := [x61; x20; x62].                                       (* "a b" *)
Definition ex_a1 : bytes := [x31; x2e; x30; x20; x32; x2e; x35].                     (* "1.0 2.5" *)
Definition ex_a2 : bytes := [x31; x2e; x35; x20; x33].                               (* "1.5 3" *)
Definition ex_keys : list key := [KStr [x56]; KMod ((1, 1), (1, 1)); KMod ((1, 1), (2, 2)); KMod ((1, 2), (1, 2))].
Definition ex_rows : list (dec * list dec) :=
  [(mkdec 1005 1, [mkdec 300 0; mkdec (-150) 0; mkdec 7025 2]);
   (mkdec 9025 2, [mkdec 3505 1; mkdec 120 0; mkdec 85 0])].
Lemma elast_example :
  parse_elast ([] :: ex_l1 :: ex_l2 :: [ex_r1; ex_r2] ++ [ex_sep; ex_a1; ex_a2])
  = Some (mkelast (mkdec 1005 1) 2 (mkdec 5025 2) (map (row_of ex_keys) ex_rows)
       [[mkdec 10 1; mkdec 25 1]; [mkdec 15 1; mkdec 3 0]]).
Proof.
  apply elast_parse_spec_l with (tv := [x31; x30; x30; x2e; x35]) (tn := [x32]) (tm := [x35; x30; x2e; x32; x35])
    (extra := []); try (vm_compute; reflexivity).
  - unfold ex_rows. constructor; [vm_compute; reflexivity|]. constructor; [vm_compute; reflexivity|]. constructor.
  - change ([ex_sep; ex_a1; ex_a2]) with (ex_sep :: [ex_a1; ex_a2] ++ []).
    apply lb_rows; [vm_compute; discriminate | reflexivity |].
    constructor; [vm_compute; reflexivity|]. constructor; [vm_compute; reflexivity|]. constructor.
Qed.

(** ------------------------------------------------------------------ shape of the fill output *)
(** `cij fill` re-emits the two header lines, a table with a new label line and the same number of
    rows, and the remainder of the file unchanged.  If input and output tables are well formed
    (rows of numbers; the volume column unchanged), the output parses to the same vref, nv,
    cellmass, volumes and lattice parameters. *)
Theorem fill_cli_structure_l hdr l1 l2 l2' rowlines rowlines' rest tv tn tm extra vref n mass
        keys keys' rows rows' lat :
  tokens l1 = tv :: tn :: tm :: extra ->
  parse_dec tv = Some vref -> parse_int tn = Some n -> parse_dec tm = Some mass ->
  map_opt find_modulus_key (tokens l2) = Some keys ->
  map_opt find_modulus_key (tokens l2') = Some keys' ->
  length rowlines = Z.to_nat n -> length rowlines' = Z.to_nat n ->
  Forall2 (fun l r => floats_of l = Some (fst r :: snd r)) rowlines rows ->
  Forall2 (fun l r => floats_of l = Some (fst r :: snd r)) rowlines' rows' ->
  map fst rows' = map fst rows ->
  lattice_block (Z.to_nat n) rest lat ->
  exists e e',
    parse_elast (hdr :: l1 :: l2 :: rowlines ++ rest) = Some e /\
    parse_elast (hdr :: l1 :: l2' :: rowlines' ++ rest) = Some e' /\
    e_vref e' = e_vref e /\ e_nv e' = e_nv e /\ e_mass e' = e_mass e /\
    map fst (e_vols e') = map fst (e_vols e) /\ e_lat e' = e_lat e /\
    e_vols e' = map (row_of keys') rows'.
Proof.
  intros H1 Hv Hn Hm Hk Hk' Hl Hl' Hr Hr' Hvol Hlat.
  eexists. eexists.
  split; [eapply elast_parse_spec_l; eassumption|].
  split; [eapply elast_parse_spec_l; eassumption|].
  cbn [e_vref e_nv e_mass e_vols e_lat]. repeat split; try reflexivity.
  rewrite !map_map. unfold row_of. cbn [fst].
  change (map (fun x : dec * list dec => fst x) rows' = map (fun x : dec * list dec => fst x) rows). exact Hvol.
Qed.
