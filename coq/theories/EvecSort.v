(** C20 - lemmas about the greedy maximum-overlap assignment of EvecSortModel.v.

    Main result [greedy_recovers_row_dominant]: over any strict weak order, if the
    planted permutation sigma is strictly ROW dominant in a non-negative n x n matrix
    (M[i][sigma i] > M[i][j] for j <> sigma i), the n rounds of
    "global argmax, zero its row and column" return items[sigma 0] ... items[sigma (n-1)].
    (Column dominance is not needed; [greedy_recovers_dominant_perm] in DESIGN form assumes both.)
    Proof: induction on the rounds with the invariant "the matrix is M on live rows x live
    columns and zero elsewhere; dead columns = sigma (dead rows); sorted is filled on dead rows". *)
From Coq Require Import List Arith Bool Lia PeanoNat.
From Cij Require Import Ops EvecSortModel.
Import ListNotations.

Record ord_ok {T : Type} (lt : T -> T -> Prop) (gtb : T -> T -> bool) : Prop := {
  gtb_lt : forall x b, gtb x b = true <-> lt b x;
  lt_irrefl : forall a, ~ lt a a;
  lt_trans : forall a b c, lt a b -> lt b c -> lt a c;
  lt_cotrans : forall a b c, lt a c -> lt a b \/ lt b c
}.

Definition perm_on (n : nat) (sigma : nat -> nat) : Prop :=
  (forall i, i < n -> sigma i < n) /\
  (forall i j, i < n -> j < n -> sigma i = sigma j -> i = j).

Lemma nth_error_ext_local {B} : forall n0 (a b : list B),
  length a = n0 -> length b = n0 -> (forall i, i < n0 -> nth_error a i = nth_error b i) -> a = b.
Proof.
  intros n0 a; revert n0. induction a as [|x a IH]; intros n0 [|y b] Ha Hb H; cbn in *; subst; try discriminate; auto.
  f_equal.
  - specialize (H 0 ltac:(lia)). cbn in H. congruence.
  - apply (IH (length a)); auto. intros i Hi. apply (H (S i)). lia.
Qed.
Lemma nth_error_map_seq {B} (f : nat -> B) n i : i < n -> nth_error (map f (seq 0 n)) i = Some (f i).
Proof.
  intros Hi. rewrite nth_error_map. rewrite nth_error_nth' with (d := 0) by (rewrite seq_length; auto).
  rewrite seq_nth by auto. reflexivity.
Qed.

Section GreedyProof.
  Context {T A : Type} (z : T) (lt : T -> T -> Prop) (gtb : T -> T -> bool).
  Context (OK : ord_ok lt gtb).

  Definition ent (m : list (list T)) (i j : nat) : T := nth j (nth i m []) z.
  Definition shape (n : nat) (m : list (list T)) : Prop :=
    length m = n /\ forall row, In row m -> length row = n.

  (* ---------------- argmax ---------------- *)
  Lemma argmax_from_spec : forall l k bk bv pre,
    length pre = k -> bk < k -> nth bk pre z = bv ->
    (forall e, e < k -> ~ lt bv (nth e pre z)) ->
    let r := argmax_from gtb l k bk bv in
    r < k + length l /\ forall e, e < k + length l -> ~ lt (nth r (pre ++ l) z) (nth e (pre ++ l) z).
  Proof.
    induction l as [|x l IH]; intros k bk bv pre Hlen Hbk Hnth Hmax; cbn [argmax_from length].
    - rewrite Nat.add_0_r, app_nil_r. split; [lia|]. intros e He. rewrite Hnth. auto.
    - destruct (gtb x bv) eqn:G.
      + apply (gtb_lt _ _ OK) in G.
        specialize (IH (S k) k x (pre ++ [x])).
        rewrite app_length in IH. cbn [length] in IH.
        rewrite <- app_assoc in IH. cbn [app] in IH.
        replace (S k + length l) with (k + S (length l)) in IH by lia.
        apply IH; try lia.
        * rewrite app_nth2 by lia. replace (k - length pre) with 0 by lia. reflexivity.
        * intros e He. destruct (Nat.eq_dec e k) as [->|Ne].
          -- rewrite app_nth2 by lia. replace (k - length pre) with 0 by lia. cbn. apply (lt_irrefl _ _ OK).
          -- rewrite app_nth1 by lia. intro L. apply (Hmax e); [lia|].
             eapply (lt_trans _ _ OK); eauto.
      + assert (G' : ~ lt bv x) by (intro L; apply (gtb_lt _ _ OK) in L; congruence).
        specialize (IH (S k) bk bv (pre ++ [x])).
        rewrite app_length in IH. cbn [length] in IH.
        rewrite <- app_assoc in IH. cbn [app] in IH.
        replace (S k + length l) with (k + S (length l)) in IH by lia.
        apply IH; try lia.
        * rewrite app_nth1 by lia. exact Hnth.
        * intros e He. destruct (Nat.eq_dec e k) as [->|Ne].
          -- rewrite app_nth2 by lia. replace (k - length pre) with 0 by lia. exact G'.
          -- rewrite app_nth1 by lia. apply Hmax; lia.
  Qed.

  Lemma argmax_spec : forall l, l <> [] ->
    argmax gtb l < length l /\ forall e, e < length l -> ~ lt (nth (argmax gtb l) l z) (nth e l z).
  Proof.
    intros [|x l] Hne; [congruence|]. unfold argmax.
    pose proof (argmax_from_spec l 1 0 x [x] eq_refl (Nat.lt_0_1) eq_refl) as H.
    cbn [app length Nat.add] in H. apply H.
    intros e He. replace e with 0 by lia. cbn. apply (lt_irrefl _ _ OK).
  Qed.

  (* ---------------- flattening ---------------- *)
  Lemma concat_length_shape : forall n r (m : list (list T)),
    length m = r -> (forall row, In row m -> length row = n) -> length (concat m) = r * n.
  Proof.
    intros n r m; revert r. induction m as [|row m IH]; intros r Hl Hr; cbn in *.
    - subst; reflexivity.
    - destruct r; [discriminate|]. rewrite app_length, (IH r); auto. rewrite (Hr row); auto.
  Qed.

  Lemma concat_nth : forall n (m : list (list T)) i j,
    (forall row, In row m -> length row = n) -> i < length m -> j < n ->
    nth (i * n + j) (concat m) z = ent m i j.
  Proof.
    intros n m. induction m as [|row m IH]; intros i j Hr Hi Hj; cbn [length] in Hi; [lia|].
    cbn [concat]. destruct i as [|i].
    - cbn [Nat.mul Nat.add]. unfold ent; cbn [nth]. apply app_nth1. rewrite (Hr row); cbn; auto.
    - rewrite app_nth2 by (rewrite (Hr row) by (cbn; auto); cbn; lia).
      rewrite (Hr row) by (cbn; auto).
      replace (S i * n + j - n) with (i * n + j) by (cbn; lia).
      rewrite IH; [|intros; apply Hr; cbn; auto|lia|auto]. unfold ent; cbn [nth]. reflexivity.
  Qed.

  (* ---------------- updates ---------------- *)
  Lemma set_nth_length {B} : forall i (v : B) l, length (set_nth i v l) = length l.
  Proof. intros i v l; revert i; induction l; intros [|i]; cbn; auto. Qed.
  Lemma nth_set_nth {B} : forall i (v d : B) l k, i < length l ->
    nth k (set_nth i v l) d = if k =? i then v else nth k l d.
  Proof.
    intros i v d l; revert i; induction l as [|x l IH]; intros [|i] k Hi; cbn in *; try lia.
    - destruct k; reflexivity.
    - destruct k; [reflexivity|]. cbn. apply IH. lia.
  Qed.
  Lemma nth_error_set_nth {B} : forall i (v : B) l k, i < length l ->
    nth_error (set_nth i v l) k = if k =? i then Some v else nth_error l k.
  Proof.
    intros i v l; revert i; induction l as [|x l IH]; intros [|i] k Hi; cbn in *; try lia.
    - destruct k; reflexivity.
    - destruct k; [reflexivity|]. cbn. apply IH. lia.
  Qed.

  Lemma zero_row_length : forall m i, length (zero_row z i m) = length m.
  Proof. induction m; intros [|i]; cbn; auto. Qed.
  Lemma zero_row_rows : forall c m i,
    (forall row, In row m -> length row = c) -> forall row, In row (zero_row z i m) -> length row = c.
  Proof.
    intros c m. induction m as [|r m IH]; intros i Hr row Hin.
    - destruct i; destruct Hin.
    - destruct i as [|i]; cbn [zero_row] in Hin; destruct Hin as [<-|Hin].
      + rewrite map_length. apply Hr; cbn; auto.
      + apply Hr; cbn; auto.
      + apply Hr; cbn; auto.
      + eapply IH; eauto. intros; apply Hr; cbn; auto.
  Qed.
  Lemma zero_row_shape : forall n m i, shape n m -> shape n (zero_row z i m).
  Proof.
    intros n m i [Hl Hr]. split; [rewrite zero_row_length; auto|]. apply zero_row_rows; auto.
  Qed.

  Lemma nth_map_const : forall (row : list T) j, nth j (map (fun _ => z) row) z = z.
  Proof. induction row; intros [|j]; cbn; auto. Qed.

  Lemma ent_zero_row : forall m i i' j,
    ent (zero_row z i m) i' j = if i' =? i then z else ent m i' j.
  Proof.
    unfold ent. induction m as [|r m IH]; intros i i' j.
    - destruct i, i'; cbn; destruct j; auto; destruct (i' =? i); auto.
    - destruct i as [|i], i' as [|i']; cbn [zero_row nth Nat.eqb]; auto.
      apply nth_map_const.
  Qed.

  Lemma zero_col_shape : forall n m j, shape n m -> shape n (zero_col z j m).
  Proof.
    intros n m j [Hl Hr]. unfold zero_col. split; [rewrite map_length; auto|].
    intros row Hin. apply in_map_iff in Hin. destruct Hin as [r [<- Hin]].
    rewrite set_nth_length. auto.
  Qed.

  Lemma nth_set_nth_z : forall (l : list T) j j',
    nth j' (set_nth j z l) z = if j' =? j then z else nth j' l z.
  Proof.
    induction l as [|x l IH]; intros [|j] [|j']; cbn; auto.
    - destruct (j' =? j); auto.
  Qed.

  Lemma ent_zero_col : forall m j i j',
    ent (zero_col z j m) i j' = if j' =? j then z else ent m i j'.
  Proof.
    intros m j i j'. unfold ent, zero_col.
    destruct (Nat.lt_ge_cases i (length m)) as [Hi|Hi].
    - rewrite (nth_indep _ [] (set_nth j z [])) by (rewrite map_length; auto).
      rewrite map_nth. apply nth_set_nth_z.
    - rewrite (nth_overflow (map _ m)) by (rewrite map_length; auto).
      rewrite (nth_overflow m) by auto.
      destruct j'; destruct (_ =? _); reflexivity.
  Qed.

  (* ---------------- the invariant ---------------- *)
  Definition mem (i : nat) (D : list nat) : bool := existsb (Nat.eqb i) D.
  Lemma mem_In i D : mem i D = true <-> In i D.
  Proof.
    unfold mem. rewrite existsb_exists. split.
    - intros [x [Hx He]]. apply Nat.eqb_eq in He. subst; auto.
    - intros H; exists i; split; auto. apply Nat.eqb_refl.
  Qed.
  Lemma mem_false i D : mem i D = false <-> ~ In i D.
  Proof. rewrite <- mem_In. destruct (mem i D); split; congruence. Qed.

  Variable n : nat.
  Variable M : list (list T).
  Variable sigma : nat -> nat.
  Variable items : list A.
  Hypothesis Hn : length items = n.
  Hypothesis HM : shape n M.
  Hypothesis Hperm : perm_on n sigma.
  Hypothesis Hnonneg : forall i j, i < n -> j < n -> ~ lt (ent M i j) z.
  Hypothesis Hrow : forall i j, i < n -> j < n -> j <> sigma i -> lt (ent M i j) (ent M i (sigma i)).

  Definition inv (r : nat) (st : list (list T) * list (option A)) : Prop :=
    exists D : list nat,
      NoDup D /\ length D = r /\ (forall i, In i D -> i < n) /\
      shape n (fst st) /\
      (forall i j, i < n -> j < n ->
         ent (fst st) i j = if mem i D || mem j (map sigma D) then z else ent M i j) /\
      length (snd st) = n /\
      (forall i, i < n -> nth_error (snd st) i =
                            if mem i D then Some (nth_error items (sigma i)) else Some None).

  Lemma inv_init : inv 0 (M, repeat None n).
  Proof.
    exists []. repeat split; cbn; auto; try apply HM.
    - constructor.
    - intros i [].
    - apply repeat_length.
    - intros i Hi. rewrite nth_error_nth' with (d := None) by (rewrite repeat_length; auto).
      rewrite nth_repeat. reflexivity.
  Qed.

  Lemma matched_pos : 2 <= n -> forall i, i < n -> lt z (ent M i (sigma i)).
  Proof.
    intros H2 i Hi.
    assert (exists j, j < n /\ j <> sigma i) as [j [Hj Hne]].
    { destruct (Nat.eq_dec (sigma i) 0); [exists 1|exists 0]; split; lia. }
    specialize (Hrow i j Hi Hj Hne).
    destruct (lt_cotrans _ _ OK _ z _ Hrow) as [L|L]; [|exact L].
    exfalso. exact (Hnonneg i j Hi Hj L).
  Qed.

  Lemma live_exists : forall D, NoDup D -> length D < n -> (forall i, In i D -> i < n) ->
    exists i0, i0 < n /\ ~ In i0 D.
  Proof.
    intros D ND HL HD.
    destruct (forallb (fun i => mem i D) (seq 0 n)) eqn:E.
    - exfalso. rewrite forallb_forall in E.
      assert (incl (seq 0 n) D) by (intros i Hi; apply mem_In, E, Hi).
      pose proof (NoDup_incl_length (seq_NoDup n 0) H) as HH. rewrite seq_length in HH. lia.
    - assert (exists i, In i (seq 0 n) /\ mem i D = false) as [i [Hi Hm]].
      { clear - E. induction (seq 0 n) as [|x l IH]; cbn in E; [discriminate|].
        destruct (mem x D) eqn:Ex; cbn in E.
        - destruct (IH E) as [i [Hi Hm]]. exists i; split; cbn; auto.
        - exists x; split; cbn; auto. }
      exists i. apply in_seq in Hi. split; [lia|]. apply mem_false; auto.
  Qed.

  Lemma sigma_mem : forall D i, (forall k, In k D -> k < n) -> i < n ->
    mem (sigma i) (map sigma D) = mem i D.
  Proof.
    intros D i HD Hi. destruct (mem i D) eqn:E.
    - apply mem_In in E. apply mem_In. apply in_map; auto.
    - apply mem_false in E. apply mem_false. intros Hin. apply in_map_iff in Hin.
      destruct Hin as [k [Hk Hin]]. apply E.
      destruct Hperm as [_ Hinj]. rewrite <- (Hinj k i); auto.
  Qed.

  Lemma inv_step : 2 <= n -> forall r st, r < n -> inv r st -> inv (S r) (step z gtb n items st).
  Proof.
    intros H2 r [m sorted] Hr [D [ND [HL [HD [Hsh [Hent [Hsl Hsorted]]]]]]].
    cbn [fst snd] in *.
    unfold step.
    set (k := argmax gtb (concat m)).
    assert (Hcl : length (concat m) = n * n) by (apply concat_length_shape; apply Hsh).
    assert (Hne : concat m <> []) by (intro E; rewrite E in Hcl; cbn in Hcl; nia).
    destruct (argmax_spec (concat m) Hne) as [Hk Hmax]. fold k in Hk, Hmax.
    rewrite Hcl in Hk, Hmax.
    set (i := k / n). set (j := k mod n).
    assert (Hn0 : n <> 0) by lia.
    assert (Hi : i < n) by (apply Nat.div_lt_upper_bound; lia).
    assert (Hj : j < n) by (apply Nat.mod_upper_bound; lia).
    assert (Hkij : k = i * n + j) by (unfold i, j; rewrite Nat.mul_comm; apply Nat.div_mod; lia).
    assert (Hmax' : forall i' j', i' < n -> j' < n -> ~ lt (ent m i j) (ent m i' j')).
    { intros i' j' Hi' Hj'.
      rewrite <- (concat_nth n m i j), <- (concat_nth n m i' j'), <- Hkij;
        try apply Hsh; try (destruct Hsh as [-> _]); auto.
      apply Hmax. nia. }
    (* a live matched entry exists and is positive *)
    destruct (live_exists D ND ltac:(lia) HD) as [i0 [Hi0 Hlive0]].
    assert (Hs0 : sigma i0 < n) by (apply Hperm; auto).
    assert (E0 : ent m i0 (sigma i0) = ent M i0 (sigma i0)).
    { rewrite Hent by auto. rewrite sigma_mem by auto.
      apply mem_false in Hlive0. rewrite Hlive0. reflexivity. }
    assert (Hpos : lt z (ent m i j)).
    { pose proof (matched_pos H2 i0 Hi0) as P. rewrite <- E0 in P.
      destruct (lt_cotrans _ _ OK _ (ent m i j) _ P) as [L|L]; [exact L|].
      exfalso. exact (Hmax' i0 (sigma i0) Hi0 Hs0 L). }
    (* so (i, j) is live x live *)
    assert (Hlive : mem i D = false /\ mem j (map sigma D) = false).
    { rewrite Hent in Hpos by auto.
      destruct (mem i D); destruct (mem j (map sigma D)); cbn in Hpos; auto;
        exfalso; eapply (lt_irrefl _ _ OK); eauto. }
    destruct Hlive as [Hli Hlj].
    (* and matched *)
    assert (Hsi : sigma i < n) by (apply Hperm; auto).
    assert (Hjs : j = sigma i).
    { destruct (Nat.eq_dec j (sigma i)) as [E|NE]; [exact E|exfalso].
      apply (Hmax' i (sigma i) Hi Hsi).
      rewrite !Hent by auto. rewrite sigma_mem by auto. rewrite Hli, Hlj. cbn.
      apply Hrow; auto. }
    exists (i :: D). cbn [fst snd].
    assert (Hsh1 : shape n (zero_row z i m)) by (apply zero_row_shape; auto).
    assert (Hent' : forall i' j', i' < n -> j' < n ->
              ent (zero_col z j (zero_row z i m)) i' j' =
              if mem i' (i :: D) || mem j' (map sigma (i :: D)) then z else ent M i' j').
    { intros i' j' Hi' Hj'.
      rewrite ent_zero_col, ent_zero_row.
      rewrite Hent by auto. cbn [map mem existsb]. fold (mem i' D). fold (mem j' (map sigma D)).
      rewrite <- Hjs.
      destruct (j' =? j); destruct (i' =? i); cbn; try reflexivity.
      rewrite orb_true_r. reflexivity. }
    assert (Hsorted' : forall i', i' < n ->
              nth_error (set_nth i (nth_error items j) sorted) i' =
              if mem i' (i :: D) then Some (nth_error items (sigma i')) else Some None).
    { intros i' Hi'. rewrite nth_error_set_nth by lia.
      cbn [mem existsb]. fold (mem i' D). destruct (Nat.eqb_spec i' i) as [->|NE].
      - cbn. rewrite Hjs. reflexivity.
      - cbn. apply Hsorted; auto. }
    split; [constructor; auto; apply mem_false; auto|].
    split; [cbn; lia|].
    split; [intros i' [<-|Hin]; auto|].
    split; [apply zero_col_shape, Hsh1|].
    split; [exact Hent'|].
    split; [rewrite set_nth_length; auto|exact Hsorted'].
  Qed.

  Lemma inv_iter : 2 <= n -> forall r, r <= n -> inv r (Nat.iter r (step z gtb n items) (M, repeat None n)).
  Proof.
    intros H2. induction r as [|r IH]; intros Hr.
    - apply inv_init.
    - cbn [Nat.iter]. apply inv_step; auto; try lia. apply IH. lia.
  Qed.

  Theorem greedy_recovers_row_dominant_sec :
    greedy z gtb items M = map (fun i => nth_error items (sigma i)) (seq 0 n).
  Proof.
    unfold greedy. rewrite Hn.
    destruct (Nat.le_gt_cases 2 n) as [H2|H1].
    - destruct (inv_iter H2 n (le_n n)) as [D [ND [HL [HD [_ [_ [Hsl Hsorted]]]]]]].
      set (st := Nat.iter n (step z gtb n items) (M, repeat None n)) in *.
      assert (Hall : forall i, i < n -> In i D).
      { assert (incl D (seq 0 n)) as HI by (intros i Hi; apply in_seq; specialize (HD i Hi); lia).
        assert (HLe : length (seq 0 n) <= length D) by (rewrite seq_length; lia).
        pose proof (NoDup_length_incl ND HLe HI) as HI'.
        intros i Hi. apply HI'. apply in_seq. lia. }
      apply nth_error_ext_local with (n0 := n); auto.
      + rewrite map_length, seq_length. reflexivity.
      + intros i Hi. rewrite Hsorted by auto.
        assert (E : mem i D = true) by (apply mem_In; auto). rewrite E.
        rewrite nth_error_map_seq by auto. reflexivity.
    - (* n = 0 or n = 1 *)
      destruct n as [|[|n']]; [reflexivity| |lia].
      destruct items as [|a [|? ?]]; try discriminate.
      destruct HM as [HlM HrM]. destruct M as [|row [|? ?]]; try discriminate.
      assert (length row = 1) as Hrow1 by (apply HrM; cbn; auto).
      destruct row as [|x [|? ?]]; try discriminate.
      assert (sigma 0 = 0) as S0 by (destruct Hperm as [Hp _]; specialize (Hp 0); lia).
      cbn. rewrite S0. reflexivity.
  Qed.
End GreedyProof.

(* ====================================================================================== *)
(** * Instances of the order, and the statements in DESIGN form *)
From Coq Require Import QArith Lqa Reals Lra Permutation.
From Cij Require Import ROps.

Definition Qgtb (x b : Q) : bool := if Qlt_le_dec b x then true else false.
Lemma Q_ord_ok : ord_ok Qlt Qgtb.
Proof.
  split.
  - intros x b. unfold Qgtb. destruct (Qlt_le_dec b x); split; intros; try discriminate; auto.
    exfalso. apply (Qlt_not_le _ _ H); auto.
  - intros a. apply Qlt_irrefl.
  - intros a b c. apply Qlt_trans.
  - intros a b c H. destruct (Qlt_le_dec a b); [left; auto|right]. eapply Qle_lt_trans; eauto.
Qed.

Lemma R_ord_ok : ord_ok Rlt (@gtb_ops R ROps).
Proof.
  split.
  - intros x b. unfold gtb_ops. cbn [fleb ROps]. unfold Rleb.
    destruct (Rle_dec x b); cbn; split; intros; try discriminate; try lra; auto.
  - intros a. apply Rlt_irrefl.
  - intros a b c. apply Rlt_trans.
  - intros a b c H. destruct (Rlt_dec a b); [left; auto|right; lra].
Qed.

Definition mat_of {T} (n : nat) (M : nat -> nat -> T) : list (list T) :=
  map (fun i => map (M i) (seq 0 n)) (seq 0 n).

Lemma mat_of_shape {T} n (M : nat -> nat -> T) : shape n (mat_of n M).
Proof.
  split; [unfold mat_of; rewrite map_length, seq_length; reflexivity|].
  intros row Hin. unfold mat_of in Hin. apply in_map_iff in Hin. destruct Hin as [i [<- _]].
  rewrite map_length, seq_length. reflexivity.
Qed.

Lemma ent_mat_of {T} (z : T) n (M : nat -> nat -> T) i j : (i < n)%nat -> (j < n)%nat ->
  ent z (mat_of n M) i j = M i j.
Proof.
  intros Hi Hj. unfold ent, mat_of.
  rewrite (nth_indep _ [] ((fun i => map (M i) (seq 0 n)) 0%nat)) by (rewrite map_length, seq_length; auto).
  rewrite (map_nth (fun i => map (M i) (seq 0 n))). rewrite seq_nth by auto. cbn [Nat.add].
  rewrite (nth_indep _ z (M i 0%nat)) by (rewrite map_length, seq_length; auto).
  rewrite (map_nth (M i)). rewrite seq_nth by auto. reflexivity.
Qed.

(** generic statement, any strict weak order (the Section's theorem, closed) *)
Definition greedy_recovers_row_dominant := @greedy_recovers_row_dominant_sec.

Definition dominant (n : nat) (M : nat -> nat -> Q) (sigma : nat -> nat) : Prop :=
  (forall i j, (i < n)%nat -> (j < n)%nat -> 0 <= M i j) /\
  (forall i j, (i < n)%nat -> (j < n)%nat -> j <> sigma i -> M i j < M i (sigma i)) /\
  (forall i k, (i < n)%nat -> (k < n)%nat -> k <> i -> M k (sigma i) < M i (sigma i)).

Lemma greedy_recovers_dominant_perm_l :
  forall (A : Type) (d : A) n (M : nat -> nat -> Q) (sigma : nat -> nat) (items : list A),
    length items = n -> perm_on n sigma -> dominant n M sigma ->
    greedy 0 Qgtb items (mat_of n M) = map (fun i => Some (nth (sigma i) items d)) (seq 0 n).
Proof.
  intros A d n M sigma items Hn Hp [Hnn [Hrow _]].
  rewrite (greedy_recovers_row_dominant_sec 0 Qlt Qgtb Q_ord_ok n (mat_of n M) sigma items Hn
             (mat_of_shape n M) Hp).
  - apply map_ext_in. intros i Hi. apply in_seq in Hi. apply nth_error_nth'.
    rewrite Hn. apply Hp. lia.
  - intros i j Hi Hj. rewrite ent_mat_of by auto. apply Qle_not_lt. auto.
  - intros i j Hi Hj Hne. rewrite !ent_mat_of by (auto; apply Hp; auto). auto.
Qed.

(** the result is a permutation of the input *)
Lemma map_nth_seq {A} (d : A) (l : list A) : map (fun k => nth k l d) (seq 0 (length l)) = l.
Proof.
  induction l as [|x l IH]; [reflexivity|]. cbn [length seq map nth]. f_equal.
  rewrite <- seq_shift, map_map. exact IH.
Qed.

Lemma perm_on_Permutation n sigma : perm_on n sigma -> Permutation (map sigma (seq 0 n)) (seq 0 n).
Proof.
  intros [Hr Hi]. apply NoDup_Permutation_bis.
  - (* NoDup (map sigma (seq 0 n)) by injectivity *)
    assert (G : forall l, NoDup l -> (forall x, In x l -> (x < n)%nat) -> NoDup (map sigma l)).
    { induction l as [|x l IH]; intros ND Hl; cbn; constructor.
      - inversion ND; subst. intros Hin. apply in_map_iff in Hin. destruct Hin as [y [Hy Hin]].
        apply Hi in Hy; [subst; auto| |]; apply Hl; cbn; auto.
      - inversion ND; subst. apply IH; auto. intros; apply Hl; cbn; auto. }
    apply G; [apply seq_NoDup|]. intros x Hx. apply in_seq in Hx. lia.
  - rewrite map_length. lia.
  - intros x Hx. apply in_map_iff in Hx. destruct Hx as [y [<- Hy]]. apply in_seq in Hy.
    apply in_seq. specialize (Hr y). lia.
Qed.

Lemma sort_result_is_permutation_l :
  forall (A : Type) (d : A) n (M : nat -> nat -> Q) (sigma : nat -> nat) (items : list A),
    length items = n -> perm_on n sigma -> dominant n M sigma ->
    exists out, greedy 0 Qgtb items (mat_of n M) = map Some out /\ Permutation items out.
Proof.
  intros A d n M sigma items Hn Hp Hd.
  exists (map (fun i => nth (sigma i) items d) (seq 0 n)). split.
  - rewrite (greedy_recovers_dominant_perm_l A d n M sigma items Hn Hp Hd), map_map. reflexivity.
  - rewrite <- (map_nth_seq d items) at 1. rewrite Hn.
    rewrite <- (map_map sigma (fun k => nth k items d)).
    apply Permutation_map. symmetry. apply perm_on_Permutation; auto.
Qed.

(** over the reals, for the model function [evec_sort_mat] at [ROps] *)
Lemma evec_sort_mat_recovers_R_l :
  forall (A : Type) n (a : list (list R)) (sigma : nat -> nat) (items : list A),
    length items = n -> shape n a -> perm_on n sigma ->
    (forall i j, (i < n)%nat -> (j < n)%nat -> (0 <= ent 0 a i j)%R) ->
    (forall i j, (i < n)%nat -> (j < n)%nat -> j <> sigma i -> (ent 0 a i j < ent 0 a i (sigma i))%R) ->
    @evec_sort_mat R ROps A items a = map (fun i => nth_error items (sigma i)) (seq 0 n).
Proof.
  intros A n a sigma items Hn Hs Hp Hnn Hrow. unfold evec_sort_mat.
  apply (greedy_recovers_row_dominant_sec (@zero R ROps) Rlt (@gtb_ops R ROps) R_ord_ok n a sigma items Hn Hs Hp).
  - intros i j Hi Hj. cbn [zero ROps]. specialize (Hnn i j Hi Hj). lra.
  - exact Hrow.
Qed.

(** non-vacuity: a 3 x 3 matrix with the dominant permutation 0->2, 1->0, 2->1 *)
Definition ex_M (i j : nat) : Q :=
  nth j (nth i [[1#10; 2#10; 9#10]; [8#10; 1#10; 3#10]; [0; 7#10; 2#10]] []) 0.
Definition ex_sigma (i : nat) : nat := match i with 0 => 2 | 1 => 0 | _ => 1 end%nat.
Example ex_dominant : perm_on 3 ex_sigma /\ dominant 3 ex_M ex_sigma.
Proof.
  split; [split|split; [|split]].
  - intros [|[|[|i]]] H; cbn; lia.
  - intros [|[|[|i]]] [|[|[|j]]] Hi Hj; cbn; intros; lia.
  - intros [|[|[|i]]] [|[|[|j]]] Hi Hj; try lia; cbn; discriminate.
  - intros [|[|[|i]]] [|[|[|j]]] Hi Hj; try lia; cbn; intros; try congruence; reflexivity.
  - intros [|[|[|i]]] [|[|[|j]]] Hi Hj; try lia; cbn; intros; try congruence; reflexivity.
Qed.
Example ex_greedy : greedy 0 Qgtb [10; 20; 30]%nat (mat_of 3 ex_M) = [Some 30; Some 10; Some 20]%nat.
Proof. vm_compute. reflexivity. Qed.

(** outside dominance the result need not be a permutation: with an all-zero overlap matrix both
    rounds pick position (0,0); the second slot stays None (not claimed by the property) *)
Example sort_may_leave_None : greedy 0 Qgtb [10; 20]%nat [[0; 0]; [0; 0]] = [Some 10%nat; None].
Proof. vm_compute. reflexivity. Qed.
