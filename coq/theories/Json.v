(** Lemmas about the merge model [update_config] of JsonModel.v (property C16).
    Everything is by structural induction on trees / key paths; no axioms. *)
From Coq Require Import ZArith List Bool String Permutation Lia.
From Cij Require Import JsonModel.
Import ListNotations.

(** * induction principle for the nested type *)
Section JsonInd.
  Variable P : json -> Prop.
  Hypothesis Hnull : P JNull.
  Hypothesis Hbool : forall b, P (JBool b).
  Hypothesis Hnum : forall n, P (JNum n).
  Hypothesis Hstr : forall s, P (JStr s).
  Hypothesis Harr : forall l, Forall P l -> P (JArr l).
  Hypothesis Hobj : forall l, Forall (fun kv => P (snd kv)) l -> P (JObj l).
  Fixpoint json_ind' (j : json) : P j :=
    match j with
    | JNull => Hnull
    | JBool b => Hbool b
    | JNum n => Hnum n
    | JStr s => Hstr s
    | JArr l => Harr l ((fix go (l : list json) : Forall P l :=
                           match l with
                           | [] => Forall_nil _
                           | x :: r => Forall_cons _ (json_ind' x) (go r)
                           end) l)
    | JObj l => Hobj l ((fix go (l : list (string * json)) : Forall (fun kv => P (snd kv)) l :=
                           match l with
                           | [] => Forall_nil _
                           | kv :: r => Forall_cons _ (json_ind' (snd kv)) (go r)
                           end) l)
    end.
End JsonInd.

(** * association lists *)
Lemma lookup_In {A} k (l : list (string * A)) v : lookup k l = Some v -> In (k, v) l.
Proof.
  induction l as [|[k' w] r IH]; cbn; [discriminate|].
  destruct (String.eqb k k') eqn:E.
  - apply String.eqb_eq in E. intros H; inversion H; subst. left; reflexivity.
  - intros H. right. exact (IH H).
Qed.
Lemma lookup_None {A} k (l : list (string * A)) : lookup k l = None <-> ~ In k (keys l).
Proof.
  induction l as [|[k' w] r IH]; cbn; [tauto|].
  destruct (String.eqb k k') eqn:E.
  - apply String.eqb_eq in E. subst. split; [discriminate | intros H; exfalso; apply H; left; reflexivity].
  - apply String.eqb_neq in E. rewrite IH. unfold keys. split; intros H.
    + intros [H1|H1]; [congruence | exact (H H1)].
    + intros H1. apply H. right. exact H1.
Qed.
Lemma lookup_Some_key {A} k (l : list (string * A)) : In k (keys l) <-> lookup k l <> None.
Proof.
  pose proof (lookup_None k l) as H. destruct (lookup k l).
  - split; [discriminate|]. intros _. destruct (in_dec string_dec k (keys l)) as [i|n]; [exact i|].
    apply H in n. discriminate.
  - split; [intros Hin Hn; apply H in Hn; exact (Hn Hin) | intros Hn; congruence].
Qed.
Lemma mem_In k l : mem k l = true <-> In k l.
Proof.
  unfold mem. rewrite existsb_exists. split.
  - intros [x [Hx E]]. apply String.eqb_eq in E. subst. exact Hx.
  - intros H. exists k. split; [exact H | apply String.eqb_refl].
Qed.
Lemma dedup_In k l : In k (dedup l) <-> In k l.
Proof.
  induction l as [|x r IH]; cbn; [tauto|].
  rewrite filter_In, IH. destruct (String.eqb x k) eqn:E.
  - apply String.eqb_eq in E. subst. cbn. split; [intros [H|[H H1]]; auto; discriminate | intros _; left; reflexivity].
  - apply String.eqb_neq in E. cbn. split.
    + intros [H|[H _]]; auto.
    + intros [H|H]; [congruence | right; split; [exact H | reflexivity]].
Qed.
Lemma dedup_NoDup l : NoDup (dedup l).
Proof.
  induction l as [|x r IH]; cbn; [constructor|].
  constructor.
  - rewrite filter_In. intros [_ H]. rewrite String.eqb_refl in H. discriminate.
  - apply NoDup_filter. exact IH.
Qed.

(** the iteration order of a Python set of keys: each key once, in an arbitrary order *)
Definition key_order (ord : list string -> list string) : Prop :=
  forall l, Permutation (ord l) (dedup l).
Lemma key_order_In ord : key_order ord -> forall l k, In k (ord l) <-> In k l.
Proof.
  intros H l k. rewrite <- (dedup_In k l). split; apply Permutation_in; [apply H | apply Permutation_sym, H].
Qed.
Lemma key_order_dedup : key_order dedup.
Proof. intros l. apply Permutation_refl. Qed.
Lemma key_order_rev : key_order (fun l => rev (dedup l)).
Proof. intros l. apply Permutation_sym, Permutation_rev. Qed.

Lemma collect_Some {A} (l : list (string * option A)) r :
  collect l = Some r -> forall k, lookup k r = match lookup k l with Some o => o | None => None end.
Proof.
  revert r. induction l as [|[k' [v|]] t IH]; cbn; intros r H k.
  - inversion H. reflexivity.
  - destruct (collect t) as [r'|] eqn:E; [|discriminate]. inversion H; subst. cbn.
    destruct (String.eqb k k'); [reflexivity | apply IH; reflexivity].
  - discriminate.
Qed.
Lemma collect_defined {A} (l : list (string * option A)) :
  (forall k o, In (k, o) l -> o <> None) -> exists r, collect l = Some r.
Proof.
  induction l as [|[k' [v|]] t IH]; cbn; intros H.
  - eexists; reflexivity.
  - destruct IH as [r Hr]; [intros k o Hin; apply (H k o); right; exact Hin|].
    rewrite Hr. eexists; reflexivity.
  - exfalso. apply (H k' None); [left; reflexivity | reflexivity].
Qed.
Lemma collect_all_Some {A} (l : list (string * option A)) r :
  collect l = Some r -> forall k o, In (k, o) l -> o <> None.
Proof.
  revert r. induction l as [|[k' [v|]] t IH]; cbn; intros r H k o Hin.
  - destruct Hin.
  - destruct (collect t) as [r'|] eqn:E; [|discriminate].
    destruct Hin as [Hin|Hin]; [inversion Hin; discriminate | exact (IH r' eq_refl k o Hin)].
  - discriminate.
Qed.
Lemma lookup_map_keys {A} (f : string -> A) ks k :
  lookup k (map (fun k => (k, f k)) ks) = if mem k ks then Some (f k) else None.
Proof.
  induction ks as [|x r IH]; cbn; [reflexivity|].
  destruct (String.eqb k x) eqn:E; cbn.
  - apply String.eqb_eq in E. subst. reflexivity.
  - exact IH.
Qed.

Lemma nodup_lookup {A} (l : list (string * A)) k v :
  nodupb (keys l) = true -> In (k, v) l -> lookup k l = Some v.
Proof.
  induction l as [|[k' w] r IH]; cbn; intros Hn Hin; [destruct Hin|].
  apply andb_true_iff in Hn. destruct Hn as [Hm Hn].
  destruct Hin as [Hin|Hin].
  - inversion Hin; subst. rewrite String.eqb_refl. reflexivity.
  - destruct (String.eqb k k') eqn:E.
    + apply String.eqb_eq in E. subst. exfalso. apply negb_true_iff in Hm.
      assert (M : mem k' (keys r) = true).
      { apply mem_In. unfold keys. apply in_map_iff. exists (k', v). split; auto. }
      unfold mem, keys in *. congruence.
    + apply IH; assumption.
Qed.
Lemma no_clash_unfold us ds :
  no_clash (JObj us) (JObj ds) =
  forallb (fun kv => match lookup (fst kv) ds with
                     | None => true
                     | Some dv => if is_obj (snd kv) then no_clash (snd kv) dv else true
                     end) us.
Proof. cbn. induction us as [|[k v] r IH]; cbn; [reflexivity|]. rewrite IH. reflexivity. Qed.

(** * one-step characterisation of the merge *)
Section Merge.
  Variable ord : list string -> list string.
  Hypothesis Hord : key_order ord.

  (** the value stored under key k, written with lookups (None: k absent, or the recursive call failed) *)
  Definition value (us ds : list (string * json)) (k : string) : option json :=
    match lookup k us with
    | None => lookup k ds
    | Some v => match lookup k ds with
                | None => Some v
                | Some dv => if is_obj v && is_obj dv then update_config ord v dv else Some v
                end
    end.

  Lemma update_unfold us ds :
    update_config ord (JObj us) (JObj ds) =
    option_map JObj (collect (map (fun k => (k, value us ds k)) (ord (keys us ++ keys ds)))).
  Proof.
    cbn [update_config]. f_equal. f_equal. apply map_ext. intros k. f_equal.
    unfold value. induction us as [|[k' v] r IH]; cbn [lookup]; [reflexivity|].
    destruct (String.eqb k k'); [reflexivity | exact IH].
  Qed.

  Lemma in_union (us ds : list (string * json)) k : In k (ord (keys us ++ keys ds)) <-> In k (keys us) \/ In k (keys ds).
  Proof using Hord. rewrite (key_order_In ord Hord). apply in_app_iff. Qed.

  Lemma value_absent us ds k : ~ (In k (keys us) \/ In k (keys ds)) -> value us ds k = None.
  Proof.
    intros H. unfold value.
    assert (H1 : lookup k us = None) by (apply lookup_None; tauto).
    assert (H2 : lookup k ds = None) by (apply lookup_None; tauto).
    rewrite H1, H2. reflexivity.
  Qed.

  (** success: the result is a dict whose binding for every k is [value k] *)
  Lemma update_lookup us ds r :
    update_config ord (JObj us) (JObj ds) = Some r ->
    exists rs, r = JObj rs /\ (forall k, lookup k rs = value us ds k)
               /\ (forall k, In k (keys us) \/ In k (keys ds) -> value us ds k <> None).
  Proof using Hord.
    rewrite update_unfold.
    destruct (collect _) as [rs|] eqn:E; cbn; [|discriminate].
    intros H; inversion H; subst. exists rs. split; [reflexivity|]. split.
    - intros k. rewrite (collect_Some _ _ E), lookup_map_keys.
      destruct (mem k _) eqn:M; [reflexivity|].
      symmetry. apply value_absent. rewrite <- in_union, <- mem_In, M. discriminate.
    - intros k Hk. apply (collect_all_Some _ _ E k). apply in_map_iff. exists k.
      split; [reflexivity | apply in_union; exact Hk].
  Qed.
  Lemma update_defined us ds :
    (forall k, In k (keys us) \/ In k (keys ds) -> value us ds k <> None) ->
    exists r, update_config ord (JObj us) (JObj ds) = Some r.
  Proof using Hord.
    intros H. rewrite update_unfold.
    destruct (collect_defined (map (fun k => (k, value us ds k)) (ord (keys us ++ keys ds)))) as [rs Hr].
    - intros k o Hin. apply in_map_iff in Hin. destruct Hin as [k' [E Hin]]. inversion E; subst.
      apply H, in_union, Hin.
    - rewrite Hr. eexists; reflexivity.
  Qed.
  Lemma update_obj u d r : update_config ord u d = Some r -> is_obj u = true /\ is_obj d = true /\ is_obj r = true.
  Proof using Hord.
    destruct u; try discriminate. destruct d; try discriminate.
    intros H. apply update_lookup in H. destruct H as [rs [-> _]]. auto.
  Qed.
End Merge.

(** * extensional equality of trees: dicts as finite maps, leaves exact *)
Inductive orel {A : Type} (R : A -> A -> Prop) : option A -> option A -> Prop :=
| orel_none : orel R None None
| orel_some x y : R x y -> orel R (Some x) (Some y).
Inductive jeq : json -> json -> Prop :=
| jeq_null : jeq JNull JNull
| jeq_bool b : jeq (JBool b) (JBool b)
| jeq_num n : jeq (JNum n) (JNum n)
| jeq_str s : jeq (JStr s) (JStr s)
| jeq_arr xs ys : Forall2 jeq xs ys -> jeq (JArr xs) (JArr ys)
| jeq_obj xs ys : (forall k, orel jeq (lookup k xs) (lookup k ys)) -> jeq (JObj xs) (JObj ys).

Lemma jeq_refl j : jeq j j.
Proof.
  induction j using json_ind'; try constructor.
  - induction H; constructor; auto.
  - intros k. destruct (lookup k l) eqn:E; constructor.
    apply lookup_In in E. rewrite Forall_forall in H. exact (H _ E).
Qed.
Lemma orel_refl_jeq o : orel jeq o o.
Proof. destruct o; constructor. apply jeq_refl. Qed.
Lemma jeq_arr_inv xs y : jeq (JArr xs) y -> exists ys, y = JArr ys /\ Forall2 jeq xs ys.
Proof. intros H; inversion H; subst. eexists; split; [reflexivity | assumption]. Qed.
Lemma jeq_obj_inv xs y : jeq (JObj xs) y ->
  exists ys, y = JObj ys /\ forall k, orel jeq (lookup k xs) (lookup k ys).
Proof. intros H; inversion H; subst. eexists; split; [reflexivity | assumption]. Qed.
Lemma orel_Some_inv {A} (R : A -> A -> Prop) x o : orel R (Some x) o -> exists y, o = Some y /\ R x y.
Proof. intros H; inversion H; subst. eexists; split; [reflexivity | assumption]. Qed.
Lemma orel_None_inv {A} (R : A -> A -> Prop) o : orel R None o -> o = None.
Proof. intros H; inversion H; reflexivity. Qed.
Lemma orel_None_inv_r {A} (R : A -> A -> Prop) o : orel R o None -> o = None.
Proof. intros H; inversion H; reflexivity. Qed.

Lemma jeq_sym a : forall y, jeq a y -> jeq y a.
Proof.
  induction a using json_ind'; intros y Hab.
  - inversion Hab; constructor.
  - inversion Hab; constructor.
  - inversion Hab; constructor.
  - inversion Hab; constructor.
  - apply jeq_arr_inv in Hab. destruct Hab as [ys [-> HF]]. constructor.
    revert ys HF. induction H as [|x xr Hx Hxr IH]; intros ys HF; inversion HF; subst; constructor; auto.
  - apply jeq_obj_inv in Hab. destruct Hab as [ys [-> HL]]. constructor.
    intros k. specialize (HL k). destruct (lookup k l) as [v|] eqn:E.
    + apply orel_Some_inv in HL. destruct HL as [w [-> Hvw]]. constructor.
      apply lookup_In in E. rewrite Forall_forall in H. exact (H _ E _ Hvw).
    + apply orel_None_inv in HL. rewrite HL. constructor.
Qed.
Lemma jeq_trans a : forall y z, jeq a y -> jeq y z -> jeq a z.
Proof.
  induction a using json_ind'; intros y z Hab Hbc.
  - inversion Hab; subst; exact Hbc.
  - inversion Hab; subst; exact Hbc.
  - inversion Hab; subst; exact Hbc.
  - inversion Hab; subst; exact Hbc.
  - apply jeq_arr_inv in Hab. destruct Hab as [ys [-> HF]].
    apply jeq_arr_inv in Hbc. destruct Hbc as [zs [-> HG]]. constructor.
    revert ys zs HF HG. induction H as [|x xr Hx Hxr IH]; intros ys zs HF HG; inversion HF; subst; inversion HG; subst;
      constructor; eauto.
  - apply jeq_obj_inv in Hab. destruct Hab as [ys [-> HL]].
    apply jeq_obj_inv in Hbc. destruct Hbc as [zs [-> HM]]. constructor.
    intros k. specialize (HL k). specialize (HM k). destruct (lookup k l) as [v|] eqn:E.
    + apply orel_Some_inv in HL. destruct HL as [w [Ew Hvw]]. rewrite Ew in HM.
      apply orel_Some_inv in HM. destruct HM as [x [-> Hwx]]. constructor.
      apply lookup_In in E. rewrite Forall_forall in H. exact (H _ E _ _ Hvw Hwx).
    + apply orel_None_inv in HL. rewrite HL in HM. apply orel_None_inv in HM. rewrite HM. constructor.
Qed.
Lemma jeq_is_obj a b : jeq a b -> is_obj a = is_obj b.
Proof. intros H; inversion H; reflexivity. Qed.

(** the boolean comparison used by the correspondence shards is sound for [jeq] *)
Lemma num_eqb_eq a b : num_eqb a b = true -> a = b.
Proof.
  destruct a, b; cbn; try discriminate; try reflexivity.
  - intros H. apply Z.eqb_eq in H. congruence.
  - intros H. apply andb_true_iff in H. destruct H as [H1 H2]. apply Z.eqb_eq in H1, H2. congruence.
  - intros H. apply eqb_prop in H. congruence.
Qed.
Lemma jeqb_sound a : forall b, jeqb a b = true -> jeq a b.
Proof.
  induction a using json_ind'; intros y Hb; destruct y; cbn in Hb; try discriminate.
  - constructor.
  - apply eqb_prop in Hb. subst. constructor.
  - apply num_eqb_eq in Hb. subst. constructor.
  - apply String.eqb_eq in Hb. subst. constructor.
  - constructor. revert l0 Hb. induction H; intros [|y yr] Hb; try discriminate; constructor.
    + apply andb_true_iff in Hb. apply H, Hb.
    + apply andb_true_iff in Hb. apply IHForall, Hb.
  - apply andb_true_iff in Hb. destruct Hb as [H1 H2]. constructor. intros k.
    destruct (lookup k l) eqn:E.
    + assert (G : forall l', Forall (fun kv => forall b, jeqb (snd kv) b = true -> jeq (snd kv) b) l' ->
                  (fix go (l : list (string * json)) : bool :=
                     match l with
                     | [] => true
                     | (k, v) :: r => match lookup k l0 with Some w => jeqb v w | None => false end && go r
                     end) l' = true ->
                  forall k v, lookup k l' = Some v -> exists w, lookup k l0 = Some w /\ jeq v w).
      { clear. induction l' as [|[k' v'] r IH]; intros HF Hgo k v Hl; cbn in Hl; [discriminate|].
        apply andb_true_iff in Hgo. destruct Hgo as [G1 G2].
        pose proof (Forall_inv HF) as F1. pose proof (Forall_inv_tail HF) as F2. cbn in F1.
        destruct (String.eqb k k') eqn:E.
        - apply String.eqb_eq in E. subst. inversion Hl; subst.
          destruct (lookup k' l0) as [w|]; [|discriminate]. exists w. split; [reflexivity|]. apply (F1 w G1).
        - exact (IH F2 G2 k v Hl). }
      destruct (G l H H1 k j E) as [w [Hw Hj]]. rewrite Hw. constructor. exact Hj.
    + assert (N : lookup k l0 = None).
      { apply lookup_None. intros Hin. apply lookup_None in E. apply E.
        unfold keys in Hin. apply in_map_iff in Hin. destruct Hin as [[k' w] [Hk Hin]]. cbn in Hk. subst.
        rewrite forallb_forall in H2. specialize (H2 _ Hin). cbn in H2. apply mem_In in H2. exact H2. }
      rewrite N. constructor.
Qed.

(** * theorems about the merge *)
Section MergeTheorems.
  Variable ord : list string -> list string.
  Hypothesis Hord : key_order ord.
  Let upd := update_config ord.

  (** ** order independence: any two enumeration orders give extensionally equal results
      (and fail on the same inputs) *)
  Theorem merge_order_independent_l ord' : key_order ord' ->
    forall u d, orel jeq (update_config ord u d) (update_config ord' u d).
  Proof using Hord.
    intros Hord'. induction u using json_ind'; intros d; try (cbn; constructor).
    destruct d as [| | | | |ds]; try (cbn; constructor).
    rename l into us.
    assert (V : forall k, orel jeq (value ord us ds k) (value ord' us ds k)).
    { intros k. unfold value. destruct (lookup k us) as [v|] eqn:E; [|apply orel_refl_jeq].
      destruct (lookup k ds) as [dv|]; [|apply orel_refl_jeq].
      destruct (is_obj v && is_obj dv); [|apply orel_refl_jeq].
      apply lookup_In in E. rewrite Forall_forall in H. exact (H _ E dv). }
    destruct (update_config ord (JObj us) (JObj ds)) as [r|] eqn:E1;
      destruct (update_config ord' (JObj us) (JObj ds)) as [r'|] eqn:E2.
    - apply (update_lookup ord Hord) in E1. apply (update_lookup ord' Hord') in E2.
      destruct E1 as [rs [-> [L1 _]]], E2 as [rs' [-> [L2 _]]]. constructor. constructor.
      intros k. rewrite L1, L2. apply V.
    - exfalso. apply (update_lookup ord Hord) in E1. destruct E1 as [rs [-> [L1 D1]]].
      destruct (update_defined ord' Hord' us ds) as [r' Hr']; [|congruence].
      intros k Hk Hn. specialize (V k). rewrite Hn in V. apply orel_None_inv_r in V. exact (D1 k Hk V).
    - exfalso. apply (update_lookup ord' Hord') in E2. destruct E2 as [rs [-> [L1 D1]]].
      destruct (update_defined ord Hord us ds) as [r' Hr']; [|congruence].
      intros k Hk Hn. specialize (V k). rewrite Hn in V. apply orel_None_inv in V. exact (D1 k Hk V).
    - constructor.
  Qed.

  (** ** totality on every pair of dicts (no side condition) *)
  Theorem merge_total_l : forall u d, is_obj u = true -> is_obj d = true -> exists r, upd u d = Some r.
  Proof using Hord.
    induction u using json_ind'; intros d Ou Od; try discriminate.
    destruct d as [| | | | |ds]; try discriminate. rename l into us.
    apply (update_defined ord Hord). intros k Hk. unfold value.
    destruct (lookup k us) as [v|] eqn:E.
    - destruct (lookup k ds) as [dv|] eqn:E2; [|discriminate].
      destruct (is_obj v && is_obj dv) eqn:O; [|discriminate].
      apply andb_true_iff in O. destruct O as [O1 O2].
      apply lookup_In in E. rewrite Forall_forall in H. destruct (H _ E dv O1 O2) as [r Hr].
      cbn in Hr. unfold upd in Hr. rewrite Hr. discriminate.
    - destruct Hk as [Hk|Hk]; [apply lookup_Some_key in Hk; congruence | apply lookup_Some_key in Hk; exact Hk].
  Qed.

  (** ** self-merge and idempotence *)
  Lemma merge_self_l : forall d, is_obj d = true -> exists r, upd d d = Some r /\ jeq r d.
  Proof using Hord.
    induction d using json_ind'; intros Ho; try discriminate. rename l into ds.
    assert (V : forall k, orel jeq (value ord ds ds k) (lookup k ds)).
    { intros k. unfold value. destruct (lookup k ds) as [v|] eqn:E; [|constructor].
      destruct (is_obj v) eqn:O; cbn [andb]; [|apply orel_refl_jeq].
      apply lookup_In in E. rewrite Forall_forall in H. destruct (H _ E O) as [r [Hr Hj]].
      cbn in Hr. unfold upd in Hr. rewrite Hr. constructor. exact Hj. }
    destruct (update_defined ord Hord ds ds) as [r Hr].
    - intros k Hk Hn. specialize (V k). rewrite Hn in V. apply orel_None_inv in V.
      assert (Hin : In k (keys ds)) by tauto. apply lookup_Some_key in Hin. congruence.
    - exists r. split; [exact Hr|]. apply (update_lookup ord Hord) in Hr. destruct Hr as [rs [-> [L _]]].
      constructor. intros k. rewrite L. apply V.
  Qed.

  Theorem merge_idempotent_l : forall u d r, upd u d = Some r -> exists r', upd r d = Some r' /\ jeq r' r.
  Proof using Hord.
    induction u using json_ind'; intros d r Hu; try discriminate.
    destruct d as [| | | | |ds]; try discriminate. rename l into us.
    apply (update_lookup ord Hord) in Hu. destruct Hu as [rs [-> [L D]]].
    assert (V : forall k, orel jeq (value ord rs ds k) (lookup k rs)).
    { intros k. unfold value. rewrite L. unfold value.
      destruct (lookup k us) as [v|] eqn:E.
      - destruct (lookup k ds) as [dv|] eqn:E2; [|apply orel_refl_jeq].
        destruct (is_obj v && is_obj dv) eqn:O; [|rewrite O; apply orel_refl_jeq].
        apply andb_true_iff in O. destruct O as [O1 O2].
        destruct (update_config ord v dv) as [rv|] eqn:E3.
        2:{ exfalso. apply (D k); [left; apply lookup_Some_key; congruence|].
            unfold value. rewrite E, E2, O1, O2. exact E3. }
        destruct (update_obj ord Hord _ _ _ E3) as [_ [_ Orv]]. rewrite Orv, O2. cbn [andb].
        apply lookup_In in E. rewrite Forall_forall in H. destruct (H _ E dv rv E3) as [r' [Hr' Hj]].
        cbn in Hr'. unfold upd in Hr'. rewrite Hr'. constructor. exact Hj.
      - destruct (lookup k ds) as [dv|] eqn:E2; [|constructor].
        destruct (is_obj dv) eqn:O; cbn [andb]; [|apply orel_refl_jeq].
        destruct (merge_self_l dv O) as [r' [Hr' Hj]]. unfold upd in Hr'. rewrite Hr'. constructor. exact Hj. }
    destruct (update_defined ord Hord rs ds) as [r' Hr'].
    - intros k Hk Hn. specialize (V k). rewrite Hn in V. apply orel_None_inv in V.
      rewrite L in V. revert V. apply D.
      destruct Hk as [Hk|Hk]; [|right; exact Hk].
      apply lookup_Some_key in Hk. rewrite L in Hk.
      destruct (in_dec string_dec k (keys us)); [left; assumption|].
      destruct (in_dec string_dec k (keys ds)); [right; assumption|].
      exfalso. apply Hk. apply value_absent. tauto.
    - exists r'. split; [exact Hr'|]. apply (update_lookup ord Hord) in Hr'. destruct Hr' as [rs' [-> [L' _]]].
      constructor. intros k. rewrite L'. apply V.
  Qed.

  (** ** identities *)
  Theorem merge_empty_default_l : forall us, exists r, upd (JObj us) (JObj []) = Some r /\ jeq r (JObj us).
  Proof using Hord.
    intros us.
    assert (V : forall k, value ord us [] k = lookup k us).
    { intros k. unfold value. cbn. destruct (lookup k us); reflexivity. }
    destruct (update_defined ord Hord us []) as [r Hr].
    - intros k [Hk|[]]. rewrite V. apply lookup_Some_key. exact Hk.
    - exists r. split; [exact Hr|]. apply (update_lookup ord Hord) in Hr. destruct Hr as [rs [-> [L _]]].
      constructor. intros k. rewrite L, V. apply orel_refl_jeq.
  Qed.
  Theorem merge_empty_user_l : forall ds, exists r, upd (JObj []) (JObj ds) = Some r /\ jeq r (JObj ds).
  Proof using Hord.
    intros ds.
    assert (V : forall k, value ord [] ds k = lookup k ds) by reflexivity.
    destruct (update_defined ord Hord [] ds) as [r Hr].
    - intros k [[]|Hk]. rewrite V. apply lookup_Some_key. exact Hk.
    - exists r. split; [exact Hr|]. apply (update_lookup ord Hord) in Hr. destruct Hr as [rs [-> [L _]]].
      constructor. intros k. rewrite L, V. apply orel_refl_jeq.
  Qed.

  (** ** leaves and keys along paths *)
  Definition leaf_at (j : json) (p : list string) (v : json) : Prop :=
    get_path p j = Some v /\ is_obj v = false.
  (** the user says nothing about p: walking down p in the user's tree falls off at a dict that lacks the
      next key (it neither reaches p nor meets a non-dict value on the way) *)
  Fixpoint unspecified (u : json) (p : list string) : Prop :=
    match p, u with
    | k :: p', JObj us => match lookup k us with None => True | Some uv => unspecified uv p' end
    | _, _ => False
    end.

  Lemma get_path_nonobj p j : is_obj j = false -> p <> [] -> get_path p j = None.
  Proof. destruct p; [congruence|]. destruct j; cbn; try reflexivity. discriminate. Qed.
  Lemma leaf_at_nonobj j p v : is_obj j = false -> (leaf_at j p v <-> p = [] /\ v = j).
  Proof.
    intros O. unfold leaf_at. destruct p as [|k p].
    - cbn. split; [intros [H _]; inversion H; auto | intros [_ ->]; auto].
    - rewrite (get_path_nonobj (k :: p) j O); [|discriminate]. split; [intros [H _]; discriminate | intros [H _]; discriminate].
  Qed.
  Lemma unspecified_nonobj j p : is_obj j = false -> ~ unspecified j p.
  Proof. destruct p; destruct j; cbn; try tauto. discriminate. Qed.
  Lemma unspecified_nil j : ~ unspecified j [].
  Proof. cbn. tauto. Qed.

  (** the leaves of the result are exactly: the user's leaves (a user subtree given over a default leaf is
      kept whole), and the default leaves the user does not specify *)
  Theorem merge_leaves_l : forall p u d r v, upd u d = Some r ->
    (leaf_at r p v <-> leaf_at u p v \/ (leaf_at d p v /\ unspecified u p)).
  Proof using Hord.
    induction p as [|k p IH]; intros u d r v Hu.
    - destruct (update_obj ord Hord _ _ _ Hu) as [Ou [Od Or]]. unfold leaf_at. cbn.
      split; [intros [H1 H2]; inversion H1; congruence|].
      intros [[H1 H2]|[_ []]]. inversion H1; congruence.
    - destruct u as [| | | | |us]; try discriminate. destruct d as [| | | | |ds]; try discriminate.
      apply (update_lookup ord Hord) in Hu. destruct Hu as [rs [-> [L D]]].
      unfold leaf_at. cbn [get_path unspecified]. rewrite L. unfold value.
      destruct (lookup k us) as [uv|] eqn:E1.
      + destruct (lookup k ds) as [dv|] eqn:E2.
        * destruct (is_obj uv && is_obj dv) eqn:O.
          -- destruct (update_config ord uv dv) as [rv|] eqn:E3.
             ++ apply (IH uv dv rv v E3).
             ++ exfalso. apply (D k).
                ** left. apply lookup_Some_key. congruence.
                ** unfold value. rewrite E1, E2, O. exact E3.
          -- fold (leaf_at uv p v). fold (leaf_at dv p v).
             split; [intros H; left; exact H|]. intros [H|[Hd Hn]]; [exact H|]. exfalso.
             apply andb_false_iff in O. destruct O as [O|O].
             ++ exact (unspecified_nonobj uv p O Hn).
             ++ apply (leaf_at_nonobj dv p v O) in Hd. destruct Hd as [-> _]. exact (unspecified_nil uv Hn).
        * split; [intros H; left; exact H|]. intros [H|[[H _] _]]; [exact H | discriminate].
      + split.
        * intros H. right. split; [exact H | exact I].
        * intros [[H _]|[H _]]; [discriminate | exact H].
  Qed.

  (** keys of the result = union of the keys, at every path where both trees have a dict *)
  Theorem merge_keys_l : forall p u d r us' ds', upd u d = Some r ->
    get_path p u = Some (JObj us') -> get_path p d = Some (JObj ds') ->
    exists rs', get_path p r = Some (JObj rs') /\
                forall k, In k (keys rs') <-> In k (keys us') \/ In k (keys ds').
  Proof using Hord.
    induction p as [|k p IH]; intros u d r us' ds' Hu Gu Gd.
    - cbn in Gu, Gd. inversion Gu; inversion Gd; subst.
      apply (update_lookup ord Hord) in Hu. destruct Hu as [rs [-> [L D]]].
      exists rs. split; [reflexivity|]. intros k. rewrite lookup_Some_key, L. split.
      + intros Hv. destruct (in_dec string_dec k (keys us')); [left; assumption|].
        destruct (in_dec string_dec k (keys ds')); [right; assumption|].
        exfalso. apply Hv, value_absent. tauto.
      + apply D.
    - destruct u as [| | | | |us]; try discriminate. destruct d as [| | | | |ds]; try discriminate.
      apply (update_lookup ord Hord) in Hu. destruct Hu as [rs [-> [L D]]].
      cbn in Gu, Gd. cbn [get_path]. rewrite L. unfold value.
      destruct (lookup k us) as [uv|] eqn:E1; [|discriminate].
      destruct (lookup k ds) as [dv|] eqn:E2; [|discriminate].
      assert (O : is_obj uv = true).
      { destruct p; cbn in Gu; [inversion Gu; reflexivity|]. destruct uv; try discriminate; reflexivity. }
      assert (O' : is_obj dv = true).
      { destruct p; cbn in Gd; [inversion Gd; reflexivity|]. destruct dv; try discriminate; reflexivity. }
      rewrite O, O'. cbn [andb]. destruct (update_config ord uv dv) as [rv|] eqn:E3.
      + exact (IH uv dv rv us' ds' E3 Gu Gd).
      + exfalso. apply (D k); [left; apply lookup_Some_key; congruence|].
        unfold value. rewrite E1, E2, O, O'. exact E3.
  Qed.
  (** the result contains no key path that is in neither input *)
  Theorem merge_no_other_keys_l : forall p u d r x, upd u d = Some r -> get_path p r = Some x ->
    get_path p u <> None \/ get_path p d <> None.
  Proof using Hord.
    induction p as [|k p IH]; intros u d r x Hu Gr; [left; discriminate|].
    destruct u as [| | | | |us]; try discriminate. destruct d as [| | | | |ds]; try discriminate.
    apply (update_lookup ord Hord) in Hu. destruct Hu as [rs [-> [L D]]].
    cbn [get_path] in *. rewrite L in Gr. unfold value in Gr.
    destruct (lookup k us) as [uv|] eqn:E1.
    - destruct (lookup k ds) as [dv|] eqn:E2.
      + destruct (is_obj uv && is_obj dv) eqn:O.
        * destruct (update_config ord uv dv) as [rv|] eqn:E3; [|discriminate].
          exact (IH uv dv rv x E3 Gr).
        * left. congruence.
      + left. congruence.
    - right. destruct (lookup k ds); [congruence | discriminate].
  Qed.
End MergeTheorems.

(** * HISTORY: before the repair e564612 the merge was not total on nested dictionaries (defect D11);
    on the same witness the repaired function keeps the user's subtree *)
Definition d11_user : json := JObj [("a"%string, JObj [("b"%string, JNum (NInt 1))])].
Definition d11_default : json := JObj [("a"%string, JNum (NInt 2))].
Theorem merge_total_refuted_before_fix_l :
  exists u d, wf u = true /\ wf d = true /\ is_obj u = true /\ is_obj d = true /\
              update_config_before_fix dedup u d = None /\ update_config dedup u d = Some u.
Proof. exists d11_user, d11_default. vm_compute. repeat split. Qed.

(** non-vacuity / illustration: a nested example with shared and disjoint keys, a user leaf over a default
    dict and a user dict over a default leaf *)
Definition ex_user : json :=
  JObj [("q"%string, JObj [("s"%string, JObj [("NT"%string, JNum (NInt 31))]); ("x"%string, JNull)]);
        ("o"%string, JStr "leaf"); ("w"%string, JObj [("z"%string, JBool true)])].
Definition ex_default : json :=
  JObj [("q"%string, JObj [("i"%string, JStr "input01");
                          ("s"%string, JObj [("NT"%string, JNum (NInt 16)); ("DT"%string, JNum (NInt 100))])]);
        ("o"%string, JObj [("p"%string, JArr [JStr "cij"])]); ("w"%string, JNum (NInt 7))].
Example ex_merge : wf ex_user = true /\ wf ex_default = true /\
  update_config dedup ex_user ex_default =
  Some (JObj [("q"%string, JObj [("s"%string, JObj [("NT"%string, JNum (NInt 31)); ("DT"%string, JNum (NInt 100))]);
                                 ("x"%string, JNull); ("i"%string, JStr "input01")]);
              ("o"%string, JStr "leaf"); ("w"%string, JObj [("z"%string, JBool true)])]).
Proof. vm_compute. repeat split. Qed.
