(** C06 - theorems about the model in V2PModel.v at the real-number instance. *)
From Coq Require Import Reals ZArith List Bool Arith Lia Lra Sorted.
From Cij Require Import Ops ROps V2PModel.
Import ListNotations.
Local Open Scope R_scope.

Notation nthR := (@nthF R ROps).
Notation padR := (@pad R ROps).

Lemma nthR_nth (l : list R) i : nthR l i = nth i l 0.
Proof. reflexivity. Qed.

Lemma Rleb_false x y : Rleb x y = false <-> y < x.
Proof. unfold Rleb; destruct (Rle_dec x y); split; intros; try discriminate; try lra; auto. Qed.

(* ------------------------------------------------------------------------------------------ *)
(** * 1. Four-point Lagrange interpolation *)

Definition cubic (a b c d t : R) : R := a + b * t + c * t * t + d * t * t * t.

Definition distinct4 (x0 x1 x2 x3 : R) : Prop :=
  x0 <> x1 /\ x0 <> x2 /\ x0 <> x3 /\ x1 <> x2 /\ x1 <> x3 /\ x2 <> x3.

Lemma lagrange4_exact_cubic :
  forall x0 x1 x2 x3 : R, distinct4 x0 x1 x2 x3 ->
  forall a b c d x : R,
    @lagrange4 R ROps x x0 x1 x2 x3 (cubic a b c d x0) (cubic a b c d x1) (cubic a b c d x2) (cubic a b c d x3)
    = cubic a b c d x.
Proof.
  intros x0 x1 x2 x3 (H01 & H02 & H03 & H12 & H13 & H23) a b c d x.
  unfold lagrange4, cubic; rops.
  field. repeat split; lra.
Qed.

Lemma lagrange4_identity :
  forall x0 x1 x2 x3 : R, distinct4 x0 x1 x2 x3 ->
  forall x, @lagrange4 R ROps x x0 x1 x2 x3 x0 x1 x2 x3 = x.
Proof.
  intros x0 x1 x2 x3 (H01 & H02 & H03 & H12 & H13 & H23) x.
  unfold lagrange4; rops. field. repeat split; lra.
Qed.

Lemma lagrange4_at_node :
  forall x0 x1 x2 x3 : R, distinct4 x0 x1 x2 x3 ->
  forall y0 y1 y2 y3,
    @lagrange4 R ROps x0 x0 x1 x2 x3 y0 y1 y2 y3 = y0 /\
    @lagrange4 R ROps x1 x0 x1 x2 x3 y0 y1 y2 y3 = y1 /\
    @lagrange4 R ROps x2 x0 x1 x2 x3 y0 y1 y2 y3 = y2 /\
    @lagrange4 R ROps x3 x0 x1 x2 x3 y0 y1 y2 y3 = y3.
Proof.
  intros x0 x1 x2 x3 (H01 & H02 & H03 & H12 & H13 & H23) y0 y1 y2 y3.
  unfold lagrange4; rops. repeat split; field; repeat split; lra.
Qed.

(* ------------------------------------------------------------------------------------------ *)
(** * 2. The binary search *)

(** Loop invariant.  [lo0]/[up0] are the initial limits: the array is never read there (only
    midpoints are read), which is why the padded, non-monotone ends do no harm.  No monotonicity
    is needed for the bracket itself. *)
Lemma bsearch_invariant :
  forall (arr : list R) (x : R) (lo0 up0 : nat) (fuel lo up : nat),
    (lo < up)%nat -> (up - lo <= fuel)%nat ->
    (lo = lo0 \/ nthR arr lo <= x) ->
    (up = up0 \/ x < nthR arr up) ->
    let k := @bsearch R ROps fuel arr x lo up in
    (lo <= k < up)%nat /\ (k = lo0 \/ nthR arr k <= x) /\ (S k = up0 \/ x < nthR arr (S k)).
Proof.
  intros arr x lo0 up0 fuel. induction fuel as [|fuel IH]; intros lo up Hlt Hfuel Hlo Hup.
  - lia.
  - cbn [bsearch]. destruct (Nat.ltb_spec 1 (up - lo)) as [Hgap|Hgap].
    + assert (Hmid : (lo < (up + lo) / 2 < up)%nat).
      { split.
        - apply Nat.div_le_lower_bound with (b := 2%nat) (q := S lo); lia.
        - apply Nat.div_lt_upper_bound; lia. }
      rops. destruct (Rleb (nthR arr ((up + lo) / 2)) x) eqn:E.
      * apply Rleb_true in E.
        destruct (IH ((up + lo) / 2)%nat up) as (K1 & K2 & K3); try lia; auto.
        repeat split; try lia; auto.
      * apply Rleb_false in E.
        destruct (IH lo ((up + lo) / 2)%nat) as (K1 & K2 & K3); try lia; auto.
        repeat split; try lia; auto.
    + assert (up = S lo) by lia. subst up. repeat split; try lia; auto.
Qed.

(** fuel: [length arr] iterations always suffice for [find_nearest] *)
Lemma find_nearest_bracket :
  forall (arr : list R) (x : R), (2 <= length arr)%nat ->
    let k := @find_nearest R ROps arr x in
    (k < length arr - 1)%nat /\
    (k = 0%nat \/ nthR arr k <= x) /\
    (S k = (length arr - 1)%nat \/ x < nthR arr (S k)).
Proof.
  intros arr x Hn. unfold find_nearest.
  destruct (bsearch_invariant arr x 0%nat (length arr - 1)%nat (length arr) 0%nat (length arr - 1)%nat)
    as (K1 & K2 & K3); try lia; auto.
  repeat split; try lia; auto.
Qed.

(* ------------------------------------------------------------------------------------------ *)
(** * 3. Padding and the four-node window *)

Definition unpad (n e : nat) : nat :=
  if (e =? 0)%nat then 3%nat else if (e <=? n)%nat then (e - 1)%nat else (n - 4)%nat.

Lemma length_pad (row : list R) : length (padR row) = S (S (length row)).
Proof. unfold pad. cbn [length]. rewrite app_length. cbn [length]. lia. Qed.

Lemma nth_pad (row : list R) e :
  (e <= S (length row))%nat -> nthR (padR row) e = nthR row (unpad (length row) e).
Proof.
  intros He. unfold unpad, nthF, pad.
  destruct e as [|e]; [reflexivity|]. cbn [Nat.eqb nth].
  destruct (Nat.leb_spec (S e) (length row)).
  - rewrite app_nth1 by lia. f_equal; lia.
  - rewrite app_nth2 by lia. replace (e - length row)%nat with 0%nat by lia. reflexivity.
Qed.

Lemma skipn4 :
  forall k (ext : list R), (k + 3 < length ext)%nat ->
    exists tl, skipn k ext = nthR ext k :: nthR ext (k + 1) :: nthR ext (k + 2) :: nthR ext (k + 3) :: tl.
Proof.
  induction k as [|k IH]; intros ext H.
  - destruct ext as [|a [|b [|c [|d tl]]]]; cbn [length] in H; try lia.
    exists tl. reflexivity.
  - destruct ext as [|a ext]; cbn [length] in H; [lia|].
    destruct (IH ext) as [tl E]; [lia|]. exists tl. cbn [skipn]. rewrite E. reflexivity.
Qed.

Lemma window_nth :
  forall (ext : list R) k, (1 <= k)%nat -> (k + 2 < length ext)%nat ->
    @window R ext k = Some (nthR ext (k - 1), nthR ext k, nthR ext (k + 1), nthR ext (k + 2)).
Proof.
  intros ext k H1 H2. destruct k as [|k]; [lia|]. cbn [window].
  destruct (skipn4 k ext) as [tl E]; [lia|]. rewrite E.
  replace (S k - 1)%nat with k by lia.
  replace (k + 1)%nat with (S k) by lia. replace (S k + 1)%nat with (k + 2)%nat by lia.
  replace (S k + 2)%nat with (k + 3)%nat by lia. reflexivity.
Qed.

Lemma window_zero (ext : list R) : @window R ext 0 = None.
Proof. reflexivity. Qed.

Lemma window_short (ext : list R) k : (length ext <= k + 2)%nat -> @window R ext k = None.
Proof.
  intros H. destruct k as [|k]; [reflexivity|]. cbn [window].
  assert (L : (length (skipn k ext) <= 3)%nat) by (rewrite skipn_length; lia).
  destruct (skipn k ext) as [|a [|b [|c [|d tl]]]]; cbn [length] in L; try reflexivity; lia.
Qed.

(* ------------------------------------------------------------------------------------------ *)
(** * 4. Strictly increasing rows *)

Definition strictly_increasing (row : list R) : Prop :=
  forall i j, (i < j < length row)%nat -> nthR row i < nthR row j.

Lemma si_le (row : list R) : strictly_increasing row ->
  forall i j, (i <= j < length row)%nat -> nthR row i <= nthR row j.
Proof.
  intros Hs i j H. destruct (Nat.eq_dec i j) as [->|]; [lra|].
  left. apply Hs. lia.
Qed.

Lemma si_inj (row : list R) : strictly_increasing row ->
  forall i j, (i < length row)%nat -> (j < length row)%nat -> i <> j -> nthR row i <> nthR row j.
Proof.
  intros Hs i j Hi Hj Hne. destruct (Nat.lt_ge_cases i j).
  - assert (nthR row i < nthR row j) by (apply Hs; lia). lra.
  - assert (nthR row j < nthR row i) by (apply Hs; lia). lra.
Qed.

Lemma StronglySorted_strictly_increasing (row : list R) :
  StronglySorted Rlt row -> strictly_increasing row.
Proof.
  induction 1 as [|a l Hs IH Hall]; intros i j Hij; cbn [length] in Hij.
  - lia.
  - destruct j as [|j]; [lia|]. destruct i as [|i].
    + unfold nthF; cbn [nth]. rewrite Forall_forall in Hall. apply Hall. apply nth_In. lia.
    + unfold nthF; cbn [nth]. apply IH. lia.
Qed.

(** the four window nodes of a padded strictly increasing row are pairwise distinct *)
Lemma unpad_lt n e : (4 <= n)%nat -> (e <= S n)%nat -> (unpad n e < n)%nat.
Proof.
  intros. unfold unpad.
  destruct (Nat.eqb_spec e 0); [lia|]. destruct (Nat.leb_spec e n); lia.
Qed.

Lemma unpad_window_inj n e e' :
  (4 <= n)%nat -> (e < e')%nat -> (e' <= e + 3)%nat -> (e' <= S n)%nat -> unpad n e <> unpad n e'.
Proof.
  intros. unfold unpad.
  destruct (Nat.eqb_spec e 0); destruct (Nat.eqb_spec e' 0);
    destruct (Nat.leb_spec e n); destruct (Nat.leb_spec e' n); lia.
Qed.

Lemma unpad_nodes n k i :
  (4 <= n)%nat -> (1 <= k <= n - 1)%nat -> (i <= 3)%nat ->
  unpad n (k - 1 + i) =
  (if (k =? 1)%nat then Nat.modulo (i + 3) 4
   else if (k =? n - 1)%nat then (n - 4 + Nat.modulo (i + 1) 4)%nat
   else (k - 2 + i)%nat).
Proof.
  intros Hn Hk Hi. unfold unpad.
  assert (Ei : (i = 0 \/ i = 1 \/ i = 2 \/ i = 3)%nat) by lia.
  destruct (Nat.eqb_spec (k - 1 + i) 0); destruct (Nat.leb_spec (k - 1 + i) n);
    destruct (Nat.eqb_spec k 1); destruct (Nat.eqb_spec k (n - 1));
    destruct Ei as [ E | [ E | [ E | E ] ] ]; subst i; try lia; (cbn; lia).
Qed.

Lemma window_nodes_distinct (row : list R) k :
  strictly_increasing row -> (4 <= length row)%nat -> (1 <= k)%nat -> (k <= length row - 1)%nat ->
  distinct4 (nthR (padR row) (k - 1)) (nthR (padR row) k) (nthR (padR row) (k + 1)) (nthR (padR row) (k + 2)).
Proof.
  intros Hs Hn H1 H2.
  rewrite !nth_pad by lia.
  unfold distinct4; repeat split; apply si_inj; auto;
    try (apply unpad_lt; lia); apply unpad_window_inj; lia.
Qed.

(* ------------------------------------------------------------------------------------------ *)
(** * 5. bracket_correct *)

(** [in_range row x]: x inside [P_0, P_last) *)
Definition in_range (row : list R) (x : R) : Prop :=
  nthR row 0 <= x < nthR row (length row - 1).

(** The index k returned on the padded row (k counts padded positions; padded position e holds
    row[e-1]) brackets x:  row[k-1] <= x < row[k], 1 <= k <= n-1, and the slice taken by v2p is
    the four consecutive padded entries k-1 .. k+2.  Needs no monotonicity. *)
Lemma bracket_correct_any_row :
  forall (row : list R) (x : R), (4 <= length row)%nat -> in_range row x ->
    let k := @find_nearest R ROps (padR row) x in
    (1 <= k <= length row - 1)%nat /\
    nthR row (k - 1) <= x < nthR row k /\
    @window R (padR row) k =
      Some (nthR (padR row) (k - 1), nthR (padR row) k, nthR (padR row) (k + 1), nthR (padR row) (k + 2)).
Proof.
  intros row x Hn [Hlo Hhi] k.
  destruct (find_nearest_bracket (padR row) x) as (K1 & K2 & K3); [rewrite length_pad; lia|].
  fold k in K1, K2, K3. rewrite length_pad in K1, K3.
  assert (Hk1 : (1 <= k)%nat).
  { destruct (Nat.eq_dec k 0) as [E|]; [|lia]. exfalso.
    destruct K3 as [K3|K3]; [lia|]. rewrite E in K3. rewrite nth_pad in K3 by lia.
    unfold unpad in K3. cbn [Nat.eqb] in K3.
    destruct (Nat.leb_spec 1 (length row)); [|lia]. cbn in K3. lra. }
  assert (Hk2 : (k <= length row - 1)%nat).
  { destruct (Nat.eq_dec k (length row)) as [E|]; [|lia]. exfalso.
    destruct K2 as [K2|K2]; [lia|]. rewrite E in K2. rewrite nth_pad in K2 by lia.
    unfold unpad in K2. destruct (Nat.eqb_spec (length row) 0); [lia|].
    rewrite Nat.leb_refl in K2. lra. }
  split; [lia|]. split.
  - split.
    + destruct K2 as [K2|K2]; [lia|]. rewrite nth_pad in K2 by lia. unfold unpad in K2.
      destruct (Nat.eqb_spec k 0); [lia|]. destruct (Nat.leb_spec k (length row)); [|lia]. exact K2.
    + destruct K3 as [K3|K3]; [lia|]. rewrite nth_pad in K3 by lia. unfold unpad in K3.
      cbn [Nat.eqb] in K3. destruct (Nat.leb_spec (S k) (length row)); [|lia].
      replace (S k - 1)%nat with k in K3 by lia. exact K3.
  - apply window_nth; [lia|]. rewrite length_pad. lia.
Qed.

(** Full statement for strictly increasing rows: the bracket is THE cell containing x, and the four
    nodes are pairwise distinct entries of the row (rows k-2..k+1 in the interior; {0,1,2,3} in the
    first cell; {n-4..n-1} in the last cell, through the padding with columns 3 and -4). *)
Theorem bracket_correct :
  forall (row : list R) (x : R),
    strictly_increasing row -> (4 <= length row)%nat -> in_range row x ->
    let k := @find_nearest R ROps (padR row) x in
    (1 <= k <= length row - 1)%nat /\
    nthR row (k - 1) <= x < nthR row k /\
    (forall j, (S j < length row)%nat -> nthR row j <= x < nthR row (S j) -> j = (k - 1)%nat) /\
    @window R (padR row) k =
      Some (nthR (padR row) (k - 1), nthR (padR row) k, nthR (padR row) (k + 1), nthR (padR row) (k + 2)) /\
    distinct4 (nthR (padR row) (k - 1)) (nthR (padR row) k) (nthR (padR row) (k + 1)) (nthR (padR row) (k + 2)) /\
    (forall i, (i <= 3)%nat ->
       nthR (padR row) (k - 1 + i) =
       nthR row (if (k =? 1)%nat then Nat.modulo (i + 3) 4
                 else if (k =? length row - 1)%nat then (length row - 4 + Nat.modulo (i + 1) 4)%nat
                 else (k - 2 + i)%nat)).
Proof.
  intros row x Hs Hn Hr k.
  destruct (bracket_correct_any_row row x Hn Hr) as (K1 & K2 & K3). fold k in K1, K2, K3.
  split; [exact K1|]. split; [exact K2|]. split; [|split; [exact K3|split]].
  - intros j Hj [J1 J2].
    destruct (Nat.lt_trichotomy j (k - 1)) as [L|[E|L]]; [|exact E|]; exfalso.
    + assert (nthR row (S j) <= nthR row (k - 1)) by (apply si_le; auto; lia). lra.
    + assert (nthR row k <= nthR row j) by (apply si_le; auto; lia). lra.
  - apply window_nodes_distinct; auto; lia.
  - intros i Hi. rewrite nth_pad by lia. f_equal. apply unpad_nodes; lia.
Qed.

(* ------------------------------------------------------------------------------------------ *)
(** * 6. The conversion of one row *)

Definition row_ok (prow : list R) : Prop := strictly_increasing prow /\ (4 <= length prow)%nat.

(** data that are a cubic polynomial of the pressure along the isotherm are converted exactly *)
Theorem v2p_point_cubic :
  forall (frow prow : list R) (a b c d x : R),
    row_ok prow -> length frow = length prow -> in_range prow x ->
    (forall i, (i < length prow)%nat -> nthR frow i = cubic a b c d (nthR prow i)) ->
    @v2p_point R ROps (padR frow) (padR prow) x = Some (cubic a b c d x).
Proof.
  intros frow prow a b c d x [Hs Hn] Hlen Hr Hf.
  destruct (bracket_correct prow x Hs Hn Hr) as (K1 & K2 & _ & K3 & K4 & _).
  unfold v2p_point. set (k := @find_nearest R ROps (padR prow) x) in *.
  rewrite K3. rewrite window_nth by (try rewrite length_pad; lia).
  assert (E : forall e, (e <= S (length prow))%nat ->
                        nthR (padR frow) e = cubic a b c d (nthR (padR prow) e)).
  { intros e He. rewrite !nth_pad by lia. rewrite Hlen. apply Hf. apply unpad_lt; lia. }
  rewrite !E by lia. f_equal. apply lagrange4_exact_cubic. exact K4.
Qed.

(** converting the pressure field itself returns the requested pressure *)
Theorem v2p_point_of_pressure_field :
  forall (prow : list R) (x : R), row_ok prow -> in_range prow x ->
    @v2p_point R ROps (padR prow) (padR prow) x = Some x.
Proof.
  intros prow x Hok Hr.
  replace (Some x) with (Some (cubic 0 1 0 0 x)) by (unfold cubic; f_equal; ring).
  apply v2p_point_cubic; auto. intros i _. unfold cubic; ring.
Qed.

(** at a node the result is the tabulated value (whatever the data) *)
Theorem v2p_point_at_node :
  forall (frow prow : list R) (j : nat),
    row_ok prow -> length frow = length prow -> (S j < length prow)%nat ->
    @v2p_point R ROps (padR frow) (padR prow) (nthR prow j) = Some (nthR frow j).
Proof.
  intros frow prow j [Hs Hn] Hlen Hj.
  assert (Hr : in_range prow (nthR prow j)).
  { split; [apply si_le; auto; lia | apply Hs; lia]. }
  destruct (bracket_correct prow (nthR prow j) Hs Hn Hr) as (K1 & K2 & K2u & K3 & K4 & _).
  unfold v2p_point. set (k := @find_nearest R ROps (padR prow) (nthR prow j)) in *.
  assert (Ej : j = (k - 1)%nat).
  { apply K2u; [lia|]. split; [lra | apply Hs; lia]. }
  rewrite K3. rewrite window_nth by (try rewrite length_pad; lia).
  assert (Ex : nthR prow j = nthR (padR prow) k).
  { rewrite nth_pad by lia. unfold unpad. destruct (Nat.eqb_spec k 0); [lia|].
    destruct (Nat.leb_spec k (length prow)); [|lia]. rewrite Ej. reflexivity. }
  assert (Ey : nthR frow j = nthR (padR frow) k).
  { rewrite nth_pad by lia. unfold unpad. destruct (Nat.eqb_spec k 0); [lia|].
    rewrite Hlen. destruct (Nat.leb_spec k (length prow)); [|lia]. rewrite Ej. reflexivity. }
  rewrite Ex, Ey. f_equal.
  destruct (lagrange4_at_node _ _ _ _ K4 (nthR (padR frow) (k - 1)) (nthR (padR frow) k)
              (nthR (padR frow) (k + 1)) (nthR (padR frow) (k + 2))) as (_ & L1 & _ & _).
  exact L1.
Qed.

(** outside [P_0, P_last) the conversion is undefined (the Python code raises ValueError when it
    unpacks the short slice): nothing is ever extrapolated, on either side *)
Theorem v2p_point_outside :
  forall (frow prow : list R) (x : R), row_ok prow ->
    x < nthR prow 0 \/ nthR prow (length prow - 1) <= x ->
    @v2p_point R ROps (padR frow) (padR prow) x = None.
Proof.
  intros frow prow x [Hs Hn] Hx. unfold v2p_point.
  destruct (find_nearest_bracket (padR prow) x) as (K1 & K2 & K3); [rewrite length_pad; lia|].
  set (k := @find_nearest R ROps (padR prow) x) in *. rewrite length_pad in K1, K3.
  destruct Hx as [Hx|Hx].
  - assert (Hk : k = 0%nat).
    { destruct (Nat.eq_dec k 0) as [|N]; [assumption|exfalso].
      destruct K2 as [K2|K2]; [lia|].
      rewrite nth_pad in K2 by lia. unfold unpad in K2.
      destruct (Nat.eqb_spec k 0); [lia|]. destruct (Nat.leb_spec k (length prow)); [|lia].
      assert (nthR prow 0 <= nthR prow (k - 1)) by (apply si_le; auto; lia). lra. }
    rewrite Hk. reflexivity.
  - assert (Hk : k = length prow).
    { destruct (Nat.eq_dec k (length prow)) as [|N]; [assumption|exfalso].
      destruct K3 as [K3|K3]; [lia|].
      rewrite nth_pad in K3 by lia. unfold unpad in K3. cbn [Nat.eqb] in K3.
      destruct (Nat.leb_spec (S k) (length prow)); [|lia].
      assert (nthR prow (S k - 1) <= nthR prow (length prow - 1)) by (apply si_le; auto; lia). lra. }
    rewrite window_short; [reflexivity|]. rewrite length_pad. lia.
Qed.

(* ------------------------------------------------------------------------------------------ *)
(** * 7. Rows and matrices *)

Lemma mapM_Some {A B} (f : A -> option B) (g : A -> B) (l : list A) :
  (forall a, In a l -> f a = Some (g a)) -> mapM f l = Some (map g l).
Proof.
  induction l as [|a l IH]; intros H; cbn [mapM map]; [reflexivity|].
  rewrite (H a) by (left; reflexivity). rewrite IH by (intros; apply H; right; assumption). reflexivity.
Qed.

Lemma mapM_None {A B} (f : A -> option B) (l : list A) (a : A) :
  In a l -> f a = None -> mapM f l = None.
Proof.
  induction l as [|b l IH]; intros Hin Hf; [destruct Hin|]. cbn [mapM].
  destruct Hin as [->|Hin]; [rewrite Hf; reflexivity|].
  rewrite (IH Hin Hf). destruct (f b); reflexivity.
Qed.

Definition grid_in_range (prow pd : list R) : Prop := forall x, In x pd -> in_range prow x.

Lemma v2p_row_unfold (frow prow pd : list R) :
  (4 <= length prow)%nat -> length frow = length prow ->
  @v2p_row R ROps frow prow pd = mapM (@v2p_point R ROps (padR frow) (padR prow)) pd.
Proof.
  intros Hn Hl. unfold v2p_row.
  destruct (Nat.ltb_spec (length prow) 4); [lia|]. rewrite Hl, Nat.eqb_refl. reflexivity.
Qed.

Theorem v2p_row_cubic :
  forall (frow prow pd : list R) (a b c d : R),
    row_ok prow -> length frow = length prow -> grid_in_range prow pd ->
    (forall i, (i < length prow)%nat -> nthR frow i = cubic a b c d (nthR prow i)) ->
    @v2p_row R ROps frow prow pd = Some (map (cubic a b c d) pd).
Proof.
  intros frow prow pd a b c d Hok Hl Hr Hf.
  rewrite v2p_row_unfold by (try apply Hok; auto).
  apply mapM_Some. intros x Hx. apply v2p_point_cubic; auto.
Qed.

Theorem v2p_row_of_pressure_field :
  forall (prow pd : list R), row_ok prow -> grid_in_range prow pd ->
    @v2p_row R ROps prow prow pd = Some pd.
Proof.
  intros prow pd Hok Hr. rewrite v2p_row_unfold by (try apply Hok; auto).
  rewrite <- (map_id pd) at 2. apply mapM_Some. intros x Hx.
  apply v2p_point_of_pressure_field; auto.
Qed.

(** a requested pressure outside [P_0, P_last) of the row makes the whole conversion undefined *)
Theorem v2p_row_outside :
  forall (frow prow pd : list R) (x : R),
    row_ok prow -> length frow = length prow -> In x pd ->
    x < nthR prow 0 \/ nthR prow (length prow - 1) <= x ->
    @v2p_row R ROps frow prow pd = None.
Proof.
  intros frow prow pd x Hok Hl Hin Hx. rewrite v2p_row_unfold by (try apply Hok; auto).
  apply mapM_None with (a := x); auto. apply v2p_point_outside; auto.
Qed.

(** matrix level: converting the pressure field returns the requested grid at every temperature *)
Theorem v2p_of_pressure_field :
  forall (P : list (list R)) (pd : list R),
    Forall (fun prow => row_ok prow /\ grid_in_range prow pd) P ->
    @v2p R ROps P P pd = Some (map (fun _ => pd) P).
Proof.
  intros P pd H. induction H as [|prow P [Hok Hr] _ IH]; [reflexivity|].
  cbn [v2p map]. rewrite v2p_row_of_pressure_field by auto. rewrite IH. reflexivity.
Qed.

(** matrix level, cubic data: row t of the quantity is the cubic [coefs t] of the pressure along isotherm t *)
Definition cub (co : R * R * R * R) (t : R) : R :=
  let '(a, b, c, d) := co in cubic a b c d t.

Inductive cubic_isotherms (pd : list R) : list (list R) -> list (list R) -> list (R * R * R * R) -> Prop :=
| ci_nil : cubic_isotherms pd [] [] []
| ci_cons frow prow co f p coefs :
    row_ok prow -> length frow = length prow -> grid_in_range prow pd ->
    (forall i, (i < length prow)%nat -> nthR frow i = cub co (nthR prow i)) ->
    cubic_isotherms pd f p coefs ->
    cubic_isotherms pd (frow :: f) (prow :: p) (co :: coefs).

Theorem v2p_cubic_isotherms :
  forall pd f p coefs, cubic_isotherms pd f p coefs ->
    @v2p R ROps f p pd = Some (map (fun co => map (cub co) pd) coefs).
Proof.
  intros pd f p coefs H. induction H as [|frow prow [[[a b] c] d] f p coefs Hok Hl Hr Hf _ IH]; [reflexivity|].
  cbn [v2p map]. rewrite (v2p_row_cubic frow prow pd a b c d) by auto. rewrite IH. reflexivity.
Qed.

(* ------------------------------------------------------------------------------------------ *)
(** * 8. cij layer *)

(** every pressure-base quantity is v2p of the volume-base quantity of the same name with the QHA
    pressure field and the requested grid (definitional; the tie checks it against the code) *)
Theorem same_field_same_grid :
  forall (c : @qha_view R) (q : list (list R)),
    @pressure_base R ROps c q = @v2p R ROps q (vb_pressures c) (pb_p_array c) /\
    @pb_volumes R ROps c =
      @pressure_base R ROps c (repeat (vb_v_array c) (length (vb_pressures c))).
Proof. intros; split; reflexivity. Qed.

Theorem pressure_base_of_pressures :
  forall (c : @qha_view R),
    Forall (fun prow => row_ok prow /\ grid_in_range prow (pb_p_array c)) (vb_pressures c) ->
    @pressure_base R ROps c (vb_pressures c) = Some (map (fun _ => pb_p_array c) (vb_pressures c)).
Proof. intros c H. unfold pressure_base. apply v2p_of_pressure_field. exact H. Qed.

(* ------------------------------------------------------------------------------------------ *)
(** * 9. The range check *)

Definition last_of (row : list R) : R := nthR row (length row - 1).

Lemma fold_fmin2 :
  forall (t : list R) (a : R),
    let m := fold_left (@fmin2 R ROps) t a in
    m <= a /\ (forall x, In x t -> m <= x) /\ (m = a \/ In m t).
Proof.
  induction t as [|b t IH]; intros a; cbn [fold_left].
  - split; [lra|]. split; [intros x []|left; reflexivity].
  - destruct (IH (@fmin2 R ROps a b)) as (I1 & I2 & I3).
    assert (Hm : @fmin2 R ROps a b <= a /\ @fmin2 R ROps a b <= b /\
                 (@fmin2 R ROps a b = a \/ @fmin2 R ROps a b = b)).
    { unfold fmin2; rops. destruct (Rleb a b) eqn:E;
        [apply Rleb_true in E | apply Rleb_false in E]; repeat split; auto; lra. }
    destruct Hm as (M1 & M2 & M3).
    split; [lra|]. split.
    + intros x [->|Hx]; [lra | apply I2; exact Hx].
    + destruct I3 as [I3|I3]; [|right; right; exact I3].
      destruct M3 as [M3|M3]; [left; congruence | right; left; congruence].
Qed.

Lemma fold_fmax2 :
  forall (t : list R) (a : R),
    let m := fold_left (@fmax2 R ROps) t a in
    a <= m /\ (forall x, In x t -> x <= m) /\ (m = a \/ In m t).
Proof.
  induction t as [|b t IH]; intros a; cbn [fold_left].
  - split; [lra|]. split; [intros x []|left; reflexivity].
  - destruct (IH (@fmax2 R ROps a b)) as (I1 & I2 & I3).
    assert (Hm : a <= @fmax2 R ROps a b /\ b <= @fmax2 R ROps a b /\
                 (@fmax2 R ROps a b = a \/ @fmax2 R ROps a b = b)).
    { unfold fmax2; rops. destruct (Rleb a b) eqn:E;
        [apply Rleb_true in E | apply Rleb_false in E]; repeat split; auto; lra. }
    destruct Hm as (M1 & M2 & M3).
    split; [lra|]. split.
    + intros x [->|Hx]; [lra | apply I2; exact Hx].
    + destruct I3 as [I3|I3]; [|right; right; exact I3].
      destruct M3 as [M3|M3]; [left; congruence | right; left; congruence].
Qed.

Lemma min_list_spec (l : list R) (m : R) :
  @min_list R ROps l = Some m -> In m l /\ forall x, In x l -> m <= x.
Proof.
  destruct l as [|a t]; [discriminate|]. cbn [min_list]. intros E; injection E as <-.
  destruct (fold_fmin2 t a) as (I1 & I2 & I3). split.
  - destruct I3 as [->|I3]; [left; reflexivity | right; exact I3].
  - intros x [->|Hx]; [exact I1 | apply I2; exact Hx].
Qed.

Lemma max_list_spec (l : list R) (m : R) :
  @max_list R ROps l = Some m -> In m l /\ forall x, In x l -> x <= m.
Proof.
  destruct l as [|a t]; [discriminate|]. cbn [max_list]. intros E; injection E as <-.
  destruct (fold_fmax2 t a) as (I1 & I2 & I3). split.
  - destruct I3 as [->|I3]; [left; reflexivity | right; exact I3].
  - intros x [->|Hx]; [exact I1 | apply I2; exact Hx].
Qed.

Theorem range_check_sound :
  forall (P : list (list R)) (pd : list R),
    (@pressure_status R ROps P pd = Some true ->
       forall row p, In row P -> In p pd -> p <= last_of row) /\
    (@pressure_status R ROps P pd = Some false ->
       exists row p, In row P /\ In p pd /\ last_of row < p) /\
    (@pressure_status R ROps P pd = None <-> P = [] \/ pd = []).
Proof.
  intros P pd. unfold pressure_status.
  destruct (@min_list R ROps (@last_col R ROps P)) as [lo|] eqn:Emin;
    destruct (@max_list R ROps pd) as [hi|] eqn:Emax.
  - apply min_list_spec in Emin. apply max_list_spec in Emax.
    destruct Emin as [Min1 Min2], Emax as [Max1 Max2].
    unfold flt; rops. rewrite negb_involutive.
    split; [|split].
    + intros E. injection E as E. apply Rleb_true in E. intros row p Hrow Hp.
      assert (lo <= last_of row).
      { apply Min2. unfold last_col. apply in_map_iff. exists row. split; [reflexivity|exact Hrow]. }
      assert (p <= hi) by (apply Max2; exact Hp). lra.
    + intros E. injection E as E. apply Rleb_false in E.
      unfold last_col in Min1. apply in_map_iff in Min1. destruct Min1 as [row [Er Hrow]].
      exists row, hi. repeat split; auto. unfold last_of. rewrite Er. exact E.
    + split; [discriminate|]. intros [->| ->]; [destruct Min1 | destruct Max1].
  - split; [discriminate|]. split; [discriminate|]. split; [|reflexivity].
    intros _. right. destruct pd; [reflexivity|discriminate].
  - split; [discriminate|]. split; [discriminate|]. split; [|reflexivity].
    intros _. left. destruct P; [reflexivity|discriminate].
  - split; [discriminate|]. split; [discriminate|]. split; [|reflexivity].
    intros _. left. destruct P; [reflexivity|discriminate].
Qed.

(** the decision does not depend on the pressure unit (the code checks in GPa and converts in Ry/bohr^3) *)
Lemma fmin2_scale (s a b : R) : 0 < s -> @fmin2 R ROps (s * a) (s * b) = s * @fmin2 R ROps a b.
Proof.
  intros Hs. unfold fmin2; rops.
  destruct (Rleb a b) eqn:E; [apply Rleb_true in E | apply Rleb_false in E].
  - replace (Rleb (s * a) (s * b)) with true; [reflexivity|]. symmetry. apply Rleb_true. nra.
  - replace (Rleb (s * a) (s * b)) with false; [reflexivity|]. symmetry. apply Rleb_false. nra.
Qed.
Lemma fmax2_scale (s a b : R) : 0 < s -> @fmax2 R ROps (s * a) (s * b) = s * @fmax2 R ROps a b.
Proof.
  intros Hs. unfold fmax2; rops.
  destruct (Rleb a b) eqn:E; [apply Rleb_true in E | apply Rleb_false in E].
  - replace (Rleb (s * a) (s * b)) with true; [reflexivity|]. symmetry. apply Rleb_true. nra.
  - replace (Rleb (s * a) (s * b)) with false; [reflexivity|]. symmetry. apply Rleb_false. nra.
Qed.


Lemma fold_fmin2_scale (s : R) : 0 < s -> forall t a,
  fold_left (@fmin2 R ROps) (map (Rmult s) t) (s * a) = s * fold_left (@fmin2 R ROps) t a.
Proof.
  intros Hs. induction t as [|b t IH]; intros a; cbn [map fold_left]; [reflexivity|].
  rewrite fmin2_scale by exact Hs. apply IH.
Qed.
Lemma fold_fmax2_scale (s : R) : 0 < s -> forall t a,
  fold_left (@fmax2 R ROps) (map (Rmult s) t) (s * a) = s * fold_left (@fmax2 R ROps) t a.
Proof.
  intros Hs. induction t as [|b t IH]; intros a; cbn [map fold_left]; [reflexivity|].
  rewrite fmax2_scale by exact Hs. apply IH.
Qed.

Theorem pressure_status_unit_invariant :
  forall (s : R) (P : list (list R)) (pd : list R), 0 < s ->
    @pressure_status R ROps (map (map (Rmult s)) P) (map (Rmult s) pd) = @pressure_status R ROps P pd.
Proof.
  intros s P pd Hs. unfold pressure_status.
  assert (EL : @last_col R ROps (map (map (Rmult s)) P) = map (Rmult s) (@last_col R ROps P)).
  { unfold last_col. rewrite !map_map. apply map_ext. intros row. rewrite map_length.
    unfold nthF; rops. replace 0 with (s * 0) at 1 by ring. apply map_nth. }
  rewrite EL.
  destruct (@last_col R ROps P) as [|a t]; [reflexivity|].
  destruct pd as [|b u]; [reflexivity|].
  cbn [map min_list max_list]. rewrite fold_fmin2_scale, fold_fmax2_scale by exact Hs.
  f_equal. f_equal. unfold flt; rops. f_equal.
  set (lo := fold_left (@fmin2 R ROps) t a). set (hi := fold_left (@fmax2 R ROps) u b).
  destruct (Rleb hi lo) eqn:E; [apply Rleb_true in E | apply Rleb_false in E].
  - apply Rleb_true. nra.
  - apply Rleb_false. nra.
Qed.

(** end to end for the pressure field: an accepted grid that also respects the lower end and does not
    hit a last-column value exactly is converted, and the result is the requested grid.  The two extra
    hypotheses are exactly what the code's check does not establish (see V2P: no lower-range check;
    [<] rather than [<=]). *)
Theorem checked_pressure_base_of_pressures :
  forall (c : @qha_view R),
    let P := vb_pressures c in let pd := pb_p_array c in
    @pressure_status R ROps P pd = Some true ->
    Forall row_ok P ->
    (forall row p, In row P -> In p pd -> nthR row 0 <= p /\ p <> last_of row) ->
    @checked_pressure_base R ROps c P pd P = Some (map (fun _ => pd) P).
Proof.
  intros c P pd Hacc Hok Hlow. unfold checked_pressure_base. rewrite Hacc.
  apply pressure_base_of_pressures. fold P pd.
  destruct (range_check_sound P pd) as (Hs & _ & _). specialize (Hs Hacc).
  rewrite Forall_forall in *. intros row Hrow. split; [apply Hok; exact Hrow|].
  intros p Hp. destruct (Hlow row p Hrow Hp) as [L1 L2]. specialize (Hs row p Hrow Hp).
  unfold in_range. fold (last_of row). split; [exact L1|]. destruct Hs as [Hs|Hs]; [exact Hs|contradiction].
Qed.

(** a grid that reaches a last-column value exactly is ACCEPTED by the check and then undefined in the
    conversion (Python: ValueError from the unpacking, at first use rather than at construction) *)
Theorem accepted_boundary_grid_is_undefined :
  exists (P : list (list R)) (pd : list R),
    @pressure_status R ROps P pd = Some true /\ Forall row_ok P /\
    @v2p R ROps P P pd = None.
Proof.
  exists [[0; 1; 2; 3; 4]], [4]. split; [|split].
  - unfold pressure_status, min_list, max_list, last_col, flt; cbn; rops.
    rewrite negb_involutive. f_equal. apply Rleb_true. lra.
  - constructor; [|constructor]. split; [|cbn; lia].
    apply StronglySorted_strictly_increasing. repeat constructor; lra.
  - cbn [v2p]. rewrite (v2p_row_outside [0; 1; 2; 3; 4] [0; 1; 2; 3; 4] [4] 4); auto.
    + split; [|cbn; lia]. apply StronglySorted_strictly_increasing. repeat constructor; lra.
    + left; reflexivity.
    + right. cbn. lra.
Qed.

(* ------------------------------------------------------------------------------------------ *)
(** * 10. Non-vacuity *)

Definition ex_row : list R := [0; 1; 2; 3; 4; 5].

Example ex_row_ok : row_ok ex_row.
Proof.
  split; [|cbn; lia]. apply StronglySorted_strictly_increasing. unfold ex_row. repeat constructor; lra.
Qed.

Example ex_in_range : in_range ex_row (5 / 2).
Proof. unfold in_range, ex_row; cbn. lra. Qed.

Example ex_distinct : distinct4 3 0 1 2.
Proof. unfold distinct4; repeat split; lra. Qed.

(** squares tabulated on the row, requested at 5/2 and in the first and last cell: exact *)
Example ex_cubic_row :
  @v2p_row R ROps (map (fun t => t * t) ex_row) ex_row [1 / 2; 5 / 2; 9 / 2] = Some [1 / 4; 25 / 4; 81 / 4].
Proof.
  rewrite (v2p_row_cubic _ ex_row _ 0 0 1 0).
  - cbn [map]. repeat f_equal; unfold cubic; field.
  - exact ex_row_ok.
  - reflexivity.
  - intros x [<-|[<-|[<-|[]]]]; unfold in_range, ex_row; cbn; lra.
  - intros i Hi. unfold ex_row in *. cbn [length] in Hi.
    do 6 (destruct i as [|i]; [unfold nthF, cubic; cbn; lra|]). lia.
Qed.

Ltac rleb_decide :=
  repeat (match goal with |- context [Rleb ?a ?b] =>
            first [ replace (Rleb a b) with true by (symmetry; apply Rleb_true; lra)
                  | replace (Rleb a b) with false by (symmetry; apply Rleb_false; lra) ] end; cbv iota).

Example ex_range_accept : @pressure_status R ROps [[0; 1; 2; 3; 4; 5]; [0; 1; 2; 3; 4; 6]] [0; 5] = Some true.
Proof.
  unfold pressure_status, min_list, max_list, last_col, flt, fmin2, fmax2; cbn; rops.
  rleb_decide. reflexivity.
Qed.

Example ex_range_reject : @pressure_status R ROps [[0; 1; 2; 3; 4; 5]; [0; 1; 2; 3; 4; 6]] [0; 11 / 2] = Some false.
Proof.
  unfold pressure_status, min_list, max_list, last_col, flt, fmin2, fmax2; cbn; rops.
  rleb_decide. reflexivity.
Qed.
