(** C06 - theorems about the model in V2PModel.v at the real-number instance. *)
From Coq Require Import Reals ZArith List Bool Arith Lia Lra.
From Cij Require Import Ops ROps V2PModel.
Import ListNotations.
Local Open Scope R_scope.

Definition cubic (a b c d t : R) : R := a + b * t + c * t * t + d * t * t * t.

Lemma lagrange4_exact_cubic :
  forall x0 x1 x2 x3 : R,
    x0 <> x1 -> x0 <> x2 -> x0 <> x3 -> x1 <> x2 -> x1 <> x3 -> x2 <> x3 ->
  forall a b c d x : R,
    @lagrange4 R ROps x x0 x1 x2 x3 (cubic a b c d x0) (cubic a b c d x1) (cubic a b c d x2) (cubic a b c d x3)
    = cubic a b c d x.
Proof.
  intros x0 x1 x2 x3 H01 H02 H03 H12 H13 H23 a b c d x.
  unfold lagrange4, cubic; rops.
  field. repeat split; lra.
Qed.
