(** C20 - lemmas about the displacement -> eigenvector conversion (Disp2EigModel.v) over R,
    real data: unit norm of every non-zero row, restoration of an orthonormal basis from
    a_i = s_i * M^(-1/2) u_i, rejection of dimension mismatches (both tools). *)
From Coq Require Import List Arith Bool Lia Reals Lra.
From Cij Require Import Ops ROps Disp2EigModel EvecSortModel.
Import ListNotations.
Local Open Scope R_scope.

Notation Rdot := (@dot R ROps).

Lemma nth_map_nil {A B} (f : A -> list B) (d : A) (l : list A) (i : nat) :
  f d = [] -> nth i (map f l) [] = f (nth i l d).
Proof. intros H. rewrite <- H. apply map_nth. Qed.

(* ---------------- dot product facts ---------------- *)
Lemma dot_map_scale_both : forall (c1 c2 : R) (u v : list R),
  Rdot (map (fun x => c1 * x) u) (map (fun x => c2 * x) v) = c1 * c2 * Rdot u v.
Proof.
  intros c1 c2 u. induction u as [|x u IH]; intros [|y v]; cbn [map dot]; rops; try ring.
  rewrite IH. ring.
Qed.

Lemma dot_self_nonneg : forall u : list R, 0 <= Rdot u u.
Proof. induction u as [|x u IH]; cbn [dot]; rops; [lra|]. nra. Qed.

Lemma dot_self_pos : forall u : list R, (exists x, In x u /\ x <> 0) -> 0 < Rdot u u.
Proof.
  induction u as [|y u IH]; intros [x [Hin Hx]]; [destruct Hin|].
  cbn [dot]; rops. pose proof (dot_self_nonneg u) as P.
  destruct Hin as [->|Hin].
  - assert (0 < x * x) by nra. lra.
  - assert (0 < Rdot u u) by (apply IH; exists x; auto). nra.
Qed.

(* ---------------- one row ---------------- *)
Lemma normalize_unit : forall row : list R, 0 < Rdot row row ->
  Rdot (@normalize_row R ROps row) (@normalize_row R ROps row) = 1.
Proof.
  intros row Hpos. unfold normalize_row, norm2. rops.
  set (c := sqrt (Rdot row row)).
  assert (Hc : 0 < c) by (apply sqrt_lt_R0; auto).
  assert (Hcc : c * c = Rdot row row) by (apply sqrt_sqrt; lra).
  replace (map (fun x => x / c) row) with (map (fun x => / c * x) row)
    by (apply map_ext; intros; unfold Rdiv; ring).
  rewrite dot_map_scale_both. rewrite <- Hcc. field. lra.
Qed.

Lemma weight_row_nonzero : forall (row sq : list R),
  length row = length sq -> Forall (fun s => 0 < s) sq ->
  (exists x, In x row /\ x <> 0) -> exists y, In y (@weight_row R ROps row sq) /\ y <> 0.
Proof.
  induction row as [|x row IH]; intros [|s sq] Hl Hs [x0 [Hin Hx0]]; try discriminate; [destruct Hin|].
  inversion Hs; subst. cbn [weight_row zipw]. destruct Hin as [->|Hin].
  - exists (x0 * s). split; [left; rops; reflexivity|]. nra.
  - destruct (IH sq) as [y [Hy Hy0]]; auto. exists x0; auto.
    exists y. split; [right; exact Hy|exact Hy0].
Qed.

Lemma repeat3_length : forall mass : list R, length (@repeat3 R mass) = (3 * length mass)%nat.
Proof. induction mass; cbn [repeat3 length]; lia. Qed.
Lemma repeat3_pos : forall mass : list R, Forall (fun m => 0 < m) mass -> Forall (fun m => 0 < m) (repeat3 mass).
Proof. induction 1; cbn [repeat3]; repeat constructor; auto. Qed.
Lemma sqrt_all_pos : forall l : list R, Forall (fun m => 0 < m) l -> Forall (fun s => 0 < s) (map sqrt l).
Proof. induction 1; cbn; constructor; auto. apply sqrt_lt_R0; auto. Qed.

Lemma shape_ok_spec {B} : forall (a : list (list B)) k,
  shape_ok a k = true <-> forall row, In row a -> length row = (3 * k)%nat.
Proof.
  intros a k. unfold shape_ok. rewrite forallb_forall. split; intros H row Hin.
  - apply Nat.eqb_eq, H, Hin.
  - apply Nat.eqb_eq, H, Hin.
Qed.

(** every row of the result that comes from a non-zero row has norm 1 *)
Lemma disp2eig_unit_norm_l : forall (a : list (list R)) (mass : list R) (out : list (list R)),
  Forall (fun m => 0 < m) mass ->
  @disp2eig R ROps a mass = Some out ->
  length out = length a /\
  forall i, (i < length a)%nat -> (exists x, In x (nth i a []) /\ x <> 0) ->
    Rdot (nth i out []) (nth i out []) = 1.
Proof.
  intros a mass out Hm H. unfold disp2eig in H.
  destruct (shape_ok a (length mass)) eqn:Hs; [|discriminate]. inversion H; subst out; clear H.
  rewrite map_length. split; [reflexivity|]. intros i Hi Hnz.
  rewrite (nth_map_nil _ []) by reflexivity. unfold disp2eig_row.
  apply normalize_unit. apply dot_self_pos. apply weight_row_nonzero; auto.
  - rewrite map_length, repeat3_length. apply (proj1 (shape_ok_spec a (length mass)) Hs). apply nth_In; auto.
  - rops. apply sqrt_all_pos, repeat3_pos; auto.
Qed.

(* ---------------- restoring a basis ---------------- *)
Lemma weight_row_undo : forall (s : R) (u m3 : list R),
  length u = length m3 -> Forall (fun m => 0 < m) m3 ->
  @weight_row R ROps (zipw (fun x m => s * x / sqrt m) u m3) (map sqrt m3) = map (fun x => s * x) u.
Proof.
  intros s u. induction u as [|x u IH]; intros [|m m3] Hl Hm; try discriminate; [reflexivity|].
  inversion Hm; subst. cbn [zipw map weight_row]. unfold weight_row in IH. rewrite IH by (cbn in Hl; auto; lia).
  f_equal. rops. assert (0 < sqrt m) by (apply sqrt_lt_R0; auto). field. lra.
Qed.

Definition sgn (s : R) : R := s / Rabs s.
Lemma sgn_sq : forall s, s <> 0 -> sgn s * sgn s = 1.
Proof.
  intros s Hs. unfold sgn. assert (Rabs s <> 0) by (apply Rabs_no_R0; auto).
  replace (s / Rabs s * (s / Rabs s)) with ((s * s) / (Rabs s * Rabs s)) by (field; auto).
  replace (Rabs s * Rabs s) with (s * s).
  - field. nra.
  - rewrite <- Rabs_mult. rewrite Rabs_pos_eq; nra.
Qed.

Lemma row_restore : forall (s : R) (u m3 : list R),
  length u = length m3 -> Forall (fun m => 0 < m) m3 -> s <> 0 -> Rdot u u = 1 ->
  @disp2eig_row R ROps (map sqrt m3) (zipw (fun x m => s * x / sqrt m) u m3) = map (fun x => sgn s * x) u.
Proof.
  intros s u m3 Hl Hm Hs Hu. unfold disp2eig_row. rewrite weight_row_undo by auto.
  unfold normalize_row, norm2. rewrite dot_map_scale_both, Hu. rops.
  replace (s * s * 1) with (Rsqr s) by (unfold Rsqr; ring). rewrite sqrt_Rsqr_abs.
  rewrite map_map. apply map_ext. intros x. unfold sgn. field. apply Rabs_no_R0; auto.
Qed.

(** rows given as pairs (s_i, u_i):  a_i = s_i * M^(-1/2) u_i  *)
Definition displ (mass : list R) (su : list (R * list R)) : list (list R) :=
  map (fun p => zipw (fun x m => fst p * x / sqrt m) (snd p) (repeat3 mass)) su.
Definition restored (su : list (R * list R)) : list (list R) :=
  map (fun p => map (fun x => sgn (fst p) * x) (snd p)) su.
Definition good_row (mass : list R) (p : R * list R) : Prop :=
  fst p <> 0 /\ length (snd p) = (3 * length mass)%nat /\ Rdot (snd p) (snd p) = 1.

Lemma zipw_length_min {A B C} (f : A -> B -> C) : forall a b, length a = length b -> length (zipw f a b) = length a.
Proof. induction a as [|x a IH]; intros [|y b] H; cbn in *; try discriminate; auto. Qed.

Lemma disp2eig_restores_l : forall (mass : list R) (su : list (R * list R)),
  Forall (fun m => 0 < m) mass -> Forall (good_row mass) su ->
  @disp2eig R ROps (displ mass su) mass = Some (restored su).
Proof.
  intros mass su Hm Hg. unfold disp2eig.
  assert (Hs : shape_ok (displ mass su) (length mass) = true).
  { apply shape_ok_spec. intros row Hin. unfold displ in Hin. apply in_map_iff in Hin.
    destruct Hin as [p [<- Hp]]. rewrite Forall_forall in Hg. destruct (Hg p Hp) as [_ [Hl _]].
    rewrite zipw_length_min; auto. rewrite repeat3_length; auto. }
  rewrite Hs. f_equal. unfold displ, restored. rewrite map_map. apply map_ext_in.
  intros p Hp. rewrite Forall_forall in Hg. destruct (Hg p Hp) as [H0 [Hl Hu]]. rops.
  apply row_restore; auto.
  - rewrite repeat3_length; auto.
  - apply repeat3_pos; auto.
Qed.

(** ... and the restored rows are orthonormal whenever the u_i are *)
Lemma restored_orthonormal_l : forall (su : list (R * list R)),
  Forall (fun p => fst p <> 0) su ->
  (forall i j, (i < length su)%nat -> (j < length su)%nat ->
     Rdot (snd (nth i su (0, []))) (snd (nth j su (0, []))) = if (i =? j)%nat then 1 else 0) ->
  forall i j, (i < length su)%nat -> (j < length su)%nat ->
     Rdot (nth i (restored su) []) (nth j (restored su) []) = if (i =? j)%nat then 1 else 0.
Proof.
  intros su H0 Hu i j Hi Hj. unfold restored.
  rewrite !(nth_map_nil _ (0, [])) by reflexivity.
  rewrite dot_map_scale_both, Hu by auto.
  destruct (Nat.eqb_spec i j) as [->|NE]; [|ring].
  rewrite sgn_sq; [ring|]. rewrite Forall_forall in H0. apply H0. apply nth_In; auto.
Qed.

(* ---------------- dimension mismatches ---------------- *)
Lemma disp2eig_mismatch_rejected_l : forall (a : list (list R)) (mass : list R),
  (exists row, In row a /\ length row <> (3 * length mass)%nat) -> @disp2eig R ROps a mass = None.
Proof.
  intros a mass [row [Hin Hne]]. unfold disp2eig.
  destruct (shape_ok a (length mass)) eqn:E; [|reflexivity].
  exfalso. apply Hne. apply (proj1 (shape_ok_spec a (length mass)) E). exact Hin.
Qed.

Lemma disp2eig_c_mismatch_rejected_l : forall (a : list (list (R * R))) (mass : list R),
  (exists row, In row a /\ length row <> (3 * length mass)%nat) -> @disp2eig_c R ROps a mass = None.
Proof.
  intros a mass [row [Hin Hne]]. unfold disp2eig_c.
  destruct (shape_ok _ _) eqn:E; [|reflexivity].
  exfalso. apply Hne. unfold shape_ok in E. rewrite forallb_forall in E.
  apply Nat.eqb_eq. apply E. exact Hin.
Qed.

Lemma evec_sort_mismatch_rejected_l : forall (A : Type) (items : list A) (target base : list (list (R * R))),
  (length target <> length items \/ length base <> length items \/
   exists v, In v (target ++ base) /\ length v <> length items) ->
  @evec_sort R ROps A items target base = None.
Proof.
  intros A items target base H. unfold evec_sort.
  destruct (dims_ok _ _ _ _) eqn:E; [|reflexivity]. exfalso.
  unfold dims_ok in E. rewrite forallb_forall in E.
  destruct H as [H|[H|[v [Hin H]]]].
  - apply H. symmetry. apply Nat.eqb_eq. apply E. cbn; auto.
  - apply H. symmetry. apply Nat.eqb_eq. apply E. cbn; auto.
  - apply H. symmetry. apply Nat.eqb_eq. apply E. cbn. right; right. apply in_map; auto.
Qed.

Lemma evec_sort_accepts_square_l : forall (A : Type) (items : list A) (target base : list (list (R * R))),
  length target = length items -> length base = length items ->
  (forall v, In v (target ++ base) -> length v = length items) ->
  @evec_sort R ROps A items target base = Some (evec_sort_mat items (overlap base target)).
Proof.
  intros A items target base Ht Hb Hv. unfold evec_sort.
  match goal with |- (if ?c then _ else _) = _ => assert (E : c = true) end.
  { unfold dims_ok. apply forallb_forall. intros x [<-|[<-|Hin]]; try (apply Nat.eqb_eq; auto).
    apply in_map_iff in Hin. destruct Hin as [v [<- Hin]]. symmetry; auto. }
  rewrite E. reflexivity.
Qed.

(** non-vacuity: two atoms' worth of one row *)
Example good_row_ex : good_row [4; 9] (-2, [1; 0; 0; 0; 0; 0]).
Proof. unfold good_row; cbn [fst snd length dot]; rops. repeat split; try lra; try reflexivity. Qed.
