(** Number-domain interface: every numeric model function is written once over
    [Ops F] and used at [F := R] (theorems) and [F := float] (execution in the
    correspondence check).  No proofs here. *)
From Coq Require Import ZArith List.
Import ListNotations.

Class Ops (F : Type) := {
  zero : F; one : F;
  add : F -> F -> F; sub : F -> F -> F; mul : F -> F -> F; div : F -> F -> F;
  opp : F -> F;
  ofZ : Z -> F;
  fexp : F -> F; fln : F -> F; fsqrt : F -> F;
  is0 : F -> bool;          (* the code's [x == 0] *)
  fleb : F -> F -> bool;    (* the code's [x <= y] *)
}.

Declare Scope ops_scope.
Delimit Scope ops_scope with ops.
Notation "a + b" := (add a b) : ops_scope.
Notation "a - b" := (sub a b) : ops_scope.
Notation "a * b" := (mul a b) : ops_scope.
Notation "a / b" := (div a b) : ops_scope.
Notation "- a" := (opp a) : ops_scope.

Section Generic.
  Context {F : Type} {OF : Ops F}.
  Local Open Scope ops_scope.

  Definition two : F := ofZ 2.
  Definition three : F := ofZ 3.
  (* rational constant n/d *)
  Definition ofQ' (n d : Z) : F := ofZ n / ofZ d.

  Fixpoint sum (l : list F) : F :=
    match l with [] => zero | x :: t => x + sum t end.

  Fixpoint dot (a b : list F) : F :=
    match a, b with
    | x :: a', y :: b' => x * y + dot a' b'
    | _, _ => zero
    end.

  Definition scale (c : F) (l : list F) : list F := map (fun x => c * x) l.

  Fixpoint zipw {A B C} (f : A -> B -> C) (a : list A) (b : list B) : list C :=
    match a, b with
    | x :: a', y :: b' => f x y :: zipw f a' b'
    | _, _ => []
    end.

  Definition fabs (x : F) : F := if fleb zero x then x else - x.

  Fixpoint powN (x : F) (n : nat) : F :=
    match n with O => one | S k => x * powN x k end.
End Generic.
