(** C20 - model of cij/misc/evec_sort.py (no proofs here).

    Python                                                   model
    ------------------------------------------------------   ---------------------------------
    ndim = len(target_arr); sorted_arr = [None]*ndim         [repeat None n]
    s = set([len(t), len(b), *[len(i) for i in (t + b)]])
    if len(s) != 1 or ndim not in s: raise RuntimeError      [dims_ok] (all lengths equal ndim)
    m = conj(array(base)) @ array(target).T                  [overlap]: m[i][j] = sum_k conj(b_ik) t_jk
    for i in range(ndim):                                    [Nat.iter n step]
      idx = unravel_index(argmax(abs(m)), m.shape)           [argmax (concat a)], [k / n], [k mod n]
      m[idx[0], :] = 0 ; m[:, idx[1]] = 0                    [zero_row], [zero_col]
      sorted_arr[idx[0]] = target_arr[idx[1]]                [set_nth i (nth_error items j)]

    The greedy part works on a = |m| directly: |0| = 0 and untouched entries keep their
    modulus, so zeroing m and taking abs afterwards equals zeroing abs(m).
    [filter] and [threshold] (both default None) are not modelled. *)
From Coq Require Import List Arith Bool.
From Cij Require Import Ops.
Import ListNotations.

Section Greedy.
  Context {T A : Type} (z : T) (gtb : T -> T -> bool).   (* [gtb x best]: x > best *)

  (** numpy.argmax on the flattened array: index of the FIRST maximal element
      (an element replaces the running best only when strictly greater) *)
  Fixpoint argmax_from (l : list T) (k bk : nat) (bv : T) : nat :=
    match l with
    | [] => bk
    | x :: r => if gtb x bv then argmax_from r (S k) k x else argmax_from r (S k) bk bv
    end.
  Definition argmax (l : list T) : nat :=
    match l with [] => 0 | x :: r => argmax_from r 1 0 x end.

  Fixpoint set_nth {B} (i : nat) (v : B) (l : list B) : list B :=
    match l, i with
    | [], _ => []
    | _ :: r, O => v :: r
    | x :: r, S i' => x :: set_nth i' v r
    end.

  Fixpoint zero_row (i : nat) (m : list (list T)) : list (list T) :=
    match m, i with
    | [], _ => []
    | row :: r, O => map (fun _ => z) row :: r
    | row :: r, S i' => row :: zero_row i' r
    end.
  Definition zero_col (j : nat) (m : list (list T)) : list (list T) := map (set_nth j z) m.

  Definition step (ncol : nat) (items : list A) (st : list (list T) * list (option A))
    : list (list T) * list (option A) :=
    let '(m, sorted) := st in
    let k := argmax (concat m) in
    let i := k / ncol in
    let j := k mod ncol in
    (zero_col j (zero_row i m), set_nth i (nth_error items j) sorted).

  Definition greedy (items : list A) (m : list (list T)) : list (option A) :=
    let n := length items in
    snd (Nat.iter n (step n items) (m, repeat None n)).
End Greedy.

(** [len(s) == 1 and ndim in s]  <->  every collected length equals ndim *)
Definition dims_ok (ndim ntarget nbase : nat) (rowlens : list nat) : bool :=
  forallb (Nat.eqb ndim) (ntarget :: nbase :: rowlens).

Section Full.
  Context {F : Type} {OF : Ops F} {A : Type}.
  Local Open Scope ops_scope.

  Definition cplx : Type := (F * F)%type.
  (** conj(b) * t *)
  Definition cmul_conj (b t : cplx) : cplx :=
    (fst b * fst t + snd b * snd t, fst b * snd t - snd b * fst t).
  Fixpoint cdot_conj (b t : list cplx) : cplx :=
    match b, t with
    | x :: b', y :: t' =>
        let p := cmul_conj x y in let r := cdot_conj b' t' in (fst p + fst r, snd p + snd r)
    | _, _ => (zero, zero)
    end.
  Definition cabs (c : cplx) : F := fsqrt (fst c * fst c + snd c * snd c).

  (** a[i][j] = | sum_k conj(base[i][k]) * target[j][k] | *)
  Definition overlap (base target : list (list cplx)) : list (list F) :=
    map (fun b => map (fun t => cabs (cdot_conj b t)) target) base.

  Definition gtb_ops (x best : F) : bool := negb (fleb x best).

  (** greedy assignment on a given matrix of moduli *)
  Definition evec_sort_mat (items : list A) (a : list (list F)) : list (option A) :=
    greedy zero gtb_ops items a.

  (** the whole function; [None] = RuntimeError *)
  Definition evec_sort (items : list A) (target base : list (list cplx)) : option (list (option A)) :=
    if dims_ok (length items) (length target) (length base) (map (@length cplx) (target ++ base))
    then Some (evec_sort_mat items (overlap base target))
    else None.
End Full.
