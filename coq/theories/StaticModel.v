(** C18 - model of `cij run-static` (cij/cli/static.py), written once over [Ops F].
    No proofs here (lemmas are in Static.v).  Everything is prefixed [s_] and self-contained:
    the small copy of qha.v2p below is deliberately independent of the C06 model.

    Source lines refer to /repo/cij/cli/static.py.

    Oracles (values taken from the implementation, not computed):
      * [spl]  : P at the input volumes in mode none (scipy InterpolatedUnivariateSpline),
      * [fill] : the 21 filled moduli of every row when --system is given (cij.util.fill.fill_cij). *)
From Coq Require Import ZArith List Bool.
From Cij Require Import Ops.
Import ListNotations.

Section StaticModel.
  Context {F : Type} {OF : Ops F}.
  Local Open Scope ops_scope.

  Definition s_ofnat (k : nat) : F := ofZ (Z.of_nat k).
  Definition s_nth (k : nat) (l : list F) : F := nth k l zero.

  (* ---------------------------------------------------------------- finite strain *)
  (** x ** (2/3) *)
  Definition s_pow23 (x : F) : F := fexp (ofQ' 2 3 * fln x).
  (** qha.grid_interpolation.calculate_eulerian_strain:  1/2 * ((v0/v) ** (2/3) - 1) *)
  Definition s_strain (v0 v : F) : F := one / two * (s_pow23 (v0 / v) - one).
  Definition s_strains (v0 : F) (vs : list F) : list F := map (s_strain v0) vs.

  (* ---------------------------------------------------------------- least squares, 3 Vandermonde columns *)
  (** qha.fitting.polynomial_least_square_fitting with order=2:  order += 1 -> columns 1, x, x^2;
      numpy.linalg.lstsq is modelled by the normal equations  (X^T X) a = X^T y  solved by Cramer's rule. *)
  Definition s_sq (x : F) : F := x * x.
  Definition s_det3 (a b c d e f g h i : F) : F :=
    a * (e * i - f * h) - b * (d * i - f * g) + c * (d * h - e * g).

  Record s_moments := { m0 : F; m1 : F; m2 : F; m3 : F; m4 : F; t0 : F; t1 : F; t2 : F }.
  Definition s_mom (xs ys : list F) : s_moments :=
    {| m0 := sum (map (fun _ => one) xs);
       m1 := sum xs;
       m2 := sum (map s_sq xs);
       m3 := sum (map (fun x => x * s_sq x) xs);
       m4 := sum (map (fun x => s_sq x * s_sq x) xs);
       t0 := sum (zipw (fun x y => y) xs ys);
       t1 := sum (zipw (fun x y => x * y) xs ys);
       t2 := sum (zipw (fun x y => s_sq x * y) xs ys) |}.
  Definition s_gram_det (m : s_moments) : F :=
    s_det3 (m0 m) (m1 m) (m2 m) (m1 m) (m2 m) (m3 m) (m2 m) (m3 m) (m4 m).
  (** coefficients (a0, a1, a2), increasing powers *)
  Definition s_coeffs (xs ys : list F) : F * F * F :=
    let m := s_mom xs ys in
    let d := s_gram_det m in
    (s_det3 (t0 m) (m1 m) (m2 m) (t1 m) (m2 m) (m3 m) (t2 m) (m3 m) (m4 m) / d,
     s_det3 (m0 m) (t0 m) (m2 m) (m1 m) (t1 m) (m3 m) (m2 m) (t2 m) (m4 m) / d,
     s_det3 (m0 m) (m1 m) (t0 m) (m1 m) (m2 m) (t1 m) (m2 m) (m3 m) (t2 m) / d).
  Definition s_poly (a : F * F * F) (x : F) : F :=
    let '(a0, a1, a2) := a in a0 + a1 * x + a2 * s_sq x.

  (** fit_modulus (lines 39-59): strains relative to volumes[0]; the quadratic in strain fitted to
      (volumes, ys), evaluated at volume v *)
  Definition s_fitc (vols ys : list F) : F * F * F :=
    s_coeffs (s_strains (s_nth 0 vols) vols) ys.
  Definition s_fit2 (vols ys : list F) (v : F) : F :=
    s_poly (s_fitc vols ys) (s_strain (s_nth 0 vols) v).

  (** the exact negative volume derivative of [s_fit2 vols ys]:
      -(a1 + 2 a2 f) f'(v),   f'(v) = -(1/3) (v0/v)^(2/3) / v *)
  Definition s_dstrain (v0 v : F) : F := - (ofQ' 1 3 * s_pow23 (v0 / v) / v).
  Definition s_pexact (vols ys : list F) (v : F) : F :=
    let '(a0, a1, a2) := s_fitc vols ys in
    let v0 := s_nth 0 vols in
    - ((a1 + two * a2 * s_strain v0 v) * s_dstrain v0 v).

  (* ---------------------------------------------------------------- grids *)
  Definition s_min (l : list F) : F :=
    match l with [] => zero | x :: t => fold_left (fun m y => if fleb m y then m else y) t x end.
  Definition s_max (l : list F) : F :=
    match l with [] => zero | x :: t => fold_left (fun m y => if fleb y m then m else y) t x end.

  (** numpy.linspace(a, b, n), n >= 2:  arange(n) * ((b - a)/(n - 1)) + a, last element := b *)
  Definition s_linspace (a b : F) (n : nat) : list F :=
    let step := (b - a) / s_ofnat (n - 1) in
    map (fun k => if Nat.eqb k (n - 1) then b else s_ofnat k * step + a) (seq 0 n).

  (** numpy.gradient(l) (unit spacing, edge_order 1) *)
  Definition s_grad (l : list F) : list F :=
    let n := length l in
    map (fun k =>
           if Nat.eqb k 0 then (s_nth 1 l - s_nth 0 l) / one
           else if Nat.eqb k (n - 1) then (s_nth (n - 1) l - s_nth (n - 2) l) / one
           else (s_nth (k + 1) l - s_nth (k - 1) l) / two) (seq 0 n).

  (** line 80 *)
  Definition s_vgrid (vols : list F) (ratio : F) (ntv : nat) : list F :=
    s_linspace (s_min vols / ratio) (s_max vols * ratio) ntv.
  (** line 83 *)
  Definition s_fgrid (vols ens : list F) (vg : list F) : list F := map (s_fit2 vols ens) vg.
  (** line 84:  p_array = - numpy.gradient(f_array) / numpy.gradient(v_array) *)
  Definition s_pgrid (fg vg : list F) : list F :=
    zipw (fun gf gv => (- gf) / gv) (s_grad fg) (s_grad vg).

  (* ---------------------------------------------------------------- small copy of qha.v2p *)
  Definition s_lagrange4 (x x0 x1 x2 x3 y0 y1 y2 y3 : F) : F :=
    (x - x1) * (x - x2) * (x - x3) / (x0 - x1) / (x0 - x2) / (x0 - x3) * y0
    + (x - x0) * (x - x2) * (x - x3) / (x1 - x0) / (x1 - x2) / (x1 - x3) * y1
    + (x - x0) * (x - x1) * (x - x3) / (x2 - x0) / (x2 - x1) / (x2 - x3) * y2
    + (x - x0) * (x - x1) * (x - x2) / (x3 - x0) / (x3 - x1) / (x3 - x2) * y3.

  (** qha.tools.vectorized_find_nearest: the two special cases are overwritten by the bisection,
      whose result is the only one that matters *)
  Fixpoint s_bisect (fuel : nat) (arr : list F) (v : F) (lo up : nat) : nat :=
    match fuel with
    | O => lo
    | S fuel' =>
        if Nat.ltb 1 (up - lo) then
          let mid := Nat.div2 (up + lo) in
          if fleb (s_nth mid arr) v then s_bisect fuel' arr v mid up else s_bisect fuel' arr v lo mid
        else lo
    end.
  Definition s_find_nearest (arr : list F) (v : F) : nat :=
    s_bisect (length arr) arr v 0 (length arr - 1).

  Definition s_extend (l : list F) : list F :=
    s_nth 3 l :: l ++ [s_nth (length l - 4) l].

  (** one row of qha.v2p.v2p; k = 0 makes the implementation fail (empty slice): NaN here *)
  Definition s_v2p (fs ps : list F) (want : list F) : list F :=
    let ef := s_extend fs in
    let ep := s_extend ps in
    map (fun p =>
           let k := s_find_nearest ep p in
           if Nat.eqb k 0 then zero / zero
           else s_lagrange4 p (s_nth (k - 1) ep) (s_nth k ep) (s_nth (k + 1) ep) (s_nth (k + 2) ep)
                              (s_nth (k - 1) ef) (s_nth k ef) (s_nth (k + 1) ef) (s_nth (k + 2) ef)) want.
  (** lines 61-63: v2p on the reversed arrays *)
  Definition s_v2p1d (x_old p_old p_new : list F) : list F := s_v2p (rev x_old) (rev p_old) p_new.

  (* ---------------------------------------------------------------- units (cij/util/units.py through pint) *)
  Definition s_bohr_A : F := ofQ' 529177210903 1000000000000.        (* CODATA 2018 a0 / Angstrom *)
  Definition s_Ry_eV : F := ofQ' 13605693122994 1000000000000.       (* CODATA 2018 Ry / eV *)
  Definition s_e_1e19 : F := ofQ' 1602176634 1000000000.             (* e / 1e-19 C (exact SI) *)
  Definition s_NA_1e23 : F := ofQ' 602214076 100000000.              (* N_A / 1e23 (exact SI) *)
  Definition s_bohr3 : F := s_bohr_A * s_bohr_A * s_bohr_A.
  Definition s_to_ang3 (x : F) : F := x * s_bohr3.
  Definition s_to_ev (x : F) : F := x * s_Ry_eV.
  (** Ry/bohr^3 in GPa = Ry[eV] * e[1e-19 J/eV] * 1e-19 / (a0[A]^3 * 1e-30) / 1e9 *)
  Definition s_gpa_factor : F := s_Ry_eV * s_e_1e19 * ofZ 100 / s_bohr3.
  Definition s_to_gpa (x : F) : F := x * s_gpa_factor.
  Definition s_from_gpa (x : F) : F := x / s_gpa_factor.
  (** amu/bohr^3 in g/cm^3 = 1 / (N_A * a0[cm]^3) = 10 / (N_A/1e23 * a0[A]^3) *)
  Definition s_gcm3_factor : F := ofZ 10 / (s_NA_1e23 * s_bohr3).
  Definition s_to_gcm3 (x : F) : F := x * s_gcm3_factor.
  (** sqrt(GPa / (g/cm^3)) = sqrt(1e9 / 1e3) m/s = 1 km/s *)
  Definition s_to_kms (x : F) : F := x * one.

  (* ---------------------------------------------------------------- the three modes (lines 86-104) *)
  (** internal units (bohr^3, Ry, Ry/bohr^3); each mode gives the columns V, F, P *)
  Definition s_cols := (list F * list F * list F)%type.

  Definition s_mode_none (vols ens spl : list F) : s_cols := (vols, ens, spl).
  Definition s_mode_volume (vg fg pg : list F) : s_cols := (vg, fg, pg).

  (** lines 96-97 *)
  Definition s_pwant (pmin dp : F) (ntv : nat) : list F :=
    s_linspace (s_from_gpa pmin) (s_from_gpa (pmin + dp * s_ofnat (ntv - 1))) ntv.

  (** line 99 (repaired in /repo commit ed06662):  _f_array = v2p1d(f_array, p_array, _p_array).
      This definition is the single place that says which grid feeds the F column. *)
  Definition s_pressure_F_source (vg fg : list F) : list F := fg.

  Definition s_mode_pressure (vg fg pg : list F) (pmin dp : F) (ntv : nat) : s_cols :=
    let want := s_pwant pmin dp ntv in
    (s_v2p1d vg pg want, s_v2p1d (s_pressure_F_source vg fg) pg want, want).

  (** history: before the repair (defect D9) line 99 read  _f_array = v2p1d(v_array, p_array, _p_array),
      so the F column repeated V.  Kept only for [columns_pressure_mode_refuted_before_fix]. *)
  Definition s_pressure_F_source_old (vg fg : list F) : list F := vg.
  Definition s_mode_pressure_old (vg fg pg : list F) (pmin dp : F) (ntv : nat) : s_cols :=
    let want := s_pwant pmin dp ntv in
    (s_v2p1d vg pg want, s_v2p1d (s_pressure_F_source_old vg fg) pg want, want).

  Definition s_eos (mode : nat) (vols ens spl : list F) (ratio pmin dp : F) (ntv : nat) : s_cols :=
    let vg := s_vgrid vols ratio ntv in
    let fg := s_fgrid vols ens vg in
    let pg := s_pgrid fg vg in
    match mode with
    | O => s_mode_none vols ens spl
    | S O => s_mode_volume vg fg pg
    | _ => s_mode_pressure vg fg pg pmin dp ntv
    end.

  (* ---------------------------------------------------------------- 6x6 inverse (numpy.linalg.inv) *)
  Definition s_axpy (c : F) (x y : list F) : list F := zipw (fun a b => b - c * a) x y. (* y - c x *)

  (** choose the row with the largest |row[k]| among [rows]; returns it and the others *)
  Fixpoint s_pick (k : nat) (best : list F) (others rows : list (list F)) : list F * list (list F) :=
    match rows with
    | [] => (best, others)
    | r :: t =>
        if fleb (fabs (s_nth k r)) (fabs (s_nth k best)) then s_pick k best (others ++ [r]) t
        else s_pick k r (others ++ [best]) t
    end.

  Fixpoint s_gj (fuel k : nat) (done rest : list (list F)) : list (list F) :=
    match fuel with
    | O => done
    | S fuel' =>
        match rest with
        | [] => done
        | r0 :: t =>
            let '(p, others) := s_pick k r0 [] t in
            let p' := map (fun x => x / s_nth k p) p in
            let elim := map (fun r => s_axpy (s_nth k r) p' r) in
            s_gj fuel' (S k) (elim done ++ [p']) (elim others)
        end
    end.
  Definition s_unit (n i : nat) : list F := map (fun j => if Nat.eqb i j then one else zero) (seq 0 n).
  Definition s_inv (a : list (list F)) : list (list F) :=
    let n := length a in
    let aug := map (fun ir => snd ir ++ s_unit n (fst ir)) (combine (seq 0 n) a) in
    map (skipn n) (s_gj n 0 [] aug).

  (* ---------------------------------------------------------------- moduli, VRH, velocities *)
  (** keys are Voigt pairs (i, j), 1 <= i <= j <= 6 *)
  Definition s_key := (nat * nat)%type.
  Definition s_key_eqb (a b : s_key) : bool := Nat.eqb (fst a) (fst b) && Nat.eqb (snd a) (snd b).
  Fixpoint s_lookup (k : s_key) (keys : list s_key) (vals : list F) : F :=
    match keys, vals with
    | k' :: ks, v :: vs => if s_key_eqb k k' then v else s_lookup k ks vs
    | _, _ => zero
    end.
  (** lines 136-140: cij[i][j] = column "c%d%d" % sorted(i+1, j+1) if present else 0 *)
  Definition s_cmat (keys : list s_key) (vals : list F) : list (list F) :=
    map (fun i => map (fun j => s_lookup (Nat.min i j, Nat.max i j) keys vals) (seq 1 6)) (seq 1 6).
  Definition s_all_keys : list s_key :=
    flat_map (fun i => map (fun j => (i, j)) (seq i (7 - i))) (seq 1 6).

  Definition s_el (m : list (list F)) (i j : nat) : F := s_nth (j - 1) (nth (i - 1) m []).

  (** lines 150-164, c and s 1-based *)
  Definition s_bmV (c : list (list F)) : F :=
    (s_el c 1 1 + s_el c 2 2 + s_el c 3 3 + two * (s_el c 1 2 + s_el c 2 3 + s_el c 1 3)) / ofZ 9.
  Definition s_bmR (s : list (list F)) : F :=
    one / (s_el s 1 1 + s_el s 2 2 + s_el s 3 3 + two * (s_el s 1 2 + s_el s 2 3 + s_el s 1 3)).
  Definition s_GV (c : list (list F)) : F :=
    ((s_el c 1 1 + s_el c 2 2 + s_el c 3 3) - (s_el c 1 2 + s_el c 2 3 + s_el c 1 3)
     + three * (s_el c 4 4 + s_el c 5 5 + s_el c 6 6)) / ofZ 15.
  Definition s_GR (s : list (list F)) : F :=
    ofZ 15 / (ofZ 4 * (s_el s 1 1 + s_el s 2 2 + s_el s 3 3)
              - ofZ 4 * (s_el s 1 2 + s_el s 2 3 + s_el s 1 3)
              + three * (s_el s 4 4 + s_el s 5 5 + s_el s 6 6)).
  Definition s_avg (a b : F) : F := (a + b) / two.

  (** lines 179-185 (rho already in g/cm^3, moduli in GPa) *)
  Definition s_vp (k g rho : F) : F := s_to_kms (fsqrt ((k + ofZ 4 / three * g) / rho)).
  Definition s_vs (g rho : F) : F := s_to_kms (fsqrt (g / rho)).
  Definition s_vphi (k rho : F) : F := s_to_kms (fsqrt (k / rho)).

  (** the elastic part of one row, from its 6x6 matrix, its compliance and its density (g/cm^3):
      bm_V bm_R bm_VRH G_V G_R G_VRH v_p v_s v_phi *)
  Definition s_vrh_row (c s : list (list F)) (rho : F) : list F :=
    let kv := s_bmV c in let kr := s_bmR s in let k := s_avg kv kr in
    let gv := s_GV c in let gr := s_GR s in let g := s_avg gv gr in
    [kv; kr; k; gv; gr; g; s_vp k g rho; s_vs g rho; s_vphi k rho].

  (* ---------------------------------------------------------------- the whole table *)
  (** static table: volumes, keys, one value column per key, cell mass *)
  Definition s_table := (list F * list s_key * list (list F) * F)%type.

  (** line 112 / 130: density (amu / bohr^3): --cellmass overrides the file's mass *)
  Definition s_mass (tab : option s_table) (cellmass : option F) : option F :=
    match cellmass with
    | Some m => Some m
    | None => match tab with Some (_, _, _, m) => Some m | None => None end
    end.

  (** one row: v (bohr^3), f (Ry), p (Ry/bohr^3), [fill] = that row's 21 moduli from fill_cij
      (in the order of [s_all_keys]) when --system is given *)
  Definition s_row (tab : option s_table) (cellmass : option F) (fill : option (list F)) (v f p : F) : list F :=
    let dens := match s_mass tab cellmass with Some m => [s_to_gcm3 (m / v)] | None => [] end in
    [s_to_ang3 v; s_to_ev f; s_to_gpa p] ++ dens ++
    match tab with
    | None => []
    | Some (tv, keys, cols, _) =>
        let fitted := map (fun col => s_fit2 tv col v) cols in     (* line 120 *)
        let c := match fill with
                 | Some vals => s_cmat s_all_keys vals
                 | None => s_cmat keys fitted
                 end in
        fitted ++ s_vrh_row c (s_inv c) (match dens with r :: _ => r | [] => zero end)
    end.

  Fixpoint s_zip3 (tab : option s_table) (cellmass : option F) (fills : option (list (list F)))
           (vs fs ps : list F) : list (list F) :=
    match vs, fs, ps with
    | v :: vs', f :: fs', p :: ps' =>
        let '(fill, fills') := match fills with
                               | Some (x :: t) => (Some x, Some t)
                               | Some [] => (Some [], Some [])
                               | None => (None, None)
                               end in
        s_row tab cellmass fill v f p :: s_zip3 tab cellmass fills' vs' fs' ps'
    | _, _, _ => []
    end.

  (** lines 188-190: df.iloc[::step] *)
  Fixpoint s_every {A} (step i : nat) (l : list A) : list A :=
    match l with
    | [] => []
    | x :: t => if Nat.eqb i 0 then x :: s_every step (step - 1) t else s_every step (i - 1) t
    end.
  Definition s_sample {A} (mode step : nat) (l : list A) : list A :=
    match mode, step with
    | S (S _), S _ => s_every step 0 l
    | _, _ => l
    end.

  (** the printed table.  step = 0 means no sampling. *)
  Definition s_run (mode : nat) (vols ens spl : list F) (ratio pmin dp : F) (ntv step : nat)
             (tab : option s_table) (cellmass : option F) (fills : option (list (list F))) : list (list F) :=
    let '(vs, fs, ps) := s_eos mode vols ens spl ratio pmin dp ntv in
    s_sample mode step (s_zip3 tab cellmass fills vs fs ps).
End StaticModel.

(** Python's round(dps / dp) (round half to even) on exact rationals; 0 = no sampling *)
From Coq Require Import QArith Qround.
Definition s_round_half_even (q : Q) : Z :=
  let fl := Qfloor q in
  let r := (q - inject_Z fl)%Q in
  match Qcompare r (1 # 2) with
  | Lt => fl
  | Gt => (fl + 1)%Z
  | Eq => if Z.even fl then fl else (fl + 1)%Z
  end.
Definition s_step (dps dp : Q) : nat := Z.to_nat (s_round_half_even (dps / dp)%Q).
