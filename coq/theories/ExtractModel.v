(** C19 - model of cij/cli/extract.py and cij/cli/geotherm.py.  Definitions only (lemmas: Extract.v).
    Written once over [Ops F]: theorems at R, execution in the case shards at binary64. *)
From Coq Require Import String Ascii List Bool ZArith.
From Cij Require Import Ops.
Import ListNotations.

(** file choice: glob(f"{var}_tp_*")[0] - first entry of the directory listing (in listing order) whose
    name starts with var ++ "_tp_" *)
Fixpoint prefixb (p s : string) : bool :=
  match p, s with
  | EmptyString, _ => true
  | String a p', String b s' => Ascii.eqb a b && prefixb p' s'
  | _, EmptyString => false
  end.
Definition glob_pattern (var : string) : string := (var ++ "_tp_")%string.
Definition choose_file (var : string) (listing : list string) : option string :=
  find (prefixb (glob_pattern var)) listing.

Section Extract.
  Context {F : Type} {OF : Ops F}.
  Local Open Scope ops_scope.

  (** numpy.argmin: index of the FIRST minimal entry (0 for the empty list, where numpy raises) *)
  Fixpoint argmin (l : list F) : nat :=
    match l with
    | [] => O
    | x :: r =>
        match r with
        | [] => O
        | _ => let k := argmin r in if fleb x (nth k r x) then O else S k
        end
    end.
  (** numpy.argmin(numpy.abs(index - y)) *)
  Definition argmin_abs (xs : list F) (y : F) : nat := argmin (map (fun x => fabs (x - y)) xs).

  (** a table as load_data returns it: index = temperatures, columns = pressures, one row per temperature *)
  Record table := mkTable { t_idx : list F; t_cols : list F; t_vals : list (list F) }.

  Definition column (j : nat) (vals : list (list F)) : list F := map (fun row => nth j row zero) vals.
  (** df.T *)
  Definition transpose (t : table) : table :=
    mkTable (t_cols t) (t_idx t) (map (fun j => column j (t_vals t)) (seq 0 (length (t_cols t)))).

  Inductive selector := AtT (y : F) | AtP (y : F).
  Definition sel_y (s : selector) : F := match s with AtT y => y | AtP y => y end.
  (** -T: rows are temperatures;  -P: df = df.T, rows are pressures *)
  Definition orient (s : selector) (t : table) : table := match s with AtT _ => t | AtP _ => transpose t end.

  (** data[var] = df.iloc[argmin |index - y|]: a Series labelled by the other coordinate *)
  Definition selected_index (s : selector) (t : table) : nat := argmin_abs (t_idx (orient s t)) (sel_y s).
  Definition select (s : selector) (t : table) : list F * list F :=
    let o := orient s t in (t_cols o, nth (selected_index s t) (t_vals o) []).

  (** table[var] = data[var] on DataFrame(index = x_array): assignment of a Series ALIGNS on the labels
      (a label of x_array missing in the Series gives NaN = None) *)
  Definition feq (a b : F) : bool := is0 (a - b).
  Fixpoint series_get (x : F) (labels values : list F) : option F :=
    match labels, values with
    | l :: ls, v :: vs => if feq x l then Some v else series_get x ls vs
    | _, _ => None
    end.
  Definition align (index : list F) (series : list F * list F) : list (option F) :=
    map (fun x => series_get x (fst series) (snd series)) index.

  (** main of extract.py: x_array is the label list of the LAST variable's table *)
  Definition extract (s : selector) (tabs : list (string * table)) : list F * list (string * list (option F)) :=
    let x_array := match rev tabs with (_, t) :: _ => fst (select s t) | [] => [] end in
    (x_array, map (fun vt => (fst vt, align x_array (select s (snd vt)))) tabs).

  (* ------------------------------------------------------------------------------------- *)
  (** geotherm.py.  The geotherm file is a list of named columns.  [spline xs ys z x y] stands for
      RectBivariateSpline(xs, ys, z)(x, y, grid=False) - an oracle, see Extract.v for its contract. *)
  Definition frame := list (string * list F).
  Fixpoint fget (name : string) (fr : frame) : option (list F) :=
    match fr with [] => None | (n, c) :: r => if String.eqb name n then Some c else fget name r end.
  (** table[var] = values: replaces an existing column in place, otherwise appends *)
  Fixpoint fset (name : string) (c : list F) (fr : frame) : frame :=
    match fr with
    | [] => [(name, c)]
    | (n, c') :: r => if String.eqb name n then (n, c) :: r else (n, c') :: fset name c r
    end.

  Definition spline_t := list F -> list F -> list (list F) -> F -> F -> F.

  (** fit_data(df)(table[p_col], table[t_col], grid=False): x = df.index (temperatures), y = df.columns
      (pressures); the FIRST argument comes from the option named --p-col, the SECOND from --t-col *)
  Definition geotherm_eval (spline : spline_t) (t_col p_col : string) (geo : frame) (t : table)
    : option (list F) :=
    match fget p_col geo, fget t_col geo with
    | Some xs, Some ys => Some (zipw (fun x y => spline (t_idx t) (t_cols t) (t_vals t) x y) xs ys)
    | _, _ => None          (* KeyError *)
    end.
  (** the option defaults as written in geotherm.py *)
  Definition default_t_col : string := "P".
  Definition default_p_col : string := "T".

  Fixpoint geotherm (spline : spline_t) (t_col p_col : string) (geo : frame) (tabs : list (string * table))
    : option frame :=
    match tabs with
    | [] => Some geo
    | (var, t) :: r =>
        match geotherm_eval spline t_col p_col geo t with
        | Some c => geotherm spline t_col p_col (fset var c geo) r
        | None => None
        end
    end.

  (** value of the table at a point that is a grid node (exact label match), else None *)
  Fixpoint index_of (x : F) (l : list F) : option nat :=
    match l with
    | [] => None
    | a :: r => if feq x a then Some O else option_map S (index_of x r)
    end.
  Definition node_value (t : table) (x y : F) : option F :=
    match index_of x (t_idx t), index_of y (t_cols t) with
    | Some i, Some j => Some (nth j (nth i (t_vals t) []) zero)
    | _, _ => None
    end.
End Extract.
