(** C04: relabelling the crystal axes - definitions shared by the per-permutation files *)
From Coq Require Import Reals Lra Lia List Bool Arith ZArith.
From Cij Require Import Ops ROps Voigt ShearModel Shear.
Import ListNotations.
Local Open Scope R_scope.

Definition ap (pi : list nat) (i : nat) : nat := nth i pi 0%nat.
Definition perms3 : list (list nat) :=
  [[0;1;2]; [0;2;1]; [1;0;2]; [1;2;0]; [2;0;1]; [2;1;0]]%nat.
Definition inv3 (pi : list nat) : list nat :=
  map (fun a => if (ap pi 0 =? a)%nat then 0 else if (ap pi 1 =? a)%nat then 1 else 2)%nat [0;1;2]%nat.
Definition pk (pi : list nat) (k : vkey) : vkey :=
  let '(i, j) := std_of (fst k) in let '(p, q) := std_of (snd k) in
  vsort (v_of (ap pi i) (ap pi j)) (v_of (ap pi p) (ap pi q)).

Ltac crunch_pk :=
  repeat (cbn [energy nz idx9 filter fict std_of fst snd Nat.eqb Nat.ltb Nat.leb andb orb negb
               flat_map map app sum is_target vkey_eqb canon4 vsort v_of cget mult Nat.mul
               pk inv3 ap nth];
          rops'; rewrite ?Ris0_0, ?Ris0_1).

Definition energy_relabel_for (pi : list nat) : Prop :=
  forall k (c : vkey -> R), In k shear_keys ->
    energy (OF:=ROps) Ris0 (fict (pk pi k)) (fun key => c (pk (inv3 pi) key)) (Some (pk pi k))
    = energy (OF:=ROps) Ris0 (fict k) c (Some k).

Ltac prove_relabel :=
  intros k c Hk; unfold shear_keys, all_keys in Hk;
  cbn [filter is_shear fst snd Nat.ltb Nat.leb orb In] in Hk;
  repeat (destruct Hk as [<- | Hk]; [crunch_pk; ring|]); contradiction.
