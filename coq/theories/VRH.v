(** C07 - lemmas about VRHModel: symmetric assembly (generic number domain), and over R:
    the averages as contractions of the full 4th-rank tensors, Hill = mean, velocity relations.
    The Reuss <= Hill <= Voigt inequality is in VRHBounds.v. *)
From Coq Require Import Reals ZArith List Bool Lia Lra Permutation.
From Cij Require Import Ops ROps VRHModel.
Import ListNotations.

(* ====================================================================================== *)
(** * 1. symmetric assembly, any number domain *)
Section Assemble.
  Context {F : Type} {OF : Ops F}.
  Local Open Scope Z_scope.

  Definition ekey (e : @entry F) : Z * Z := fst e.
  Definition eval (e : @entry F) : F := snd e.

  (** cell (i, j) belongs to key (a, b) *)
  Definition covers (k : Z * Z) (i j : Z) : bool :=
    ((i =? fst k) && (j =? snd k)) || ((i =? snd k) && (j =? fst k)).
  (** two keys address the same unordered pair of Voigt indices *)
  Definition same_pair (k k' : Z * Z) : Prop := k = k' \/ k = (snd k', fst k').

  Lemma covers_sym k i j : covers k i j = covers k j i.
  Proof. unfold covers. rewrite orb_comm. f_equal; apply andb_comm. Qed.

  Lemma covers_same_pair k k' i j : covers k i j = true -> covers k' i j = true -> same_pair k k'.
  Proof.
    destruct k as [a b], k' as [a' b']; unfold covers, same_pair; cbn [fst snd].
    rewrite !orb_true_iff, !andb_true_iff, !Z.eqb_eq.
    intros [[-> ->]|[-> ->]] [[E1 E2]|[E1 E2]]; subst; auto.
  Qed.

  Lemma store_key_spec (m : @mat F) (e : @entry F) i j :
    store_key m e i j = if covers (ekey e) i j then eval e else m i j.
  Proof.
    destruct e as [[a b] v]. unfold store_key, cells_of_key, covers, ekey, eval; cbn [fst snd].
    destruct (Z.eqb_spec a b) as [->|Hab]; cbn [fold_left fst snd]; unfold upd.
    - destruct (i =? b), (j =? b); reflexivity.
    - destruct (Z.eqb_spec i a), (Z.eqb_spec j b), (Z.eqb_spec i b), (Z.eqb_spec j a); cbn;
        try reflexivity; exfalso; congruence.
  Qed.

  (** the value of a cell is that of the LAST entry of the table covering it *)
  Lemma asm_spec (tbl : list (@entry F)) : forall (m : @mat F) i j,
    fold_left store_key tbl m i j =
      match find (fun e => covers (ekey e) i j) (rev tbl) with Some e => eval e | None => m i j end.
  Proof.
    induction tbl as [|e t IH]; intros m i j; [reflexivity|].
    cbn [fold_left rev]. rewrite IH.
    assert (Hf : forall (l1 : list (@entry F)) x f,
               find f (l1 ++ [x]) = match find f l1 with Some y => Some y | None => if f x then Some x else None end).
    { induction l1 as [|y l1 IHl]; intros x f; cbn; [reflexivity|]. destruct (f y); [reflexivity|apply IHl]. }
    rewrite Hf. destruct (find _ (rev t)); [reflexivity|].
    rewrite store_key_spec. destruct (covers (ekey e) i j); reflexivity.
  Qed.

  Lemma assemble6_spec tbl i j :
    assemble6 tbl i j =
      match find (fun e => covers (ekey e) i j) (rev tbl) with Some e => eval e | None => zero end.
  Proof. unfold assemble6. rewrite asm_spec. reflexivity. Qed.

  (** the assembled matrix is symmetric, whatever the table *)
  Lemma assemble6_symmetric_l tbl i j : assemble6 tbl i j = assemble6 tbl j i.
  Proof.
    rewrite !assemble6_spec.
    replace (find (fun e => covers (ekey e) j i) (rev tbl)) with (find (fun e => covers (ekey e) i j) (rev tbl)).
    reflexivity. induction (rev tbl) as [|x l IHl]; cbn; [reflexivity|].
    rewrite (covers_sym (ekey x) i j), IHl. reflexivity.
  Qed.

  (** a table is a function of the unordered key (true of a Python dict with canonical keys) *)
  Definition keys_functional (tbl : list (@entry F)) : Prop :=
    forall e e', In e tbl -> In e' tbl -> same_pair (ekey e) (ekey e') -> eval e = eval e'.

  Lemma assemble6_supplied tbl a b v :
    keys_functional tbl -> In (a, b, v) tbl -> assemble6 tbl a b = v /\ assemble6 tbl b a = v.
  Proof.
    intros Hf Hin.
    assert (H : assemble6 tbl a b = v).
    { rewrite assemble6_spec.
      destruct (find (fun e => covers (ekey e) a b) (rev tbl)) as [e|] eqn:E.
      - apply find_some in E. destruct E as [Hi Hc]. apply in_rev in Hi.
        apply (Hf e (a, b, v) Hi Hin). eapply covers_same_pair; [exact Hc|].
        unfold covers, ekey; cbn. rewrite !Z.eqb_refl. reflexivity.
      - exfalso. apply in_rev in Hin. pose proof (find_none _ _ E (a, b, v) Hin) as Hc.
        unfold covers, ekey in Hc; cbn in Hc. rewrite !Z.eqb_refl in Hc. discriminate. }
    split; [exact H|]. rewrite assemble6_symmetric_l. exact H.
  Qed.

  Lemma assemble6_absent tbl i j :
    (forall e, In e tbl -> covers (ekey e) i j = false) -> assemble6 tbl i j = zero.
  Proof.
    intros H. rewrite assemble6_spec.
    destruct (find (fun e => covers (ekey e) i j) (rev tbl)) as [e|] eqn:E; [|reflexivity].
    apply find_some in E. destruct E as [Hi Hc]. apply in_rev in Hi. rewrite (H e Hi) in Hc. discriminate.
  Qed.

  (** independence of the iteration order (indeed of anything but the set of entries) *)
  Lemma assemble6_order_irrelevant_set tbl tbl' :
    keys_functional tbl -> (forall e, In e tbl <-> In e tbl') ->
    forall i j, assemble6 tbl' i j = assemble6 tbl i j.
  Proof.
    intros Hf Hset i j. rewrite !assemble6_spec.
    destruct (find (fun e => covers (ekey e) i j) (rev tbl')) as [e'|] eqn:E';
      destruct (find (fun e => covers (ekey e) i j) (rev tbl)) as [e|] eqn:E.
    - apply find_some in E, E'. destruct E as [Hi Hc], E' as [Hi' Hc'].
      rewrite <- in_rev in Hi, Hi'. apply Hset in Hi'.
      apply (Hf e' e Hi' Hi). eapply covers_same_pair; eassumption.
    - exfalso. apply find_some in E'. destruct E' as [Hi' Hc']. rewrite <- in_rev in Hi'. apply Hset in Hi'.
      rewrite (find_none _ _ E e') in Hc'; [discriminate|]. rewrite <- in_rev. exact Hi'.
    - exfalso. apply find_some in E. destruct E as [Hi Hc]. rewrite <- in_rev in Hi. apply Hset in Hi.
      rewrite (find_none _ _ E' e) in Hc; [discriminate|]. rewrite <- in_rev. exact Hi.
    - reflexivity.
  Qed.

  Theorem assemble_symmetric_total_l :
    forall tbl : list (@entry F), keys_functional tbl ->
      (forall a b v, In (a, b, v) tbl -> assemble6 tbl a b = v /\ assemble6 tbl b a = v) /\
      (forall i j, (forall e, In e tbl -> covers (ekey e) i j = false) -> assemble6 tbl i j = zero) /\
      (forall i j, assemble6 tbl i j = assemble6 tbl j i) /\
      (forall tbl', Permutation tbl tbl' -> forall i j, assemble6 tbl' i j = assemble6 tbl i j).
  Proof.
    intros tbl Hf. split; [|split; [|split]].
    - intros a b v Hin. apply assemble6_supplied; assumption.
    - intros i j. apply assemble6_absent.
    - intros i j. apply assemble6_symmetric_l.
    - intros tbl' Hp. apply assemble6_order_irrelevant_set; [exact Hf|].
      intros e; split; [apply Permutation_in; exact Hp | apply Permutation_in; apply Permutation_sym; exact Hp].
  Qed.

  (** non-vacuity: distinct canonical keys (a <= b, no key twice) make a functional table *)
  Lemma nodup_keys_functional (tbl : list (@entry F)) :
    NoDup (map ekey tbl) -> (forall e, In e tbl -> fst (ekey e) <= snd (ekey e)) -> keys_functional tbl.
  Proof.
    intros Hnd Hle e e' Hi Hi' [Hk|Hk].
    - (* same key: same entry *)
      clear Hle. induction tbl as [|x t IH]; [contradiction|].
      cbn in Hnd. inversion Hnd as [|? ? Hnot Hnd']; subst.
      destruct Hi as [->|Hi], Hi' as [->|Hi']; try reflexivity.
      + exfalso. apply Hnot. rewrite Hk. apply in_map. exact Hi'.
      + exfalso. apply Hnot. rewrite <- Hk. apply in_map. exact Hi.
      + apply IH; assumption.
    - (* swapped key with a <= b on both: a = b, so again the same key *)
      pose proof (Hle e Hi) as L. pose proof (Hle e' Hi') as L'.
      assert (Hk' : ekey e = ekey e').
      { destruct (ekey e) as [a b], (ekey e') as [a' b']; cbn [fst snd] in *. inversion Hk; subst.
        f_equal; lia. }
      clear Hk L L' Hle. induction tbl as [|x t IH]; [contradiction|].
      cbn in Hnd. inversion Hnd as [|? ? Hnot Hnd']; subst.
      destruct Hi as [->|Hi], Hi' as [->|Hi']; try reflexivity.
      + exfalso. apply Hnot. rewrite Hk'. apply in_map. exact Hi'.
      + exfalso. apply Hnot. rewrite <- Hk'. apply in_map. exact Hi.
      + apply IH; assumption.
  Qed.
End Assemble.

(* ====================================================================================== *)
(** * 2. the averages are contractions of the full fourth-rank tensors (over R) *)
Local Open Scope R_scope.
Notation matR := (Z -> Z -> R) (only parsing).

Definition idx (i : Z) : Prop := (1 <= i <= 6)%Z.
Definition msym (m : matR) : Prop := forall i j, idx i -> idx j -> m i j = m j i.

(** Voigt index of a pair of Cartesian indices: 11->1 22->2 33->3 23->4 13->5 12->6 *)
Definition vidx (i j : Z) : Z :=
  match i, j with
  | 1, 1 => 1 | 2, 2 => 2 | 3, 3 => 3
  | 2, 3 | 3, 2 => 4
  | 1, 3 | 3, 1 => 5
  | 1, 2 | 2, 1 => 6
  | _, _ => 0
  end%Z.

(** stiffness: C_ijkl = c_ab;  compliance: S_ijkl = s_ab / (1, 2 or 4) *)
Definition full4 (c : matR) (i j k l : Z) : R := c (vidx i j) (vidx k l).
Definition cfac (a : Z) : R := if (a <=? 3)%Z then 1 else 2.
Definition compl4 (s : matR) (i j k l : Z) : R :=
  s (vidx i j) (vidx k l) / (cfac (vidx i j) * cfac (vidx k l)).

Definition sum3 (f : Z -> R) : R := f 1%Z + f 2%Z + f 3%Z.
Definition contr_iijj (T : Z -> Z -> Z -> Z -> R) : R := sum3 (fun i => sum3 (fun j => T i i j j)).
Definition contr_ijij (T : Z -> Z -> Z -> Z -> R) : R := sum3 (fun i => sum3 (fun j => T i j i j)).

Ltac idx_lia := unfold idx; lia.
(** rewrite the lower triangle of a symmetric matrix into the upper one *)
Ltac upper H :=
  rewrite ?(H 2 1)%Z, ?(H 3 1)%Z, ?(H 3 2)%Z, ?(H 4 1)%Z, ?(H 4 2)%Z, ?(H 4 3)%Z,
          ?(H 5 1)%Z, ?(H 5 2)%Z, ?(H 5 3)%Z, ?(H 5 4)%Z,
          ?(H 6 1)%Z, ?(H 6 2)%Z, ?(H 6 3)%Z, ?(H 6 4)%Z, ?(H 6 5)%Z by idx_lia.
Ltac vrh_unfold :=
  unfold bulk_voigt, shear_voigt, bulk_reuss, shear_reuss, bulk_vrh, shear_vrh, two, three,
         contr_iijj, contr_ijij, sum3, full4, compl4, cfac; rops; cbn [vidx Z.leb Z.compare Pos.compare Pos.compare_cont].

Lemma voigt_is_contraction_l (c : matR) : msym c ->
  bulk_voigt c = contr_iijj (full4 c) / 9 /\
  shear_voigt c = (3 * contr_ijij (full4 c) - contr_iijj (full4 c)) / 30.
Proof.
  intros H. vrh_unfold. upper H. split; field.
Qed.

Lemma reuss_is_contraction_l (s : matR) : msym s ->
  bulk_reuss s = 1 / contr_iijj (compl4 s) /\
  shear_reuss s = 15 / (6 * contr_ijij (compl4 s) - 2 * contr_iijj (compl4 s)).
Proof.
  intros H. vrh_unfold. upper H. split; [apply (f_equal (Rdiv 1)) | apply (f_equal (Rdiv 15))]; field.
Qed.

Lemma hill_is_mean_l (c s : matR) :
  bulk_vrh c s = (bulk_voigt c + bulk_reuss s) / 2 /\
  shear_vrh c s = (shear_voigt c + shear_reuss s) / 2.
Proof. unfold bulk_vrh, shear_vrh, two; rops. split; field. Qed.

(* ====================================================================================== *)
(** * 3. velocities: rho v^2 = modulus, SI units *)

Lemma mass_value (M : R) : mass M = M * / 1000 / 6.02214076e23.
Proof. unfold mass, milli, N_A; rops. lra. Qed.

Lemma ry_codata_value : ry_codata (OF := ROps) = 2.1798723611035e-18 * 1e-6.
Proof. unfold ry_codata; rops. lra. Qed.

(** [ry] kg km^2 s^-2 per Ry;  rho = (mass per cell) / V  in kg / bohr^3 *)
Lemma velocity_relations_l (ry M V : R) (c s : matR) :
  0 < ry -> 0 < M -> 0 < V -> 0 <= shear_vrh c s -> 0 <= bulk_vrh c s + 4 / 3 * shear_vrh c s ->
  let rho := mass M / V in
  rho * (v_secondary ry M V c s)² = ry * shear_vrh c s /\
  rho * (v_primary ry M V c s)² = ry * (bulk_vrh c s + 4 / 3 * shear_vrh c s).
Proof.
  intros Hry HM HV HG HK rho. subst rho.
  assert (Hm : 0 < mass M) by (rewrite mass_value; apply Rdiv_lt_0_compat; lra).
  unfold v_secondary, v_primary; rops.
  set (G := shear_vrh c s) in *. set (K := bulk_vrh c s) in *.
  split; rewrite Rsqr_sqrt.
  - field; lra.
  - apply Rmult_le_pos; [|left; apply Rinv_0_lt_compat; exact Hm].
    apply Rmult_le_pos; [apply Rmult_le_pos|]; lra.
  - field; lra.
  - apply Rmult_le_pos; [|left; apply Rinv_0_lt_compat; exact Hm].
    apply Rmult_le_pos; [apply Rmult_le_pos|]; lra.
Qed.

(** the same in SI: with a0 the Bohr radius in m and ry = E_Ry[J] * 1e-6, the density in kg/m^3 times
    the squared velocity in m/s is the modulus in Pa, and rho = M[g/mol] * 1e-3 / (N_A V) *)
Lemma velocity_relations_SI_l (ryJ a0 M V : R) (c s : matR) :
  0 < ryJ -> 0 < a0 -> 0 < M -> 0 < V -> 0 <= shear_vrh c s -> 0 <= bulk_vrh c s + 4 / 3 * shear_vrh c s ->
  let ry := ryJ * 1e-6 in
  let rho := (M * 1e-3) / (6.02214076e23 * (V * a0 ^ 3)) in     (* kg / m^3 *)
  let pa := ryJ / a0 ^ 3 in                                     (* Pa per Ry/bohr^3 *)
  rho * (1000 * v_secondary ry M V c s)² = shear_vrh c s * pa /\
  rho * (1000 * v_primary ry M V c s)² = (bulk_vrh c s + 4 / 3 * shear_vrh c s) * pa.
Proof.
  intros HryJ Ha HM HV HG HK ry rho pa.
  assert (Hry : 0 < ry) by (unfold ry; lra).
  destruct (velocity_relations_l ry M V c s Hry HM HV HG HK) as [Hs Hp]. cbv zeta in Hs, Hp.
  rewrite mass_value in Hs, Hp.
  assert (Ha3 : 0 < a0 ^ 3) by (apply pow_lt; exact Ha).
  unfold rho, pa. unfold Rsqr in *. split.
  - transitivity ((M * / 1000 / 6.02214076e23 / V * (v_secondary ry M V c s * v_secondary ry M V c s))
                    * (1e6 / a0 ^ 3)); [field; lra|]. rewrite Hs. unfold ry. field. lra.
  - transitivity ((M * / 1000 / 6.02214076e23 / V * (v_primary ry M V c s * v_primary ry M V c s))
                    * (1e6 / a0 ^ 3)); [field; lra|]. rewrite Hp. unfold ry. field. lra.
Qed.
