(** C05 - lemmas over R about TotalModel.v: exactness of the static interpolation on cubics,
    unit round trip, total = static + phonon with the two independence statements, and the
    axial-strain lemmas (normalisation, scale invariance, proportional axes, axis tracking,
    equal thirds without lattice block). *)
From Coq Require Import Reals Lra Lia List Bool ZArith Arith.
From Cij Require Import Ops ROps PolyModel InterpModel StaticModel NonShearModel Voigt ShearModel TasksModel TotalModel.
From Cij Require Import Poly.
Import ListNotations.
Local Open Scope R_scope.

Ltac ropsT := cbn [zero one add sub mul div opp ofZ fexp fln fsqrt is0 fleb ROps two three] in *.

Notation eulerianR := (@eulerian R ROps).
Notation eulR := (@eul R ROps).
Notation fit_withR := (@fit_with R ROps).
Notation cert_okR := (@cert_ok R ROps).
Notation fit_modulus_withR := (@fit_modulus_with R ROps).
Notation raw_strainR := (@raw_strain R ROps).
Notation axial_strainsR := (@axial_strains R ROps).
Notation logdiffR := (@logdiff R ROps).
Notation normalise_rowR := (@normalise_row R ROps).
Notation columnR := (@column R ROps).
Notation sumlR := (@suml R ROps).

(* ------------------------------------------------------------------------------------ *)
(** * Units *)
Lemma gpa_roundtrip_l (g x : R) : g <> 0 -> to_gpa (OF:=ROps) g (from_gpa (OF:=ROps) g x) = x.
Proof. intros Hg. unfold to_gpa, from_gpa. ropsT. field. exact Hg. Qed.
Lemma gpa_roundtrip_inv_l (g x : R) : g <> 0 -> from_gpa (OF:=ROps) g (to_gpa (OF:=ROps) g x) = x.
Proof. intros Hg. unfold to_gpa, from_gpa. ropsT. field. exact Hg. Qed.

(** the CODATA-2018 factor: 1 Ry/bohr^3 = 14710.5078... GPa *)
Lemma lt_div_r a b c : 0 < c -> a * c < b -> a < b / c.
Proof. intros Hc H. apply (Rmult_lt_reg_r c); [exact Hc|]. unfold Rdiv. rewrite Rmult_assoc, Rinv_l by lra. lra. Qed.
Lemma lt_div_l a b c : 0 < c -> a < b * c -> a / c < b.
Proof. intros Hc H. apply (Rmult_lt_reg_r c); [exact Hc|]. unfold Rdiv. rewrite Rmult_assoc, Rinv_l by lra. lra. Qed.
Lemma gpa_codata_value_l : 14710.5078 < gpa_codata (OF:=ROps) < 14710.5079.
Proof.
  unfold gpa_codata, s_gpa_factor, s_bohr3, s_bohr_A, s_Ry_eV, s_e_1e19, ofQ'. ropsT.
  set (b := 529177210903 / 1000000000000).
  assert (B3 : 0 < b * b * b) by (unfold b; lra).
  split.
  - apply lt_div_r; [exact B3|]. unfold b. lra.
  - apply lt_div_l; [exact B3|]. unfold b. lra.
Qed.
Lemma gpa_codata_nonzero : gpa_codata (OF:=ROps) <> 0.
Proof. pose proof gpa_codata_value_l. lra. Qed.

(* ------------------------------------------------------------------------------------ *)
(** * The certificate at tolerance 0 is the system of normal equations *)
Lemma fabs_le0 (r m : R) : Rleb (fabs (OF:=ROps) r) (0 * m) = true -> r = 0.
Proof.
  unfold fabs. ropsT. intros H. apply Rleb_true in H. rewrite Rmult_0_l in H.
  destruct (Rleb 0 r) eqn:E.
  - apply Rleb_true in E. lra.
  - assert (~ 0 <= r) by (intros C; apply Rleb_true in C; congruence). lra.
Qed.
Lemma fabs_0 (m : R) : Rleb (fabs (OF:=ROps) 0) (0 * m) = true.
Proof.
  unfold fabs. ropsT. apply Rleb_true. rewrite Rmult_0_l.
  destruct (Rleb 0 0) eqn:E; [lra|]. lra.
Qed.

Lemma cert_ok_zero (deg : nat) (xs ys c : list R) :
  cert_okR 0 deg xs ys c = true <->
  length c = S deg /\ length xs = length ys /\ normal_eqs deg xs ys c.
Proof.
  unfold cert_ok. rewrite !andb_true_iff, !Nat.eqb_eq, forallb_forall. ropsT. split.
  - intros [[Lc Lx] H]. repeat split; try assumption.
    intros k Hk. apply (fabs_le0 _ (abs_moment (OF:=ROps) k xs ys)). apply H. apply in_seq. lia.
  - intros (Lc & Lx & H). repeat split; try assumption.
    intros k Hk. apply in_seq in Hk. rewrite H by lia. apply fabs_0.
Qed.

(* ------------------------------------------------------------------------------------ *)
(** * fit_exact_on_cubics *)
Lemma zipw_map_r {A B C} (f : A -> B -> C) (g : A -> B) l : zipw f l (map g l) = map (fun x => f x (g x)) l.
Proof. induction l as [|x l IH]; cbn [zipw map]; [reflexivity | rewrite IH; reflexivity]. Qed.

(** data c(V_i) = p(f_i)/V_i  with p a cubic in the Eulerian strain f, at least four distinct
    strains among the data: any coefficient vector that passes the certificate reproduces
    p(f(V))/V on EVERY volume of the grid *)
Lemma fit_exact_on_cubics_l :
  forall (vols varr q c out fs : list R),
    let v0 := nth 0 vols 0 in
    let ys := map (fun v => polyvalR q (eulerianR v0 v) / v) vols in
    length q = 4%nat ->
    Forall (fun v => v <> 0) vols ->
    NoDup fs -> incl fs (eulR v0 vols) -> (4 <= length fs)%nat ->
    fit_modulus_withR 0 c vols varr ys = Some out ->
    out = map (fun v => polyvalR q (eulerianR v0 v) / v) varr.
Proof.
  intros vols varr q c out fs v0 ys Lq NZ ND Inc L4 H.
  unfold fit_modulus_with in H. destruct (fit_cert (OF:=ROps) 0 c vols ys) eqn:E; [|discriminate].
  injection H as <-.
  unfold fit_cert in E. apply cert_ok_zero in E. destruct E as (Lc & _ & NE).
  change (s_nth (OF:=ROps) 0 vols) with v0 in NE.
  assert (Ey : zipw (mul (Ops:=ROps)) vols ys = map (polyvalR q) (eulR v0 vols)).
  { unfold ys, eul. rewrite zipw_map_r, map_map. apply map_ext_in. intros v Hv. ropsT.
    rewrite Forall_forall in NZ. field. apply NZ, Hv. }
  rewrite Ey in NE.
  pose proof (lsq_exact_fun 3 (eulR v0 vols) q c fs Lq Lc ND Inc ltac:(lia) NE) as EQ.
  unfold fit_with. change (s_nth (OF:=ROps) 0 vols) with v0. apply map_ext. intros v. rewrite EQ. reflexivity.
Qed.

(** the cubic's own coefficients pass the certificate: the hypotheses are satisfiable for every
    table of that form *)
Lemma fit_accepts_generating_cubic (vols varr q : list R) :
  let v0 := nth 0 vols 0 in
  length q = 4%nat -> Forall (fun v => v <> 0) vols ->
  fit_modulus_withR 0 q vols varr (map (fun v => polyvalR q (eulerianR v0 v) / v) vols)
  = Some (fit_withR q vols varr).
Proof.
  intros v0 Lq NZ. unfold fit_modulus_with.
  assert (E : fit_cert (OF:=ROps) 0 q vols (map (fun v => polyvalR q (eulerianR v0 v) / v) vols) = true).
  { unfold fit_cert. apply cert_ok_zero. change (s_nth (OF:=ROps) 0 vols) with v0.
    assert (Ey : zipw (mul (Ops:=ROps)) vols (map (fun v => polyvalR q (eulerianR v0 v) / v) vols)
                 = map (polyvalR q) (eulR v0 vols)).
    { unfold eul. rewrite zipw_map_r, map_map. apply map_ext_in. intros v Hv. ropsT.
      rewrite Forall_forall in NZ. field. apply NZ, Hv. }
    rewrite Ey. repeat split; [exact Lq | unfold eul; rewrite !map_length; reflexivity|].
    intros k _. unfold normal_resid. rewrite zipw_map_r, sum_rsum. apply rsum_zero. intros x. ropsT. ring. }
  rewrite E. reflexivity.
Qed.

(** Eulerian strain is injective on positive volumes, so distinct volumes give distinct strains *)
Lemma eulerian_inj (v0 v v' : R) : 0 < v0 -> 0 < v -> 0 < v' -> eulerianR v0 v = eulerianR v0 v' -> v = v'.
Proof.
  intros H0 Hv Hv' E. unfold eulerian, s_strain, s_pow23, ofQ' in E. ropsT.
  assert (E1 : exp (2 / 3 * ln (v0 / v)) = exp (2 / 3 * ln (v0 / v'))) by lra.
  apply exp_inv in E1.
  assert (E2 : ln (v0 / v) = ln (v0 / v')) by lra.
  apply ln_inv in E2; try (apply Rdiv_lt_0_compat; assumption).
  assert (E3 : v0 / v * (v * v') = v0 / v' * (v * v')) by (rewrite E2; reflexivity).
  field_simplify in E3; try lra.
  assert (v0 * v' = v0 * v) by lra. apply Rmult_eq_reg_l in H; lra.
Qed.
Lemma NoDup_map_inj_in' {A B} (f : A -> B) (l : list A) :
  (forall x y, In x l -> In y l -> f x = f y -> x = y) -> NoDup l -> NoDup (map f l).
Proof.
  intros Inj ND. induction ND as [|x l Hn ND IH]; cbn [map]; constructor.
  - intros Hin. apply in_map_iff in Hin. destruct Hin as (y & E & Hy).
    apply Hn. rewrite (Inj x y (or_introl eq_refl) (or_intror Hy) (eq_sym E)). exact Hy.
  - apply IH. intros a b Ha Hb. apply Inj; right; assumption.
Qed.
Lemma distinct_volumes_distinct_strains (v0 : R) (vs : list R) :
  0 < v0 -> Forall (fun v => 0 < v) vs -> NoDup vs -> NoDup (eulR v0 vs).
Proof.
  intros H0 P ND. unfold eul. apply NoDup_map_inj_in'; [|exact ND].
  rewrite Forall_forall in P. intros x y Hx Hy. apply eulerian_inj; auto.
Qed.

(** the same theorem with the hypothesis on the VOLUMES: at least four distinct positive ones *)
Lemma fit_exact_on_cubics_volumes_l :
  forall (vols varr q c out : list R),
    let v0 := nth 0 vols 0 in
    let ys := map (fun v => polyvalR q (eulerianR v0 v) / v) vols in
    length q = 4%nat ->
    Forall (fun v => 0 < v) vols -> NoDup vols -> (4 <= length vols)%nat ->
    fit_modulus_withR 0 c vols varr ys = Some out ->
    out = map (fun v => polyvalR q (eulerianR v0 v) / v) varr.
Proof.
  intros vols varr q c out v0 ys Lq P ND L4 H.
  assert (H0 : 0 < v0).
  { unfold v0. destruct vols as [|a t]; [cbn in L4; lia|]. cbn [nth]. inversion P; assumption. }
  apply (fit_exact_on_cubics_l vols varr q c out (eulR v0 vols)); try assumption.
  - eapply Forall_impl; [|exact P]. cbv beta. intros; lra.
  - apply distinct_volumes_distinct_strains; assumption.
  - apply incl_refl.
  - unfold eul. rewrite map_length. exact L4.
Qed.

(* ------------------------------------------------------------------------------------ *)
(** * total = static + phonon, and the two independence statements *)
Section Compose.
  Variables (tol : R) (fl : @files R) (orc : @oracle R).

  Lemma total_is_static_plus_phonon_l (adi : bool) (ti vi : nat) (key : vkey) (x : R) :
    total tol fl orc adi ti vi key = Some x <->
    exists st ph, static_part tol fl orc key = Some st /\
                  phonon_part tol fl orc (map fst (f_table fl)) adi ti vi key = Some ph /\
                  x = nth vi st 0 + ph.
  Proof.
    unfold total. split.
    - destruct (static_part tol fl orc key) as [st|]; [|discriminate].
      destruct (phonon_part tol fl orc (map fst (f_table fl)) adi ti vi key) as [ph|]; [|discriminate].
      intros H. injection H as <-. exists st, ph. repeat split.
    - intros (st & ph & -> & -> & ->). reflexivity.
  Qed.

  (** the static part has no temperature argument: at one volume, total minus phonon part is the
      same number at any two temperatures *)
  Lemma static_T_independent_l (adi : bool) (t1 t2 vi : nat) (key : vkey) (x1 x2 p1 p2 : R) :
    total tol fl orc adi t1 vi key = Some x1 -> total tol fl orc adi t2 vi key = Some x2 ->
    phonon_part tol fl orc (map fst (f_table fl)) adi t1 vi key = Some p1 ->
    phonon_part tol fl orc (map fst (f_table fl)) adi t2 vi key = Some p2 ->
    x1 - p1 = x2 - p2.
  Proof.
    intros H1 H2 P1 P2. apply total_is_static_plus_phonon_l in H1, H2.
    destruct H1 as (st & ph & S1 & Q1 & ->). destruct H2 as (st' & ph' & S2 & Q2 & ->).
    rewrite S1 in S2. injection S2 as <-. rewrite P1 in Q1. rewrite P2 in Q2.
    injection Q1 as <-. injection Q2 as <-. ropsT. ring.
  Qed.
End Compose.

(** replace the tabulated values (and the polyfit coefficients computed from them) *)
Definition with_table (fl : @files R) (tab : list (vkey * list R)) : @files R :=
  {| f_evols := f_evols fl; f_table := tab; f_lattice := f_lattice fl; f_qvols := f_qvols fl;
     f_energies := f_energies fl; f_weights := f_weights fl; f_na := f_na fl |}.
Definition with_cstat (orc : @oracle R) (cs : list (vkey * list R)) : @oracle R :=
  {| o_gpa := o_gpa orc; o_K := o_K orc; o_varr := o_varr orc; o_tarr := o_tarr orc; o_p := o_p orc;
     o_cv := o_cv orc; o_freq := o_freq orc; o_gam := o_gam orc; o_vdr := o_vdr orc; o_cstat := cs;
     o_clat := o_clat orc; o_cen := o_cen orc; o_eig := o_eig orc |}.

(** the phonon part sees the static table only through its key set *)
Lemma phonon_static_independent_l (tol : R) (fl : @files R) (orc : @oracle R)
      (tab1 tab2 cs1 cs2 : list (vkey * list R)) (adi : bool) (ti vi : nat) (key : vkey) :
  map fst tab1 = map fst tab2 ->
  phonon_part tol (with_table fl tab1) (with_cstat orc cs1) (map fst tab1) adi ti vi key =
  phonon_part tol (with_table fl tab2) (with_cstat orc cs2) (map fst tab2) adi ti vi key.
Proof. intros E. rewrite E. reflexivity. Qed.

(** ... hence: two runs whose tables have the same keys differ by the difference of the static parts *)
Lemma phonon_static_independent_totals_l (tol : R) (fl : @files R) (orc : @oracle R)
      (tab1 tab2 cs1 cs2 : list (vkey * list R)) (adi : bool) (ti vi : nat) (key : vkey)
      (x1 x2 : R) (st1 st2 : list R) :
  map fst tab1 = map fst tab2 ->
  total tol (with_table fl tab1) (with_cstat orc cs1) adi ti vi key = Some x1 ->
  total tol (with_table fl tab2) (with_cstat orc cs2) adi ti vi key = Some x2 ->
  static_part tol (with_table fl tab1) (with_cstat orc cs1) key = Some st1 ->
  static_part tol (with_table fl tab2) (with_cstat orc cs2) key = Some st2 ->
  x1 - nth vi st1 0 = x2 - nth vi st2 0.
Proof.
  intros E H1 H2 S1 S2. apply total_is_static_plus_phonon_l in H1, H2.
  destruct H1 as (s1 & p1 & S1' & P1 & ->). destruct H2 as (s2 & p2 & S2' & P2 & ->).
  rewrite S1 in S1'. injection S1' as <-. rewrite S2 in S2'. injection S2' as <-.
  cbn [f_table with_table] in P1, P2.
  rewrite (phonon_static_independent_l tol fl orc tab1 tab2 cs1 cs2 adi ti vi key E) in P1.
  rewrite P1 in P2. injection P2 as <-. ropsT. ring.
Qed.

(** the static part does not look at the temperature grid, the pressures, the heat capacity or
    the spectrum: two oracles that agree on the unit factor, the volume grid and the polyfit
    coefficients give the same static part *)
Lemma static_part_inputs_l (tol : R) (fl : @files R) (o1 o2 : @oracle R) (key : vkey) :
  o_gpa o1 = o_gpa o2 -> o_varr o1 = o_varr o2 -> o_cstat o1 = o_cstat o2 ->
  static_part tol fl o1 key = static_part tol fl o2 key.
Proof. intros E1 E2 E3. unfold static_part, static_of_col. rewrite E1, E2, E3. reflexivity. Qed.

(* ------------------------------------------------------------------------------------ *)
(** * Axial strains *)

Lemma fold_add_acc (l : list R) (a : R) : fold_left Rplus l a = a + fold_left Rplus l 0.
Proof.
  revert a. induction l as [|x l IH]; intros a; cbn [fold_left]; [ring|].
  rewrite (IH (a + x)), (IH (0 + x)). ring.
Qed.
Lemma suml_cons (x : R) (l : list R) : sumlR (x :: l) = x + sumlR l.
Proof. unfold suml. ropsT. cbn [fold_left]. rewrite fold_add_acc. ring. Qed.
Lemma suml_nil : sumlR [] = 0. Proof. reflexivity. Qed.
Lemma suml_div (s : R) (l : list R) : sumlR (map (fun x => x / s) l) = sumlR l / s.
Proof.
  induction l as [|x l IH]; cbn [map]; rewrite ?suml_cons, ?suml_nil; [unfold Rdiv; ring|].
  rewrite IH. unfold Rdiv. ring.
Qed.

(** each row sums to 1 when the un-normalised row sum is non-zero *)
Lemma normalise_row_sum_l (r : list R) : sumlR r <> 0 -> sumlR (normalise_rowR r) = 1.
Proof.
  intros H. unfold normalise_row. ropsT. rewrite (suml_div (sumlR r) r). field. exact H.
Qed.

Lemma axial_strains_normalised_l (tol : R) (cs : list (list R)) (vols varr : list R) (lat fr : list (list R)) :
  lat <> [] -> axial_strainsR tol cs vols varr lat = Some fr ->
  exists a b c,
    raw_strainR tol (nth 0 cs []) vols varr lat 0 = Some a /\
    raw_strainR tol (nth 1 cs []) vols varr lat 1 = Some b /\
    raw_strainR tol (nth 2 cs []) vols varr lat 2 = Some c /\
    fr = map normalise_rowR (rows_of3 a b c) /\
    forall r, In r (rows_of3 a b c) -> sumlR r <> 0 -> sumlR (normalise_rowR r) = 1.
Proof.
  intros NE H. unfold axial_strains in H. destruct lat as [|l0 lat']; [congruence|].
  destruct (raw_strainR tol (nth 0 cs []) vols varr (l0 :: lat') 0) as [a|]; [|discriminate].
  destruct (raw_strainR tol (nth 1 cs []) vols varr (l0 :: lat') 1) as [b|]; [|discriminate].
  destruct (raw_strainR tol (nth 2 cs []) vols varr (l0 :: lat') 2) as [c|]; [|discriminate].
  injection H as <-. exists a, b, c. repeat split. intros r _. apply normalise_row_sum_l.
Qed.

(** axis tracking: the un-normalised strain of axis i is a function of column i of the lattice block only *)
Lemma axial_strain_axis_tracking_l (tol : R) (c vols varr : list R) (lat lat' : list (list R)) (i : nat) :
  columnR i lat = columnR i lat' ->
  raw_strainR tol c vols varr lat i = raw_strainR tol c vols varr lat' i.
Proof. intros E. unfold raw_strain. rewrite E. reflexivity. Qed.

(** overwriting column j leaves every other column as it was *)
Definition set_col (j : nat) (vals : list R) (lat : list (list R)) : list (list R) :=
  zipw (fun r x => firstn j r ++ x :: skipn (S j) r) lat vals.
Lemma nth_set_other (j i : nat) (r : list R) (x : R) :
  i <> j -> (j < length r)%nat -> nth i (firstn j r ++ x :: skipn (S j) r) 0 = nth i r 0.
Proof.
  intros Hij Hj. destruct (lt_dec i j) as [L|L].
  - rewrite app_nth1 by (rewrite firstn_length; lia).
    rewrite <- (firstn_skipn j r) at 2. rewrite app_nth1 by (rewrite firstn_length; lia). reflexivity.
  - rewrite app_nth2 by (rewrite firstn_length; lia). rewrite firstn_length, Nat.min_l by lia.
    destruct (i - j)%nat as [|d] eqn:D; [lia|]. cbn [nth].
    rewrite <- (firstn_skipn (S j) r) at 2. rewrite app_nth2 by (rewrite firstn_length; lia).
    rewrite firstn_length, Nat.min_l by lia. f_equal. lia.
Qed.
Lemma column_set_col_other (i j : nat) (vals : list R) (lat : list (list R)) :
  i <> j -> length vals = length lat -> Forall (fun r => (j < length r)%nat) lat ->
  columnR i (set_col j vals lat) = columnR i lat.
Proof.
  intros Hij. revert vals. induction lat as [|r lat IH]; intros vals L W; [reflexivity|].
  destruct vals as [|x vals]; [discriminate|]. inversion W as [|? ? Wr Wl]; subst.
  unfold column, set_col in *. cbn [zipw map]. ropsT. rewrite nth_set_other by assumption.
  f_equal. apply IH; [cbn in L; lia | exact Wl].
Qed.
Lemma axial_strain_axis_tracking_set_l (tol : R) (c vols varr vals : list R) (lat : list (list R)) (i j : nat) :
  i <> j -> length vals = length lat -> Forall (fun r => (j < length r)%nat) lat ->
  raw_strainR tol c vols varr (set_col j vals lat) i = raw_strainR tol c vols varr lat i.
Proof. intros. apply axial_strain_axis_tracking_l. apply column_set_col_other; assumption. Qed.

(** no lattice block: rows of ones, which the task layer (TasksModel.col) turns into thirds *)
Lemma no_lattice_gives_thirds_l (tol : R) (cs : list (list R)) (vols varr : list R) :
  axial_strainsR tol cs vols varr [] = Some (ones_frame (OF:=ROps) varr) /\
  forall i, (i < 3)%nat -> col (OF:=ROps) i (ones_frame (OF:=ROps) varr) = map (fun _ => 1 / 3) varr.
Proof.
  split; [reflexivity|]. intros i Hi. unfold col, ones_frame. rewrite map_map. apply map_ext. intros _.
  unfold suml. cbn [fold_left]. ropsT.
  destruct i as [|[|[|i]]]; [| | |lia]; cbn [nth]; field.
Qed.

(* ------------------------------------------------------------------------------------ *)
(** * Uniqueness and homogeneity of the least-squares cubic; scaling of the lattice block *)

Lemma zipw_combine {A B C} (f : A -> B -> C) (a : list A) (b : list B) :
  zipw f a b = map (fun p => f (fst p) (snd p)) (combine a b).
Proof.
  revert b. induction a as [|x a IH]; intros [|y b]; cbn [zipw combine map]; try reflexivity.
  rewrite IH. reflexivity.
Qed.
Lemma combine_map_r {A B C} (g : B -> C) (a : list A) (b : list B) :
  combine a (map g b) = map (fun p => (fst p, g (snd p))) (combine a b).
Proof.
  revert b. induction a as [|x a IH]; intros [|y b]; cbn [combine map]; try reflexivity.
  rewrite IH. reflexivity.
Qed.
Lemma map_fst_combine {A B} (a : list A) (b : list B) : length a = length b -> map fst (combine a b) = a.
Proof.
  revert b. induction a as [|x a IH]; intros [|y b] L; cbn [combine map]; try reflexivity; try discriminate.
  cbn [fst]. rewrite IH; [reflexivity | cbn in L; lia].
Qed.
Lemma rsumA_lin {A} (f g : A -> R) (a : R) (l : list A) :
  rsum (map (fun x => a * f x + g x) l) = a * rsum (map f l) + rsum (map g l).
Proof. induction l as [|x l IH]; cbn [map rsum]; [ring | rewrite IH; ring]. Qed.
Lemma rsumA_ext {A} (f g : A -> R) (l : list A) : (forall x, f x = g x) -> rsum (map f l) = rsum (map g l).
Proof. intros H. induction l as [|x l IH]; cbn [map rsum]; [reflexivity | rewrite IH, H; reflexivity]. Qed.

Lemma polyval_zeros4 (x : R) : polyvalR [0; 0; 0; 0] x = 0.
Proof. unfold polyval. cbn [fold_left]. unfold horner. ropsT. ring. Qed.

(** if c solves the normal equations for y and c' those for s*y (four distinct abscissae),
    then p_c' = s * p_c as functions.  s = 1: the fitted cubic is unique. *)
Lemma lsq_unique_scaled (xs ys c c' fs : list R) (s : R) :
  length xs = length ys -> length c = 4%nat -> length c' = 4%nat ->
  NoDup fs -> incl fs xs -> (4 <= length fs)%nat ->
  normal_eqs 3 xs ys c -> normal_eqs 3 xs (map (Rmult s) ys) c' ->
  forall x, polyvalR c' x = s * polyvalR c x.
Proof.
  intros Lxy Lc Lc' ND Inc L4 NE NE'.
  set (d := zipw Rminus c' (map (Rmult s) c)).
  assert (Ld : length d = 4%nat) by (unfold d; rewrite zipw_length; rewrite ?map_length; congruence).
  assert (Dv : forall t, polyvalR d t = polyvalR c' t - s * polyvalR c t).
  { intros t. unfold d. rewrite !polyval_pv, pv_zipw_sub by (rewrite map_length; congruence).
    rewrite pv_map_mul. reflexivity. }
  assert (NE0 : normal_eqs 3 xs (map (polyvalR [0; 0; 0; 0]) xs) d).
  { intros k Hk. pose proof (NE k Hk) as N1. pose proof (NE' k Hk) as N2.
    unfold normal_resid in *. rewrite zipw_map_r, sum_rsum.
    rewrite zipw_combine, sum_rsum in N1. rewrite zipw_combine, combine_map_r, map_map, sum_rsum in N2.
    cbn [fst snd] in N2.
    rewrite <- (map_fst_combine xs ys Lxy) at 1. rewrite map_map.
    rewrite (rsumA_ext _ (fun p : R * R =>
               (- s) * (powN (OF:=ROps) (fst p) k * (polyvalR c (fst p) - snd p))
               + powN (OF:=ROps) (fst p) k * (polyvalR c' (fst p) - s * snd p))).
    - rewrite rsumA_lin. ropsT. rewrite N1, N2. ring.
    - intros p. rewrite Dv, polyval_zeros4. ropsT. ring. }
  intros x.
  pose proof (lsq_exact_fun 3 xs [0; 0; 0; 0] d fs eq_refl Ld ND Inc ltac:(lia) NE0 x) as E.
  rewrite Dv, polyval_zeros4 in E. lra.
Qed.

Lemma nth_map_mul (k : R) (l : list R) (j : nat) : nth j (map (Rmult k) l) 0 = k * nth j l 0.
Proof. rewrite <- (Rmult_0_r k) at 1. apply map_nth. Qed.
Lemma last_map_mul (k : R) (l : list R) : last (map (Rmult k) l) 0 = k * last l 0.
Proof.
  induction l as [|x l IH]; [cbn; ring|]. destruct l as [|y l]; [reflexivity|].
  change (last (map (Rmult k) (x :: y :: l)) 0) with (last (map (Rmult k) (y :: l)) 0).
  rewrite IH. reflexivity.
Qed.
Lemma pad_map_mul (k : R) (p : list R) :
  pad_edges (OF:=ROps) (map (Rmult k) p) = map (Rmult k) (pad_edges (OF:=ROps) p).
Proof.
  unfold pad_edges, s_nth. ropsT. cbn [map]. rewrite map_app. cbn [map].
  rewrite nth_map_mul, last_map_mul. reflexivity.
Qed.
Lemma Forall_nth_pos (l : list R) (j : nat) : Forall (fun x => 0 < x) l -> (j < length l)%nat -> 0 < nth j l 0.
Proof. intros H Hj. rewrite Forall_forall in H. apply H, nth_In, Hj. Qed.
Lemma last_In (l : list R) : l <> [] -> In (last l 0) l.
Proof.
  induction l as [|x l IH]; [congruence|]. intros _. destruct l as [|y l]; [left; reflexivity|].
  right. apply IH. discriminate.
Qed.
Lemma pad_pos (p : list R) : p <> [] -> Forall (fun x => 0 < x) p -> Forall (fun x => 0 < x) (pad_edges (OF:=ROps) p).
Proof.
  intros NE H. unfold pad_edges, s_nth. ropsT. rewrite Forall_forall in *. intros x [<-|Hx].
  - apply H. destruct p; [congruence | left; reflexivity].
  - apply in_app_or in Hx. destruct Hx as [Hx|[<-|[]]]; [apply H, Hx | apply H, last_In, NE].
Qed.
Lemma pad_length (p : list R) : length (pad_edges (OF:=ROps) p) = S (S (length p)).
Proof. unfold pad_edges. cbn [length]. rewrite app_length. cbn [length]. lia. Qed.

(** the logarithmic difference does not see a common positive factor *)
Lemma logdiff_scale (k : R) (p : list R) :
  0 < k -> Forall (fun x => 0 < x) p -> logdiffR (map (Rmult k) p) = logdiffR p.
Proof.
  intros Hk P. unfold logdiff. rewrite map_length, pad_map_mul. apply map_ext_in. intros j Hj.
  apply in_seq in Hj. unfold s_nth. ropsT. rewrite !nth_map_mul.
  assert (NEp : p <> []) by (destruct p; [cbn in Hj; lia | discriminate]).
  pose proof (pad_pos p NEp P) as PP.
  pose proof (Forall_nth_pos _ (j + 2) PP ltac:(rewrite pad_length; lia)) as H2.
  pose proof (Forall_nth_pos _ j PP ltac:(rewrite pad_length; lia)) as H0.
  set (hi := nth (j + 2) (pad_edges (OF:=ROps) p) 0) in *. set (lo := nth j (pad_edges (OF:=ROps) p) 0) in *.
  replace (k * hi - k * lo) with (k * (hi - lo)) by ring.
  replace (k * hi + k * lo) with (k * (hi + lo)) by ring.
  field. split; lra.
Qed.

Lemma zipw_mul_map (k : R) (a b : list R) :
  zipw (mul (Ops:=ROps)) a (map (Rmult k) b) = map (Rmult k) (zipw (mul (Ops:=ROps)) a b).
Proof.
  revert b. induction a as [|x a IH]; intros [|y b]; cbn [zipw map]; try reflexivity.
  rewrite IH. ropsT. f_equal. ring.
Qed.

(** two lattice columns that differ by a positive factor give the same un-normalised strain,
    whatever certified coefficient vectors the fitting routine returned for them *)
Lemma raw_strain_scaled (c c' vols varr a a' fs : list R) (lat lat' : list (list R)) (i i' : nat) (k : R) :
  0 < k ->
  columnR i' lat' = map (Rmult k) (columnR i lat) ->
  NoDup fs -> incl fs (eulR (nth 0 vols 0) vols) -> (4 <= length fs)%nat ->
  Forall (fun x => 0 < x) (fit_withR c vols varr) ->
  raw_strainR 0 c vols varr lat i = Some a -> raw_strainR 0 c' vols varr lat' i' = Some a' ->
  a' = a.
Proof.
  intros Hk Ecol ND Inc L4 P H H'.
  unfold raw_strain, fit_modulus_with in H, H'. rewrite Ecol in H'.
  destruct (fit_cert (OF:=ROps) 0 c vols (columnR i lat)) eqn:E; [|discriminate].
  destruct (fit_cert (OF:=ROps) 0 c' vols (map (Rmult k) (columnR i lat))) eqn:E'; [|discriminate].
  injection H as <-. injection H' as <-.
  unfold fit_cert in E, E'. apply cert_ok_zero in E, E'.
  destruct E as (Lc & Lx & NE). destruct E' as (Lc' & _ & NE').
  rewrite zipw_mul_map in NE'. change (s_nth (OF:=ROps) 0 vols) with (nth 0 vols 0) in *.
  pose proof (lsq_unique_scaled _ _ c c' fs k Lx Lc Lc' ND Inc L4 NE NE') as EQ.
  assert (F : fit_withR c' vols varr = map (Rmult k) (fit_withR c vols varr)).
  { unfold fit_with. rewrite map_map. apply map_ext. intros v. rewrite EQ. ropsT. unfold Rdiv. ring. }
  rewrite F. apply logdiff_scale; assumption.
Qed.

Lemma column_map_scale (k : R) (i : nat) (lat : list (list R)) :
  columnR i (map (map (Rmult k)) lat) = map (Rmult k) (columnR i lat).
Proof. unfold column. rewrite !map_map. apply map_ext. intros r. ropsT. apply nth_map_mul. Qed.

(** invariance under a common positive scaling of the three lattice parameters (change of length unit) *)
Lemma axial_strains_scale_invariant_l (cs cs' : list (list R)) (vols varr fs : list R)
      (lat fr fr' : list (list R)) (k : R) :
  0 < k -> lat <> [] ->
  NoDup fs -> incl fs (eulR (nth 0 vols 0) vols) -> (4 <= length fs)%nat ->
  (forall i, (i < 3)%nat -> Forall (fun x => 0 < x) (fit_withR (nth i cs []) vols varr)) ->
  axial_strainsR 0 cs vols varr lat = Some fr ->
  axial_strainsR 0 cs' vols varr (map (map (Rmult k)) lat) = Some fr' ->
  fr' = fr.
Proof.
  intros Hk NE ND Inc L4 P H H'.
  apply axial_strains_normalised_l in H; [|exact NE].
  apply axial_strains_normalised_l in H'; [|destruct lat; [congruence | discriminate]].
  destruct H as (a & b & c & Ha & Hb & Hc & -> & _). destruct H' as (a' & b' & c' & Ha' & Hb' & Hc' & -> & _).
  rewrite (raw_strain_scaled _ _ vols varr a a' fs lat _ 0 0 k Hk (column_map_scale k 0 lat) ND Inc L4 (P 0%nat ltac:(lia)) Ha Ha').
  rewrite (raw_strain_scaled _ _ vols varr b b' fs lat _ 1 1 k Hk (column_map_scale k 1 lat) ND Inc L4 (P 1%nat ltac:(lia)) Hb Hb').
  rewrite (raw_strain_scaled _ _ vols varr c c' fs lat _ 2 2 k Hk (column_map_scale k 2 lat) ND Inc L4 (P 2%nat ltac:(lia)) Hc Hc').
  reflexivity.
Qed.

Lemma rows_of3_same (a : list R) : @rows_of3 R a a a = map (fun x => [x; x; x]) a.
Proof.
  unfold rows_of3. induction a as [|x a IH]; [reflexivity|]. cbn [combine zipw map fst snd]. rewrite IH. reflexivity.
Qed.
Lemma normalise_thirds (x : R) : x <> 0 -> normalise_rowR [x; x; x] = [1 / 3; 1 / 3; 1 / 3].
Proof.
  intros H. unfold normalise_row, suml. cbn [map fold_left]. ropsT.
  assert (E : x / (0 + x + x + x) = 1 / 3) by (field; lra). rewrite E. reflexivity.
Qed.

(** proportional axes a_i(V) = k_i s(V): every row is (1/3, 1/3, 1/3) (where the strain is non-zero) *)
Lemma axial_strains_proportional_thirds_l (cs : list (list R)) (vols varr s fs : list R) (k1 k2 k3 : R)
      (fr : list (list R)) :
  0 < k1 -> 0 < k2 -> 0 < k3 -> s <> [] ->
  NoDup fs -> incl fs (eulR (nth 0 vols 0) vols) -> (4 <= length fs)%nat ->
  Forall (fun x => 0 < x) (fit_withR (nth 0 cs []) vols varr) ->
  axial_strainsR 0 cs vols varr (map (fun x => [k1 * x; k2 * x; k3 * x]) s) = Some fr ->
  exists a, fr = map (fun x => normalise_rowR [x; x; x]) a /\
            forall x, In x a -> x <> 0 -> normalise_rowR [x; x; x] = [1 / 3; 1 / 3; 1 / 3].
Proof.
  intros H1 H2 H3 NEs ND Inc L4 P H.
  set (lat := map (fun x => [k1 * x; k2 * x; k3 * x]) s) in *.
  apply axial_strains_normalised_l in H; [|unfold lat; destruct s; [congruence | discriminate]].
  destruct H as (a & b & c & Ha & Hb & Hc & -> & _).
  assert (C0 : columnR 0 lat = map (Rmult k1) s) by (unfold column, lat; rewrite map_map; reflexivity).
  assert (C1 : columnR 1 lat = map (Rmult (k2 / k1)) (columnR 0 lat)).
  { rewrite C0. unfold column, lat. rewrite !map_map. apply map_ext. intros x. cbn [nth]. field. lra. }
  assert (C2 : columnR 2 lat = map (Rmult (k3 / k1)) (columnR 0 lat)).
  { rewrite C0. unfold column, lat. rewrite !map_map. apply map_ext. intros x. cbn [nth]. field. lra. }
  assert (K2 : 0 < k2 / k1) by (apply Rdiv_lt_0_compat; assumption).
  assert (K3 : 0 < k3 / k1) by (apply Rdiv_lt_0_compat; assumption).
  rewrite (raw_strain_scaled _ _ vols varr a b fs lat lat 0 1 _ K2 C1 ND Inc L4 P Ha Hb).
  rewrite (raw_strain_scaled _ _ vols varr a c fs lat lat 0 2 _ K3 C2 ND Inc L4 P Ha Hc).
  exists a. split.
  - rewrite rows_of3_same, map_map. reflexivity.
  - intros x _. apply normalise_thirds.
Qed.

(* ------------------------------------------------------------------------------------ *)
(** * Non-vacuity *)
Example fit_exact_hyps_satisfiable :
  let vols := [4; 3; 2; 1] in let q := [1; 0; 2; 5] in let v0 := nth 0 vols 0 in
  length q = 4%nat /\ Forall (fun v => 0 < v) vols /\ NoDup vols /\ (4 <= length vols)%nat /\
  exists out, fit_modulus_withR 0 q vols [7 / 2; 5 / 2]
                (map (fun v => polyvalR q (eulerianR v0 v) / v) vols) = Some out.
Proof.
  cbv zeta. repeat split.
  - repeat constructor; lra.
  - repeat constructor; cbn [In]; intuition lra.
  - cbn; lia.
  - eexists. apply (fit_accepts_generating_cubic [4; 3; 2; 1] [7 / 2; 5 / 2] [1; 0; 2; 5] eq_refl).
    repeat constructor; lra.
Qed.

(** lattice block a_i(V) = k_i / V (so V a_i is a constant, trivially a cubic): all hypotheses of the
    proportional-axes and scale-invariance lemmas hold *)
Lemma polyval_const4 (a x : R) : polyvalR [0; 0; 0; a] x = a.
Proof. unfold polyval. cbn [fold_left]. unfold horner. ropsT. ring. Qed.
Example axial_hyps_satisfiable :
  let vols := [4; 3; 2; 1] in let varr := [7 / 2; 5 / 2; 3 / 2] in
  let lat := map (fun x => [5 * x; 6 * x; 7 * x]) [1 / 4; 1 / 3; 1 / 2; 1] in
  let cs := [[0; 0; 0; 5]; [0; 0; 0; 6]; [0; 0; 0; 7]] in
  NoDup (eulR (nth 0%nat vols 0) vols) /\ (4 <= length (eulR (nth 0%nat vols 0%R) vols))%nat /\
  (forall i, (i < 3)%nat -> Forall (fun x => 0 < x) (fit_withR (nth i cs []) vols varr)) /\
  exists fr, axial_strainsR 0 cs vols varr lat = Some fr.
Proof.
  cbv zeta. split; [|split; [|split]].
  - apply distinct_volumes_distinct_strains; [cbn; lra | repeat constructor; lra |
      repeat constructor; cbn [In]; intuition lra].
  - cbn; lia.
  - intros i Hi. destruct i as [|[|[|i]]]; [| | |lia]; cbn [nth]; unfold fit_with; cbn [map];
      rewrite !polyval_const4; ropsT; repeat constructor; lra.
  - assert (R : forall (i : nat) (a : R), 0 < a ->
        columnR i (map (fun x => [5 * x; 6 * x; 7 * x]) [1 / 4; 1 / 3; 1 / 2; 1]) = [a / 4; a / 3; a / 2; a / 1] ->
        exists s, raw_strainR 0 [0; 0; 0; a] [4; 3; 2; 1] [7 / 2; 5 / 2; 3 / 2]
                    (map (fun x => [5 * x; 6 * x; 7 * x]) [1 / 4; 1 / 3; 1 / 2; 1]) i = Some s).
    { intros i a Ha E. unfold raw_strain. rewrite E.
      pose proof (fit_accepts_generating_cubic [4; 3; 2; 1] [7 / 2; 5 / 2; 3 / 2] [0; 0; 0; a] eq_refl
                    ltac:(repeat constructor; lra)) as G.
      cbn [map] in G. rewrite !polyval_const4 in G. rewrite G. eexists. reflexivity. }
    destruct (R 0%nat 5 ltac:(lra)) as [a Ha]; [unfold column; cbn [map nth]; ropsT; repeat (apply f_equal2; [field|]); reflexivity|].
    destruct (R 1%nat 6 ltac:(lra)) as [b Hb]; [unfold column; cbn [map nth]; ropsT; repeat (apply f_equal2; [field|]); reflexivity|].
    destruct (R 2%nat 7 ltac:(lra)) as [c Hc]; [unfold column; cbn [map nth]; ropsT; repeat (apply f_equal2; [field|]); reflexivity|].
    unfold axial_strains. cbn [map nth] in *. rewrite Ha, Hb, Hc. eexists. reflexivity.
Qed.
