(** C11 - lemmas about PolyModel at the real instance: Horner = power form, numpy.polyder is the
    derivative (Coquelicot), polynomial arithmetic, root counting, least-squares exactness. *)
From Coq Require Import Reals ZArith List Lia Lra.
From Coquelicot Require Import Coquelicot.
From Cij Require Import Ops ROps PolyModel InterpModel.
Import ListNotations.
Local Open Scope R_scope.

Notation polyvalR := (@polyval R ROps).
Notation polyderR := (@polyder R ROps).
Notation poly_tripleR := (@poly_triple R ROps).

(** power form of a highest-first coefficient list *)
Fixpoint pv (p : list R) (x : R) : R :=
  match p with [] => 0 | c :: r => c * x ^ length r + pv r x end.

Lemma fold_horner p : forall a x, fold_left (@horner R ROps x) p a = a * x ^ length p + pv p x.
Proof.
  induction p as [|c r IH]; intros a x; cbn [fold_left pv length].
  - simpl; ring.
  - rewrite IH. unfold horner; rops. simpl pow. ring.
Qed.

Lemma polyval_pv p x : polyvalR p x = pv p x.
Proof. unfold polyval. rewrite fold_horner. rops. ring. Qed.

Lemma polyder_length (p : list R) : length (polyderR p) = pred (length p).
Proof.
  induction p as [|c r IH]; [reflexivity|].
  destruct r as [|c1 r']; [reflexivity|].
  cbn [polyder length] in *. rewrite IH. reflexivity.
Qed.

Lemma INR_ofZ n : @ofZ R ROps (Z.of_nat n) = INR n.
Proof. rops. symmetry. apply INR_IZR_INZ. Qed.

Lemma is_derive_monomial c n x : is_derive (fun t => c * t ^ n) x (INR n * c * x ^ pred n).
Proof. auto_derive; [exact I | ring]. Qed.

Lemma polyder_cons (c : R) (r : list R) :
  r <> [] -> polyderR (c :: r) = (INR (length r) * c) :: polyderR r.
Proof.
  destruct r as [|c1 r']; [congruence|]. intros _.
  change (polyderR (c :: c1 :: r')) with
    (@mul R ROps (@ofZ R ROps (Z.of_nat (length (c1 :: r')))) c :: polyderR (c1 :: r')).
  rewrite INR_ofZ. reflexivity.
Qed.

Lemma pv_polyder p x : is_derive (pv p) x (pv (polyderR p) x).
Proof.
  induction p as [|c r IH].
  - cbn [pv polyder]. apply (is_derive_const 0 x).
  - destruct r as [|c1 r'] eqn:Er.
    + cbn [pv polyder length]. auto_derive; [exact I | ring].
    + rewrite <- Er in *. rewrite polyder_cons by (rewrite Er; discriminate).
      cbn [pv]. rewrite polyder_length.
      exact (is_derive_plus (fun t => c * t ^ length r) (pv r) x _ _
               (is_derive_monomial c (length r) x) IH).
Qed.

(** numpy.polyder is the derivative of numpy.polyval, for every coefficient list *)
Lemma polyder_is_derive_l : forall (p : list R) (x : R),
  is_derive (polyvalR p) x (polyvalR (polyderR p) x).
Proof.
  intros p x. apply (is_derive_ext (pv p)); [intros t; symmetry; apply polyval_pv|].
  rewrite polyval_pv. apply pv_polyder.
Qed.

Lemma polyder_ext (p q : list R) :
  (forall x, polyvalR p x = polyvalR q x) -> forall x, polyvalR (polyderR p) x = polyvalR (polyderR q) x.
Proof.
  intros H x.
  rewrite <- (is_derive_unique _ _ _ (polyder_is_derive_l p x)).
  rewrite <- (is_derive_unique _ _ _ (polyder_is_derive_l q x)).
  apply Derive_ext, H.
Qed.

Lemma poly_triple_ext (p q : list R) :
  (forall x, polyvalR p x = polyvalR q x) -> forall x, poly_tripleR p x = poly_tripleR q x.
Proof.
  intros H x. unfold poly_triple.
  rewrite (H x), (polyder_ext p q H x), (polyder_ext _ _ (polyder_ext p q H) x). reflexivity.
Qed.

(** the triple of one coefficient list is consistent: gamma = - d ln(omega)/dx and the third
    component is d gamma/dx, x = ln V *)
Lemma triple_consistent_poly_l : forall (p : list R) (x : R),
  is_derive (fun t => ln (fst (fst (poly_tripleR p t)))) x (- snd (fst (poly_tripleR p x))) /\
  is_derive (fun t => snd (fst (poly_tripleR p t))) x (snd (poly_tripleR p x)).
Proof.
  intros p x. unfold poly_triple. cbn [fst snd]. rops. split.
  - rewrite Ropp_involutive.
    apply (is_derive_ext (polyvalR p)); [intros t; symmetry; apply ln_exp|].
    apply polyder_is_derive_l.
  - apply (is_derive_opp (polyvalR (polyderR p)) x).
    apply polyder_is_derive_l.
Qed.

(** ---- polynomial arithmetic ------------------------------------------------------------ *)
Lemma pv_app1 r c x : pv (r ++ [c]) x = pv r x * x + c.
Proof.
  induction r as [|a r IH]; cbn [app pv length].
  - simpl; ring.
  - rewrite IH, app_length. cbn [length]. rewrite Nat.add_1_r. simpl pow. ring.
Qed.
Lemma pv_map_mul a r x : pv (map (Rmult a) r) x = a * pv r x.
Proof.
  induction r as [|c r IH]; cbn [map pv length]; [ring|]. rewrite IH, map_length. ring.
Qed.
Lemma zipw_length {A B C} (f : A -> B -> C) u v : length u = length v -> length (zipw f u v) = length u.
Proof.
  revert v. induction u as [|a u IH]; intros [|b v] H; cbn in *; try discriminate; auto.
Qed.
Lemma pv_zipw_add u v x : length u = length v -> pv (zipw Rplus u v) x = pv u x + pv v x.
Proof.
  revert v. induction u as [|a u IH]; intros [|b v] H; cbn [zipw pv length] in *; try discriminate; [ring|].
  injection H as H. rewrite (IH v H), zipw_length, H by exact H. ring.
Qed.
Lemma pv_zipw_sub u v x : length u = length v -> pv (zipw Rminus u v) x = pv u x - pv v x.
Proof.
  revert v. induction u as [|a u IH]; intros [|b v] H; cbn [zipw pv length] in *; try discriminate; [ring|].
  injection H as H. rewrite (IH v H), zipw_length, H by exact H. ring.
Qed.

Lemma polyval_plin_step r al be c x :
  polyvalR (plin_step r al be c) x = polyvalR r x * (al * x + be) + c.
Proof.
  rewrite !polyval_pv. unfold plin_step. rops.
  rewrite pv_zipw_add by (rewrite app_length; cbn [length]; rewrite !map_length; lia).
  rewrite pv_app1. cbn [pv]. rewrite !pv_map_mul. ring.
Qed.

Lemma pv_zeros_app n l x : pv (repeat 0 n ++ l) x = pv l x.
Proof. induction n as [|n IH]; cbn [repeat app pv]; [reflexivity|]. rewrite IH. ring. Qed.

(** ---- synthetic division and root counting ---------------------------------------------- *)
Fixpoint syn (r b : R) (p : list R) : list R * R :=
  match p with
  | [] => ([], b)
  | c :: p' => let (q, rem) := syn r (b * r + c) p' in (b :: q, rem)
  end.
Lemma syn_length r p : forall b, length (fst (syn r b p)) = length p.
Proof.
  induction p as [|c p IH]; intros b; cbn [syn]; [reflexivity|].
  specialize (IH (b * r + c)). destruct (syn r (b * r + c) p). cbn [fst length] in *. congruence.
Qed.
Lemma syn_spec r p : forall b x,
  b * x ^ length p + pv p x = (x - r) * pv (fst (syn r b p)) x + snd (syn r b p).
Proof.
  induction p as [|c p IH]; intros b x; cbn [syn pv length].
  - cbn [fst snd pv]. simpl; ring.
  - specialize (IH (b * r + c) x). pose proof (syn_length r p (b * r + c)) as L.
    destruct (syn r (b * r + c) p) as [q rem]. cbn [fst snd pv] in *. rewrite L.
    simpl pow. lra.
Qed.

Lemma pv_roots_zero : forall n p, length p = n -> forall roots, NoDup roots -> (n <= length roots)%nat ->
  (forall r, In r roots -> pv p r = 0) -> forall x, pv p x = 0.
Proof.
  induction n as [|n IH]; intros p Lp roots ND Ln Hr x.
  - destruct p; [reflexivity | discriminate].
  - destruct p as [|c0 p']; [discriminate|]. injection Lp as Lp.
    destruct roots as [|r roots']; [cbn in Ln; lia|].
    apply NoDup_cons_iff in ND. destruct ND as [Hnin ND'].
    pose proof (syn_spec r p' c0) as S.
    pose proof (syn_length r p' c0) as L.
    assert (Rem : snd (syn r c0 p') = 0).
    { specialize (S r). replace (r - r) with 0 in S by ring. rewrite Rmult_0_l, Rplus_0_l in S.
      rewrite <- S. apply (Hr r). left; reflexivity. }
    assert (Q : forall t, pv (fst (syn r c0 p')) t = 0).
    { apply (IH _ (eq_trans L Lp) roots' ND'); [cbn in Ln; lia|].
      intros r' Hin. specialize (S r'). rewrite Rem, Rplus_0_r in S.
      assert (Z : pv (c0 :: p') r' = 0) by (apply Hr; right; exact Hin).
      cbn [pv] in Z. rewrite Z in S. symmetry in S.
      apply Rmult_integral in S. destruct S as [S|S]; [|exact S].
      exfalso. apply Hnin. replace r with r' by lra. exact Hin. }
    cbn [pv]. rewrite (S x), Rem, (Q x). ring.
Qed.

(** two coefficient lists of the same length that agree at more distinct points than their length
    allows agree everywhere (uniqueness of the interpolating polynomial) *)
Lemma poly_unique (p q : list R) (pts : list R) :
  length p = length q -> NoDup pts -> (length p <= length pts)%nat ->
  (forall t, In t pts -> polyvalR p t = polyvalR q t) -> forall x, polyvalR p x = polyvalR q x.
Proof.
  intros L ND Ln H x.
  assert (Z : pv (zipw Rminus p q) x = 0).
  { apply (pv_roots_zero (length p) _ (zipw_length _ _ _ L) pts ND Ln).
    intros t Ht. rewrite pv_zipw_sub by exact L. rewrite <- !polyval_pv, (H t Ht). ring. }
  rewrite pv_zipw_sub in Z by exact L. rewrite !polyval_pv. lra.
Qed.

(** ---- least squares: any solution of the normal equations reproduces polynomial data -------- *)
Lemma powN_pow (x : R) k : @powN R ROps x k = x ^ k.
Proof. induction k as [|k IH]; cbn [powN pow]; rops; [reflexivity | rewrite IH; reflexivity]. Qed.

Fixpoint rsum (l : list R) : R := match l with [] => 0 | x :: t => x + rsum t end.
Lemma sum_rsum l : @sum R ROps l = rsum l.
Proof. induction l as [|x t IH]; cbn [sum rsum]; rops; [reflexivity | rewrite IH; reflexivity]. Qed.
Lemma zipw_map_same {A B C} (f : A -> B -> C) (g : A -> B) l :
  zipw f l (map g l) = map (fun x => f x (g x)) l.
Proof. induction l as [|x l IH]; cbn [zipw map]; [reflexivity | rewrite IH; reflexivity]. Qed.
Lemma rsum_lin (f g : R -> R) a l :
  rsum (map (fun x => a * f x + g x) l) = a * rsum (map f l) + rsum (map g l).
Proof. induction l as [|x l IH]; cbn [map rsum]; [ring | rewrite IH; ring]. Qed.
Lemma rsum_ext (f g : R -> R) l : (forall x, f x = g x) -> rsum (map f l) = rsum (map g l).
Proof. intros H. induction l as [|x l IH]; cbn [map rsum]; [reflexivity | rewrite IH, H; reflexivity]. Qed.
Lemma rsum_zero (f : R -> R) l : (forall x, f x = 0) -> rsum (map f l) = 0.
Proof. intros H. induction l as [|x l IH]; cbn [map rsum]; [reflexivity | rewrite IH, H; ring]. Qed.
Lemma rsum_sq_nonneg (f : R -> R) l : 0 <= rsum (map (fun x => f x * f x) l).
Proof. induction l as [|x l IH]; cbn [map rsum]; [lra | pose proof (Rle_0_sqr (f x)) as S; unfold Rsqr in S; lra]. Qed.
Lemma rsum_sq_zero (f : R -> R) l :
  rsum (map (fun x => f x * f x) l) = 0 -> forall x, In x l -> f x = 0.
Proof.
  induction l as [|y l IH]; cbn [map rsum]; intros H x Hin; [destruct Hin|].
  pose proof (rsum_sq_nonneg f l) as N. pose proof (Rle_0_sqr (f y)) as S. unfold Rsqr in S.
  assert (Hy : f y * f y = 0) by lra.
  destruct Hin as [<-|Hin].
  - apply Rmult_integral in Hy. destruct Hy; assumption.
  - apply IH; [lra | exact Hin].
Qed.

(** the normal equations  A^T (A c - y) = 0  of the Vandermonde system with columns x^order..x^0 *)
Definition normal_eqs (order : nat) (xs ys c : list R) : Prop :=
  forall k, (k <= order)%nat -> @normal_resid R ROps k xs ys c = 0.

Lemma lsq_exact_fun (order : nat) (xs q c roots : list R) :
  length q = S order -> length c = S order ->
  NoDup roots -> incl roots xs -> (order < length roots)%nat ->
  normal_eqs order xs (map (polyvalR q) xs) c ->
  forall x, polyvalR c x = polyvalR q x.
Proof.
  intros Lq Lc ND Inc Ln NE.
  set (d := zipw Rminus c q).
  assert (Ld : length d = S order) by (unfold d; rewrite zipw_length; congruence).
  assert (Dv : forall t, pv d t = polyvalR c t - polyvalR q t).
  { intros t. unfold d. rewrite pv_zipw_sub by congruence. rewrite !polyval_pv. reflexivity. }
  (* the normal equations in terms of d *)
  assert (NE' : forall k, (k <= order)%nat -> rsum (map (fun t => t ^ k * pv d t) xs) = 0).
  { intros k Hk. specialize (NE k Hk). unfold normal_resid in NE.
    rewrite zipw_map_same, sum_rsum in NE. etransitivity; [|exact NE]. apply rsum_ext. intros t.
    rewrite Dv. rops. f_equal. }
  (* every polynomial of degree <= order is orthogonal to the residual *)
  assert (Orth : forall e, (length e <= S order)%nat -> rsum (map (fun t => pv e t * pv d t) xs) = 0).
  { induction e as [|a e IH]; intros Le.
    - apply rsum_zero. intros t. cbn [pv]. ring.
    - rewrite (rsum_ext _ (fun t => a * (t ^ length e * pv d t) + pv e t * pv d t))
        by (intros t; cbn [pv]; ring).
      rewrite rsum_lin, NE', IH by (cbn [length] in Le; lia). ring. }
  assert (Z : forall t, In t xs -> pv d t = 0).
  { apply rsum_sq_zero. apply Orth. lia. }
  intros x.
  assert (Zx : pv d x = 0).
  { apply (pv_roots_zero (S order) d Ld roots ND); [lia|]. intros r Hr. apply Z, Inc, Hr. }
  rewrite Dv in Zx. lra.
Qed.
