(** C15 - lemmas about the ResultsWriter model that hold for EVERY rule table.
    The statements about the packaged table are re-proved per run in props/Prop_C15.v
    against the regenerated Gen_rules.v. *)
From Coq Require Import String Ascii List Bool ZArith QArith Lia.
From Cij Require Import RulesModel.
Import ListNotations.
Local Open Scope string_scope.

(* ---------- strings, membership, NoDup ------------------------------------------------ *)
Lemma smem_In s l : smem s l = true <-> In s l.
Proof.
  induction l as [|x r IH]; cbn; [split; [discriminate | tauto]|].
  rewrite orb_true_iff, IH, String.eqb_eq. split; intros [H|H]; auto.
Qed.
Lemma smem_false s l : smem s l = false <-> ~ In s l.
Proof. rewrite <- smem_In. destruct (smem s l); split; congruence. Qed.

Fixpoint nodupb (l : list string) : bool :=
  match l with [] => true | x :: r => negb (smem x r) && nodupb r end.
Lemma nodupb_NoDup l : nodupb l = true <-> NoDup l.
Proof.
  induction l as [|x r IH]; cbn.
  - split; [constructor | reflexivity].
  - rewrite andb_true_iff, negb_true_iff, smem_false, IH. split.
    + intros [H1 H2]; constructor; assumption.
    + intros H; inversion H; auto.
Qed.

Lemma slist_eqb_eq a b : slist_eqb a b = true <-> a = b.
Proof.
  revert b; induction a as [|x a IH]; destruct b as [|y b]; cbn; try (split; congruence).
  rewrite andb_true_iff, String.eqb_eq, IH. split; [intros [-> ->]; reflexivity | intros H; inversion H; auto].
Qed.
Lemma vt_eqb_eq a b : vt_eqb a b = true <-> a = b.
Proof. destruct a, b; cbn; split; congruence. Qed.
Lemma rule_eqb_eq a b : rule_eqb a b = true <-> a = b.
Proof.
  destruct a, b; unfold rule_eqb; cbn.
  rewrite !andb_true_iff, slist_eqb_eq, !String.eqb_eq, vt_eqb_eq. split.
  - intros [[[[[-> ->] ->] ->] ->] ->]; reflexivity.
  - intros H; inversion H; subst; repeat split.
Qed.

(* ---------- the dict model -------------------------------------------------------------- *)
Lemma dget_upsert {A} k k' (v : A) d :
  dget k (upsert k' v d) = if k =? k' then Some v else dget k d.
Proof.
  induction d as [|[k0 v0] r IH]; cbn.
  - reflexivity.
  - destruct (k' =? k0) eqn:E; cbn.
    + apply String.eqb_eq in E; subst k0. destruct (k =? k'); reflexivity.
    + destruct (k =? k0) eqn:E2.
      * apply String.eqb_eq in E2; subst k0.
        destruct (k =? k') eqn:E3; [|reflexivity].
        apply String.eqb_eq in E3; subst k'. rewrite String.eqb_refl in E; discriminate.
      * exact IH.
Qed.

Lemma dget_add_rule k reg r :
  dget k (add_rule reg r) = if smem k (r_keywords r) then Some r else dget k reg.
Proof.
  unfold add_rule. generalize (r_keywords r) as kws. intros kws. revert reg.
  induction kws as [|x kws IH]; intros reg; cbn; [reflexivity|].
  rewrite IH, dget_upsert. destruct (smem k kws); [rewrite orb_true_r; reflexivity|].
  rewrite orb_false_r. reflexivity.
Qed.

Lemma dget_fold_rules k rules reg :
  dget k (fold_left add_rule rules reg) =
  match lookup_last rules k with Some r => Some r | None => dget k reg end.
Proof.
  revert reg; induction rules as [|r t IH]; intros reg; cbn; [reflexivity|].
  rewrite IH. destruct (lookup_last t k); [reflexivity|].
  rewrite dget_add_rule. destruct (smem k (r_keywords r)); reflexivity.
Qed.

(** the registry built by _init_rules answers with the LAST rule listing the keyword *)
Lemma lookup_is_last rules k : lookup rules k = lookup_last rules k.
Proof.
  unfold lookup, registry. rewrite dget_fold_rules. destruct (lookup_last rules k); reflexivity.
Qed.

Lemma lookup_last_sound rules k r :
  lookup_last rules k = Some r -> In r rules /\ In k (r_keywords r).
Proof.
  induction rules as [|r0 t IH]; cbn; [discriminate|].
  destruct (lookup_last t k) as [r'|].
  - intros H; inversion H; subst. destruct (IH eq_refl); auto.
  - destruct (smem k (r_keywords r0)) eqn:E; [|discriminate].
    intros H; inversion H; subst. apply smem_In in E. auto.
Qed.

Lemma NoDup_app_tail {A} (a b : list A) : NoDup (a ++ b) -> NoDup b.
Proof. induction a as [|x a IH]; cbn; [auto|]. intros H; inversion H; auto. Qed.

(** if no keyword is listed twice, every keyword of every rule resolves to that rule *)
Lemma aliases_same_rule_general rules :
  NoDup (flat_map r_keywords rules) ->
  forall r k, In r rules -> In k (r_keywords r) -> lookup rules k = Some r.
Proof.
  intros ND r k Hr Hk. rewrite lookup_is_last.
  induction rules as [|r0 t IH]; [contradiction|].
  cbn in ND. cbn.
  assert (NDt : NoDup (flat_map r_keywords t)) by (apply NoDup_app_tail in ND; exact ND).
  destruct Hr as [->|Hr].
  - destruct (lookup_last t k) as [r'|] eqn:E.
    + exfalso. apply lookup_last_sound in E. destruct E as [E1 E2].
      assert (Hin : In k (flat_map r_keywords t)) by (apply in_flat_map; exists r'; auto).
      clear - ND Hk Hin. induction (r_keywords r) as [|x l IHl]; [contradiction|].
      cbn in ND. inversion ND as [|? ? Hn ND']; subst. destruct Hk as [->|Hk].
      * apply Hn, in_or_app; right; exact Hin.
      * apply IHl; assumption.
    + apply smem_In in Hk. rewrite Hk. reflexivity.
  - rewrite (IH NDt Hr). reflexivity.
Qed.

(** and conversely a keyword listed by two different rules silently resolves to the later one *)
Lemma duplicate_keyword_later_wins r1 r2 k :
  In k (r_keywords r2) -> lookup [r1; r2] k = Some r2.
Proof.
  intros H. rewrite lookup_is_last. cbn. apply smem_In in H. rewrite H. reflexivity.
Qed.

(* ---------- overrides ------------------------------------------------------------------- *)
Lemma omap_all_const {A B} (g : A -> B) (l : list A) :
  omap_all (fun k => Some (g k)) l = Some (map g l).
Proof. induction l as [|x r IH]; cbn; [reflexivity | rewrite IH; reflexivity]. Qed.

(** a user-supplied fname / unit / unit_internal replaces the rule's, for both kinds of rule *)
Lemma write_rule_override r base keys f u ui :
  write_rule r base keys (mkCfg (Some f) u ui) =
  Some (match r_vt r with
        | VValue => [mkOut f (r_prop r) (odefault ui (r_unit_internal r)) (odefault u (r_unit r)) None]
        | VIjValue => map (fun k => mkOut f (r_prop r) (odefault ui (r_unit_internal r)) (odefault u (r_unit r)) (Some k)) keys
        end).
Proof.
  unfold write_rule, fname_value, fname_ij; cbn [c_fname c_unit c_unit_internal].
  destruct (r_vt r); cbn [option_map]; [reflexivity|].
  apply (omap_all_const (fun k => mkOut f (r_prop r) (odefault ui (r_unit_internal r)) (odefault u (r_unit r)) (Some k))).
Qed.

(** a unit override alone leaves the name to the pattern and only replaces the target unit *)
Lemma write_rule_unit_override r base u :
  r_vt r = VValue ->
  write_rule r base [] (mkCfg None (Some u) None) =
  option_map (fun f => [mkOut f (r_prop r) (r_unit_internal r) u None]) (format (r_pattern r) [("base", base)]).
Proof. intros H. unfold write_rule, fname_value; rewrite H; reflexivity. Qed.

Lemma last_cons {A} (x : A) l d : last (x :: l) d = last l x.
Proof.
  revert x d; induction l as [|y l IH]; intros x d; [reflexivity|].
  change (last (x :: y :: l) d) with (last (y :: l) d). rewrite (IH y d), (IH y x). reflexivity.
Qed.

(** calls that all go to one file name leave exactly one file: the content of the LAST call *)
Lemma files_after_same_name f (outs : list out) (o0 : out) :
  (forall o, In o (o0 :: outs) -> o_fname o = f) ->
  fold_left (fun d o => upsert (o_fname o) o d) outs [(f, o0)] = [(f, last outs o0)].
Proof.
  revert o0; induction outs as [|o t IH]; intros o0 H; [reflexivity|].
  cbn [fold_left]. rewrite (H o) by (right; left; reflexivity). cbn [upsert].
  rewrite String.eqb_refl. rewrite IH.
  - rewrite last_cons. reflexivity.
  - intros o' [<-|Hin]; apply H; [right; left; reflexivity | right; right; exact Hin].
Qed.

Lemma override_ij_single_file r base k0 keys f u ui :
  r_vt r = VIjValue ->
  exists outs, write_rule r base (k0 :: keys) (mkCfg (Some f) u ui) = Some outs /\
    length outs = S (length keys) /\
    files_after outs = [(f, mkOut f (r_prop r) (odefault ui (r_unit_internal r)) (odefault u (r_unit r))
                              (Some (last keys k0)))].
Proof.
  intros Hvt. rewrite write_rule_override, Hvt. eexists; split; [reflexivity|]. split.
  - cbn. rewrite map_length. reflexivity.
  - unfold files_after. cbn [map fold_left upsert o_fname].
    rewrite files_after_same_name.
    + f_equal. f_equal. clear. revert k0. induction keys as [|k t IH]; intros k0; [reflexivity|].
      cbn [map]. rewrite !last_cons. apply (IH k).
    + intros o [<-|Hin]; [reflexivity|]. apply in_map_iff in Hin. destruct Hin as [k [<- _]]. reflexivity.
Qed.

(* ---------- unit factors (closed computations on the CODATA rationals) --------------------- *)
Lemma factor_ry_bohr3_to_gpa :
  exists q, unit_factor "rydberg / bohr ^ 3" "GPa" = Some q /\
    (147105078781 # 10000000 < q)%Q /\ (q < 147105078782 # 10000000)%Q /\
    q == (rydberg_J / (bohr_m * bohr_m * bohr_m)) / pow10 9.
Proof.
  eexists; split; [vm_compute; reflexivity|]. split; [vm_compute; reflexivity|]. split; [vm_compute; reflexivity|].
  vm_compute; reflexivity.
Qed.
Lemma factor_bohr3_to_ang3 :
  exists q, unit_factor "bohr^3" "angstrom^3" = Some q /\
    (148184711170 # 1000000000000 < q)%Q /\ (q < 148184711171 # 1000000000000)%Q /\
    q == (bohr_m * bohr_m * bohr_m) * pow10 30.
Proof.
  eexists; split; [vm_compute; reflexivity|]. split; [vm_compute; reflexivity|]. split; [vm_compute; reflexivity|].
  vm_compute; reflexivity.
Qed.
Lemma factor_kms_identity : unit_factor "km/s" "km/s" = Some 1%Q.
Proof. vm_compute; reflexivity. Qed.
Lemma factor_blank_insensitive :
  unit_factor "rydberg / bohr^3" "GPa" = unit_factor "rydberg / bohr ^ 3" "GPa".
Proof. vm_compute; reflexivity. Qed.
Lemma factor_dimension_mismatch : unit_factor "bohr^3" "GPa" = None.
Proof. vm_compute; reflexivity. Qed.

(* ---------- the pattern substitution in general ------------------------------------------ *)
Local Open Scope string_scope.
Fixpoint nobrace (s : string) : bool :=
  match s with
  | EmptyString => true
  | String c r => negb (Ascii.eqb c lbrace) && negb (Ascii.eqb c rbrace) && nobrace r
  end.

Lemma sapp_nil_r s : s ++ "" = s.
Proof. induction s as [|c s IH]; cbn; [reflexivity | rewrite IH; reflexivity]. Qed.
Lemma sapp_assoc a b c : (a ++ b) ++ c = a ++ (b ++ c).
Proof. induction a as [|x a IH]; cbn; [reflexivity | rewrite IH; reflexivity]. Qed.
Lemma sapp_cancel_l a x y : a ++ x = a ++ y -> x = y.
Proof. induction a as [|c a IH]; cbn; [auto | intros H; inversion H; auto]. Qed.
Lemma sapp_split_same_length a b x y :
  String.length a = String.length b -> a ++ x = b ++ y -> a = b /\ x = y.
Proof.
  revert b; induction a as [|c a IH]; destruct b as [|d b]; cbn; intros HL H; try discriminate.
  - split; [reflexivity | exact H].
  - inversion H; subst. destruct (IH b) as [-> ->]; [lia | assumption | split; reflexivity].
Qed.

(** literal text is copied *)
Lemma fmt_literal env s rest :
  nobrace s = true -> fmt env (s ++ rest) None = option_map (append s) (fmt env rest None).
Proof.
  induction s as [|c s IH]; cbn [nobrace append]; intros H.
  - destruct (fmt env rest None); reflexivity.
  - rewrite !andb_true_iff, !negb_true_iff in H. destruct H as [[H1 H2] H3].
    cbn [fmt]. rewrite H1, H2, (IH H3). destruct (fmt env rest None); reflexivity.
Qed.
(** a replacement field is replaced by the value bound to its name (KeyError = None otherwise) *)
Lemma fmt_field env name acc rest :
  nobrace name = true ->
  fmt env (name ++ String rbrace rest) (Some acc) =
  match dget (acc ++ name) env with
  | Some v => option_map (append v) (fmt env rest None)
  | None => None
  end.
Proof.
  revert acc; induction name as [|c name IH]; intros acc H.
  - cbn [append fmt]. replace (Ascii.eqb rbrace rbrace) with true by reflexivity. rewrite sapp_nil_r. reflexivity.
  - cbn [nobrace] in H. rewrite !andb_true_iff, !negb_true_iff in H. destruct H as [[H1 H2] H3].
    cbn [append fmt]. rewrite H1, H2, (IH _ H3), sapp_assoc. reflexivity.
Qed.

(** str.format on any pattern  l0 {n1} l1 {n2} l2  (the shape of every component-wise rule) *)
Lemma format_two_fields env l0 n1 l1 n2 l2 v1 v2 :
  nobrace l0 = true -> nobrace n1 = true -> nobrace l1 = true -> nobrace n2 = true -> nobrace l2 = true ->
  dget n1 env = Some v1 -> dget n2 env = Some v2 ->
  format (l0 ++ String lbrace (n1 ++ String rbrace (l1 ++ String lbrace (n2 ++ String rbrace l2)))) env =
  Some (l0 ++ v1 ++ l1 ++ v2 ++ l2).
Proof.
  intros H0 H1 H2 H3 H4 E1 E2. unfold format.
  rewrite (fmt_literal env l0 _ H0). cbn [fmt]. replace (Ascii.eqb lbrace lbrace) with true by reflexivity.
  rewrite (fmt_field env n1 "" _ H1). cbn [append]. rewrite E1.
  rewrite (fmt_literal env l1 _ H2). cbn [fmt]. replace (Ascii.eqb lbrace lbrace) with true by reflexivity.
  rewrite (fmt_field env n2 "" _ H3). cbn [append]. rewrite E2.
  rewrite <- (sapp_nil_r l2) at 1. rewrite (fmt_literal env l2 "" H4). cbn [fmt option_map].
  rewrite sapp_nil_r. reflexivity.
Qed.

(** ... and it is injective in the field values as long as the values of the FIRST field have equal length
    (component labels "ij" are always two digits): distinct (component, base) never share a file name *)
Lemma two_field_pattern_injective l0 l1 l2 v1 v2 w1 w2 :
  String.length v1 = String.length w1 ->
  l0 ++ v1 ++ l1 ++ v2 ++ l2 = l0 ++ w1 ++ l1 ++ w2 ++ l2 ->
  String.length v2 = String.length w2 ->
  v1 = w1 /\ v2 = w2.
Proof.
  intros L1 H L2. apply sapp_cancel_l in H. apply sapp_split_same_length in H; [|exact L1].
  destruct H as [-> H]. apply sapp_cancel_l in H. apply sapp_split_same_length in H; [|exact L2].
  destruct H as [-> _]. split; reflexivity.
Qed.
