(** C07 - Reuss <= Hill <= Voigt for every symmetric positive definite stiffness.

    Generalised Cauchy-Schwarz in the C-inner product: for S C = I, C symmetric positive
    semi-definite, every e, g and every real t
        0 <= g.Sg - 2 t (e.g) + t^2 (e.Ce)            (the square of  S^T g - t e  in the C-form)
    applied to e = g = (1,1,1,0,0,0) for the bulk modulus and summed over an explicit orthogonal
    basis of the 5-dimensional deviatoric space (strain-Voigt vectors e_k carry the factor 2 on
    shear components, stress-Voigt vectors g_k do not; e_k.g_k = N_k = E_k:E_k) for the shear modulus. *)
From Coq Require Import Reals ZArith List Bool Lia Lra.
From Cij Require Import Ops ROps VRHModel VRH.
Local Open Scope R_scope.

Notation vec := (Z -> R) (only parsing).
Notation matR := (Z -> Z -> R) (only parsing).

Definition dot6 (x y : vec) : R := sum6 (fun i => x i * y i).
Definition mv (m : matR) (x : vec) : vec := fun i => sum6 (fun j => m i j * x j).
Definition mtv (m : matR) (x : vec) : vec := fun i => sum6 (fun j => m j i * x j).
Definition quad (m : matR) (x : vec) : R := dot6 x (mv m x).

Definition posdef (m : matR) : Prop := forall x : vec, (exists i, idx i /\ x i <> 0) -> 0 < quad m x.
(** S C = I on the Voigt range, in the model's own matrix product *)
Definition left_inverse (s c : matR) : Prop :=
  forall i j, idx i -> idx j -> mmul s c i j = delta i j.

Ltac ur := cbv beta iota delta [sum6 mmul delta add mul sub zero one ROps dot6 mv mtv quad].

Lemma idx_cases i : idx i -> (i = 1 \/ i = 2 \/ i = 3 \/ i = 4 \/ i = 5 \/ i = 6)%Z.
Proof. unfold idx; lia. Qed.

Lemma sum6_ext (f g : Z -> R) : (forall i, idx i -> f i = g i) -> sum6 f = sum6 g.
Proof. intros H. ur. rewrite !H by idx_lia. reflexivity. Qed.

Lemma sum6_swap (f : Z -> Z -> R) :
  sum6 (fun i => sum6 (fun j => f i j)) = sum6 (fun j => sum6 (fun i => f i j)).
Proof. ur. ring. Qed.

Lemma sum6_delta_r (f : Z -> R) j : idx j -> sum6 (fun l => f l * delta l j) = f j.
Proof.
  intros Hj. destruct (idx_cases j Hj) as [->|[->|[->|[->|[->| ->]]]]]; ur; cbn [Z.eqb Pos.eqb]; ring.
Qed.

Lemma sum6_delta_l (f : Z -> R) i : idx i -> sum6 (fun k => delta i k * f k) = f i.
Proof.
  intros Hi. destruct (idx_cases i Hi) as [->|[->|[->|[->|[->| ->]]]]]; ur; cbn [Z.eqb Pos.eqb]; ring.
Qed.

(** ** the left inverse of a symmetric matrix is symmetric *)
Lemma inverse_symmetric (c s : matR) : msym c -> left_inverse s c -> msym s.
Proof.
  intros Hc Hinv i j Hi Hj.
  rewrite <- (sum6_delta_r (fun l => s i l) j Hj).
  transitivity (sum6 (fun l => s i l * sum6 (fun k => c l k * s j k))).
  { apply sum6_ext. intros l Hl. f_equal.
    transitivity (delta j l).
    - unfold delta. rewrite Z.eqb_sym. reflexivity.
    - rewrite <- (Hinv j l Hj Hl). unfold mmul. apply sum6_ext. intros k Hk.
      rewrite (Hc l k Hl Hk). ur. ring. }
  transitivity (sum6 (fun k => sum6 (fun l => s i l * c l k) * s j k)).
  { transitivity (sum6 (fun l => sum6 (fun k => s i l * (c l k * s j k)))).
    - apply sum6_ext. intros l Hl. ur. ring.
    - rewrite sum6_swap. apply sum6_ext. intros k Hk. ur. ring. }
  transitivity (sum6 (fun k => delta i k * s j k)).
  { apply sum6_ext. intros k Hk. f_equal. exact (Hinv i k Hi Hk). }
  apply sum6_delta_l. exact Hi.
Qed.

(** ** the quadratic inequality *)
Lemma quad_expand (c : matR) (w e : vec) (t : R) :
  quad c (fun i => w i - t * e i) =
  dot6 w (mv c w) - t * (dot6 w (mv c e) + dot6 e (mv c w)) + t * t * quad c e.
Proof. ur. ring. Qed.

Lemma cs_quadratic (c s : matR) :
  msym c -> (forall x, 0 <= quad c x) -> left_inverse s c ->
  forall (e g : vec) (t : R), 0 <= dot6 g (mv s g) - 2 * t * dot6 e g + t * t * quad c e.
Proof.
  intros Hc Hpsd Hinv e g t.
  assert (Hcw : forall i, idx i -> mv c (mtv s g) i = g i).
  { intros i Hi. unfold mv, mtv.
    transitivity (sum6 (fun j => g j * sum6 (fun k => s j k * c k i))).
    { transitivity (sum6 (fun k => sum6 (fun j => c i k * (s j k * g j)))).
      - apply sum6_ext. intros k Hk. ur. ring.
      - rewrite sum6_swap. apply sum6_ext. intros j Hj.
        transitivity (sum6 (fun k => g j * (s j k * c k i))).
        + apply sum6_ext. intros k Hk. rewrite (Hc i k Hi Hk). ring.
        + ur. ring. }
    transitivity (sum6 (fun j => g j * delta j i)).
    { apply sum6_ext. intros j Hj. f_equal. exact (Hinv j i Hj Hi). }
    apply sum6_delta_r. exact Hi. }
  pose proof (Hpsd (fun i => mtv s g i - t * e i)) as H0.
  rewrite quad_expand in H0.
  assert (H1 : dot6 e (mv c (mtv s g)) = dot6 e g).
  { unfold dot6. apply sum6_ext. intros i Hi. rewrite (Hcw i Hi). reflexivity. }
  assert (H2 : dot6 (mtv s g) (mv c e) = dot6 e (mv c (mtv s g))).
  { generalize (mtv s g). intros w. unfold dot6, mv.
    transitivity (sum6 (fun i => sum6 (fun j => w i * (c i j * e j)))).
    - apply sum6_ext. intros i Hi. ur. ring.
    - rewrite sum6_swap. apply sum6_ext. intros j Hj.
      transitivity (sum6 (fun i => e j * (c j i * w i))).
      + apply sum6_ext. intros i Hi. rewrite (Hc i j Hi Hj). ring.
      + ur. ring. }
  assert (H3 : dot6 (mtv s g) (mv c (mtv s g)) = dot6 g (mv s g)).
  { transitivity (dot6 (mtv s g) g).
    - unfold dot6. apply sum6_ext. intros i Hi. rewrite (Hcw i Hi). reflexivity.
    - ur. ring. }
  rewrite H3, H2, H1 in H0.
  eapply Rle_trans; [exact H0|]. right. ring.
Qed.

Lemma posdef_psd (c : matR) : posdef c -> forall x, 0 <= quad c x.
Proof.
  intros Hpd x.
  destruct (Req_dec (x 1%Z) 0) as [E1|N]; [|left; apply Hpd; exists 1%Z; split; [idx_lia|exact N]].
  destruct (Req_dec (x 2%Z) 0) as [E2|N]; [|left; apply Hpd; exists 2%Z; split; [idx_lia|exact N]].
  destruct (Req_dec (x 3%Z) 0) as [E3|N]; [|left; apply Hpd; exists 3%Z; split; [idx_lia|exact N]].
  destruct (Req_dec (x 4%Z) 0) as [E4|N]; [|left; apply Hpd; exists 4%Z; split; [idx_lia|exact N]].
  destruct (Req_dec (x 5%Z) 0) as [E5|N]; [|left; apply Hpd; exists 5%Z; split; [idx_lia|exact N]].
  destruct (Req_dec (x 6%Z) 0) as [E6|N]; [|left; apply Hpd; exists 6%Z; split; [idx_lia|exact N]].
  right. ur. rewrite E1, E2, E3, E4, E5, E6. ring.
Qed.

(** a quadratic that is nowhere negative has non-positive discriminant *)
Lemma quad_min (A B n : R) : 0 < A -> (forall t, 0 <= B - 2 * t * n + t * t * A) -> n * n <= A * B.
Proof.
  intros HA H. specialize (H (n / A)).
  replace (B - 2 * (n / A) * n + n / A * (n / A) * A) with (B - n * n / A) in H by (field; lra).
  assert (E : n * n = n * n / A * A) by (field; lra).
  assert (n * n / A <= B) by lra.
  rewrite E. rewrite (Rmult_comm A B). apply Rmult_le_compat_r; lra.
Qed.

(** ** the vectors *)
Definition vec6 (a1 a2 a3 a4 a5 a6 : R) : vec :=
  fun i => match i with 1 => a1 | 2 => a2 | 3 => a3 | 4 => a4 | 5 => a5 | 6 => a6 | _ => 0%R end%Z.

(** denominators of the Reuss averages, as in the model *)
Definition den_K (s : matR) : R :=
  s 1%Z 1%Z + s 2%Z 2%Z + s 3%Z 3%Z + 2 * (s 1%Z 2%Z + s 2%Z 3%Z + s 1%Z 3%Z).
Definition den_G (s : matR) : R :=
  4 * (s 1%Z 1%Z + s 2%Z 2%Z + s 3%Z 3%Z) - 4 * (s 1%Z 2%Z + s 2%Z 3%Z + s 1%Z 3%Z)
  + 3 * (s 4%Z 4%Z + s 5%Z 5%Z + s 6%Z 6%Z).
Lemma bulk_reuss_den s : bulk_reuss s = 1 / den_K s.
Proof. unfold bulk_reuss, den_K, two; rops. reflexivity. Qed.
Lemma shear_reuss_den s : shear_reuss s = 15 / den_G s.
Proof. unfold shear_reuss, den_G, three; rops. reflexivity. Qed.

Ltac uv := ur; cbv beta iota delta [vec6].

(** hydrostatic direction: strain-Voigt = stress-Voigt = (1,1,1,0,0,0), E:E = 3 *)
Definition uK : vec := vec6 1 1 1 0 0 0.

Lemma uK_stiff c : msym c -> quad c uK = 9 * bulk_voigt c.
Proof. intros Hc. unfold bulk_voigt, uK, two; rops. uv. upper Hc. field. Qed.
Lemma uK_compl s : msym s -> dot6 uK (mv s uK) = den_K s.
Proof. intros Hs. unfold den_K, uK. uv. upper Hs. ring. Qed.
Lemma uK_norm : dot6 uK uK = 3.
Proof. unfold uK. uv. ring. Qed.

Lemma bulk_bound (c s : matR) :
  msym c -> posdef c -> left_inverse s c -> 0 < bulk_reuss s /\ bulk_reuss s <= bulk_voigt c.
Proof.
  intros Hc Hpd Hinv.
  pose proof (inverse_symmetric c s Hc Hinv) as Hs.
  pose proof (cs_quadratic c s Hc (posdef_psd c Hpd) Hinv uK uK) as Hq.
  rewrite (uK_stiff c Hc), (uK_compl s Hs), uK_norm in Hq.
  assert (HA : 0 < 9 * bulk_voigt c).
  { rewrite <- (uK_stiff c Hc). apply Hpd. exists 1%Z. split; [idx_lia|]. unfold uK, vec6. lra. }
  pose proof (quad_min _ _ _ HA Hq) as Hd.
  rewrite bulk_reuss_den. set (A := bulk_voigt c) in *. set (D := den_K s) in *.
  assert (HD : 0 < D).
  { destruct (Rlt_le_dec 0 D) as [|HD]; [assumption|]. exfalso.
    assert (9 * A * D <= 0) by (rewrite <- (Rmult_0_r (9 * A)); apply Rmult_le_compat_l; lra). lra. }
  split; [apply Rdiv_lt_0_compat; lra|].
  apply Rmult_le_reg_r with (r := 9 * D); [lra|].
  replace (1 / D * (9 * D)) with 9 by (field; lra). lra.
Qed.

(** deviatoric directions: E1 = diag(1,-1,0), E2 = diag(1,1,-2), E3/E4/E5 = unit symmetric shears
    23, 13, 12.  E_k : E_l = 0 (k <> l),  E_k : E_k = N_k = 2, 6, 2, 2, 2. *)
Definition e1 : vec := vec6 1 (-1) 0 0 0 0.     Definition g1 : vec := e1.
Definition e2 : vec := vec6 1 1 (-2) 0 0 0.     Definition g2 : vec := e2.
Definition e3 : vec := vec6 0 0 0 2 0 0.        Definition g3 : vec := vec6 0 0 0 1 0 0.
Definition e4 : vec := vec6 0 0 0 0 2 0.        Definition g4 : vec := vec6 0 0 0 0 1 0.
Definition e5 : vec := vec6 0 0 0 0 0 2.        Definition g5 : vec := vec6 0 0 0 0 0 1.

Ltac ue := unfold g1, g2, g3, g4, g5; unfold e1, e2, e3, e4, e5; uv.

Lemma dev_norms :
  dot6 e1 g1 = 2 /\ dot6 e2 g2 = 6 /\ dot6 e3 g3 = 2 /\ dot6 e4 g4 = 2 /\ dot6 e5 g5 = 2.
Proof. repeat split; ue; ring. Qed.

(** the basis is orthogonal and orthogonal to the hydrostatic direction (documentation of the choice) *)
Lemma dev_orthogonal :
  dot6 e1 g2 = 0 /\ dot6 e1 g3 = 0 /\ dot6 e1 g4 = 0 /\ dot6 e1 g5 = 0 /\ dot6 e2 g3 = 0 /\
  dot6 e2 g4 = 0 /\ dot6 e2 g5 = 0 /\ dot6 e3 g4 = 0 /\ dot6 e3 g5 = 0 /\ dot6 e4 g5 = 0 /\
  dot6 e1 uK = 0 /\ dot6 e2 uK = 0 /\ dot6 e3 uK = 0 /\ dot6 e4 uK = 0 /\ dot6 e5 uK = 0.
Proof. unfold uK. repeat split; ue; ring. Qed.

Lemma dev_stiff c : msym c ->
  quad c e1 / 2 + quad c e2 / 6 + quad c e3 / 2 + quad c e4 / 2 + quad c e5 / 2 = 10 * shear_voigt c.
Proof. intros Hc. unfold shear_voigt, three; rops. ue. upper Hc. field. Qed.

Lemma dev_compl s : msym s ->
  dot6 g1 (mv s g1) / 2 + dot6 g2 (mv s g2) / 6 + dot6 g3 (mv s g3) / 2 + dot6 g4 (mv s g4) / 2
    + dot6 g5 (mv s g5) / 2 = den_G s / 6.
Proof. intros Hs. unfold den_G. ue. upper Hs. field. Qed.

Lemma shear_bound (c s : matR) :
  msym c -> posdef c -> left_inverse s c -> 0 < shear_reuss s /\ shear_reuss s <= shear_voigt c.
Proof.
  intros Hc Hpd Hinv.
  pose proof (inverse_symmetric c s Hc Hinv) as Hs.
  pose proof (cs_quadratic c s Hc (posdef_psd c Hpd) Hinv) as Hq.
  destruct dev_norms as [N1 [N2 [N3 [N4 N5]]]].
  assert (Hsum : forall t, 0 <= den_G s / 6 - 2 * t * 5 + t * t * (10 * shear_voigt c)).
  { intros t.
    pose proof (Hq e1 g1 t) as Q1. pose proof (Hq e2 g2 t) as Q2. pose proof (Hq e3 g3 t) as Q3.
    pose proof (Hq e4 g4 t) as Q4. pose proof (Hq e5 g5 t) as Q5.
    rewrite N1 in Q1. rewrite N2 in Q2. rewrite N3 in Q3. rewrite N4 in Q4. rewrite N5 in Q5.
    rewrite <- (dev_stiff c Hc), <- (dev_compl s Hs).
    set (a1 := quad c e1) in *. set (a2 := quad c e2) in *. set (a3 := quad c e3) in *.
    set (a4 := quad c e4) in *. set (a5 := quad c e5) in *.
    set (b1 := dot6 g1 (mv s g1)) in *. set (b2 := dot6 g2 (mv s g2)) in *.
    set (b3 := dot6 g3 (mv s g3)) in *. set (b4 := dot6 g4 (mv s g4)) in *.
    set (b5 := dot6 g5 (mv s g5)) in *.
    set (ta1 := t * t * a1) in *. set (ta2 := t * t * a2) in *. set (ta3 := t * t * a3) in *.
    set (ta4 := t * t * a4) in *. set (ta5 := t * t * a5) in *.
    replace (t * t * (a1 / 2 + a2 / 6 + a3 / 2 + a4 / 2 + a5 / 2))
      with (ta1 / 2 + ta2 / 6 + ta3 / 2 + ta4 / 2 + ta5 / 2) by (unfold ta1, ta2, ta3, ta4, ta5; field).
    lra. }
  assert (HA : 0 < 10 * shear_voigt c).
  { rewrite <- (dev_stiff c Hc).
    assert (P1 : 0 < quad c e1) by (apply Hpd; exists 1%Z; split; [idx_lia|unfold e1, vec6; lra]).
    assert (P2 : 0 < quad c e2) by (apply Hpd; exists 1%Z; split; [idx_lia|unfold e2, vec6; lra]).
    assert (P3 : 0 < quad c e3) by (apply Hpd; exists 4%Z; split; [idx_lia|unfold e3, vec6; lra]).
    assert (P4 : 0 < quad c e4) by (apply Hpd; exists 5%Z; split; [idx_lia|unfold e4, vec6; lra]).
    assert (P5 : 0 < quad c e5) by (apply Hpd; exists 6%Z; split; [idx_lia|unfold e5, vec6; lra]).
    lra. }
  pose proof (quad_min _ _ _ HA Hsum) as Hd.
  rewrite shear_reuss_den. set (A := shear_voigt c) in *. set (D := den_G s) in *.
  assert (HD : 0 < D).
  { destruct (Rlt_le_dec 0 D) as [|HD]; [assumption|]. exfalso.
    assert (10 * A * (D / 6) <= 0) by (rewrite <- (Rmult_0_r (10 * A)); apply Rmult_le_compat_l; lra). lra. }
  split; [apply Rdiv_lt_0_compat; lra|].
  apply Rmult_le_reg_r with (r := D); [lra|].
  replace (15 / D * D) with 15 by (field; lra).
  replace (10 * A * (D / 6)) with (10 / 6 * (A * D)) in Hd by field. lra.
Qed.

(** ** the flagship *)
Theorem reuss_le_hill_le_voigt_l (c s : matR) :
  msym c -> posdef c -> left_inverse s c ->
  0 < bulk_reuss s /\ 0 < shear_reuss s /\
  bulk_reuss s <= bulk_vrh c s <= bulk_voigt c /\
  shear_reuss s <= shear_vrh c s <= shear_voigt c.
Proof.
  intros Hc Hpd Hinv.
  destruct (bulk_bound c s Hc Hpd Hinv) as [K0 K1].
  destruct (shear_bound c s Hc Hpd Hinv) as [G0 G1].
  destruct (hill_is_mean_l c s) as [HK HG]. rewrite HK, HG.
  repeat split; try assumption; lra.
Qed.

(** for tables: the assembled stiffness is symmetric by construction *)
Corollary reuss_le_hill_le_voigt_assembled_l (tbl : list (Z * Z * R)) (s : matR) :
  posdef (assemble6 tbl) -> left_inverse s (assemble6 tbl) ->
  bulk_reuss s <= bulk_vrh (assemble6 tbl) s <= bulk_voigt (assemble6 tbl) /\
  shear_reuss s <= shear_vrh (assemble6 tbl) s <= shear_voigt (assemble6 tbl).
Proof.
  intros Hpd Hinv.
  assert (Hc : msym (assemble6 tbl)) by (intros i j _ _; apply assemble6_symmetric_l).
  destruct (reuss_le_hill_le_voigt_l _ s Hc Hpd Hinv) as [_ [_ H]]. exact H.
Qed.

(* ====================================================================================== *)
(** * non-vacuity: an explicit orthotropic positive definite stiffness with its inverse,
      for which the bulk bound is strict (K_R = 1 < 10/9 = K_V) *)
Definition c_ex : matR := fun i j =>
  match i, j with
  | 1, 1 => 2%R | 2, 2 => 2%R | 3, 3 => 2%R | 1, 2 | 2, 1 => 1%R | 2, 3 | 3, 2 => 1%R
  | 4, 4 => 1%R | 5, 5 => 2%R | 6, 6 => 4%R | _, _ => 0%R
  end%Z.
Definition s_ex : matR := fun i j =>
  match i, j with
  | 1, 1 => (3 / 4)%R | 2, 2 => 1%R | 3, 3 => (3 / 4)%R
  | 1, 2 | 2, 1 => (- (1 / 2))%R | 2, 3 | 3, 2 => (- (1 / 2))%R
  | 1, 3 | 3, 1 => (1 / 4)%R
  | 4, 4 => 1%R | 5, 5 => (1 / 2)%R | 6, 6 => (1 / 4)%R | _, _ => 0%R
  end%Z.

Lemma c_ex_sym : msym c_ex.
Proof.
  intros i j Hi Hj.
  destruct (idx_cases i Hi) as [->|[->|[->|[->|[->| ->]]]]];
    destruct (idx_cases j Hj) as [->|[->|[->|[->|[->| ->]]]]]; reflexivity.
Qed.

Lemma c_ex_quad x :
  quad c_ex x = (x 1%Z)² + (x 1%Z + x 2%Z)² + (x 2%Z + x 3%Z)² + (x 3%Z)²
                + (x 4%Z)² + 2 * (x 5%Z)² + 4 * (x 6%Z)².
Proof. ur. cbv beta iota delta [c_ex]. unfold Rsqr. ring. Qed.

Lemma c_ex_posdef : posdef c_ex.
Proof.
  intros x [i [Hi Hx]]. rewrite c_ex_quad.
  pose proof (Rle_0_sqr (x 1%Z)). pose proof (Rle_0_sqr (x 2%Z)). pose proof (Rle_0_sqr (x 3%Z)).
  pose proof (Rle_0_sqr (x 4%Z)). pose proof (Rle_0_sqr (x 5%Z)). pose proof (Rle_0_sqr (x 6%Z)).
  pose proof (Rle_0_sqr (x 1%Z + x 2%Z)). pose proof (Rle_0_sqr (x 2%Z + x 3%Z)).
  destruct (idx_cases i Hi) as [->|[->|[->|[->|[->| ->]]]]];
    pose proof (Rsqr_pos_lt _ Hx) as P; try lra.
  (* x 2 <> 0: then x1 and x1+x2 cannot both vanish *)
  destruct (Req_dec (x 1%Z) 0) as [E|N].
  - rewrite E, Rplus_0_l in *. lra.
  - pose proof (Rsqr_pos_lt _ N). lra.
Qed.

Lemma s_ex_inverse : left_inverse s_ex c_ex.
Proof.
  intros i j Hi Hj.
  destruct (idx_cases i Hi) as [->|[->|[->|[->|[->| ->]]]]];
    destruct (idx_cases j Hj) as [->|[->|[->|[->|[->| ->]]]]];
    ur; cbv beta iota delta [c_ex s_ex]; cbn [Z.eqb Pos.eqb]; field.
Qed.

Example hypotheses_satisfiable :
  exists c s : matR, msym c /\ posdef c /\ left_inverse s c /\
    bulk_reuss s = 1 /\ bulk_voigt c = 10 / 9 /\ bulk_reuss s < bulk_voigt c.
Proof.
  exists c_ex, s_ex. split; [exact c_ex_sym|]. split; [exact c_ex_posdef|]. split; [exact s_ex_inverse|].
  assert (E1 : bulk_reuss s_ex = 1).
  { unfold bulk_reuss, two; rops. cbv beta iota delta [s_ex]. field. }
  assert (E2 : bulk_voigt c_ex = 10 / 9).
  { unfold bulk_voigt, two; rops. cbv beta iota delta [c_ex]. field. }
  rewrite E1, E2. repeat split; lra.
Qed.
