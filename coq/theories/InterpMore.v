(** C11 (round 2) - the Newton / divided-difference interpolant of InterpModel interpolates ARBITRARY
    data at pairwise distinct nodes; polynomial exactness for every degree < number of nodes; the
    code's sub-sampling [::ceil(n/order)] keeps at least two (and at most [order]) nodes for every
    admissible order; solutions of the least-squares normal equations are unique as coefficient
    LISTS; the library methods' post-processing and a polynomial oracle satisfying the contract. *)
From Coq Require Import Reals ZArith List Bool Lia Lra.
From Coquelicot Require Import Coquelicot.
From Cij Require Import Ops ROps PolyModel InterpModel Poly Interp.
Import ListNotations.
Local Open Scope R_scope.

(** ---- A. divided differences indexed by position -------------------------------------- *)
Section DivDiff.
  Variable X Y : nat -> R.

  (** [dd j i] = f[x_i, ..., x_{i+j}] *)
  Fixpoint dd (j i : nat) : R :=
    match j with
    | O => Y i
    | S j' => (dd j' (S i) - dd j' i) / (X (i + S j') - X i)
    end.
  (** [W i k x] = prod_{l<k} (x - x_{i+l}) *)
  Fixpoint W (i k : nat) (x : R) : R :=
    match k with O => 1 | S k' => W i k' x * (x - X (i + k')) end.
  (** Newton form on the nodes x_i .. x_{i+J}, sum representation *)
  Fixpoint Nsum (i J : nat) (x : R) : R :=
    match J with O => Y i | S J' => Nsum i J' x + dd (S J') i * W i (S J') x end.
  (** nested (Horner-like) representation: m terms starting at level j *)
  Fixpoint Nest (i j m : nat) (x : R) : R :=
    match m with O => 0 | S m' => dd j i + (x - X (i + j)) * Nest i (S j) m' x end.

  Lemma W_shift i k x : W i (S k) x = (x - X i) * W (S i) k x.
  Proof.
    induction k as [|k IH].
    - cbn [W]. rewrite Nat.add_0_r. ring.
    - change (W i (S (S k)) x) with (W i (S k) x * (x - X (i + S k))).
      rewrite IH. cbn [W]. replace (S i + k)%nat with (i + S k)%nat by lia. ring.
  Qed.

  Lemma W_root i k m : (m < k)%nat -> W i k (X (i + m)) = 0.
  Proof.
    induction k as [|k IH]; intros H; [lia|]. cbn [W].
    destruct (Nat.eq_dec m k) as [->|Ne]; [ring|]. rewrite IH by lia. ring.
  Qed.

  Variable n : nat.
  Hypothesis Xinj : forall a b, (a < n)%nat -> (b < n)%nat -> a <> b -> X a <> X b.

  Lemma dd_rec j i : (i + S j < n)%nat ->
    dd j (S i) - dd j i = dd (S j) i * (X (i + S j) - X i).
  Proof.
    intros H. cbn [dd]. field.
    intros E. apply (Xinj (i + S j) i); [lia | lia | lia | lra].
  Qed.

  (** difference of the Newton forms on x_{i+1}..x_{i+1+j} and on x_i..x_{i+j} *)
  Lemma Nsum_shift_diff j : forall i x, (i + S j < n)%nat ->
    Nsum (S i) j x - Nsum i j x = (dd j (S i) - dd j i) * W (S i) j x.
  Proof.
    induction j as [|j IH]; intros i x H.
    - cbn [Nsum dd W]. ring.
    - change (Nsum (S i) (S j) x) with (Nsum (S i) j x + dd (S j) (S i) * W (S i) (S j) x).
      change (Nsum i (S j) x) with (Nsum i j x + dd (S j) i * W i (S j) x).
      pose proof (IH i x ltac:(lia)) as D.
      pose proof (dd_rec j i ltac:(lia)) as R1.
      rewrite (W_shift i j x).
      change (W (S i) (S j) x) with (W (S i) j x * (x - X (S i + j))).
      replace (S i + j)%nat with (i + S j)%nat by lia.
      rewrite R1 in D.
      replace (Nsum (S i) j x) with (Nsum i j x + dd (S j) i * (X (i + S j) - X i) * W (S i) j x) by lra.
      ring.
  Qed.

  (** Neville-type identity: the form on x_i..x_{i+j+1} from the form on x_{i+1}..x_{i+j+1} *)
  Lemma Nsum_via_shift j i x : (i + S j < n)%nat ->
    Nsum i (S j) x = Nsum (S i) j x + dd (S j) i * W (S i) j x * (x - X (i + S j)).
  Proof.
    intros H.
    change (Nsum i (S j) x) with (Nsum i j x + dd (S j) i * W i (S j) x).
    pose proof (Nsum_shift_diff j i x H) as D. rewrite (dd_rec j i H) in D.
    rewrite W_shift.
    replace (Nsum i j x) with (Nsum (S i) j x - dd (S j) i * (X (i + S j) - X i) * W (S i) j x) by lra.
    ring.
  Qed.

  (** the Newton form interpolates *)
  Lemma Nsum_interpolates J : forall i m, (i + J < n)%nat -> (m <= J)%nat ->
    Nsum i J (X (i + m)) = Y (i + m).
  Proof.
    induction J as [|J IH]; intros i m H Hm.
    - assert (m = 0)%nat as -> by lia. cbn [Nsum]. rewrite Nat.add_0_r. reflexivity.
    - destruct (Nat.eq_dec m (S J)) as [->|Ne].
      + rewrite Nsum_via_shift by lia.
        replace (X (i + S J) - X (i + S J)) with 0 by ring. rewrite Rmult_0_r, Rplus_0_r.
        replace (i + S J)%nat with (S i + J)%nat by lia. apply IH; lia.
      + cbn [Nsum]. rewrite (W_root i (S J) m) by lia. rewrite IH by lia. ring.
  Qed.

  (** sum form = nested form *)
  Lemma Nest_snoc i m : forall j x,
    Nest i j (S m) x = Nest i j m x + dd (j + m) i * (W (i + j) m x).
  Proof.
    induction m as [|m IH]; intros j x.
    - cbn [Nest W]. rewrite Nat.add_0_r. ring.
    - change (Nest i j (S (S m)) x) with (dd j i + (x - X (i + j)) * Nest i (S j) (S m) x).
      rewrite IH. cbn [Nest]. rewrite (W_shift (i + j) m x).
      replace (S j + m)%nat with (j + S m)%nat by lia.
      replace (i + S j)%nat with (S (i + j)) by lia. ring.
  Qed.

  Lemma Nest_Nsum i J x : Nest i 0 (S J) x = Nsum i J x.
  Proof.
    induction J as [|J IH].
    - cbn [Nest Nsum dd]. ring.
    - rewrite Nest_snoc, IH. cbn [Nsum]. rewrite Nat.add_0_r. reflexivity.
  Qed.
End DivDiff.

(** ---- B. the list model computes these divided differences ---------------------------- *)
Definition nthR (l : list R) (i : nat) : R := nth i l 0.

Lemma map_nthR_seq (l : list R) : l = map (nthR l) (seq 0 (length l)).
Proof.
  induction l as [|x t IH]; [reflexivity|].
  cbn [length seq map]. unfold nthR at 1. cbn [nth]. f_equal.
  rewrite <- seq_shift, map_map. exact IH.
Qed.

Lemma dd_step_dd (X Y : nat -> R) j : forall len i0 a b, (len <= a)%nat -> (len <= b)%nat ->
  dd_stepR (map (dd X Y j) (seq i0 (S len))) (map X (seq i0 a)) (map X (seq (i0 + S j) b)) =
  map (dd X Y (S j)) (seq i0 len).
Proof.
  induction len as [|len IH]; intros i0 a b Ha Hb.
  - cbn [seq map dd_step]. reflexivity.
  - destruct a as [|a]; [lia|]. destruct b as [|b]; [lia|].
    change (seq i0 (S (S len))) with (i0 :: S i0 :: seq (S (S i0)) len).
    change (seq i0 (S a)) with (i0 :: seq (S i0) a).
    change (seq (i0 + S j) (S b)) with ((i0 + S j)%nat :: seq (S (i0 + S j)) b).
    change (seq i0 (S len)) with (i0 :: seq (S i0) len).
    cbn [map dd_step]. f_equal.
    specialize (IH (S i0) a b ltac:(lia) ltac:(lia)).
    change (seq (S i0) (S len)) with (S i0 :: seq (S (S i0)) len) in IH.
    cbn [map] in IH. change (S i0 + S j)%nat with (S (i0 + S j)) in IH. exact IH.
Qed.

Lemma dd_cols_dd (X Y : nat -> R) n : forall fuel j len, (len <= n)%nat ->
  dd_colsR fuel (map (dd X Y j) (seq 0 len)) (map X (seq 0 n)) (map X (seq j len)) =
  map (fun k => dd X Y k 0) (seq j (Nat.min fuel len)).
Proof.
  induction fuel as [|f IH]; intros j len Hl; [reflexivity|].
  destruct len as [|len]; [reflexivity|].
  change (seq 0 (S len)) with (0%nat :: seq 1 len) at 1.
  change (seq j (S len)) with (j :: seq (S j) len).
  cbn [map dd_cols tl Nat.min seq]. f_equal.
  change (dd X Y j 0 :: map (dd X Y j) (seq 1 len)) with (map (dd X Y j) (seq 0 (S len))).
  pose proof (dd_step_dd X Y j len 0 n len ltac:(lia) (le_n len)) as E. cbn [Nat.add] in E. rewrite E.
  apply IH. lia.
Qed.

Lemma newton_expand_Nest (X Y : nat -> R) x : forall m j m', (m <= m')%nat ->
  polyvalR (newton_expandR (map (fun k => dd X Y k 0) (seq j m)) (map X (seq j m'))) x = Nest X Y 0 j m x.
Proof.
  induction m as [|m IH]; intros j m' H.
  - cbn [seq map newton_expand Nest]. unfold polyval. cbn [fold_left]. rops. reflexivity.
  - destruct m' as [|m']; [lia|]. cbn [seq map newton_expand Nest].
    rewrite polyval_plin_step, (IH (S j) m') by lia. rops. cbn [Nat.add]. ring.
Qed.

(** the Newton form built by [interp_coeffs] interpolates arbitrary data at distinct nodes *)
Lemma interp_coeffs_nth (xs ys : list R) :
  NoDup xs -> length xs = length ys ->
  forall i, (i < length xs)%nat -> polyvalR (interp_coeffsR xs ys) (nth i xs 0) = nth i ys 0.
Proof.
  intros ND L i Hi. set (n := length xs) in *.
  set (X := nthR xs). set (Y := nthR ys).
  assert (Ex : xs = map X (seq 0 n)) by apply map_nthR_seq.
  assert (Ey : ys = map (dd X Y 0) (seq 0 n)).
  { rewrite L. unfold Y. rewrite (map_ext (dd X (nthR ys) 0) (nthR ys)) by reflexivity. apply map_nthR_seq. }
  unfold interp_coeffs, newton_coeffs. fold n.
  rewrite Ey at 1. rewrite Ex at 1 2 3.
  rewrite (dd_cols_dd X Y n n 0 n (le_n n)), Nat.min_id.
  rewrite (newton_expand_Nest X Y _ n 0 n (le_n n)).
  destruct n as [|J] eqn:En; [lia|].
  rewrite Nest_Nsum.
  change (nth i xs 0) with (X (0 + i)%nat). change (nth i ys 0) with (Y (0 + i)%nat).
  apply (Nsum_interpolates X Y (S J)); [|lia|lia].
  intros a b Ha Hb Ne E. apply Ne.
  apply (proj1 (NoDup_nth xs 0) ND a b); [lia | lia | exact E].
Qed.

(** ---- C. consequences for [interp_coeffs] and [node_poly] ------------------------------ *)
Lemma nth_map_lt {A B} (f : A -> B) (l : list A) i d d' :
  (i < length l)%nat -> nth i (map f l) d' = f (nth i l d).
Proof. intros H. rewrite (nth_indep _ d' (f d)) by (rewrite map_length; exact H). apply map_nth. Qed.

Lemma plin_step_length (r : list R) al be c : length (@plin_step R ROps r al be c) = S (length r).
Proof.
  unfold plin_step. rewrite zipw_length; rewrite app_length, map_length; cbn [length]; [lia|].
  rewrite map_length. lia.
Qed.

Lemma newton_expand_length : forall cs xs : list R, (length cs <= length xs)%nat ->
  length (newton_expandR cs xs) = length cs.
Proof.
  induction cs as [|c cs IH]; intros xs H; [reflexivity|].
  destruct xs as [|x0 xs]; [cbn in H; lia|]. cbn [newton_expand].
  rewrite plin_step_length, IH by (cbn [length] in H; lia). reflexivity.
Qed.

Lemma dd_step_cons2 (d0 d1 : R) d a xlo b xhi :
  dd_stepR (d0 :: d1 :: d) (a :: xlo) (b :: xhi) = (d1 - d0) / (b - a) :: dd_stepR (d1 :: d) xlo xhi.
Proof. reflexivity. Qed.

Lemma dd_step_length : forall d xlo xhi : list R,
  (length d <= S (length xlo))%nat -> length xhi = pred (length d) ->
  length (dd_stepR d xlo xhi) = pred (length d).
Proof.
  induction d as [|d0 d IH]; intros xlo xhi H1 H2; [reflexivity|].
  destruct d as [|d1 d]; [reflexivity|].
  destruct xlo as [|a xlo]; [cbn in H1; lia|]. destruct xhi as [|b xhi]; [cbn in H2; lia|].
  rewrite dd_step_cons2. cbn [length]. rewrite IH; cbn [length] in *; lia.
Qed.

Lemma dd_cols_length : forall fuel (d xs xhi : list R),
  (length d <= length xs)%nat -> length xhi = length d -> (length d <= fuel)%nat ->
  length (dd_colsR fuel d xs xhi) = length d.
Proof.
  induction fuel as [|f IH]; intros d xs xhi H1 H2 H3.
  - destruct d; [reflexivity | cbn in H3; lia].
  - destruct d as [|d0 d]; [reflexivity|]. cbn [dd_cols length]. f_equal.
    destruct xhi as [|b xhi]; [cbn in H2; lia|]. cbn [tl].
    assert (L : length (dd_stepR (d0 :: d) xs xhi) = length d).
    { rewrite dd_step_length; cbn [length] in *; lia. }
    rewrite IH; rewrite L; cbn [length] in *; lia.
Qed.

Lemma interp_coeffs_length (xs ys : list R) :
  length xs = length ys -> length (interp_coeffsR xs ys) = length xs.
Proof.
  intros L. unfold interp_coeffs, newton_coeffs.
  assert (Lc : length (dd_colsR (length xs) ys xs xs) = length ys) by (apply dd_cols_length; lia).
  rewrite newton_expand_length; lia.
Qed.

(** value at every node, in the (node, datum) pair form *)
Lemma interp_coeffs_interpolates (xs ys : list R) :
  NoDup xs -> length xs = length ys ->
  forall x y, In (x, y) (combine xs ys) -> polyvalR (interp_coeffsR xs ys) x = y.
Proof.
  intros ND L x y H.
  destruct (In_nth _ _ (0, 0) H) as [i [Hi E]].
  rewrite combine_length, <- L, Nat.min_id in Hi.
  rewrite combine_nth in E by exact L. injection E as <- <-.
  apply interp_coeffs_nth; assumption.
Qed.

(** data sampled from ANY polynomial with at most as many coefficients as there are nodes are
    reproduced on the whole line *)
Lemma interp_exact_on_polynomials (xs q : list R) :
  NoDup xs -> (length q <= length xs)%nat ->
  forall x, polyvalR (interp_coeffsR xs (map (polyvalR q) xs)) x = polyvalR q x.
Proof.
  intros ND Lq x.
  set (q' := repeat 0 (length xs - length q) ++ q).
  rewrite <- (polyval_zeros_app (length xs - length q) q x). fold q'.
  apply (poly_unique _ q' xs).
  - rewrite interp_coeffs_length by (rewrite map_length; reflexivity).
    unfold q'. rewrite app_length, repeat_length. lia.
  - exact ND.
  - rewrite interp_coeffs_length by (rewrite map_length; reflexivity). lia.
  - intros t Ht. destruct (In_nth _ _ 0 Ht) as [i [Hi <-]].
    rewrite interp_coeffs_nth by (try rewrite map_length; auto).
    rewrite (nth_map_lt (polyvalR q) xs i 0 0 Hi).
    unfold q'. rewrite polyval_zeros_app. reflexivity.
Qed.

(** sub-sampling: lengths *)
Lemma take_every_length_eq {A B} k (l1 : list A) : forall (l2 : list B) i,
  length l1 = length l2 -> length (take_every_from k i l1) = length (take_every_from k i l2).
Proof.
  induction l1 as [|x t IH]; intros [|y t2] i L; cbn in L; try discriminate; [reflexivity|].
  injection L as L. cbn [take_every_from]. destruct i; cbn [length]; rewrite (IH t2 _ L); reflexivity.
Qed.
Lemma subsample_length_eq {A B} order (l1 : list A) (l2 : list B) :
  length l1 = length l2 -> length (subsample order l1) = length (subsample order l2).
Proof. intros L. unfold subsample. rewrite <- L. apply take_every_length_eq, L. Qed.

Lemma subsample_nodes_distinct order vols :
  List.Forall (fun v => 0 < v) vols -> NoDup vols -> NoDup (rev (map ln (subsample order vols))).
Proof.
  intros P ND. apply NoDup_rev. apply NoDup_map_ln.
  - rewrite Forall_forall in *. intros v Hv. apply P. unfold subsample in Hv. eapply take_every_In. exact Hv.
  - unfold subsample. apply take_every_NoDup. exact ND.
Qed.

(** [node_poly] (scipy lagrange / Krogh on the sub-sampled flipped logarithmic nodes) passes
    through EVERY node, for arbitrary frequencies *)
Lemma node_poly_interpolates_l : forall (order : nat) (vols freqs : list R),
  List.Forall (fun v => 0 < v) vols -> NoDup vols -> length vols = length freqs ->
  forall i, (i < length (subsample order vols))%nat ->
    polyvalR (@node_poly R ROps order vols freqs) (ln (nth i (subsample order vols) 0)) =
    ln (nth i (subsample order freqs) 0).
Proof.
  intros order vols freqs P ND L i Hi. unfold node_poly. rops.
  set (sv := subsample order vols) in *. set (sf := subsample order freqs).
  assert (Ls : length sv = length sf) by (apply subsample_length_eq, L).
  set (n := length sv) in *.
  assert (Ex : ln (nth i sv 0) = nth (n - S i) (rev (map ln sv)) 0).
  { rewrite rev_nth by (rewrite map_length; fold n; lia). rewrite map_length. fold n.
    replace (n - S (n - S i))%nat with i by lia. symmetry. apply nth_map_lt. exact Hi. }
  assert (Ey : ln (nth i sf 0) = nth (n - S i) (rev (map ln sf)) 0).
  { rewrite rev_nth by (rewrite map_length, <- Ls; fold n; lia). rewrite map_length, <- Ls. fold n.
    replace (n - S (n - S i))%nat with i by lia. symmetry. apply nth_map_lt. rewrite <- Ls. exact Hi. }
  rewrite Ex, Ey. apply interp_coeffs_nth.
  - apply subsample_nodes_distinct; assumption.
  - rewrite !rev_length, !map_length. exact Ls.
  - rewrite rev_length, map_length. fold n. lia.
Qed.

(** the data: ln(omega) is the polynomial q in ln V *)
Definition poly_law (q : list R) (V : R) : R := exp (polyvalR q (ln V)).

Lemma node_poly_exact_fun order vols q :
  List.Forall (fun v => 0 < v) vols -> NoDup vols -> (length q <= length (subsample order vols))%nat ->
  forall x, polyvalR (@node_poly R ROps order vols (map (poly_law q) vols)) x = polyvalR q x.
Proof.
  intros P ND Lq x. unfold node_poly. rops.
  rewrite subsample_map, map_map.
  rewrite (map_ext (fun v => ln (poly_law q v)) (fun v => polyvalR q (ln v)))
    by (intros v; unfold poly_law; apply ln_exp).
  replace (rev (map (fun v => polyvalR q (ln v)) (subsample order vols)))
    with (map (polyvalR q) (rev (map ln (subsample order vols))))
    by (rewrite map_rev, map_map; reflexivity).
  apply interp_exact_on_polynomials.
  - apply subsample_nodes_distinct; assumption.
  - rewrite rev_length, map_length. exact Lq.
Qed.

Lemma node_poly_exact_on_polynomials_l :
  forall (lib : @library R) (m : method) (order : nat) (vols q grid : list R),
    m = Lagrange \/ m = Krogh ->
    List.Forall (fun v => 0 < v) vols -> NoDup vols -> (length q <= length (subsample order vols))%nat ->
    @mode_fn R ROps lib m order vols (map (poly_law q) vols) grid =
    map (fun V => poly_tripleR q (ln V)) grid.
Proof.
  intros lib m order vols q grid Hm P ND Lq.
  assert (E : @mode_fn R ROps lib m order vols (map (poly_law q) vols) grid =
              @poly_mode R ROps (@node_poly R ROps order vols (map (poly_law q) vols)) grid)
    by (destruct Hm as [ -> | -> ]; reflexivity).
  rewrite E. unfold poly_mode. apply map_ext. intros V. rops.
  apply poly_triple_ext. intros x. apply node_poly_exact_fun; assumption.
Qed.

(** ---- D. the sub-sampling [::ceil(n/order)] ----------------------------------------------- *)
Lemma take_every_nonempty {A} k (l : list A) : forall i, (i < length l)%nat ->
  (1 <= length (take_every_from k i l))%nat.
Proof.
  induction l as [|x t IH]; intros i H; [cbn in H; lia|].
  cbn [take_every_from]. destruct i; [cbn [length]; lia|]. apply IH. cbn [length] in H. lia.
Qed.

(** position of the last kept element, and coverage: the kept count c is ceil((n - i)/k) *)
Lemma take_every_last {A} k (l : list A) : forall i,
  (1 <= length (take_every_from k i l))%nat ->
  (i + (length (take_every_from k i l) - 1) * k < length l)%nat.
Proof.
  induction l as [|x t IH]; intros i H; [cbn in H; lia|].
  cbn [take_every_from] in *. destruct i.
  - cbn [length] in *. destruct (length (take_every_from k (k - 1) t)) as [|c'] eqn:Ec; [lia|].
    specialize (IH (k - 1)%nat). rewrite Ec in IH. specialize (IH ltac:(lia)). nia.
  - specialize (IH i H). cbn [length]. lia.
Qed.
Lemma take_every_cover {A} k (l : list A) : (1 <= k)%nat -> forall i,
  (length l <= i + length (take_every_from k i l) * k)%nat.
Proof.
  intros Hk. induction l as [|x t IH]; intros i; [cbn; lia|].
  cbn [take_every_from]. destruct i.
  - cbn [length]. specialize (IH (k - 1)%nat). nia.
  - specialize (IH i). cbn [length]. lia.
Qed.

Lemma interval_ge order n : (1 <= order)%nat -> (n <= interval n order * order)%nat.
Proof.
  intros Ho. unfold interval.
  pose proof (Nat.div_mod (n + order - 1) order ltac:(lia)) as D.
  pose proof (Nat.mod_upper_bound (n + order - 1) order ltac:(lia)) as M. nia.
Qed.
Lemma interval_lt order n : (2 <= order)%nat -> (2 <= n)%nat -> (interval n order < n)%nat.
Proof.
  intros Ho Hn. unfold interval. apply Nat.div_lt_upper_bound; [lia|]. nia.
Qed.
Lemma interval_pos order n : (1 <= order)%nat -> (1 <= n)%nat -> (1 <= interval n order)%nat.
Proof.
  intros Ho Hn. pose proof (interval_ge order n Ho). destruct (interval n order); lia.
Qed.

(** every admissible order (>= 2; "below the number of sampled volumes" is not even needed) keeps
    at least two nodes *)
Lemma subsample_at_least_two_l {A} (order : nat) (l : list A) :
  (2 <= order)%nat -> (2 <= length l)%nat -> (2 <= length (subsample order l))%nat.
Proof.
  intros Ho Hn. unfold subsample.
  pose proof (interval_lt order (length l) Ho Hn) as K.
  pose proof (interval_pos order (length l) ltac:(lia) ltac:(lia)) as K1.
  set (k := interval (length l) order) in *.
  destruct l as [|x t]; [cbn in Hn; lia|]. cbn [take_every_from length] in *.
  pose proof (take_every_nonempty k t (k - 1)%nat ltac:(lia)). lia.
Qed.

(** ... and never more than [order] nodes: the interpolant has degree <= order - 1 *)
Lemma subsample_at_most_order_l {A} (order : nat) (l : list A) :
  (1 <= order)%nat -> (length (subsample order l) <= order)%nat.
Proof.
  intros Ho. unfold subsample. set (k := interval (length l) order).
  pose proof (interval_ge order (length l) Ho) as G. fold k in G.
  destruct (le_lt_dec (length (take_every_from k 0 l)) order) as [Hc|Hc]; [exact Hc|].
  pose proof (take_every_last k l 0%nat ltac:(lia)) as T. nia.
Qed.

(** the exact node count c = ceil(n / ceil(n/order)), as the two defining inequalities *)
Lemma subsample_count_l {A} (order : nat) (l : list A) :
  (1 <= order)%nat -> (1 <= length l)%nat ->
  let k := interval (length l) order in let c := length (subsample order l) in
  ((c - 1) * k < length l <= c * k)%nat.
Proof.
  intros Ho Hn k c. unfold c, subsample. fold k.
  pose proof (interval_pos order (length l) Ho Hn) as K1. fold k in K1.
  pose proof (take_every_cover k l K1 0%nat) as Cv.
  assert (C1 : (1 <= length (take_every_from k 0 l))%nat) by (apply take_every_nonempty; lia).
  pose proof (take_every_last k l 0%nat C1) as T. lia.
Qed.

(** order = 1 is NOT admissible for the node-based methods: a single node survives ([::n]), the
    interpolant is the constant ln(omega_0) and gamma = 0 whatever the data *)
Lemma subsample_order_one_single_node {A} (x : A) (t : list A) : subsample 1 (x :: t) = [x].
Proof.
  unfold subsample, interval. cbn [length]. replace (S (length t) + 1 - 1)%nat with (S (length t)) by lia.
  rewrite Nat.div_1_r. cbn [take_every_from]. f_equal.
  replace (S (length t) - 1)%nat with (length t) by lia.
  assert (G : forall (l : list A) i, (length l <= i)%nat -> take_every_from (S (length t)) i l = []).
  { induction l as [|y l IH]; intros i H; [reflexivity|]. cbn [take_every_from].
    destruct i; [cbn in H; lia|]. apply IH. cbn [length] in H. lia. }
  apply G. lia.
Qed.

(** ---- E. least squares: the normal equations determine the coefficient LIST ------------- *)
Lemma pv_zero_coeffs : forall n (p : list R), length p = n -> (forall x, pv p x = 0) -> List.Forall (eq 0) p.
Proof.
  induction n as [|n IH]; intros p Lp Hz.
  - destruct p; [constructor | discriminate].
  - destruct p as [|c0 p']; [discriminate|]. injection Lp as Lp.
    assert (C0 : c0 = 0).
    { destruct p' as [|c1 p''] eqn:Ep.
      - specialize (Hz 0). cbn [pv length] in Hz. simpl pow in Hz. lra.
      - rewrite <- Ep in *.
        assert (Dz : forall x, pv (polyderR (c0 :: p')) x = 0).
        { intros x. rewrite <- (is_derive_unique _ _ _ (pv_polyder (c0 :: p') x)).
          apply is_derive_unique. apply (is_derive_ext (fun _ => 0)); [intros t; symmetry; apply Hz|].
          apply (is_derive_const 0 x). }
        assert (Ld : length (polyderR (c0 :: p')) = n) by (rewrite polyder_length; cbn [length]; lia).
        pose proof (IH _ Ld Dz) as Fz.
        rewrite polyder_cons in Fz by (rewrite Ep; discriminate).
        inversion Fz as [|? ? E0 _]; subst.
        assert (Nz : INR (length (c1 :: p'')) <> 0) by (apply not_0_INR; cbn [length]; lia).
        symmetry in E0. apply Rmult_integral in E0. destruct E0 as [E0|E0]; [contradiction | exact E0]. }
    constructor; [symmetry; exact C0|].
    apply (IH p' Lp). intros x. specialize (Hz x). cbn [pv] in Hz. rewrite C0 in Hz. lra.
Qed.

Lemma zipw_minus_zero : forall c1 c2 : list R, length c1 = length c2 ->
  List.Forall (eq 0) (zipw Rminus c1 c2) -> c1 = c2.
Proof.
  induction c1 as [|a c1 IH]; intros [|b c2] L H; cbn in L; try discriminate; [reflexivity|].
  cbn [zipw] in H. inversion H as [|? ? E H']; subst. f_equal; [lra|]. apply IH; [lia | exact H'].
Qed.

Lemma rsum_zipw_sub (f g : R -> R -> R) : forall xs ys,
  rsum (zipw f xs ys) - rsum (zipw g xs ys) = rsum (zipw (fun x y => f x y - g x y) xs ys).
Proof.
  induction xs as [|x xs IH]; intros [|y ys]; cbn [zipw rsum]; try ring. rewrite <- IH. ring.
Qed.
Lemma zipw_fst_only {A B C} (h : A -> C) : forall (xs : list A) (ys : list B), length xs = length ys ->
  zipw (fun x _ => h x) xs ys = map h xs.
Proof.
  induction xs as [|x xs IH]; intros [|y ys] L; cbn in L; try discriminate; [reflexivity|].
  cbn [zipw map]. rewrite IH by lia. reflexivity.
Qed.

Lemma zipw_ext2 {A B C} (f g : A -> B -> C) : (forall x y, f x y = g x y) ->
  forall xs ys, zipw f xs ys = zipw g xs ys.
Proof.
  intros H. induction xs as [|x xs IH]; intros [|y ys]; cbn [zipw]; try reflexivity. rewrite H, IH. reflexivity.
Qed.

(** a polynomial (S order coefficients) whose values on xs are orthogonal to 1, x, .., x^order
    vanishes identically as soon as xs contains more than order distinct points *)
Lemma orth_poly_zero (order : nat) (xs d roots : list R) :
  length d = S order -> NoDup roots -> incl roots xs -> (order < length roots)%nat ->
  (forall k, (k <= order)%nat -> rsum (map (fun t => t ^ k * pv d t) xs) = 0) ->
  forall x, pv d x = 0.
Proof.
  intros Ld ND Inc Ln NE'.
  assert (Orth : forall e, (length e <= S order)%nat -> rsum (map (fun t => pv e t * pv d t) xs) = 0).
  { induction e as [|a e IH]; intros Le.
    - apply rsum_zero. intros t. cbn [pv]. ring.
    - rewrite (rsum_ext _ (fun t => a * (t ^ length e * pv d t) + pv e t * pv d t))
        by (intros t; cbn [pv]; ring).
      rewrite rsum_lin, NE', IH by (cbn [length] in Le; lia). ring. }
  assert (Z : forall t, In t xs -> pv d t = 0).
  { apply rsum_sq_zero. apply Orth. lia. }
  intros x. apply (pv_roots_zero (S order) d Ld roots ND); [lia|]. intros r Hr. apply Z, Inc, Hr.
Qed.

Lemma normal_eqs_solution_unique_fit_l :
  forall (order : nat) (xs ys c1 c2 roots : list R),
    length xs = length ys -> length c1 = S order -> length c2 = S order ->
    NoDup roots -> incl roots xs -> (order < length roots)%nat ->
    normal_eqs order xs ys c1 -> normal_eqs order xs ys c2 -> c1 = c2.
Proof.
  intros order xs ys c1 c2 roots L L1 L2 ND Inc Ln N1 N2.
  set (d := zipw Rminus c1 c2).
  assert (Ld : length d = S order) by (unfold d; rewrite zipw_length; congruence).
  apply zipw_minus_zero; [congruence|]. fold d.
  apply (pv_zero_coeffs (S order) d Ld).
  apply (orth_poly_zero order xs d roots Ld ND Inc Ln).
  intros k Hk. specialize (N1 k Hk). specialize (N2 k Hk). unfold normal_resid in N1, N2.
  rewrite sum_rsum in N1, N2.
  pose proof (rsum_zipw_sub
    (fun x y => @mul R ROps (@powN R ROps x k) (@sub R ROps (polyvalR c1 x) y))
    (fun x y => @mul R ROps (@powN R ROps x k) (@sub R ROps (polyvalR c2 x) y)) xs ys) as D.
  rewrite N1, N2 in D.
  rewrite <- (zipw_fst_only (fun t => t ^ k * pv d t) xs ys L).
  rewrite (zipw_ext2 _ (fun x y => @mul R ROps (@powN R ROps x k) (@sub R ROps (polyvalR c1 x) y) -
                                   @mul R ROps (@powN R ROps x k) (@sub R ROps (polyvalR c2 x) y))); [lra|].
  intros x y. unfold d. rewrite pv_zipw_sub by congruence. rewrite (powN_pow x k), (polyval_pv c1 x), (polyval_pv c2 x). rops. ring.
Qed.

(** the model's own least-squares result is determined by the normal equations the tie checks *)
Lemma lsq_result_determined_l :
  forall (order : nat) (xs ys c roots : list R),
    length xs = length ys -> length c = S order -> length (@lsq_coeffs R ROps order xs ys) = S order ->
    NoDup roots -> incl roots xs -> (order < length roots)%nat ->
    normal_eqs order xs ys (@lsq_coeffs R ROps order xs ys) -> normal_eqs order xs ys c ->
    c = @lsq_coeffs R ROps order xs ys.
Proof.
  intros order xs ys c roots L Lc Ll ND Inc Ln N1 N2.
  exact (normal_eqs_solution_unique_fit_l order xs ys c _ roots L Lc Ll ND Inc Ln N2 N1).
Qed.

(** ---- F. power law from the property's own quantifier ---------------------------------- *)
Lemma power_law_exact_admissible_l :
  forall (lib : @library R) (m : method) (order : nat) (vols : list R) (a b : R) (grid : list R),
    m = Lagrange \/ m = Krogh -> (2 <= order)%nat -> (2 <= length vols)%nat ->
    List.Forall (fun v => 0 < v) vols -> NoDup vols ->
    @mode_fn R ROps lib m order vols (map (power_law a b) vols) grid =
    map (fun V => (exp (a + b * ln V), - b, 0)) grid.
Proof.
  intros lib m order vols a b grid Hm Ho Hn P ND.
  apply power_law_exact_l; try assumption. apply subsample_at_least_two_l; assumption.
Qed.

(** ---- G. the four library methods -------------------------------------------------------- *)
Definition library_method (m : method) : Prop := m = Spline \/ m = Pchip \/ m = Akima \/ m = Hermite.

(** the volumes whose logarithms are handed to the scipy class *)
Definition lib_nodes (m : method) (order : nat) (l : list R) : list R :=
  match m with Spline => l | _ => subsample order l end.
(** the scipy object the code builds for method m (spline: all volumes, degree k = order;
    pchip/akima/hermite: sub-sampled volumes), nodes flipped to increasing ln V *)
Definition lib_oracle (lib : @library R) (m : method) (order : nat) (vols freqs : list R) : @interp_oracle R :=
  lib m (match m with Spline => order | _ => O end)
      (rev (map ln (lib_nodes m order vols))) (rev (map ln (lib_nodes m order freqs))).

(** post-processing of the code (exp of the value, negated nu=1 and nu=2 evaluations at ln V): for
    ANY library, the output is the triple of the ONE object [lib_oracle]; wherever that object's
    nu=1 / nu=2 evaluations are its first / second derivative (pointwise - the piecewise cubic
    classes are only C^1 at their breakpoints), gamma = - dln(omega)/dlnV and third = dgamma/dlnV *)
Lemma triple_consistent_library_l :
  forall (lib : @library R) (m : method) (order : nat) (vols freqs : list R),
    library_method m ->
    let o := lib_oracle lib m order vols freqs in
    (forall grid, @mode_fn R ROps lib m order vols freqs grid = map (fun v => oracle_tripleR o (ln v)) grid) /\
    (forall x, is_derive (o_val o) x (o_d1 o x) -> is_derive (o_d1 o) x (o_d2 o x) ->
        is_derive (fun t => ln (fst (fst (oracle_tripleR o t)))) x (- snd (fst (oracle_tripleR o x))) /\
        is_derive (fun t => snd (fst (oracle_tripleR o t))) x (snd (oracle_tripleR o x))).
Proof.
  intros lib m order vols freqs Hm o. split.
  - intros grid. destruct Hm as [ -> | [ -> | [ -> | -> ] ] ]; reflexivity.
  - intros x H1 H2. unfold oracle_tripleR. cbn [fst snd]. split.
    + rewrite Ropp_involutive.
      apply (is_derive_ext (o_val o)); [intros t; symmetry; apply ln_exp | exact H1].
    + apply (is_derive_opp (o_d1 o) x). exact H2.
Qed.

(** a polynomial oracle: value / nu=1 / nu=2 of one coefficient list *)
Definition poly_oracle (p : list R) : @interp_oracle R :=
  {| o_val := polyvalR p; o_d1 := polyvalR (polyderR p); o_d2 := polyvalR (polyderR (polyderR p)) |}.
(** the library that answers every request (any method, any k) with the interpolating polynomial *)
Definition poly_lib : @library R := fun _ _ xs ys => poly_oracle (interp_coeffsR xs ys).

Lemma poly_oracle_contract p : library_contract (poly_oracle p).
Proof. split; intros t; cbn [poly_oracle o_val o_d1 o_d2]; apply polyder_is_derive_l. Qed.

(** non-vacuity of the library contract for the oracle shape of each of the 4 library methods *)
Lemma spline_contract_on_polynomial_oracle_l :
  forall (m : method) (order : nat) (vols freqs : list R),
    library_method m -> library_contract (lib_oracle poly_lib m order vols freqs).
Proof. intros m order vols freqs _. unfold lib_oracle, poly_lib. apply poly_oracle_contract. Qed.

Lemma lib_nodes_map (f : R -> R) m order (l : list R) :
  lib_nodes m order (map f l) = map f (lib_nodes m order l).
Proof. destruct m; cbn [lib_nodes]; try apply subsample_map; reflexivity. Qed.

(** ... and with that library all four method shapes reproduce polynomial (in particular
    power-law) data on the whole grid: contract + exactness are jointly satisfiable *)
Lemma library_shape_exact_on_polynomial_oracle_l :
  forall (m : method) (order : nat) (vols q grid : list R),
    library_method m ->
    List.Forall (fun v => 0 < v) vols -> NoDup vols -> (length q <= length (lib_nodes m order vols))%nat ->
    @mode_fn R ROps poly_lib m order vols (map (poly_law q) vols) grid =
    map (fun V => poly_tripleR q (ln V)) grid.
Proof.
  intros m order vols q grid Hm P ND Lq.
  rewrite (proj1 (triple_consistent_library_l poly_lib m order vols (map (poly_law q) vols) Hm) grid).
  apply map_ext. intros V.
  unfold lib_oracle, poly_lib.
  change (oracle_tripleR (poly_oracle ?p) ?x) with (poly_tripleR p x).
  apply poly_triple_ext. intros x.
  rewrite lib_nodes_map, map_map.
  rewrite (map_ext (fun v => ln (poly_law q v)) (fun v => polyvalR q (ln v)))
    by (intros v; unfold poly_law; apply ln_exp).
  replace (rev (map (fun v => polyvalR q (ln v)) (lib_nodes m order vols)))
    with (map (polyvalR q) (rev (map ln (lib_nodes m order vols))))
    by (rewrite map_rev, map_map; reflexivity).
  apply interp_exact_on_polynomials.
  - destruct m; cbn [lib_nodes]; try (apply subsample_nodes_distinct; assumption).
    apply NoDup_rev, NoDup_map_ln; assumption.
  - rewrite rev_length, map_length. exact Lq.
Qed.

(** ---- non-vacuity ---------------------------------------------------------------------- *)
Example node_poly_hyps_satisfiable :
  let vols := [5; 4; 3; 2; 1] in let freqs := [1; 7; 2; 9; 4] in
  List.Forall (fun v => 0 < v) vols /\ NoDup vols /\ length vols = length freqs /\
  (2 <= 3 < length vols)%nat /\ length (subsample 3 vols) = 3%nat /\
  (length [1; 0; 2] <= length (subsample 3 vols))%nat.
Proof.
  cbv zeta. repeat split; try (cbn; lia).
  - repeat constructor; lra.
  - repeat constructor; cbn [In]; intuition lra.
Qed.

(** generic (non-polynomial) data: the least-squares line through (0,0),(1,1),(2,0) is y = 1/3 *)
Example normal_eqs_generic_satisfiable :
  let xs := [0; 1; 2] in let ys := [0; 1; 0] in
  length xs = length ys /\ NoDup xs /\ incl xs xs /\ (1 < length xs)%nat /\
  normal_eqs 1 xs ys [0; 1 / 3].
Proof.
  cbv zeta. repeat split; try (cbn; lia).
  - repeat constructor; cbn [In]; intuition lra.
  - apply incl_refl.
  - intros k Hk. unfold normal_resid. rewrite sum_rsum. cbn [zipw rsum].
    rewrite !powN_pow, !polyval_pv. cbn [pv length]. rops.
    destruct k as [|[|k]]; [simpl; field | simpl; field | lia].
Qed.

(** ---- H. why the contract is stated pointwise: a C^1 piecewise-polynomial oracle (the shape of
    PchipInterpolator / Akima1DInterpolator: cubic pieces joined C^1) with breakpoint 0 -------- *)
Definition pw (f g : R -> R) (t : R) : R := if Rle_dec t 0 then f t else g t.
Definition c1_oracle : @interp_oracle R :=
  {| o_val := pw (fun _ => 0) (fun t => t * t);
     o_d1 := pw (fun _ => 0) (fun t => 2 * t);
     o_d2 := pw (fun _ => 0) (fun _ => 2) |}.

Lemma pw_left f g t : t <= 0 -> pw f g t = f t.
Proof. intros H. unfold pw. destruct (Rle_dec t 0); [reflexivity | contradiction]. Qed.
Lemma pw_right f g t : 0 < t -> pw f g t = g t.
Proof. intros H. unfold pw. destruct (Rle_dec t 0); [lra | reflexivity]. Qed.

Lemma pw_derive_left f g x l : x < 0 -> is_derive f x l -> is_derive (pw f g) x l.
Proof.
  intros H D. apply (is_derive_ext_loc f); [|exact D].
  apply (filter_imp (fun t => t < 0)); [|exact (open_lt 0 x H)].
  intros t Ht. symmetry. apply pw_left. lra.
Qed.
Lemma pw_derive_right f g x l : 0 < x -> is_derive g x l -> is_derive (pw f g) x l.
Proof.
  intros H D. apply (is_derive_ext_loc g); [|exact D].
  apply (filter_imp (fun t => 0 < t)); [|exact (open_gt 0 x H)].
  intros t Ht. symmetry. apply pw_right. exact Ht.
Qed.

(** away from the breakpoint the pointwise hypotheses of [triple_consistent_library] hold ... *)
Lemma c1_oracle_pointwise x : x <> 0 ->
  is_derive (o_val c1_oracle) x (o_d1 c1_oracle x) /\ is_derive (o_d1 c1_oracle) x (o_d2 c1_oracle x).
Proof.
  intros Hx. cbn [c1_oracle o_val o_d1 o_d2].
  destruct (Rlt_or_le x 0) as [Hn|Hp].
  - rewrite !pw_left by lra. split; apply pw_derive_left; try exact Hn; apply (is_derive_const 0 x).
  - assert (0 < x) as Hpos by lra. rewrite !pw_right by exact Hpos.
    split; apply pw_derive_right; try exact Hpos; auto_derive; try exact I; ring.
Qed.

(** ... but the global contract fails AT the breakpoint: nu=1 is not differentiable there *)
Lemma c1_oracle_not_global : ~ library_contract c1_oracle.
Proof.
  intros [_ H2]. specialize (H2 0). cbn [c1_oracle o_val o_d1 o_d2] in H2.
  rewrite (pw_left _ _ 0) in H2 by lra.
  apply is_derive_Reals in H2. destruct (H2 1 Rlt_0_1) as [delta Hd].
  specialize (Hd (delta / 2)). pose proof (cond_pos delta) as Dp.
  assert (A : delta / 2 <> 0) by lra.
  assert (B : Rabs (delta / 2) < delta) by (rewrite Rabs_right; lra).
  specialize (Hd A B).
  rewrite Rplus_0_l, (pw_right _ _ (delta / 2)), (pw_left _ _ 0) in Hd by lra.
  replace ((2 * (delta / 2) - 0) / (delta / 2) - 0) with 2 in Hd by (field; lra).
  rewrite Rabs_right in Hd; lra.
Qed.
