(** Model of cij/core/tasks.py: the work-list [resolve], the table-filling [calculate]
    and the denotational value of a task.  Abstract over the task type; the concrete
    instance (frames = arrays of axial strains, keys, allclose) is at the end. No proofs. *)
From Coq Require Import List Bool Arith ZArith.
From Cij Require Import Ops Voigt ShearModel.
Import ListNotations.

Section Abstract.
  Context {task V : Type}.
  Variable teq : task -> task -> bool.          (* PhononContributionTaskParams.__eq__ *)
  Variable deps : task -> list task.            (* get_dependencies *)
  Variable ev : task -> (task -> option V) -> option V.   (* evaluate, given the table so far *)

  (** index of the first task equal to [t] *)
  Fixpoint find_idx (t : task) (l : list task) (i : nat) : option nat :=
    match l with [] => None | x :: r => if teq x t then Some i else find_idx t r (S i) end.

  (** one iteration of the while loop: q is a LIFO stack of (task, dependant index) *)
  Definition step (st : list (task * option nat) * list task * list (nat * nat)) :=
    let '(q, tasks, edges) := st in
    match q with
    | [] => st
    | (t, dep) :: q' =>
        let '(tasks', curr) := match find_idx t tasks 0 with
                               | Some i => (tasks, i)
                               | None => (tasks ++ [t], length tasks)
                               end in
        let edges' := match dep with Some d => edges ++ [(curr, d)] | None => edges end in
        (* q.append for each dependency: the LAST appended is popped first *)
        (rev (map (fun d => (d, Some curr)) (deps t)) ++ q', tasks', edges')
    end.
  Fixpoint run (fuel : nat) st :=
    match fuel with
    | O => st
    | S n => match st with ([], _, _) => st | _ => run n (step st) end
    end.
  (** resolve: initial queue = requests in order; q.pop() takes from the END of the python list *)
  Definition resolve (fuel : nat) (req : list task) :=
    run fuel (rev (map (fun t => (t, None)) req), [], []).

  (** table = insertion-ordered association list; lookup = first entry equal to the key *)
  Fixpoint lookup (tbl : list (task * V)) (t : task) : option V :=
    match tbl with [] => None | (x, v) :: r => if teq x t then Some v else lookup r t end.
  Definition calculate (order : list task) : list (task * V) :=
    fold_left (fun tbl t => match ev t (lookup tbl) with
                            | Some v => tbl ++ [(t, v)]
                            | None => tbl end) order [].

  (** denotational value by recursion on the dependency depth *)
  Fixpoint valn (n : nat) (t : task) : option V :=
    match n with O => None | S k => ev t (valn k) end.
End Abstract.

(** * Concrete instance *)
Section Concrete.
  Context {F : Type} {OF : Ops F}.
  Local Open Scope ops_scope.

  Definition frame := list (list F).            (* (ntv, 3) axial strains *)
  Inductive ctask := CT (f : frame) (k : vkey).

  Variable close : F -> F -> bool.              (* numpy.allclose element test *)
  Fixpoint all2 (a b : list F) : bool :=
    match a, b with [], [] => true | x :: a', y :: b' => close x y && all2 a' b' | _, _ => false end.
  Fixpoint all22 (a b : list (list F)) : bool :=
    match a, b with [], [] => true | x :: a', y :: b' => all2 x y && all22 a' b' | _, _ => false end.

  (** _make_param_by_strain_key for non-shear keys: (e_i / sum, e_k / sum) *)
  (* numpy.sum over a short axis accumulates left to right *)
  Definition suml (r : list F) : F := fold_left add r zero.
  Definition col (i : nat) (f : frame) : list F :=
    map (fun r => nth i r zero / suml r) f.
  Definition ctype (k : vkey) : nat := if is_shear k then 2 else if is_long k then 0 else 1.
  Definition cteq (a b : ctask) : bool :=
    let '(CT fa ka) := a in let '(CT fb kb) := b in
    (ctype ka =? ctype kb) &&
    if is_shear ka then vkey_eqb ka kb && all22 fa fb
    else all2 (col (fst ka - 1) fa) (col (fst kb - 1) fb) && all2 (col (snd ka - 1) fa) (col (snd kb - 1) fb).

  (** eigen-frames are oracle inputs: for each shear key the eigenvalues and the matrix T *)
  Variable eig : vkey -> (nat -> F) * (nat -> nat -> F).
  Variable isz : F -> bool.
  (** the rotated axial strains: computed by [strain_rot] (C03), unless the harness supplies the
      array the implementation actually produced (task identity is bit-exact, so the tie
      must use the implementation's own roundings) *)
  Variable rot_oracle : vkey -> frame -> option frame.
  Definition rotf (k : vkey) (f : frame) : frame :=
    match rot_oracle k f with
    | Some f' => f'
    | None => map (fun r => map (fun i => strain_rot (snd (eig k)) (vec3 r) i) idx3) f
    end.
  Definition cdeps (t : ctask) : list ctask :=
    let '(CT f k) := t in
    if is_shear k then
      map (CT f) (keys_orig isz k) ++ map (CT (rotf k f)) (keys_rot isz (fst (eig k)))
    else [].

  (** evaluation: non-shear values come from an oracle [ns] (C01/C02 model or observation);
      shear values from the solver fed by table look-ups; values are per-(T,V) scalars *)
  Variable ns : ctask -> option F.
  Definition getv (tbl : ctask -> option F) (t : ctask) : F :=
    match tbl t with Some v => v | None => fexp (fln (zero - one)) end.   (* NaN marker *)
  Definition cev (t : ctask) (tbl : ctask -> option F) : option F :=
    let '(CT f k) := t in
    if is_shear k then
      if forallb (fun d => match tbl d with Some _ => true | None => false end) (cdeps t)
      then Some (solve isz k (fst (eig k)) (fun k' => getv tbl (CT f k'))
                       (fun k' => getv tbl (CT (rotf k f) k')))
      else None
    else ns t.
End Concrete.
