(** C15 - lemmas about the grids: the labels of the written tables are the requested grid. *)
From Coq Require Import ZArith List Lia Reals Lra.
From Cij Require Import Ops ROps GridModel.
Import ListNotations.

Lemma firstn_map_seq {A} (f : nat -> A) (s n m : nat) :
  firstn n (map f (seq s (n + m))) = map f (seq s n).
Proof.
  revert s; induction n as [|n IH]; intros s; [reflexivity|].
  cbn [Nat.add seq map firstn]. rewrite IH. reflexivity.
Qed.

Lemma drop_last_app {A} (a b : list A) : drop_last (length b) (a ++ b) = a.
Proof.
  unfold drop_last. rewrite app_length.
  replace (length a + length b - length b)%nat with (length a + 0)%nat by lia.
  rewrite firstn_app_2. cbn. apply app_nil_r.
Qed.

Lemma nth_drop_last {A} (n k : nat) (l : list A) (d : A) :
  (k < length l - n)%nat -> nth k (drop_last n l) d = nth k l d.
Proof.
  unfold drop_last. remember (length l - n)%nat as m. clear Heqm. revert k m.
  induction l as [|x l IH]; intros k m H.
  - rewrite firstn_nil. reflexivity.
  - destruct m as [|m]; [lia|]. destruct k as [|k]; [reflexivity|]. cbn. apply IH. lia.
Qed.

Section Generic.
  Context {F : Type} {OF : Ops F}.

  Lemma arange_length (s : F) n d : length (arange s n d) = n.
  Proof. unfold arange. rewrite map_length, seq_length. reflexivity. Qed.

  Lemma arange_firstn (s : F) n m d : firstn n (arange s (n + m) d) = arange s n d.
  Proof. unfold arange. apply firstn_map_seq. Qed.

  (** the NT+4 array is the requested grid followed by exactly four guard temperatures *)
  Lemma temperature_array_split (t_min : F) nt dt :
    temperature_array t_min nt dt =
    arange t_min nt dt ++ map (grid_point t_min dt) [nt; S nt; S (S nt); S (S (S nt))].
  Proof.
    unfold temperature_array, arange. rewrite seq_app, map_app. reflexivity.
  Qed.

  (** labels_are_requested_grid (temperatures): for ALL NT, T_MIN, DT the row labels of a written table are
      T_MIN + DT * k for k = 0 .. NT-1, in order - the four dropped rows are the LAST four *)
  Lemma t_labels_requested (t_min : F) nt dt :
    t_labels t_min nt dt = map (fun k => add t_min (mul dt (ofZ (Z.of_nat k)))) (seq 0 nt).
  Proof.
    unfold t_labels. rewrite temperature_array_split.
    change 4%nat with (length (map (grid_point t_min dt) [nt; S nt; S (S nt); S (S (S nt))])).
    rewrite drop_last_app. reflexivity.
  Qed.

  Lemma written_tp_rows a (t_min : F) nt dt p v :
    t_rows (written_tp a (temperature_array t_min nt dt) p v) = arange t_min nt dt.
  Proof. cbn [written_tp t_rows]. apply t_labels_requested. Qed.
  Lemma written_tv_rows c (t_min : F) nt dt p v :
    t_rows (written_tv c (temperature_array t_min nt dt) p v) = arange t_min nt dt.
  Proof. cbn [written_tv t_rows]. apply t_labels_requested. Qed.

  (** and the value rows that survive are rows 0 .. NT-1 of the in-memory array, unchanged *)
  Lemma written_rows_are_first_nt a (t p : list F) (v : list (list F)) nt k d :
    length v = (nt + 4)%nat -> (k < nt)%nat ->
    nth k (t_vals (written_tp a t p v)) d = nth k v d /\ length (t_vals (written_tp a t p v)) = nt.
  Proof.
    intros Hl Hk. cbn [written_tp t_vals]. split.
    - apply nth_drop_last. lia.
    - unfold drop_last. rewrite firstn_length. lia.
  Qed.

  Lemma p_labels_nth (a b p_min : F) ntv dp j d :
    (j < ntv)%nat ->
    nth j (p_labels a b p_min ntv dp) d = mul (mul (add p_min (mul dp (ofZ (Z.of_nat j)))) b) a.
  Proof.
    intros Hj. unfold p_labels, written_tp, desired_pressures, desired_pressures_gpa, arange. cbn [t_cols].
    rewrite !map_map.
    rewrite (nth_indep _ d (mul (mul (grid_point p_min dp 0) b) a)) by (rewrite map_length, seq_length; exact Hj).
    rewrite (map_nth (fun n => mul (mul (grid_point p_min dp n) b) a) (seq 0 ntv) 0%nat j).
    rewrite seq_nth by exact Hj. reflexivity.
  Qed.
  Lemma p_labels_length (a b p_min : F) ntv dp : length (p_labels a b p_min ntv dp) = ntv.
  Proof.
    unfold p_labels, written_tp, desired_pressures, desired_pressures_gpa, arange. cbn [t_cols].
    rewrite !map_length, seq_length. reflexivity.
  Qed.
End Generic.

(** labels_are_requested_grid (pressures), over the reals: the column labels are P_MIN + DELTA_P * j up to the
    relative mismatch |a*b - 1| of the two unit factors involved (pint's Ry/bohr^3 -> GPa times qha's
    GPa -> Ry/bohr^3); that mismatch is measured on every run and must be < 1e-9 *)
Local Open Scope R_scope.
Lemma p_labels_requested (a b p_min dp eps : R) (ntv j : nat) :
  Rabs (a * b - 1) <= eps -> (j < ntv)%nat ->
  Rabs (nth j (@p_labels R ROps a b p_min ntv dp) 0 - (p_min + dp * INR j)) <= eps * Rabs (p_min + dp * INR j).
Proof.
  intros He Hj. rewrite (@p_labels_nth R ROps) by exact Hj. rops.
  rewrite <- INR_IZR_INZ.
  set (x := p_min + dp * INR j).
  replace (x * b * a - x) with (x * (a * b - 1)) by ring.
  rewrite Rabs_mult, Rmult_comm. apply Rmult_le_compat_r; [apply Rabs_pos | exact He].
Qed.
