(** C01 / C02: the phonon contributions of nonshear.py are strain derivatives of the
    quasi-harmonic free energy.  Proofs over R (Coquelicot) about NonShearModel.v. *)
From Coq Require Import Reals Lra Lia List Bool ZArith.
From Coquelicot Require Import Coquelicot.
From Cij Require Import Ops ROps NonShearModel.
Import ListNotations.
Local Open Scope R_scope.

Ltac rops' := cbn [zero one add sub mul div opp ofZ fexp fln fsqrt is0 fleb ROps two three] in *.

(* ------------------------------------------------------------------------------------ *)
(** * Finite sums *)

Definition Rsum (l : list R) : R := sum (OF:=ROps) l.
Lemma Rsum_cons x l : Rsum (x :: l) = x + Rsum l. Proof. reflexivity. Qed.
Lemma Rsum_nil : Rsum [] = 0. Proof. reflexivity. Qed.

(** weighted double sum over q-points (weights [w]) and the modes of each q-point *)
Fixpoint dsum {A} (w : list R) (rows : list (list A)) (f : A -> R) : R :=
  match w, rows with
  | wq :: w', row :: rows' => wq * Rsum (map f row) + dsum w' rows' f
  | _, _ => 0
  end.

Lemma Rsum_map_lin {A} (a b : R) (f g : A -> R) l :
  Rsum (map (fun m => a * f m + b * g m) l) = a * Rsum (map f l) + b * Rsum (map g l).
Proof. induction l as [|x l IH]; cbn [map]; rewrite ?Rsum_cons, ?Rsum_nil, ?IH; ring. Qed.
Lemma dsum_lin {A} (a b : R) (f g : A -> R) w rows :
  dsum w rows (fun m => a * f m + b * g m) = a * dsum w rows f + b * dsum w rows g.
Proof.
  revert rows; induction w as [|wq w IH]; intros [|row rows]; cbn [dsum]; try ring.
  rewrite Rsum_map_lin, IH. ring.
Qed.
Lemma Rsum_map_ext {A} (f g : A -> R) l :
  List.Forall (fun m => f m = g m) l -> Rsum (map f l) = Rsum (map g l).
Proof. induction 1 as [|x l H _ IH]; cbn [map]; rewrite ?Rsum_cons, ?IH, ?H; reflexivity. Qed.
Lemma dsum_ext {A} (f g : A -> R) w rows :
  List.Forall (List.Forall (fun m => f m = g m)) rows -> dsum w rows f = dsum w rows g.
Proof.
  intros H; revert w; induction H as [|row rows Hr _ IH]; intros [|wq w]; cbn [dsum]; try reflexivity.
  rewrite (Rsum_map_ext _ _ _ Hr), IH. reflexivity.
Qed.

Lemma is_derive_Rsum_map {A} (f : R -> A -> R) (d : A -> R) (x : R) l :
  List.Forall (fun m => is_derive (fun y => f y m) x (d m)) l ->
  is_derive (fun y => Rsum (map (f y) l)) x (Rsum (map d l)).
Proof.
  induction 1 as [|m l Hm _ IH]; cbn [map].
  - apply (is_derive_ext (fun _ => 0)); [reflexivity|]. apply @is_derive_const.
  - apply (is_derive_ext (fun y => f y m + Rsum (map (f y) l))); [intros; reflexivity|].
    rewrite Rsum_cons. apply @is_derive_plus; assumption.
Qed.
Lemma is_derive_dsum {A} (f : R -> A -> R) (d : A -> R) (x : R) w rows :
  List.Forall (List.Forall (fun m => is_derive (fun y => f y m) x (d m))) rows ->
  is_derive (fun y => dsum w rows (f y)) x (dsum w rows d).
Proof.
  intros H; revert w; induction H as [|row rows Hr _ IH]; intros [|wq w]; cbn [dsum];
    try (apply @is_derive_const).
  apply @is_derive_plus; [|apply IH].
  apply is_derive_scal. apply is_derive_Rsum_map, Hr.
Qed.

(* ------------------------------------------------------------------------------------ *)
(** * Link between the code's [average_over_modes] and the physical double sum *)

Definition phys_rows {A} (rows : list (list A)) : list (list A) :=
  match rows with [] => [] | r0 :: rest => skipn 3 r0 :: rest end.

Lemma Rsum_zero_first3 (r : list R) :
  (3 <= length r)%nat -> Rsum (zero_first3 (OF:=ROps) r) = Rsum (skipn 3 r).
Proof.
  destruct r as [|a [|b [|c t]]]; cbn [length]; try lia. intros _.
  cbn [zero_first3 skipn]. rewrite !Rsum_cons. rops'. ring.
Qed.
Lemma zero_first3_length (r : list R) : length (zero_first3 (OF:=ROps) r) = length r.
Proof. destruct r as [|a [|b [|c t]]]; reflexivity. Qed.

Lemma dot_means (n : R) (w : list R) (rows : list (list R)) :
  n <> 0 -> List.Forall (fun r => len (OF:=ROps) r = n) rows ->
  dot (OF:=ROps) w (map (mean (OF:=ROps)) rows) = dsum w rows (fun x => x) / n.
Proof.
  intros Hn H; revert w; induction H as [|row rows Hr _ IH]; intros [|wq w]; cbn [dot map dsum];
    rops'; try (unfold Rdiv; ring).
  rewrite IH. unfold mean. rops'. rewrite Hr, map_id. fold (Rsum row). field. exact Hn.
Qed.

Lemma avg_modes_phys (na : Z) (w : list R) (X : list (list R)) :
  (0 < na)%Z -> Rsum w <> 0 ->
  List.Forall (fun r => length r = Z.to_nat (3 * na)) X ->
  avg_modes (OF:=ROps) w X * 3 * IZR na = dsum w (phys_rows X) (fun x => x) / Rsum w.
Proof.
  intros Hna Hw Hlen. unfold avg_modes, wavg. rops'. fold (Rsum w).
  assert (Hn : IZR (3 * na) <> 0) by (apply not_0_IZR; lia).
  assert (Hlen' : List.Forall (fun r => len (OF:=ROps) r = IZR (3 * na)) (clear_gamma (OF:=ROps) X)).
  { destruct X as [|r0 rest]; cbn [clear_gamma]; [constructor|].
    inversion Hlen as [|? ? H0 Hrest]; subst. constructor.
    - unfold len. rops'. rewrite zero_first3_length, H0, Z2Nat.id by lia. reflexivity.
    - eapply Forall_impl; [|exact Hrest]. intros r Hr. unfold len. rops'.
      rewrite Hr, Z2Nat.id by lia. reflexivity. }
  rewrite (dot_means (IZR (3 * na)) w _ Hn Hlen').
  assert (E : dsum w (clear_gamma (OF:=ROps) X) (fun x => x) = dsum w (phys_rows X) (fun x => x)).
  { destruct X as [|r0 rest]; [reflexivity|]. cbn [clear_gamma phys_rows].
    destruct w as [|wq w']; [reflexivity|]. cbn [dsum]. rewrite !map_id.
    inversion Hlen as [|? ? H0 _]; subst. rewrite Rsum_zero_first3; [reflexivity|].
    rewrite H0. lia. }
  rewrite E, mult_IZR. field. split; [exact Hw|]. apply not_0_IZR. lia.
Qed.

Lemma dsum_map {A} (g : A -> R) w (rows : list (list A)) :
  dsum w (map (map g) rows) (fun x => x) = dsum w rows g.
Proof.
  revert w; induction rows as [|row rows IH]; intros [|wq w]; cbn [map dsum]; try reflexivity.
  rewrite IH, map_id. reflexivity.
Qed.
Lemma phys_rows_map {A B} (g : A -> B) (rows : list (list A)) :
  phys_rows (map (map g) rows) = map (map g) (phys_rows rows).
Proof. destruct rows as [|r0 rest]; cbn [phys_rows map]; [reflexivity|]. rewrite skipn_map. reflexivity. Qed.

(** the code's element-wise combination of three sampled tables is the table of the term *)
Lemma map3q_map {A} (f : R -> R -> R -> R) (a b c : A -> R) (rows : list (list A)) :
  map3q f (map (map a) rows) (map (map b) rows) (map (map c) rows)
  = map (map (fun m => f (a m) (b m) (c m))) rows.
Proof.
  unfold map3q. induction rows as [|row rows IH]; cbn [map zipw]; [reflexivity|]. f_equal; [|exact IH].
  induction row as [|m row IHr]; cbn [map zipw combine fst snd]; [reflexivity|]. f_equal. exact IHr.
Qed.
Lemma map2q_map {A} (f : R -> R -> R) (a b : A -> R) (rows : list (list A)) :
  map2q f (map (map a) rows) (map (map b) rows) = map (map (fun m => f (a m) (b m))) rows.
Proof.
  unfold map2q. induction rows as [|row rows IH]; cbn [map zipw]; [reflexivity|]. f_equal; [|exact IH].
  induction row as [|m row IHr]; cbn [map zipw]; [reflexivity|]. f_equal. exact IHr.
Qed.

(* ------------------------------------------------------------------------------------ *)
(** * One phonon mode: free energy, its volume derivatives, and the code's terms *)

Record mode := { om : R -> R; om1 : R -> R; om2 : R -> R }.

(** auto_derive leaves [Derive (fun x => om m x) V]: rewrite every such term with a known derivative *)
Ltac derive_rw H :=
  repeat match goal with
         | |- context [Derive ?f ?x] => rewrite (is_derive_unique f x _ (H x))
         end.
Definition smooth_positive (m : mode) : Prop :=
  (forall x, 0 < om m x) /\ (forall x, is_derive (om m) x (om1 m x)) /\
  (forall x, is_derive (om1 m) x (om2 m x)).

(** mode Grueneisen parameter and its logarithmic volume derivative, of the SAME omega(V) *)
Definition gamma_of (m : mode) (V : R) : R := - V * om1 m V / om m V.
Definition vdr_of (m : mode) (V : R) : R :=
  V * (- om1 m V / om m V - V * om2 m V / om m V + V * om1 m V * om1 m V / (om m V * om m V)).

Lemma vdr_is_V_dgamma (m : mode) (V : R) :
  smooth_positive m -> exists g', is_derive (gamma_of m) V g' /\ vdr_of m V = V * g'.
Proof.
  intros (Hp & H1 & H2).
  exists (- om1 m V / om m V - V * om2 m V / om m V + V * om1 m V * om1 m V / (om m V * om m V)).
  split; [|reflexivity]. unfold gamma_of.
  assert (Hn : om m V <> 0) by (specialize (Hp V); lra).
  auto_derive.
  - repeat split; try (eexists; apply H1); try (eexists; apply H2); exact Hn.
  - derive_rw H1. derive_rw H2. field. exact Hn.
Qed.

Section Mode.
  Variable K : @consts R.
  Hypothesis Khdk : 0 < c_hdk K.

  Definition Qm (T : R) (m : mode) (V : R) : R := c_hdk K * (om m V / T).
  Definition Fzp (m : mode) (V : R) : R := c_h K / 2 * om m V.
  Definition Fth (T : R) (m : mode) (V : R) : R := c_k K * T * ln (1 - exp (- Qm T m V)).

  Definition Fzp1 (m : mode) (V : R) : R := c_h K / 2 * om1 m V.
  Definition Fzp2 (m : mode) (V : R) : R := c_h K / 2 * om2 m V.
  Definition BE (q : R) : R := exp (- q) / (1 - exp (- q)).        (* 1/(e^q - 1) *)
  Definition Fth1 (T : R) (m : mode) (V : R) : R := c_k K * c_hdk K * om1 m V * BE (Qm T m V).
  Definition Fth2 (T : R) (m : mode) (V : R) : R :=
    c_k K * c_hdk K * (om2 m V * BE (Qm T m V)
      - om1 m V * (c_hdk K * om1 m V / T) * (exp (- Qm T m V) / ((1 - exp (- Qm T m V)) * (1 - exp (- Qm T m V))))).

  Lemma Q_pos T m V : 0 < T -> smooth_positive m -> 0 < Qm T m V.
  Proof.
    intros HT (Hp & _). unfold Qm. apply Rmult_lt_0_compat; [exact Khdk|].
    apply Rdiv_lt_0_compat; [apply Hp | exact HT].
  Qed.
  Lemma one_minus_E_pos q : 0 < q -> 0 < 1 - exp (- q).
  Proof. intros Hq. assert (exp (- q) < exp 0) by (apply exp_increasing; lra). rewrite exp_0 in H. lra. Qed.

  Lemma Fzp_derive m V : smooth_positive m -> is_derive (Fzp m) V (Fzp1 m V).
  Proof.
    intros (_ & H1 & _). unfold Fzp, Fzp1. auto_derive.
    - eexists; apply H1.
    - derive_rw H1. ring.
  Qed.
  Lemma Fzp1_derive m V : smooth_positive m -> is_derive (Fzp1 m) V (Fzp2 m V).
  Proof.
    intros (_ & _ & H2). unfold Fzp1, Fzp2. auto_derive.
    - eexists; apply H2.
    - derive_rw H2. ring.
  Qed.
  Lemma Fth_derive T m V : 0 < T -> smooth_positive m -> is_derive (Fth T m) V (Fth1 T m V).
  Proof.
    intros HT Hm. pose proof (Q_pos T m V HT Hm) as HQ. pose proof (one_minus_E_pos _ HQ) as HE.
    destruct Hm as (Hp & H1 & H2). unfold Fth, Fth1, BE, Qm in *. auto_derive.
    - split; [eexists; apply H1|]. split; [exact HE | exact I].
    - derive_rw H1. unfold Rdiv, Rminus in *. field. split; lra.
  Qed.
  Lemma Fth1_derive T m V : 0 < T -> smooth_positive m -> is_derive (Fth1 T m) V (Fth2 T m V).
  Proof.
    intros HT Hm. pose proof (Q_pos T m V HT Hm) as HQ. pose proof (one_minus_E_pos _ HQ) as HE.
    destruct Hm as (Hp & H1 & H2). unfold Fth1, Fth2, BE, Qm in *. auto_derive.
    - repeat split; try (eexists; apply H1); try (eexists; apply H2); lra.
    - derive_rw H1. derive_rw H2. unfold Rdiv, Rminus in *. field. split; lra.
  Qed.

  (** ** the code's per-mode terms are A_m/(5 e^2) + P_m/(3 e) of that mode's free energy *)
  Definition all_smooth (sp : list (list mode)) : Prop := List.Forall (List.Forall smooth_positive) sp.

  Lemma zp_term_id (lg : bool) (ei ej V : R) (m : mode) :
    smooth_positive m -> V <> 0 -> ei <> 0 -> ej <> 0 ->
    c_h K / 2 / V * zp_term (OF:=ROps) lg ei ej (om m V) (gamma_of m V) (vdr_of m V)
    = (V * Fzp2 m V + Fzp1 m V) / ((if lg then 5 else 15) * ei * ej)
      + (if lg then (- Fzp1 m V) / (3 * ei) else 0).
  Proof.
    intros (Hp & _) HV Hi Hj. assert (Hn : om m V <> 0) by (specialize (Hp V); lra).
    unfold zp_term, mg0, mg1i, mg2, p0, p1i, fifth_or_fifteenth, gamma_of, vdr_of, Fzp1, Fzp2.
    destruct lg; rops'; field; repeat split; assumption.
  Qed.

  Lemma exp_Q_facts q : 0 < q -> exp q - 1 <> 0 /\ exp q <> 0 /\ exp (- q) = / exp q.
  Proof.
    intros Hq. assert (1 < exp q) by (rewrite <- exp_0; apply exp_increasing; exact Hq).
    repeat split; try lra. apply exp_Ropp.
  Qed.

  (** the exp(-Q) forms used by the code are the textbook exp(Q) forms *)
  Lemma bose_forms_equal_l q : 0 < q ->
    Q1_neg (OF:=ROps) q = Q1_exp (OF:=ROps) q /\ Q2_neg (OF:=ROps) q = Q2_exp (OF:=ROps) q.
  Proof.
    intros Hq. destruct (exp_Q_facts _ Hq) as (HX1 & HX & HE).
    unfold Q1_neg, Q2_neg, Q1_exp, Q2_exp. rops'. rewrite HE.
    split; field; split; lra.
  Qed.

  Lemma th_term_id (lg : bool) (ei ej V T : R) (m : mode) :
    smooth_positive m -> 0 < T -> V <> 0 -> ei <> 0 -> ej <> 0 ->
    c_k K * T / V * th_term (OF:=ROps) K Q1_exp Q2_exp lg ei ej T (om m V) (gamma_of m V) (vdr_of m V)
    = (V * Fth2 T m V + Fth1 T m V) / ((if lg then 5 else 15) * ei * ej)
      + (if lg then (- Fth1 T m V) / (3 * ei) else 0).
  Proof.
    intros Hm HT HV Hi Hj. pose proof (Q_pos T m V HT Hm) as HQ.
    destruct (exp_Q_facts _ HQ) as (HX1 & HX & HE). destruct Hm as (Hp & _).
    assert (Hn : om m V <> 0) by (specialize (Hp V); lra).
    unfold th_term, Q1_exp, Q2_exp, Qf, mg0, mg1i, mg2, p0, p1i, fifth_or_fifteenth,
      gamma_of, vdr_of, Fth1, Fth2, BE. fold (Qm T m V) in *.
    destruct lg; rops'; fold (Qm T m V); rewrite HE; set (X := exp (Qm T m V)) in *;
      unfold Qm; field; repeat split; try assumption; lra.
  Qed.

  Lemma th_term_neg (lg : bool) (ei ej V T : R) (m : mode) :
    smooth_positive m -> 0 < T ->
    th_term (OF:=ROps) K Q1_neg Q2_neg lg ei ej T (om m V) (gamma_of m V) (vdr_of m V)
    = th_term (OF:=ROps) K Q1_exp Q2_exp lg ei ej T (om m V) (gamma_of m V) (vdr_of m V).
  Proof.
    intros Hm HT. pose proof (Q_pos T m V HT Hm) as HQ.
    destruct (bose_forms_equal_l _ HQ) as (E1 & E2).
    unfold th_term, Qf. rops'. change (c_hdk K * (om m V / T)) with (Qm T m V). rewrite E1, E2. reflexivity.
  Qed.
End Mode.

(* ------------------------------------------------------------------------------------ *)
(** * The whole spectrum *)

Section Spectrum.
  Variable K : @consts R.
  Hypothesis Khdk : 0 < c_hdk K.
  Variable w : list R.                 (* q-point weights *)
  Variable sp : list (list mode).      (* sp[q][m]; q = 0 is Gamma, its first three modes are acoustic *)
  Variable na : Z.
  Hypothesis Hna : (0 < na)%Z.
  Hypothesis Hw : Rsum w <> 0.
  Hypothesis Hlen : List.Forall (fun r => length r = Z.to_nat (3 * na)) sp.
  Hypothesis Hsm : all_smooth sp.

  Definition sample (g : mode -> R) : list (list R) := map (map g) sp.

  (** vibrational free energy per cell: sum_q (w_q / sum w) sum_m' [...], Gamma-acoustic excluded *)
  Definition F_zp (V : R) : R := dsum w (phys_rows sp) (fun m => Fzp K m V) / Rsum w.
  Definition F_th (T V : R) : R := dsum w (phys_rows sp) (fun m => Fth K T m V) / Rsum w.
  Definition F_zp1 (V : R) : R := dsum w (phys_rows sp) (fun m => Fzp1 K m V) / Rsum w.
  Definition F_zp2 (V : R) : R := dsum w (phys_rows sp) (fun m => Fzp2 K m V) / Rsum w.
  Definition F_th1 (T V : R) : R := dsum w (phys_rows sp) (fun m => Fth1 K T m V) / Rsum w.
  Definition F_th2 (T V : R) : R := dsum w (phys_rows sp) (fun m => Fth2 K T m V) / Rsum w.

  Lemma In_skipn {A} n (l : list A) x : In x (skipn n l) -> In x l.
  Proof.
    revert l; induction n as [|n IH]; intros [|a l]; cbn [skipn]; auto. intros H; right; apply IH, H.
  Qed.
  Lemma phys_smooth : List.Forall (List.Forall smooth_positive) (phys_rows sp).
  Proof.
    unfold all_smooth in Hsm. destruct sp as [|r0 rest]; cbn [phys_rows]; [constructor|].
    inversion Hsm as [|? ? H0 Hr]; subst. constructor; [|exact Hr].
    rewrite Forall_forall in *. intros m Hm. apply H0. eapply In_skipn; eauto.
  Qed.

  Lemma scal_derive (f : R -> R) (x d : R) :
    is_derive f x d -> is_derive (fun y => f y / Rsum w) x (d / Rsum w).
  Proof.
    intros H. apply (is_derive_ext (fun y => / Rsum w * f y)); [intros t; unfold Rdiv; apply Rmult_comm|].
    replace (d / Rsum w) with (/ Rsum w * d) by (unfold Rdiv; ring). apply is_derive_scal. exact H.
  Qed.

  Lemma F_zp_derive V : is_derive F_zp V (F_zp1 V).
  Proof.
    apply scal_derive, (is_derive_dsum (fun y m => Fzp K m y)).
    eapply Forall_impl; [|exact phys_smooth]. intros row Hr.
    eapply Forall_impl; [|exact Hr]. intros m Hm. apply Fzp_derive, Hm.
  Qed.
  Lemma F_zp1_derive V : is_derive F_zp1 V (F_zp2 V).
  Proof.
    apply scal_derive, (is_derive_dsum (fun y m => Fzp1 K m y)).
    eapply Forall_impl; [|exact phys_smooth]. intros row Hr.
    eapply Forall_impl; [|exact Hr]. intros m Hm. apply Fzp1_derive, Hm.
  Qed.
  Lemma F_th_derive T V : 0 < T -> is_derive (F_th T) V (F_th1 T V).
  Proof.
    intros HT. apply scal_derive, (is_derive_dsum (fun y m => Fth K T m y)).
    eapply Forall_impl; [|exact phys_smooth]. intros row Hr.
    eapply Forall_impl; [|exact Hr]. intros m Hm. apply Fth_derive; assumption.
  Qed.
  Lemma F_th1_derive T V : 0 < T -> is_derive (F_th1 T) V (F_th2 T V).
  Proof.
    intros HT. apply scal_derive, (is_derive_dsum (fun y m => Fth1 K T m y)).
    eapply Forall_impl; [|exact phys_smooth]. intros row Hr.
    eapply Forall_impl; [|exact Hr]. intros m Hm. apply Fth1_derive; assumption.
  Qed.

  (** the code's mode average of a per-mode quantity is the physical double sum *)
  Lemma avg_sample (g : mode -> R) :
    avg_modes (OF:=ROps) w (sample g) * 3 * IZR na = dsum w (phys_rows sp) g / Rsum w.
  Proof.
    unfold sample. rewrite (avg_modes_phys na w _ Hna Hw).
    - rewrite phys_rows_map, dsum_map. reflexivity.
    - rewrite Forall_forall in *. intros r Hr. apply in_map_iff in Hr. destruct Hr as (r' & <- & Hr').
      rewrite map_length. apply Hlen, Hr'.
  Qed.

  Lemma dsum_comb (a b : R) (f g h : mode -> R) :
    List.Forall (List.Forall (fun m => h m = a * f m + b * g m)) (phys_rows sp) ->
    dsum w (phys_rows sp) h / Rsum w
    = a * (dsum w (phys_rows sp) f / Rsum w) + b * (dsum w (phys_rows sp) g / Rsum w).
  Proof.
    intros H. rewrite (dsum_ext h (fun m => a * f m + b * g m) _ _ H), dsum_lin. field. exact Hw.
  Qed.

  Lemma avg_sample_scal (a : R) (g : mode -> R) :
    a * (avg_modes (OF:=ROps) w (sample g) * 3 * IZR na)
    = dsum w (phys_rows sp) (fun m => a * g m) / Rsum w.
  Proof.
    rewrite avg_sample.
    rewrite (dsum_comb a 0 g (fun _ => 0) (fun m => a * g m)); [ring|].
    rewrite Forall_forall. intros r _. rewrite Forall_forall. intros m _. ring.
  Qed.

  (** generic assembly: if every (physical) mode's term is A_m/(c ei ej) [+ P_m/(3 ei)] with
      P_m = - D1 m and A_m = V * D2 m + D1 m, then so is the mode average, with the summed
      derivatives *)
  Lemma assemble_id (lg : bool) (pref V ei ej : R) (term D1 D2 : mode -> R) :
    ei <> 0 -> ej <> 0 ->
    (forall m, smooth_positive m ->
       pref * term m = (V * D2 m + D1 m) / ((if lg then 5 else 15) * ei * ej)
                       + (if lg then (- D1 m) / (3 * ei) else 0)) ->
    pref * avg_modes (OF:=ROps) w (sample term) * 3 * IZR na
    = (V * (dsum w (phys_rows sp) D2 / Rsum w) + dsum w (phys_rows sp) D1 / Rsum w)
        / ((if lg then 5 else 15) * ei * ej)
      + (if lg then (- (dsum w (phys_rows sp) D1 / Rsum w)) / (3 * ei) else 0).
  Proof.
    intros Hi Hj Hterm.
    replace (pref * avg_modes (OF:=ROps) w (sample term) * 3 * IZR na)
      with (pref * (avg_modes (OF:=ROps) w (sample term) * 3 * IZR na)) by ring.
    rewrite avg_sample_scal.
    rewrite (dsum_comb (V / ((if lg then 5 else 15) * ei * ej))
               (/ ((if lg then 5 else 15) * ei * ej) - (if lg then / (3 * ei) else 0)) D2 D1).
    - destruct lg; field; repeat split; assumption.
    - pose proof phys_smooth as Hs. rewrite Forall_forall in *. intros r Hr.
      specialize (Hs r Hr). rewrite Forall_forall in *. intros m Hm.
      rewrite (Hterm m (Hs m Hm)). destruct lg; field; repeat split; assumption.
  Qed.

  (** ** C01.1: zero-point part *)
  Lemma zero_point_strain_derivative_l (lg : bool) (ei ej V : R) :
    V <> 0 -> ei <> 0 -> ej <> 0 ->
    zero_point (OF:=ROps) K lg w na (sample (fun m => om m V)) (sample (fun m => gamma_of m V))
               (sample (fun m => vdr_of m V)) ei ej V
    = (V * F_zp2 V + F_zp1 V) / ((if lg then 5 else 15) * ei * ej)
      + (if lg then (- F_zp1 V) / (3 * ei) else 0).
  Proof.
    intros HV Hi Hj. unfold zero_point, sample. rewrite map3q_map. rops'.
    apply (assemble_id lg (c_h K / 2 / V) V ei ej
             (fun m => zp_term (OF:=ROps) lg ei ej (om m V) (gamma_of m V) (vdr_of m V))
             (fun m => Fzp1 K m V) (fun m => Fzp2 K m V) Hi Hj).
    intros m Hm. apply zp_term_id; assumption.
  Qed.

  (** ** C01.2: thermal part, T > 0; and the T = 0 mask *)
  Lemma thermal_strain_derivative_l (lg : bool) (ei ej V T : R) :
    0 < T -> V <> 0 -> ei <> 0 -> ej <> 0 ->
    thermal (OF:=ROps) K Q1_exp Q2_exp lg w na (sample (fun m => om m V))
            (sample (fun m => gamma_of m V)) (sample (fun m => vdr_of m V)) ei ej V T
    = (V * F_th2 T V + F_th1 T V) / ((if lg then 5 else 15) * ei * ej)
      + (if lg then (- F_th1 T V) / (3 * ei) else 0).
  Proof.
    intros HT HV Hi Hj. unfold thermal, sample. rewrite map3q_map. rops'.
    assert (E : Ris0 T = false) by (apply Ris0_false; lra). rewrite E.
    apply (assemble_id lg (c_k K * T / V) V ei ej
             (fun m => th_term (OF:=ROps) K Q1_exp Q2_exp lg ei ej T (om m V) (gamma_of m V) (vdr_of m V))
             (fun m => Fth1 K T m V) (fun m => Fth2 K T m V) Hi Hj).
    intros m Hm. apply th_term_id; assumption.
  Qed.
  Lemma thermal_at_zero_T_l (lg : bool) Q1 Q2 fr ga vd (ei ej V : R) :
    thermal (OF:=ROps) K Q1 Q2 lg w na fr ga vd ei ej V 0 = 0.
  Proof. unfold thermal. rops'. rewrite (proj2 (Ris0_true 0) eq_refl). reflexivity. Qed.

  (** ** C01.3: the isothermal value; the off-diagonal pressure term is literally P - Pstatic *)
  Lemma isothermal_strain_derivative_l (lg : bool) (ei ej V T p pst : R) :
    0 < T -> V <> 0 -> ei <> 0 -> ej <> 0 ->
    isothermal (OF:=ROps) K Q1_exp Q2_exp lg w na (sample (fun m => om m V))
               (sample (fun m => gamma_of m V)) (sample (fun m => vdr_of m V)) ei ej V T p pst
    = (V * (F_zp2 V + F_th2 T V) + (F_zp1 V + F_th1 T V)) / ((if lg then 5 else 15) * ei * ej)
      + (if lg then (- (F_zp1 V + F_th1 T V)) / (3 * ei) else p - pst).
  Proof.
    intros HT HV Hi Hj. unfold isothermal.
    destruct lg; rops'; rewrite zero_point_strain_derivative_l, thermal_strain_derivative_l by assumption;
      field; repeat split; assumption.
  Qed.
  Lemma isothermal_at_zero_T_l (lg : bool) (ei ej V p pst : R) :
    V <> 0 -> ei <> 0 -> ej <> 0 ->
    isothermal (OF:=ROps) K Q1_exp Q2_exp lg w na (sample (fun m => om m V))
               (sample (fun m => gamma_of m V)) (sample (fun m => vdr_of m V)) ei ej V 0 p pst
    = (V * F_zp2 V + F_zp1 V) / ((if lg then 5 else 15) * ei * ej)
      + (if lg then (- F_zp1 V) / (3 * ei) else p - pst).
  Proof.
    intros HV Hi Hj. unfold isothermal.
    destruct lg; rops'; rewrite zero_point_strain_derivative_l, thermal_at_zero_T_l by assumption;
      field; repeat split; assumption.
  Qed.

  (** the free energy whose derivatives appear above *)
  Definition F_ph (T V : R) : R := F_zp V + F_th T V.
  Lemma F_ph_first_derivative T V : 0 < T -> is_derive (F_ph T) V (F_zp1 V + F_th1 T V).
  Proof. intros HT. apply @is_derive_plus; [apply F_zp_derive | apply F_th_derive, HT]. Qed.
  Lemma F_ph_second_derivative T V :
    0 < T -> is_derive (fun x => F_zp1 x + F_th1 T x) V (F_zp2 V + F_th2 T V).
  Proof. intros HT. apply @is_derive_plus; [apply F_zp1_derive | apply F_th1_derive, HT]. Qed.

  (** ** C01.4: weights only matter up to a common factor; Gamma-acoustic entries are ignored *)
  Lemma gamma_mask_l (X Y : list (list R)) :
    clear_gamma (OF:=ROps) X = clear_gamma (OF:=ROps) Y ->
    avg_modes (OF:=ROps) w X = avg_modes (OF:=ROps) w Y.
  Proof. unfold avg_modes. intros ->. reflexivity. Qed.
  Lemma zero_first3_ignores (a b c a' b' c' : R) t :
    zero_first3 (OF:=ROps) (a :: b :: c :: t) = zero_first3 (OF:=ROps) (a' :: b' :: c' :: t).
  Proof. reflexivity. Qed.
End Spectrum.

Lemma dot_scale (c : R) (w x : list R) :
  dot (OF:=ROps) (map (fun y => c * y) w) x = c * dot (OF:=ROps) w x.
Proof.
  revert x; induction w as [|a w IH]; intros [|b x]; cbn [map dot]; rops'; try ring.
  rewrite IH. ring.
Qed.
Lemma Rsum_scale (c : R) (w : list R) : Rsum (map (fun y => c * y) w) = c * Rsum w.
Proof. induction w as [|a w IH]; cbn [map]; rewrite ?Rsum_cons, ?Rsum_nil, ?IH; ring. Qed.
Lemma weights_normalised_l (c : R) (w : list R) (X : list (list R)) :
  c <> 0 -> Rsum w <> 0 ->
  avg_modes (OF:=ROps) (map (fun y => c * y) w) X = avg_modes (OF:=ROps) w X.
Proof.
  intros Hc Hw. unfold avg_modes, wavg. rops'. rewrite dot_scale. fold (Rsum (map (fun y => c * y) w)).
  rewrite Rsum_scale. fold (Rsum w). field. split; assumption.
Qed.

(* ------------------------------------------------------------------------------------ *)
(** * C02: the adiabatic - isothermal gap *)

Section Gap.
  Variable K : @consts R.
  Hypothesis Khdk : 0 < c_hdk K.

  (** temperature derivative of one mode's thermal pressure  P_m(T) = - dF_th/dV *)
  Lemma dPdT_mode (T V : R) (m : mode) :
    smooth_positive m -> 0 < T -> V <> 0 ->
    is_derive (fun t => - Fth1 K t m V) T (c_k K / V * (gamma_of m V * Q2_exp (OF:=ROps) (Qm K T m V))).
  Proof.
    intros Hm HT HV. pose proof (Q_pos K Khdk T m V HT Hm) as HQ.
    pose proof (one_minus_E_pos _ HQ) as HE.
    destruct (exp_Q_facts _ HQ) as (HX1 & HX & HEx). destruct Hm as (Hp & _).
    assert (Hn : om m V <> 0) by (specialize (Hp V); lra).
    unfold Fth1, BE, Qm in *. auto_derive.
    - repeat split; lra.
    - unfold Q2_exp, gamma_of. rops'. unfold Rdiv, Rminus in *. rewrite HEx.
      set (X := exp (c_hdk K * (om m V * / T))) in *. field. repeat split; try assumption; lra.
  Qed.

  Variable w : list R.
  Variable sp : list (list mode).
  Variable na : Z.
  Hypothesis Hna : (0 < na)%Z.
  Hypothesis Hw : Rsum w <> 0.
  Hypothesis Hlen : List.Forall (fun r => length r = Z.to_nat (3 * na)) sp.
  Hypothesis Hsm : all_smooth sp.

  (** (dP_ph/dT)_V of the whole spectrum, in closed form *)
  Definition dPdT (T V : R) : R :=
    dsum w (phys_rows sp) (fun m => c_k K / V * (gamma_of m V * Q2_exp (OF:=ROps) (Qm K T m V))) / Rsum w.
  Definition P_th (T V : R) : R := - F_th1 K w sp T V.

  Lemma neg_dsum (f : mode -> R) :
    dsum w (phys_rows sp) (fun m => - f m) / Rsum w = - (dsum w (phys_rows sp) f / Rsum w).
  Proof.
    rewrite (dsum_comb w sp Hw (-1) 0 f (fun _ => 0) (fun m => - f m)); [ring|].
    rewrite Forall_forall. intros r _. rewrite Forall_forall. intros m _. ring.
  Qed.
  Lemma dPdT_closed_form_l (T V : R) : 0 < T -> V <> 0 -> is_derive (fun t => P_th t V) T (dPdT T V).
  Proof.
    intros HT HV. unfold P_th, F_th1, dPdT.
    apply (is_derive_ext (fun t => dsum w (phys_rows sp) (fun m => - Fth1 K t m V) / Rsum w)).
    - intros t. apply (neg_dsum (fun m => Fth1 K t m V)).
    - apply (scal_derive w), (is_derive_dsum (fun t m => - Fth1 K t m V)).
      eapply Forall_impl; [|exact (phys_smooth sp na Hlen Hsm)]. intros row Hr.
      eapply Forall_impl; [|exact Hr]. intros m Hm. apply dPdT_mode; assumption.
  Qed.

  (** C02.2: gap = T V (dP/dT)^2 / (9 ei ej C_V) *)
  Lemma gap_formula_l (ei ej V T cv : R) :
    0 < T -> V <> 0 -> ei <> 0 -> ej <> 0 -> cv <> 0 ->
    gap (OF:=ROps) K Q2_exp w na (sample sp (fun m => om m V)) (sample sp (fun m => gamma_of m V)) ei ej V T cv
    = T * V * (dPdT T V * dPdT T V) / (9 * ei * ej * cv).
  Proof.
    intros HT HV Hi Hj Hcv. unfold gap, sample. rewrite !map2q_map. rops'.
    assert (E : Ris0 T = false) by (apply Ris0_false; lra). rewrite E.
    set (A1 := avg_modes (OF:=ROps) w (map (map (fun m => s_term (OF:=ROps) K Q2_exp ei ej false T (om m V) (gamma_of m V))) sp)).
    set (A2 := avg_modes (OF:=ROps) w (map (map (fun m => s_term (OF:=ROps) K Q2_exp ei ej true T (om m V) (gamma_of m V))) sp)).
    assert (H1 : c_k K / V * (3 * ei) * (A1 * 3 * IZR na) = dPdT T V).
    { unfold A1. fold (sample sp (fun m => s_term (OF:=ROps) K Q2_exp ei ej false T (om m V) (gamma_of m V))).
      rewrite (avg_sample_scal w sp na Hna Hw Hlen). unfold dPdT. f_equal.
      apply dsum_ext. rewrite Forall_forall. intros r _. rewrite Forall_forall. intros m _.
      unfold s_term, mg1i, p1i, Qf, Qm. rops'. field. split; assumption. }
    assert (H2 : c_k K / V * (3 * ej) * (A2 * 3 * IZR na) = dPdT T V).
    { unfold A2. fold (sample sp (fun m => s_term (OF:=ROps) K Q2_exp ei ej true T (om m V) (gamma_of m V))).
      rewrite (avg_sample_scal w sp na Hna Hw Hlen). unfold dPdT. f_equal.
      apply dsum_ext. rewrite Forall_forall. intros r _. rewrite Forall_forall. intros m _.
      unfold s_term, mg1j, p1j, Qf, Qm. rops'. field. split; assumption. }
    rewrite <- H1 at 1. rewrite <- H2. field. repeat split; assumption.
  Qed.
  Lemma gap_at_zero_T_l Q2 fr ga (ei ej V cv : R) :
    gap (OF:=ROps) K Q2 w na fr ga ei ej V 0 cv = 0.
  Proof. unfold gap. rops'. rewrite (proj2 (Ris0_true 0) eq_refl). reflexivity. Qed.

  (** C02.3: non-negative on the diagonal *)
  Lemma gap_nonneg_diagonal_l (e V T cv : R) :
    0 <= T -> 0 < V -> e <> 0 -> 0 < cv ->
    0 <= gap (OF:=ROps) K Q2_exp w na (sample sp (fun m => om m V)) (sample sp (fun m => gamma_of m V)) e e V T cv.
  Proof.
    intros HT HV He Hcv. destruct (Req_dec T 0) as [-> | HT0].
    - rewrite gap_at_zero_T_l. lra.
    - rewrite gap_formula_l by lra.
      apply Rdiv_le_0_compat.
      + apply Rmult_le_pos; [apply Rmult_le_pos; lra | apply Rle_0_sqr].
      + assert (0 < e * e) by (apply Rsqr_pos_lt in He; exact He). nra.
  Qed.
End Gap.

(* ------------------------------------------------------------------------------------ *)
(** * The code's exp(-Q) forms: every theorem above transfers *)
Section CodeForms.
  Variable K : @consts R.
  Hypothesis Khdk : 0 < c_hdk K.
  Variable w : list R.
  Variable sp : list (list mode).
  Variable na : Z.
  Hypothesis Hsm : all_smooth sp.

  Lemma map_map_ext_in {A B} (f g : A -> B) (rows : list (list A)) :
    List.Forall (List.Forall (fun m => f m = g m)) rows -> map (map f) rows = map (map g) rows.
  Proof.
    induction 1 as [|row rows Hr _ IH]; cbn [map]; [reflexivity|]. f_equal; [|exact IH].
    induction Hr as [|m row Hm _ IHr]; cbn [map]; [reflexivity|]. rewrite Hm, IHr. reflexivity.
  Qed.

  Lemma thermal_neg_eq_l (lg : bool) (ei ej V T : R) :
    0 < T ->
    thermal (OF:=ROps) K Q1_neg Q2_neg lg w na (sample sp (fun m => om m V))
            (sample sp (fun m => gamma_of m V)) (sample sp (fun m => vdr_of m V)) ei ej V T
    = thermal (OF:=ROps) K Q1_exp Q2_exp lg w na (sample sp (fun m => om m V))
            (sample sp (fun m => gamma_of m V)) (sample sp (fun m => vdr_of m V)) ei ej V T.
  Proof.
    intros HT. unfold thermal, sample. rewrite !map3q_map.
    rewrite (map_map_ext_in
               (fun m => th_term (OF:=ROps) K Q1_neg Q2_neg lg ei ej T (om m V) (gamma_of m V) (vdr_of m V))
               (fun m => th_term (OF:=ROps) K Q1_exp Q2_exp lg ei ej T (om m V) (gamma_of m V) (vdr_of m V))).
    - reflexivity.
    - unfold all_smooth in Hsm. eapply Forall_impl; [|exact Hsm]. intros row Hr.
      eapply Forall_impl; [|exact Hr]. intros m Hm. apply th_term_neg; assumption.
  Qed.

  Lemma isothermal_neg_eq_l (lg : bool) (ei ej V T p pst : R) :
    0 < T ->
    isothermal (OF:=ROps) K Q1_neg Q2_neg lg w na (sample sp (fun m => om m V))
            (sample sp (fun m => gamma_of m V)) (sample sp (fun m => vdr_of m V)) ei ej V T p pst
    = isothermal (OF:=ROps) K Q1_exp Q2_exp lg w na (sample sp (fun m => om m V))
            (sample sp (fun m => gamma_of m V)) (sample sp (fun m => vdr_of m V)) ei ej V T p pst.
  Proof. intros HT. unfold isothermal. rewrite thermal_neg_eq_l by assumption. reflexivity. Qed.

  Lemma gap_neg_eq_l (ei ej V T cv : R) :
    0 < T ->
    gap (OF:=ROps) K Q2_neg w na (sample sp (fun m => om m V)) (sample sp (fun m => gamma_of m V)) ei ej V T cv
    = gap (OF:=ROps) K Q2_exp w na (sample sp (fun m => om m V)) (sample sp (fun m => gamma_of m V)) ei ej V T cv.
  Proof.
    intros HT. unfold gap, sample. rewrite !map2q_map.
    assert (E : forall b, map (map (fun m => s_term (OF:=ROps) K Q2_neg ei ej b T (om m V) (gamma_of m V))) sp
                      = map (map (fun m => s_term (OF:=ROps) K Q2_exp ei ej b T (om m V) (gamma_of m V))) sp).
    { intros b. apply map_map_ext_in. unfold all_smooth in Hsm.
      eapply Forall_impl; [|exact Hsm]. intros row Hr. eapply Forall_impl; [|exact Hr]. intros m Hm.
      unfold s_term, Qf. rops'. change (c_hdk K * (om m V / T)) with (Qm K T m V).
      destruct (bose_forms_equal_l _ (Q_pos K Khdk T m V HT Hm)) as (_ & ->). reflexivity. }
    rewrite !E. reflexivity.
  Qed.
End CodeForms.
