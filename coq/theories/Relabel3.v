From Coq Require Import Reals List Arith.
From Cij Require Import Ops ROps Voigt ShearModel Shear RelabelBase.
Import ListNotations.
Lemma energy_relabel_3 : energy_relabel_for [1;2;0]%nat.
Proof. unfold energy_relabel_for. prove_relabel. Qed.
