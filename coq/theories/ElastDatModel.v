(** C17 - Gallina transcription of cij/io/traditional/elast_dat.py: read_elast_data and
    _find_modulus_key.  Definitions only.  The Voigt table / canonical key below is a small STATIC
    copy of what tools/translate_voigt.py regenerates into Gen_voigt.v for C10 (C10 proves the
    properties of the regenerated one; the C17 tie compares this copy with c_() on every run). *)
From Coq Require Import ZArith List Bool Strings.Byte.
From Cij Require Import VoigtBase TextModel.
Import ListNotations.
Local Open Scope Z_scope.

Definition voigt_tab : list (Z * strain) :=
  [(1, (1, 1)); (2, (2, 2)); (3, (3, 3)); (4, (2, 3)); (5, (1, 3)); (6, (1, 2))].
Definition svo (s : strain) : Z := match rlookup s voigt_tab with Some v => v | None => 0 end.
Definition str_from_voigt (i : Z) : option strain := zlookup i voigt_tab.
Definition str_from_standard (i j : Z) : option strain :=
  let '(i, j) := sort2 i j in
  if smem (i, j) (map snd voigt_tab) then Some (i, j) else None.
Definition key_from_voigt (i j : Z) : option modkey :=
  obind (str_from_voigt i) (fun a => obind (str_from_voigt j) (fun b => Some (sort2_by svo a b))).
Definition key_from_standard (i j k l : Z) : option modkey :=
  obind (str_from_standard i j) (fun a => obind (str_from_standard k l) (fun b => Some (sort2_by svo a b))).
(** c_(digit string): 4 digits standard, 2 digits Voigt; 1 digit recurses forever (RecursionError),
    any other length raises - all None here *)
Definition key_of_digits (ds : list Z) : option modkey :=
  match ds with
  | [i; j; k; l] => key_from_standard i j k l
  | [i; j] => key_from_voigt i j
  | _ => None
  end.
Definition key_voigt (m : modkey) : Z * Z := (svo (fst m), svo (snd m)).

Inductive key := KMod (k : modkey) | KStr (s : bytes).
Definition key_eqb (a b : key) : bool :=
  match a, b with
  | KMod x, KMod y => modkey_eqb x y
  | KStr x, KStr y => bytes_eqb x y
  | _, _ => false
  end.

Fixpoint drop_nondigit (s : bytes) : bytes :=
  match s with
  | c :: r => if is_digit c then s else drop_nondigit r
  | [] => []
  end.
(** the digit values of s if s consists of digits only *)
Fixpoint all_digits (s : bytes) : option (list Z) :=
  match s with
  | [] => Some []
  | c :: r => match digit_val c with
              | Some d => match all_digits r with Some ds => Some (d :: ds) | None => None end
              | None => None
              end
  end.
(** _find_modulus_key: REGEX_MODULUS = ^\D*(\d+)$ ; on a match the key is c_(group 1) (which may
    raise -> outer None), otherwise the label itself *)
Definition find_modulus_key (tok : bytes) : option key :=
  match drop_nondigit tok with
  | [] => Some (KStr tok)
  | ds => match all_digits ds with
          | Some l => match key_of_digits l with Some k => Some (KMod k) | None => None end
          | None => Some (KStr tok)
          end
  end.

(** Python dict: insertion order, later value wins *)
Fixpoint dict_set {V} (d : list (key * V)) (k : key) (v : V) : list (key * V) :=
  match d with
  | [] => [(k, v)]
  | (k', v') :: r => if key_eqb k k' then (k', v) :: r else (k', v') :: dict_set r k v
  end.
Definition dict_of {V} (l : list (key * V)) : list (key * V) :=
  fold_left (fun d kv => dict_set d (fst kv) (snd kv)) l [].

Record elast := mkelast {
  e_vref : dec; e_nv : Z; e_mass : dec;
  e_vols : list (dec * list (key * dec));
  e_lat : list (list dec) }.

(** fp.readline(): "" at end of file *)
Definition readline (ls : list bytes) : bytes * list bytes :=
  match ls with [] => ([], []) | l :: r => (l, r) end.
Definition floats_of (l : bytes) : option (list dec) := map_opt parse_dec (split_ws (strip l)).

Fixpoint read_rows (n : nat) (keys : list key) (ls : list bytes)
  : option (list (dec * list (key * dec)) * list bytes) :=
  match n with
  | O => Some ([], ls)
  | S n' =>
      let '(l, r) := readline ls in
      match floats_of l with
      | Some (v :: vals) =>
          match read_rows n' keys r with
          | Some (rows, r') => Some ((v, dict_of (combine (tl keys) vals)) :: rows, r')
          | None => None
          end
      | _ => None              (* ValueError from float() / IndexError fields[0] *)
      end
  end.
Fixpoint read_lattice (n : nat) (ls : list bytes) : option (list (list dec)) :=
  match n with
  | O => Some []
  | S n' =>
      let '(l, r) := readline ls in
      match floats_of l with
      | Some f => match read_lattice n' r with Some fs => Some (f :: fs) | None => None end
      | None => None
      end
  end.

Definition parse_elast (ls : list bytes) : option elast :=
  match ls with
  | _ :: l1 :: l2 :: rest =>
      match split_ws (strip l1) with
      | f0 :: f1 :: f2 :: _ =>
          match parse_dec f0, parse_int f1, parse_dec f2, map_opt find_modulus_key (split_ws (strip l2)) with
          | Some vref, Some n, Some mass, Some keys =>
              match read_rows (Z.to_nat n) keys rest with
              | Some (rows, r1) =>
                  let '(l, r2) := readline r1 in
                  match strip l with
                  | [] => Some (mkelast vref n mass rows [])
                  | _ => match read_lattice (Z.to_nat n) r2 with
                         | Some lat => Some (mkelast vref n mass rows lat)
                         | None => None
                         end
                  end
              | None => None
              end
          | _, _, _, _ => None
          end
      | _ => None
      end
  | _ => None          (* StopIteration from next(fp) *)
  end.
Definition parse_elast_text (t : bytes) : option elast := parse_elast (split_lines t).

(** ------------------------------------------------------------------ comparison helpers *)
Definition row_veq (a b : dec * list (key * dec)) : bool :=
  dec_veq (fst a) (fst b) &&
  list_eqb (fun p q => key_eqb (fst p) (fst q) && dec_veq (snd p) (snd q)) (snd a) (snd b).
Definition elast_veq (a b : elast) : bool :=
  dec_veq (e_vref a) (e_vref b) && (e_nv a =? e_nv b) && dec_veq (e_mass a) (e_mass b) &&
  list_eqb row_veq (e_vols a) (e_vols b) && list_eqb (list_eqb dec_veq) (e_lat a) (e_lat b).
Definition oelast_veq (a b : option elast) : bool :=
  match a, b with Some x, Some y => elast_veq x y | None, None => true | _, _ => false end.
