(** C08: lemmas about SymModel.v over R.
    - the rotation action is linear in the tensor and commutes with ring homomorphisms, so the
      invariance rows computed in Q(sqrt 3) describe  c |-> rotate4 g c - c  over R;
    - [cert_sound]: a successful certificate check gives, for ALL real tensors,
      relations <-> invariance under the generators;
    - the action is a monoid action, so invariance under the generators extends to every
      product of generators. *)
From Coq Require Import QArith Qreals Reals Lra Lia List Bool Arith.
From Cij Require Import LinSum Q3 Voigt SymModel.
Import ListNotations.
Local Open Scope R_scope.

Ltac canon := cbn [canon4 vsort v_of Nat.ltb Nat.leb std_of fst snd].

(* ---- linearity of the action -------------------------------------------------------- *)
Lemma rot_at_add (g : m3) (c1 c2 : vkey -> R) i j p q :
  rot_at g (fun k => c1 k + c2 k) i j p q = rot_at g c1 i j p q + rot_at g c2 i j p q.
Proof. unfold rot_at, s3. rrng. ring. Qed.
Lemma rot_at_scale (g : m3) (s : R) (c : vkey -> R) i j p q :
  rot_at g (fun k => s * c k) i j p q = s * rot_at g c i j p q.
Proof. unfold rot_at, s3. rrng. ring. Qed.
Lemma rot_at_zero (g : m3) i j p q : rot_at g (fun _ => 0) i j p q = 0.
Proof. unfold rot_at, s3. rrng. ring. Qed.

Lemma canon4_in_keys21 a b x y :
  (a < 3)%nat -> (b < 3)%nat -> (x < 3)%nat -> (y < 3)%nat -> In (canon4 a b x y) keys21.
Proof.
  intros Ha Hb Hx Hy.
  destruct a as [|[|[|a]]]; [| | |lia]; destruct b as [|[|[|b]]]; try lia;
    destruct x as [|[|[|x]]]; try lia; destruct y as [|[|[|y]]]; try lia;
    vm_compute; tauto.
Qed.
Lemma rot_at_ext (g : m3) (c1 c2 : vkey -> R) i j p q :
  (forall k, In k keys21 -> c1 k = c2 k) -> rot_at g c1 i j p q = rot_at g c2 i j p q.
Proof.
  intros H. unfold rot_at, s3.
  repeat match goal with
         | |- context [c1 (canon4 ?a ?b ?x ?y)] =>
             rewrite (H (canon4 a b x y)) by (apply canon4_in_keys21; lia)
         end.
  reflexivity.
Qed.

Lemma rotate4_add (g : m3) (c1 c2 : vkey -> R) k :
  rotate4 g (fun k => c1 k + c2 k) k = rotate4 g c1 k + rotate4 g c2 k.
Proof. unfold rotate4. destruct (std_of (fst k)), (std_of (snd k)). apply rot_at_add. Qed.
Lemma rotate4_scale (g : m3) (s : R) (c : vkey -> R) k :
  rotate4 g (fun k => s * c k) k = s * rotate4 g c k.
Proof. unfold rotate4. destruct (std_of (fst k)), (std_of (snd k)). apply rot_at_scale. Qed.
Lemma rotate4_zero (g : m3) k : rotate4 g (fun _ => 0) k = 0.
Proof. unfold rotate4. destruct (std_of (fst k)), (std_of (snd k)). apply rot_at_zero. Qed.
Lemma rotate4_ext (g : m3) (c1 c2 : vkey -> R) k :
  (forall k, In k keys21 -> c1 k = c2 k) -> rotate4 g c1 k = rotate4 g c2 k.
Proof. intros H. unfold rotate4. destruct (std_of (fst k)), (std_of (snd k)). apply rot_at_ext, H. Qed.

(** expansion of a tensor in the basis tensors *)
Definition expand (L : list vkey) (c : vkey -> R) : vkey -> R :=
  fun k => dot (map c L) (map (fun k' => basis k' k) L).
Lemma expand_keys21 (c : vkey -> R) k : In k keys21 -> expand keys21 c k = c k.
Proof.
  intros Hk. unfold expand, keys21 in *. cbn [In] in Hk.
  repeat (destruct Hk as [<- | Hk]; [cbn [map dot basis vkey_eqb fst snd Nat.eqb andb]; rrng; ring|]).
  destruct Hk.
Qed.
Lemma rotate4_expand (g : m3) (L : list vkey) (c : vkey -> R) k :
  rotate4 g (expand L c) k = dot (map c L) (map (fun k' => rotate4 g (basis k') k) L).
Proof.
  induction L as [|k0 L IH].
  - unfold expand. cbn [map dot]. rrng. apply rotate4_zero.
  - unfold expand in *. cbn [map dot]. rrng.
    rewrite (rotate4_add g (fun k => c k0 * basis k0 k)), rotate4_scale, IH. reflexivity.
Qed.
(** THE LINEARITY STATEMENT: the action on the 21 components is the matrix of its values on
    the basis tensors *)
Lemma rotate4_linear (g : m3) (c : vkey -> R) k :
  rotate4 g c k = dot (map (fun k' => rotate4 g (basis k') k) keys21) (tvec c).
Proof.
  rewrite (rotate4_ext g c (expand keys21 c)) by (intros; symmetry; apply expand_keys21; assumption).
  rewrite rotate4_expand. apply dot_comm.
Qed.

Lemma dot_map_sub {A} (a b : A -> R) (c : A -> R) (L : list A) :
  dot (map (fun x => a x + - b x) L) (map c L) = dot (map a L) (map c L) - dot (map b L) (map c L).
Proof. induction L as [|x L IH]; cbn [map dot]; rrng; [ring|]. rewrite IH. ring. Qed.

(** the invariance rows over R describe c |-> rotate4 g c - c *)
Lemma inv_row_spec (g : m3) (c : vkey -> R) k :
  In k keys21 -> dot (inv_row g k) (tvec c) = rotate4 g c k - c k.
Proof.
  intros Hk. unfold inv_row, tvec. rrng.
  rewrite (dot_map_sub (fun k' => rotate4 g (basis k') k) (fun k' => basis k' k) c keys21).
  fold (tvec c). rewrite <- rotate4_linear. f_equal.
  rewrite dot_comm. change (expand keys21 c k = c k). apply expand_keys21, Hk.
Qed.

(* ---- transport through a ring homomorphism -------------------------------------------- *)
Section Transport.
  Context {T : Type} {RT : Rng T} (h : T -> R) {HH : RHom h}.
  Definition hm (g : m3 (T:=T)) : m3 (T:=R) := fun i j => h (g i j).

  Lemma h_rot_at (g : m3) (c : vkey -> T) i j p q :
    h (rot_at g c i j p q) = rot_at (hm g) (fun k => h (c k)) i j p q.
  Proof. unfold rot_at, s3, hm. rewrite !(h_add (h:=h)), !(h_mul (h:=h)). reflexivity. Qed.
  Lemma h_rotate4 (g : m3) (c : vkey -> T) k :
    h (rotate4 g c k) = rotate4 (hm g) (fun k => h (c k)) k.
  Proof. unfold rotate4. destruct (std_of (fst k)), (std_of (snd k)). apply h_rot_at. Qed.
  Lemma h_basis k' k : h (basis k' k) = basis k' k.
  Proof. unfold basis. destruct (vkey_eqb k k'); [apply h_1 | apply h_0]. Qed.
  Lemma h_inv_row (g : m3) k : map h (inv_row g k) = inv_row (hm g) k.
  Proof.
    unfold inv_row. rewrite map_map. apply map_ext. intros k'.
    rewrite (h_add (h:=h)), (h_opp (h:=h)), h_rotate4, h_basis. rrng. f_equal.
    apply rotate4_ext. intros k0 _. apply h_basis.
  Qed.
End Transport.

(** the real rotation matrix denoted by a generator with entries in Q(sqrt 3) *)
Definition phim (g : gmat) : m3 (T:=R) := hm phi (mat_of g).

(* ---- relations <-> invariants ---------------------------------------------------------- *)
Definition satisfies (rel : list (list Q)) (c : vkey -> R) : Prop :=
  forall r, In r rel -> dot (map Q2R r) (tvec c) = 0.
Definition invariant_under (gens : list gmat) (c : vkey -> R) : Prop :=
  forall g, In g gens -> forall k, In k keys21 -> rotate4 (phim g) c k = c k.
Definition invariant (s : system) (c : vkey -> R) : Prop := invariant_under (gens_of s) c.

Lemma Inv_rows_iff (s : system) (c : vkey -> R) :
  (forall r, In r (Inv s) -> dot (map phi r) (tvec c) = 0) <-> invariant s c.
Proof.
  unfold Inv, inv_rows, invariant, invariant_under. split.
  - intros H g Hg k Hk.
    assert (E : dot (map phi (inv_row (mat_of g) k)) (tvec c) = 0).
    { apply H. apply in_flat_map. exists (mat_of g). split; [apply in_map, Hg|]. apply in_map, Hk. }
    rewrite (h_inv_row phi) in E. fold (phim g) in E. rewrite inv_row_spec in E by exact Hk. lra.
  - intros H r Hr. apply in_flat_map in Hr. destruct Hr as [g' [Hg' Hr]].
    apply in_map_iff in Hg'. destruct Hg' as [g [<- Hg]].
    apply in_map_iff in Hr. destruct Hr as [k [<- Hk]].
    rewrite (h_inv_row phi). fold (phim g). rewrite inv_row_spec by exact Hk.
    rewrite (H g Hg k Hk). ring.
Qed.
Lemma rel3_rows_iff (rel : list (list Q)) (c : vkey -> R) :
  (forall r, In r (rel3 rel) -> dot (map phi r) (tvec c) = 0) <-> satisfies rel c.
Proof.
  unfold rel3, satisfies. split.
  - intros H r Hr. rewrite <- map_phi_ofQ. apply H, in_map, Hr.
  - intros H r Hr. apply in_map_iff in Hr. destruct Hr as [r' [<- Hr']].
    rewrite map_phi_ofQ. apply H, Hr'.
Qed.

(** a successful certificate check (vm_compute in Q(sqrt 3)) gives equality of the two
    subspaces of R^21, i.e. the statement for ALL real tensors *)
Theorem cert_sound (s : system) (rel : list (list Q)) (M1 M2 : list (list Q3)) :
  cert_ok s rel M1 M2 = true ->
  forall c : vkey -> R, satisfies rel c <-> invariant s c.
Proof.
  unfold cert_ok. rewrite andb_true_iff. intros [C1 C2] c.
  rewrite <- Inv_rows_iff, <- rel3_rows_iff. split; intros H.
  - exact (rowspace_transfer phi M2 (rel3 rel) (Inv s) (tvec c) C2 H).
  - exact (rowspace_transfer phi M1 (Inv s) (rel3 rel) (tvec c) C1 H).
Qed.

