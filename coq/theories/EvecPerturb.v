(** C20 - from "unitary base, unit phases, perturbation of norm <= eps < 1/2" to the strict
    row dominance that [greedy_recovers_row_dominant] needs, over R, for the model's own
    overlap matrix [EvecSortModel.overlap] (complex numbers = pairs of reals).

    Contents
    - scalar facts: Lagrange / Cauchy-Schwarz in the plane, triangle inequality for |.|
    - finite-sum Cauchy-Schwarz for complex vectors, by induction on the lists:
        |sum_k conj(a_k) b_k|^2 <= (sum_k |a_k|^2) (sum_k |b_k|^2)
    - linearity of [cdot_conj] in its second argument
    - [perturbation_gives_dominance_l], [evec_sort_recovers_perturbed_permutation_l],
      the 5 % instance and a 2 x 2 complex non-vacuity example. *)
From Coq Require Import List Arith Bool Lia Reals Lra Permutation.
From Cij Require Import Ops ROps EvecSortModel EvecSort Disp2EigModel Disp2Eig.
Import ListNotations.
Local Open Scope R_scope.

Notation C := (R * R)%type.
Notation cdotR := (@cdot_conj R ROps).
Notation cabsR := (@cabs R ROps).
Notation n2 := (@norm2_c R ROps).

(* ====================================================================================== *)
(** * Scalar facts *)

Lemma sq_le_le : forall x y, 0 <= y -> x * x <= y * y -> x <= y.
Proof.
  intros x y Hy H. destruct (Rle_lt_dec x y) as [L|L]; [exact L|exfalso].
  assert (0 < (x - y) * (x + y)) by (apply Rmult_lt_0_compat; lra).
  assert ((x - y) * (x + y) = x * x - y * y) by ring. lra.
Qed.

Lemma lagrange2 : forall p q P Q, (p * P + q * Q) * (p * P + q * Q) <= (p * p + q * q) * (P * P + Q * Q).
Proof.
  intros p q P Q.
  assert (E : (p * p + q * q) * (P * P + Q * Q) - (p * P + q * Q) * (p * P + q * Q)
              = (p * Q - q * P) * (p * Q - q * P)) by ring.
  pose proof (Rle_0_sqr (p * Q - q * P)) as S. unfold Rsqr in S. lra.
Qed.

(** one step of the induction for Cauchy-Schwarz: a new pair of components with
    |x|^2 = X, |y|^2 = Y and conj(x) y = p + i q is added to sums with |P + i Q|^2 <= A B *)
Lemma cs_step : forall X Y A B p q P Q,
  0 <= X -> 0 <= Y -> 0 <= A -> 0 <= B ->
  p * p + q * q = X * Y -> P * P + Q * Q <= A * B ->
  (p + P) * (p + P) + (q + Q) * (q + Q) <= (X + A) * (Y + B).
Proof.
  intros X Y A B p q P Q HX HY HA HB Hpq HPQ.
  set (t := p * P + q * Q).
  set (u := X * B). set (v := A * Y).
  assert (Hu : 0 <= u) by (apply Rmult_le_pos; auto).
  assert (Hv : 0 <= v) by (apply Rmult_le_pos; auto).
  assert (Ht : t * t <= u * v).
  { pose proof (lagrange2 p q P Q) as L. fold t in L. rewrite Hpq in L.
    assert (X * Y * (P * P + Q * Q) <= X * Y * (A * B)).
    { apply Rmult_le_compat_l; [apply Rmult_le_pos; auto|exact HPQ]. }
    replace (u * v) with (X * Y * (A * B)) by (unfold u, v; ring). lra. }
  assert (H2t : 2 * t <= u + v).
  { apply sq_le_le; [lra|].
    assert (E : (u + v) * (u + v) - 4 * (u * v) = (u - v) * (u - v)) by ring.
    pose proof (Rle_0_sqr (u - v)) as S. unfold Rsqr in S.
    replace (2 * t * (2 * t)) with (4 * (t * t)) by ring. lra. }
  replace ((p + P) * (p + P) + (q + Q) * (q + Q))
    with ((p * p + q * q) + 2 * t + (P * P + Q * Q)) by (unfold t; ring).
  replace ((X + A) * (Y + B)) with (X * Y + (u + v) + A * B) by (unfold u, v; ring).
  rewrite Hpq. lra.
Qed.

Lemma sqrt_le_of_sq : forall x e, 0 <= e -> x <= e * e -> sqrt x <= e.
Proof.
  intros x e He H. rewrite <- (sqrt_square e He). apply sqrt_le_1_alt. exact H.
Qed.

(** triangle inequality for the modulus of pairs *)
Lemma mod_triangle : forall a b c d,
  sqrt ((a + c) * (a + c) + (b + d) * (b + d)) <= sqrt (a * a + b * b) + sqrt (c * c + d * d).
Proof.
  intros a b c d.
  set (m := sqrt (a * a + b * b)). set (k := sqrt (c * c + d * d)).
  assert (Hab : 0 <= a * a + b * b) by (pose proof (Rle_0_sqr a); pose proof (Rle_0_sqr b); unfold Rsqr in *; lra).
  assert (Hcd : 0 <= c * c + d * d) by (pose proof (Rle_0_sqr c); pose proof (Rle_0_sqr d); unfold Rsqr in *; lra).
  assert (Hm : 0 <= m) by apply sqrt_pos.
  assert (Hk : 0 <= k) by apply sqrt_pos.
  assert (Em : m * m = a * a + b * b) by (apply sqrt_sqrt; exact Hab).
  assert (Ek : k * k = c * c + d * d) by (apply sqrt_sqrt; exact Hcd).
  apply sqrt_le_of_sq; [lra|].
  assert (Hx : a * c + b * d <= m * k).
  { apply sq_le_le; [apply Rmult_le_pos; auto|].
    pose proof (lagrange2 a b c d) as L.
    replace (m * k * (m * k)) with ((m * m) * (k * k)) by ring. rewrite Em, Ek. exact L. }
  replace ((a + c) * (a + c) + (b + d) * (b + d))
    with ((a * a + b * b) + 2 * (a * c + b * d) + (c * c + d * d)) by ring.
  replace ((m + k) * (m + k)) with (m * m + 2 * (m * k) + k * k) by ring.
  rewrite Em, Ek. lra.
Qed.

(* ====================================================================================== *)
(** * Complex numbers and vectors as pairs / lists of pairs *)

Definition cadd (z w : C) : C := (fst z + fst w, snd z + snd w).
Definition cmul (z w : C) : C := (fst z * fst w - snd z * snd w, fst z * snd w + snd z * fst w).
Definition cconj (z : C) : C := (fst z, - snd z).
Definition vadd (u v : list C) : list C := zipw cadd u v.
Definition vscale (z : C) (u : list C) : list C := map (cmul z) u.
(** |z| = 1 *)
Definition unit_phase (z : C) : Prop := fst z * fst z + snd z * snd z = 1.
(** Euclidean norm of a complex vector *)
Definition cnorm (v : list C) : R := sqrt (n2 v).

Lemma pair_eq {A B} (a c : A) (b d : B) : a = c -> b = d -> (a, b) = (c, d).
Proof. intros -> ->. reflexivity. Qed.

Lemma cabs_ext : forall z w : C, fst z = fst w -> snd z = snd w -> cabsR z = cabsR w.
Proof. intros [a b] [c d]; cbn [fst snd]; intros -> ->. reflexivity. Qed.

Lemma cabs_nonneg : forall z : C, 0 <= cabsR z.
Proof. intros z. unfold cabs. rops. apply sqrt_pos. Qed.

Lemma cabs_triangle : forall z w : C, cabsR (cadd z w) <= cabsR z + cabsR w.
Proof. intros [a b] [c d]. unfold cabs, cadd. rops. cbn [fst snd]. apply mod_triangle. Qed.

Lemma cabs_triangle_rev : forall z w : C, cabsR z - cabsR w <= cabsR (cadd z w).
Proof.
  intros [a b] [c d]. unfold cabs, cadd. rops. cbn [fst snd].
  pose proof (mod_triangle (a + c) (b + d) (- c) (- d)) as T.
  replace ((a + c + - c) * (a + c + - c) + (b + d + - d) * (b + d + - d)) with (a * a + b * b) in T by ring.
  replace (- c * - c + - d * - d) with (c * c + d * d) in T by ring. lra.
Qed.

Lemma n2_nonneg : forall v : list C, 0 <= n2 v.
Proof.
  induction v as [|x v IH]; cbn [norm2_c]; rops; [lra|].
  pose proof (Rle_0_sqr (fst x)) as S1. pose proof (Rle_0_sqr (snd x)) as S2. unfold Rsqr in *. lra.
Qed.

(** <v, v> = ||v||^2 + 0 i *)
Lemma cdot_self : forall v : list C, cdotR v v = (n2 v, 0).
Proof.
  induction v as [|x v IH]; cbn [cdot_conj norm2_c]; rops; [reflexivity|].
  rewrite IH. unfold cmul_conj. rops. cbn [fst snd]. apply pair_eq; ring.
Qed.

(* ---------------- Cauchy-Schwarz ---------------- *)
Lemma cauchy_schwarz_sq : forall a b : list C,
  fst (cdotR a b) * fst (cdotR a b) + snd (cdotR a b) * snd (cdotR a b) <= n2 a * n2 b.
Proof.
  induction a as [|x a IH]; intros [|y b]; cbn [cdot_conj norm2_c]; rops; cbn [fst snd].
  - lra.
  - lra.
  - lra.
  - unfold cmul_conj. rops. cbn [fst snd].
    apply cs_step.
    + pose proof (Rle_0_sqr (fst x)) as S1. pose proof (Rle_0_sqr (snd x)) as S2. unfold Rsqr in *. lra.
    + pose proof (Rle_0_sqr (fst y)) as S1. pose proof (Rle_0_sqr (snd y)) as S2. unfold Rsqr in *. lra.
    + apply n2_nonneg.
    + apply n2_nonneg.
    + ring.
    + apply IH.
Qed.

(** |<a, b>| <= ||a|| ||b|| *)
Lemma cauchy_schwarz : forall a b : list C, cabsR (cdotR a b) <= cnorm a * cnorm b.
Proof.
  intros a b. unfold cabs, cnorm. rops. rewrite <- sqrt_mult by apply n2_nonneg.
  apply sqrt_le_1_alt. apply cauchy_schwarz_sq.
Qed.

(* ---------------- linearity in the second argument ---------------- *)
Lemma cdot_vadd : forall b u v : list C, length u = length v ->
  cdotR b (vadd u v) = cadd (cdotR b u) (cdotR b v).
Proof.
  induction b as [|x b IH]; intros u v Hl.
  - cbn [cdot_conj]. rops. unfold cadd. cbn [fst snd]. apply pair_eq; ring.
  - destruct u as [|y u]; destruct v as [|z v]; try discriminate Hl.
    + cbn [vadd zipw cdot_conj]. rops. unfold cadd. cbn [fst snd]. apply pair_eq; ring.
    + cbn [vadd zipw cdot_conj]. fold (vadd u v). rewrite IH by (cbn [length] in Hl; lia).
      unfold cadd, cmul_conj. rops. cbn [fst snd]. apply pair_eq; ring.
Qed.

Lemma cdot_vscale_r : forall (z : C) (b u : list C), cdotR b (vscale z u) = cmul z (cdotR b u).
Proof.
  intros z. induction b as [|x b IH]; intros u.
  - cbn [cdot_conj]. rops. unfold cmul. cbn [fst snd]. apply pair_eq; ring.
  - destruct u as [|y u].
    + cbn [vscale map cdot_conj]. rops. unfold cmul. cbn [fst snd]. apply pair_eq; ring.
    + cbn [vscale map cdot_conj]. fold (vscale z u). rewrite IH.
      unfold cmul, cmul_conj. rops. cbn [fst snd]. apply pair_eq; ring.
Qed.

(** conjugate-linearity in the first argument *)
Lemma cdot_vscale_l : forall (z : C) (b u : list C), cdotR (vscale z b) u = cmul (cconj z) (cdotR b u).
Proof.
  intros z. induction b as [|x b IH]; intros u.
  - cbn [vscale map cdot_conj]. rops. unfold cmul, cconj. cbn [fst snd]. apply pair_eq; ring.
  - destruct u as [|y u].
    + cbn [vscale map cdot_conj]. rops. unfold cmul, cconj. cbn [fst snd]. apply pair_eq; ring.
    + cbn [vscale map cdot_conj]. fold (vscale z b). rewrite IH.
      unfold cmul, cconj, cmul_conj. rops. cbn [fst snd]. apply pair_eq; ring.
Qed.

Lemma vscale_length : forall (z : C) (u : list C), length (vscale z u) = length u.
Proof. intros. apply map_length. Qed.

(* ====================================================================================== *)
(** * One entry of the overlap matrix *)

(** <b, phi b' + d> = phi <b, b'> + e  with |e| <= ||d||  when ||b|| = 1 *)
Lemma overlap_entry : forall (b b' d : list C) (phi : C) (eps : R),
  n2 b = 1 -> length d = length b' -> cnorm d <= eps ->
  exists e : C, cabsR e <= eps /\
    cdotR b (vadd (vscale phi b') d) = cadd (cmul phi (cdotR b b')) e.
Proof.
  intros b b' d phi eps Hb Hl Hd. exists (cdotR b d). split.
  - pose proof (cauchy_schwarz b d) as CS. unfold cnorm in CS at 1. rewrite Hb, sqrt_1 in CS. lra.
  - rewrite cdot_vadd by (rewrite vscale_length; auto). rewrite cdot_vscale_r. reflexivity.
Qed.

Lemma overlap_matched : forall (b d : list C) (phi : C) (eps : R),
  cdotR b b = (1, 0) -> unit_phase phi -> length d = length b -> cnorm d <= eps ->
  1 - eps <= cabsR (cdotR b (vadd (vscale phi b) d)).
Proof.
  intros b d phi eps Hbb Hphi Hl Hd.
  assert (Hb : n2 b = 1) by (pose proof (cdot_self b) as E; rewrite Hbb in E; congruence).
  destruct (overlap_entry b b d phi eps Hb Hl Hd) as [e [He ->]]. rewrite Hbb.
  pose proof (cabs_triangle_rev (cmul phi (1, 0)) e) as T.
  assert (E1 : cabsR (cmul phi (1, 0)) = 1).
  { unfold cabs, cmul. rops. cbn [fst snd]. unfold unit_phase in Hphi.
    match goal with |- sqrt ?x = 1 => replace x with 1 by lra end. apply sqrt_1. }
  lra.
Qed.

Lemma overlap_unmatched : forall (b b' d : list C) (phi : C) (eps : R),
  cdotR b b = (1, 0) -> cdotR b b' = (0, 0) -> length d = length b' -> cnorm d <= eps ->
  cabsR (cdotR b (vadd (vscale phi b') d)) <= eps.
Proof.
  intros b b' d phi eps Hbb Hbb' Hl Hd.
  assert (Hb : n2 b = 1) by (pose proof (cdot_self b) as E; rewrite Hbb in E; congruence).
  destruct (overlap_entry b b' d phi eps Hb Hl Hd) as [e [He ->]]. rewrite Hbb'.
  rewrite (cabs_ext _ e); [exact He| |]; unfold cadd, cmul; cbn [fst snd]; ring.
Qed.

(* ====================================================================================== *)
(** * The overlap matrix of the model *)

Lemma nth_map_lt {A B} (f : A -> B) (l : list A) (d : A) (d' : B) (i : nat) :
  (i < length l)%nat -> nth i (map f l) d' = f (nth i l d).
Proof.
  intros Hi. rewrite (nth_indep _ d' (f d)) by (rewrite map_length; exact Hi). apply map_nth.
Qed.

Lemma ent_overlap : forall (base target : list (list C)) i j,
  (i < length base)%nat -> (j < length target)%nat ->
  ent 0 (@overlap R ROps base target) i j = cabsR (cdotR (nth i base []) (nth j target [])).
Proof.
  intros base target i j Hi Hj. unfold ent, overlap.
  rewrite (nth_map_lt _ base [] [] i Hi). rewrite (nth_map_lt _ target [] 0 j Hj). reflexivity.
Qed.

Lemma overlap_shape : forall (base target : list (list C)) n,
  length base = n -> length target = n -> shape n (@overlap R ROps base target).
Proof.
  intros base target n Hb Ht. unfold overlap. split.
  - rewrite map_length. exact Hb.
  - intros row Hin. apply in_map_iff in Hin. destruct Hin as [b [<- _]]. rewrite map_length. exact Ht.
Qed.

Lemma perm_on_surj : forall n sigma, perm_on n sigma ->
  forall j, (j < n)%nat -> exists i, (i < n)%nat /\ sigma i = j.
Proof.
  intros n sigma Hp j Hj.
  pose proof (perm_on_Permutation n sigma Hp) as P.
  assert (Hin : In j (map sigma (seq 0 n))).
  { apply (Permutation_in j (Permutation_sym P)). apply in_seq. lia. }
  apply in_map_iff in Hin. destruct Hin as [i [E Hi]]. apply in_seq in Hi.
  exists i. split; [lia|exact E].
Qed.

(** rows of [base] are orthonormal for the Hermitian product of the model *)
Definition orthonormal (n : nat) (base : list (list C)) : Prop :=
  forall i k, (i < n)%nat -> (k < n)%nat ->
    cdotR (nth i base []) (nth k base []) = if (i =? k)%nat then (1, 0) else (0, 0).

(** target[sigma i] = phi_i * base[i] + delta_i with |phi_i| = 1, ||delta_i|| <= eps.
    (phases and perturbations are indexed by the base vector i = sigma^-1 j; see
    [perturbed_inv] for the indexing by the target position j) *)
Definition perturbed (n : nat) (base target : list (list C)) (sigma : nat -> nat)
           (phi : nat -> C) (delta : nat -> list C) (eps : R) : Prop :=
  forall i, (i < n)%nat ->
    unit_phase (phi i) /\ length (delta i) = length (nth i base []) /\ cnorm (delta i) <= eps /\
    nth (sigma i) target [] = vadd (vscale (phi i) (nth i base [])) (delta i).

(** the same with everything indexed by the target position j and an explicit inverse:
    target[j] = phi_j * base[sinv j] + delta_j *)
Definition perturbed_inv (n : nat) (base target : list (list C)) (sinv : nat -> nat)
           (phi : nat -> C) (delta : nat -> list C) (eps : R) : Prop :=
  forall j, (j < n)%nat ->
    unit_phase (phi j) /\ length (delta j) = length (nth (sinv j) base []) /\ cnorm (delta j) <= eps /\
    nth j target [] = vadd (vscale (phi j) (nth (sinv j) base [])) (delta j).

Lemma perturbed_of_inv : forall n base target sigma sinv phi delta eps,
  perm_on n sigma -> (forall j, (j < n)%nat -> (sinv j < n)%nat /\ sigma (sinv j) = j) ->
  perturbed_inv n base target sinv phi delta eps ->
  perturbed n base target sigma (fun i => phi (sigma i)) (fun i => delta (sigma i)) eps.
Proof.
  intros n base target sigma sinv phi delta eps Hp Hinv H i Hi.
  assert (Hs : (sigma i < n)%nat) by (apply Hp; exact Hi).
  assert (E : sinv (sigma i) = i).
  { destruct (Hinv (sigma i) Hs) as [Hl He]. destruct Hp as [_ Hinj]. apply Hinj; auto. }
  specialize (H (sigma i) Hs). rewrite E in H. exact H.
Qed.

(** ** strict row dominance *)
Theorem perturbation_gives_dominance_l :
  forall n (base target : list (list C)) (sigma : nat -> nat) (phi : nat -> C) (delta : nat -> list C) (eps : R),
    length base = n -> length target = n -> perm_on n sigma -> orthonormal n base ->
    perturbed n base target sigma phi delta eps -> eps < 1 / 2 ->
    forall i, (i < n)%nat ->
      1 - eps <= ent 0 (@overlap R ROps base target) i (sigma i) /\
      eps < 1 - eps /\
      forall j, (j < n)%nat -> j <> sigma i -> ent 0 (@overlap R ROps base target) i j <= eps.
Proof.
  intros n base target sigma phi delta eps Hb Ht Hp Ho Hpert Heps i Hi.
  assert (Hsi : (sigma i < n)%nat) by (apply Hp; exact Hi).
  assert (Hii : cdotR (nth i base []) (nth i base []) = (1, 0)).
  { rewrite (Ho i i Hi Hi). rewrite Nat.eqb_refl. reflexivity. }
  split; [|split].
  - rewrite ent_overlap by lia.
    destruct (Hpert i Hi) as (Hph & Hl & Hd & ->).
    apply overlap_matched; auto.
  - lra.
  - intros j Hj Hne.
    destruct (perm_on_surj n sigma Hp j Hj) as [i' [Hi' <-]].
    assert (Hii' : i <> i') by (intros ->; apply Hne; reflexivity).
    rewrite ent_overlap by lia.
    destruct (Hpert i' Hi') as (Hph & Hl & Hd & ->).
    apply overlap_unmatched; auto.
    rewrite (Ho i i' Hi Hi'). apply Nat.eqb_neq in Hii'. rewrite Hii'. reflexivity.
Qed.

(** ** end to end: the model function returns items[sigma 0], ..., items[sigma (n-1)] *)
Theorem evec_sort_recovers_perturbed_permutation_l :
  forall (A : Type) (items : list A) n (base target : list (list C)) (sigma : nat -> nat)
         (phi : nat -> C) (delta : nat -> list C) (eps : R),
    length items = n -> length base = n -> length target = n ->
    (forall v, In v (target ++ base) -> length v = n) ->
    perm_on n sigma -> orthonormal n base ->
    perturbed n base target sigma phi delta eps -> eps < 1 / 2 ->
    @evec_sort R ROps A items target base = Some (map (fun i => nth_error items (sigma i)) (seq 0 n)).
Proof.
  intros A items n base target sigma phi delta eps Hn Hb Ht Hv Hp Ho Hpert Heps.
  rewrite evec_sort_accepts_square_l; try congruence.
  2:{ intros v Hin. rewrite Hn. apply Hv. exact Hin. }
  f_equal.
  pose proof (perturbation_gives_dominance_l n base target sigma phi delta eps Hb Ht Hp Ho Hpert Heps) as D.
  apply evec_sort_mat_recovers_R_l; auto.
  - apply overlap_shape; auto.
  - intros i j Hi Hj. rewrite ent_overlap by lia. apply cabs_nonneg.
  - intros i j Hi Hj Hne. destruct (D i Hi) as (D1 & D2 & D3). specialize (D3 j Hj Hne). lra.
Qed.

(** the same, phases and perturbations indexed by the target position j:
    target[j] = phi_j * base[sigma^-1 j] + delta_j *)
Theorem evec_sort_recovers_perturbed_permutation_inv_l :
  forall (A : Type) (items : list A) n (base target : list (list C)) (sigma sinv : nat -> nat)
         (phi : nat -> C) (delta : nat -> list C) (eps : R),
    length items = n -> length base = n -> length target = n ->
    (forall v, In v (target ++ base) -> length v = n) ->
    perm_on n sigma -> (forall j, (j < n)%nat -> (sinv j < n)%nat /\ sigma (sinv j) = j) ->
    orthonormal n base ->
    perturbed_inv n base target sinv phi delta eps -> eps < 1 / 2 ->
    @evec_sort R ROps A items target base = Some (map (fun i => nth_error items (sigma i)) (seq 0 n)).
Proof.
  intros A items n base target sigma sinv phi delta eps Hn Hb Ht Hv Hp Hinv Ho Hpert Heps.
  eapply evec_sort_recovers_perturbed_permutation_l; eauto.
  eapply perturbed_of_inv; eauto.
Qed.

(** 5 % perturbations *)
Corollary evec_sort_recovers_5pct_l :
  forall (A : Type) (items : list A) n (base target : list (list C)) (sigma : nat -> nat)
         (phi : nat -> C) (delta : nat -> list C),
    length items = n -> length base = n -> length target = n ->
    (forall v, In v (target ++ base) -> length v = n) ->
    perm_on n sigma -> orthonormal n base ->
    perturbed n base target sigma phi delta (5 / 100) ->
    @evec_sort R ROps A items target base = Some (map (fun i => nth_error items (sigma i)) (seq 0 n)).
Proof.
  intros. eapply evec_sort_recovers_perturbed_permutation_l; eauto. lra.
Qed.

(* ====================================================================================== *)
(** * Non-vacuity: 2 x 2, complex phases i and -1, perturbation of norm exactly 0.05 *)
Definition exp_base : list (list C) := [[(1, 0); (0, 0)]; [(0, 0); (1, 0)]].
Definition exp_sigma (i : nat) : nat := match i with O => 1%nat | _ => O end.
Definition exp_phi (i : nat) : C := match i with O => (0, 1) | _ => (-1, 0) end.
Definition exp_delta (i : nat) : list C :=
  match i with O => [(3 / 100, 0); (0, 4 / 100)] | _ => [(0, 0); (0, 0)] end.
(** target[1] = i * base[0] + delta_0,  target[0] = - base[1] + delta_1 *)
Definition exp_target : list (list C) := [[(0, 0); (-1, 0)]; [(3 / 100, 1); (0, 4 / 100)]].

Ltac list_pair_eq :=
  repeat first [ reflexivity | apply (f_equal2 (@cons C)) | apply pair_eq | lra ].

Example exp_hyps :
  perm_on 2 exp_sigma /\ orthonormal 2 exp_base /\
  perturbed 2 exp_base exp_target exp_sigma exp_phi exp_delta (5 / 100).
Proof.
  split; [split|split].
  - intros [|[|i]] H; cbn; lia.
  - intros [|[|i]] [|[|j]] Hi Hj; cbn; intros; lia.
  - intros [|[|i]] [|[|k]] Hi Hk; try lia;
      cbn [nth exp_base cdot_conj cmul_conj fst snd Nat.eqb]; rops; cbn [fst snd]; apply pair_eq; lra.
  - intros [|[|i]] Hi; try lia.
    + split; [unfold unit_phase; cbn [exp_phi fst snd]; lra|].
      split; [reflexivity|]. split.
      * unfold cnorm. cbn [exp_delta norm2_c fst snd]. rops. apply sqrt_le_of_sq; lra.
      * cbn [exp_sigma exp_target exp_base exp_phi exp_delta nth vadd vscale zipw map].
        unfold cadd, cmul. cbn [fst snd]. list_pair_eq.
    + split; [unfold unit_phase; cbn [exp_phi fst snd]; lra|].
      split; [reflexivity|]. split.
      * unfold cnorm. cbn [exp_delta norm2_c fst snd]. rops. apply sqrt_le_of_sq; lra.
      * cbn [exp_sigma exp_target exp_base exp_phi exp_delta nth vadd vscale zipw map].
        unfold cadd, cmul. cbn [fst snd]. list_pair_eq.
Qed.

Example exp_sorted :
  @evec_sort R ROps nat [10; 20]%nat exp_target exp_base = Some [Some 20; Some 10]%nat.
Proof.
  destruct exp_hyps as (Hp & Ho & Hpert).
  rewrite (evec_sort_recovers_5pct_l nat [10; 20]%nat 2 exp_base exp_target exp_sigma exp_phi exp_delta);
    auto.
  intros v [<-|[<-|[<-|[<-|[]]]]]; reflexivity.
Qed.
