(** C20 - complex-data versions of the evec_disp2eig lemmas of Disp2Eig.v, for the model
    [Disp2EigModel.disp2eig_c] over R (complex numbers = pairs of reals):
    unit norm of every non-zero row, restoration of (s_i/|s_i|) u_i from
    a_i = s_i * M^(-1/2) u_i with complex s_i <> 0, orthonormality of the restored rows
    for the Hermitian product [EvecSortModel.cdot_conj]. *)
From Coq Require Import List Arith Bool Lia Reals Lra.
From Cij Require Import Ops ROps Disp2EigModel EvecSortModel Disp2Eig EvecPerturb.
Import ListNotations.
Local Open Scope R_scope.

(* ---------------- norms ---------------- *)
Lemma c_nonzero_sq : forall x : C, x <> (0, 0) -> 0 < fst x * fst x + snd x * snd x.
Proof.
  intros [a b] H. cbn [fst snd].
  pose proof (Rle_0_sqr a) as Sa. pose proof (Rle_0_sqr b) as Sb. unfold Rsqr in *.
  destruct (Req_dec a 0) as [Ea|Na].
  - destruct (Req_dec b 0) as [Eb|Nb]; [subst; exfalso; apply H; reflexivity|].
    assert (0 < b * b) by (destruct (Rdichotomy _ _ Nb); nra). lra.
  - assert (0 < a * a) by (destruct (Rdichotomy _ _ Na); nra). lra.
Qed.

Lemma n2_pos : forall row : list C, (exists x, In x row /\ x <> (0, 0)) -> 0 < n2 row.
Proof.
  induction row as [|y row IH]; intros [x [Hin Hx]]; [destruct Hin|].
  cbn [norm2_c]; rops. pose proof (n2_nonneg row) as P.
  pose proof (Rle_0_sqr (fst y)) as S1. pose proof (Rle_0_sqr (snd y)) as S2. unfold Rsqr in *.
  destruct Hin as [->|Hin].
  - pose proof (c_nonzero_sq x Hx). lra.
  - assert (0 < n2 row) by (apply IH; exists x; auto). lra.
Qed.

Lemma n2_map_div : forall (c : R) (row : list C), c <> 0 ->
  n2 (map (fun x : C => (fst x / c, snd x / c)) row) = n2 row / (c * c).
Proof.
  intros c row Hc. induction row as [|x row IH]; cbn [map norm2_c]; rops; cbn [fst snd].
  - field. exact Hc.
  - rewrite IH. field. exact Hc.
Qed.

Lemma n2_vscale : forall (s : C) (u : list C),
  n2 (vscale s u) = (fst s * fst s + snd s * snd s) * n2 u.
Proof.
  intros s u. induction u as [|x u IH]; cbn [vscale map norm2_c]; rops.
  - ring.
  - fold (vscale s u). rewrite IH. unfold cmul. cbn [fst snd]. ring.
Qed.

(* ---------------- one row ---------------- *)
Lemma normalize_unit_c : forall row : list C, 0 < n2 row ->
  n2 (@normalize_row_c R ROps row) = 1.
Proof.
  intros row Hpos. unfold normalize_row_c. rops.
  set (c := sqrt (n2 row)).
  assert (Hc : 0 < c) by (apply sqrt_lt_R0; exact Hpos).
  assert (Hcc : c * c = n2 row) by (apply sqrt_sqrt; lra).
  rewrite n2_map_div by lra. rewrite Hcc. field. lra.
Qed.

Lemma weight_row_c_nonzero : forall (row : list C) (sq : list R),
  length row = length sq -> Forall (fun s => 0 < s) sq ->
  (exists x, In x row /\ x <> (0, 0)) ->
  exists y, In y (@weight_row_c R ROps row sq) /\ y <> (0, 0).
Proof.
  induction row as [|x row IH]; intros [|s sq] Hl Hs [x0 [Hin Hx0]]; try discriminate; [destruct Hin|].
  inversion Hs; subst. cbn [weight_row_c zipw]. destruct Hin as [->|Hin].
  - exists (fst x0 * s, snd x0 * s). split; [left; rops; reflexivity|].
    intros E. apply Hx0. destruct x0 as [a b]. cbn [fst snd] in E.
    injection E as Ea Eb. apply pair_eq; nra.
  - destruct (IH sq) as [y [Hy Hy0]]; auto. exists x0; auto.
    exists y. split; [right; exact Hy|exact Hy0].
Qed.

(** every row of the result that comes from a non-zero row has norm 1 *)
Lemma disp2eig_c_unit_norm_l : forall (a : list (list C)) (mass : list R) (out : list (list C)),
  Forall (fun m => 0 < m) mass ->
  @disp2eig_c R ROps a mass = Some out ->
  length out = length a /\
  forall i, (i < length a)%nat -> (exists x, In x (nth i a []) /\ x <> (0, 0)) ->
    n2 (nth i out []) = 1.
Proof.
  intros a mass out Hm H. unfold disp2eig_c in H.
  destruct (shape_ok _ _) eqn:Hs; [|discriminate]. inversion H; subst out; clear H.
  rewrite map_length. split; [reflexivity|]. intros i Hi Hnz.
  rewrite (nth_map_nil _ []) by reflexivity. unfold disp2eig_row_c.
  apply normalize_unit_c. apply n2_pos. apply weight_row_c_nonzero; auto.
  - rewrite map_length, repeat3_length. apply (proj1 (shape_ok_spec a (length mass)) Hs). apply nth_In; auto.
  - rops. apply sqrt_all_pos, repeat3_pos; auto.
Qed.

(* ---------------- restoring a basis ---------------- *)
Definition cdivr (z : C) (r : R) : C := (fst z / r, snd z / r).
(** s / |s| *)
Definition csgn (s : C) : C := cdivr s (cabsR s).

Lemma cabs_pos : forall s : C, s <> (0, 0) -> 0 < cabsR s.
Proof. intros s Hs. unfold cabs. rops. apply sqrt_lt_R0. apply c_nonzero_sq; exact Hs. Qed.

Lemma cabs_sq : forall s : C, cabsR s * cabsR s = fst s * fst s + snd s * snd s.
Proof.
  intros s. unfold cabs. rops. apply sqrt_sqrt.
  pose proof (Rle_0_sqr (fst s)) as S1. pose proof (Rle_0_sqr (snd s)) as S2. unfold Rsqr in *. lra.
Qed.

Lemma csgn_unit : forall s : C, s <> (0, 0) -> unit_phase (csgn s).
Proof.
  intros s Hs. unfold unit_phase, csgn, cdivr. cbn [fst snd].
  pose proof (cabs_pos s Hs) as P. pose proof (cabs_sq s) as Q.
  replace (fst s / cabsR s * (fst s / cabsR s) + snd s / cabsR s * (snd s / cabsR s))
    with ((fst s * fst s + snd s * snd s) / (cabsR s * cabsR s)) by (field; lra).
  rewrite <- Q. field. lra.
Qed.

Lemma weight_row_c_undo : forall (s : C) (u : list C) (m3 : list R),
  length u = length m3 -> Forall (fun m => 0 < m) m3 ->
  @weight_row_c R ROps (zipw (fun x m => cdivr (cmul s x) (sqrt m)) u m3) (map sqrt m3) = vscale s u.
Proof.
  intros s u. induction u as [|x u IH]; intros [|m m3] Hl Hm; try discriminate; [reflexivity|].
  inversion Hm; subst. cbn [zipw map weight_row_c vscale]. fold (vscale s u).
  unfold weight_row_c in IH. rewrite IH by (cbn [length] in Hl; auto; lia).
  f_equal. unfold cdivr, cmul. rops. cbn [fst snd].
  assert (0 < sqrt m) by (apply sqrt_lt_R0; auto).
  apply pair_eq; field; lra.
Qed.

Lemma row_restore_c : forall (s : C) (u : list C) (m3 : list R),
  length u = length m3 -> Forall (fun m => 0 < m) m3 -> s <> (0, 0) -> n2 u = 1 ->
  @disp2eig_row_c R ROps (map sqrt m3) (zipw (fun x m => cdivr (cmul s x) (sqrt m)) u m3)
  = vscale (csgn s) u.
Proof.
  intros s u m3 Hl Hm Hs Hu. unfold disp2eig_row_c. rewrite weight_row_c_undo by auto.
  unfold normalize_row_c. rewrite n2_vscale, Hu. rops.
  rewrite Rmult_1_r.
  change (sqrt (fst s * fst s + snd s * snd s)) with (cabsR s).
  pose proof (cabs_pos s Hs) as P.
  unfold vscale. rewrite map_map. apply map_ext. intros x.
  unfold csgn, cdivr, cmul. cbn [fst snd]. apply pair_eq; field; lra.
Qed.

(** rows given as pairs (s_i, u_i):  a_i = s_i * M^(-1/2) u_i  with complex s_i *)
Definition displ_c (mass : list R) (su : list (C * list C)) : list (list C) :=
  map (fun p => zipw (fun x m => cdivr (cmul (fst p) x) (sqrt m)) (snd p) (repeat3 mass)) su.
(** (s_i / |s_i|) u_i *)
Definition restored_c (su : list (C * list C)) : list (list C) :=
  map (fun p => vscale (csgn (fst p)) (snd p)) su.
Definition good_row_c (mass : list R) (p : C * list C) : Prop :=
  fst p <> (0, 0) /\ length (snd p) = (3 * length mass)%nat /\ n2 (snd p) = 1.

Lemma disp2eig_c_restores_l : forall (mass : list R) (su : list (C * list C)),
  Forall (fun m => 0 < m) mass -> Forall (good_row_c mass) su ->
  @disp2eig_c R ROps (displ_c mass su) mass = Some (restored_c su).
Proof.
  intros mass su Hm Hg. unfold disp2eig_c.
  match goal with |- (if ?c then _ else _) = _ => assert (Hs : c = true) end.
  { apply shape_ok_spec. intros row Hin. unfold displ_c in Hin. apply in_map_iff in Hin.
    destruct Hin as [p [<- Hp]]. rewrite Forall_forall in Hg. destruct (Hg p Hp) as [_ [Hl _]].
    rewrite zipw_length_min; auto. rewrite repeat3_length; auto. }
  rewrite Hs. f_equal. unfold displ_c, restored_c. rewrite map_map. apply map_ext_in.
  intros p Hp. rewrite Forall_forall in Hg. destruct (Hg p Hp) as [H0 [Hl Hu]]. rops.
  apply row_restore_c; auto.
  - rewrite repeat3_length; auto.
  - apply repeat3_pos; auto.
Qed.

(** every restored row has norm 1 *)
Lemma restored_c_unit_norm_l : forall (mass : list R) (su : list (C * list C)),
  Forall (good_row_c mass) su ->
  forall i, (i < length su)%nat -> n2 (nth i (restored_c su) []) = 1.
Proof.
  intros mass su Hg i Hi. unfold restored_c.
  rewrite (nth_map_nil _ ((0, 0), [])) by reflexivity.
  rewrite Forall_forall in Hg. destruct (Hg (nth i su ((0, 0), [])) (nth_In _ _ Hi)) as [H0 [_ Hu]].
  rewrite n2_vscale, Hu. pose proof (csgn_unit _ H0) as U. unfold unit_phase in U. rewrite U. ring.
Qed.

(** ... and the restored rows are orthonormal (Hermitian product) whenever the u_i are *)
Lemma restored_c_orthonormal_l : forall (su : list (C * list C)),
  Forall (fun p => fst p <> (0, 0)) su ->
  (forall i j, (i < length su)%nat -> (j < length su)%nat ->
     cdotR (snd (nth i su ((0, 0), []))) (snd (nth j su ((0, 0), []))) = if (i =? j)%nat then (1, 0) else (0, 0)) ->
  forall i j, (i < length su)%nat -> (j < length su)%nat ->
     cdotR (nth i (restored_c su) []) (nth j (restored_c su) []) = if (i =? j)%nat then (1, 0) else (0, 0).
Proof.
  intros su H0 Hu i j Hi Hj. unfold restored_c.
  rewrite !(nth_map_nil _ ((0, 0), [])) by reflexivity.
  rewrite cdot_vscale_l, cdot_vscale_r, Hu by auto.
  destruct (Nat.eqb_spec i j) as [->|NE].
  - rewrite Forall_forall in H0. pose proof (csgn_unit _ (H0 _ (nth_In su ((0, 0), []) Hj))) as U.
    unfold unit_phase in U. set (z := csgn (fst (nth j su ((0, 0), [])))) in *.
    unfold cmul, cconj. cbn [fst snd]. apply pair_eq; [lra|ring].
  - unfold cmul, cconj. cbn [fst snd]. apply pair_eq; ring.
Qed.

(** non-vacuity: one row for two atoms, s = 3 - 4 i (|s| = 5), u = (i, 0, ..., 0) *)
Example good_row_c_ex : good_row_c [4; 9] ((3, -4), [(0, 1); (0, 0); (0, 0); (0, 0); (0, 0); (0, 0)]).
Proof.
  unfold good_row_c; cbn [fst snd length norm2_c]; rops. repeat split; try lra; try reflexivity.
  intros E. injection E as E1 E2. lra.
Qed.
