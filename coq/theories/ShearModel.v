(** Model of cij/core/phonon_contribution/shear.py (no proofs here).
    The eigen-decomposition is NOT a function of the model: every definition takes the
    eigenvalues [lam] and the transformation matrix [T] as arguments. *)
From Coq Require Import Arith List Bool ZArith.
From Cij Require Import Ops Voigt.
Import ListNotations.

Section Shear.
  Context {F : Type} {OF : Ops F}.
  Local Open Scope ops_scope.

  Definition sum3 (f : nat -> F) : F := f 0 + (f 1 + f 2).

  (** [fictitious_strain]: zeros, then the four assignments of 1 *)
  Definition fict (k : vkey) (i j : nat) : F :=
    let '(p, q) := std_of (fst k) in let '(r, s) := std_of (snd k) in
    if ((i =? p) && (j =? q)) || ((i =? q) && (j =? p)) ||
       ((i =? r) && (j =? s)) || ((i =? s) && (j =? r)) then one else zero.

  (** numpy.argwhere(logical_not(isclose(e, 0))): [isz] stands for isclose(.,0) *)
  Definition nz (isz : F -> bool) (e : nat -> nat -> F) : list (nat * nat) :=
    filter (fun ij => negb (isz (e (fst ij) (snd ij)))) idx9.

  Definition is_target (target : option vkey) (key : vkey) : bool :=
    match target with Some t => vkey_eqb key t | None => false end.

  (** calculate_fictitious_strain_energy *)
  Definition energy (isz : F -> bool) (e : nat -> nat -> F) (resolve : vkey -> F)
             (target : option vkey) : F :=
    let l := nz isz e in
    sum (flat_map (fun ij => map (fun kl =>
           let key := canon4 (fst ij) (snd ij) (fst kl) (snd kl) in
           if is_target target key then zero
           else resolve key * e (fst ij) (snd ij) * e (fst kl) (snd kl) / two) l) l).

  (** get_fictitious_strain_energy_keys *)
  Definition energy_keys (isz : F -> bool) (e : nat -> nat -> F) (target : option vkey) : list vkey :=
    let l := nz isz e in
    flat_map (fun ij => flat_map (fun kl =>
       let key := canon4 (fst ij) (snd ij) (fst kl) (snd kl) in
       if is_target target key then [] else [key]) l) l.

  Definition diag3 (lam : nat -> F) (i j : nat) : F := if i =? j then lam i else zero.

  Definition keys_orig (isz : F -> bool) (k : vkey) : list vkey := energy_keys isz (fict k) (Some k).
  Definition keys_rot (isz : F -> bool) (lam : nat -> F) : list vkey := energy_keys isz (diag3 lam) None.

  (** get_target_elastic_modulus *)
  Definition solve (isz : F -> bool) (k : vkey) (lam : nat -> F)
             (c_known c_rot : vkey -> F) : F :=
    let '(i, j) := std_of (fst k) in let '(p, q) := std_of (snd k) in
    two * (energy isz (diag3 lam) c_rot None - energy isz (fict k) c_known (Some k))
      / (fict k i j * fict k p q) / ofZ (Z.of_nat (mult k)).

  (** strain_rotated = diagonal of T^T diag(e) T *)
  Definition strain_rot (T : nat -> nat -> F) (e : nat -> F) (i : nat) : F :=
    sum3 (fun a => T a i * e a * T a i).

  (** the rotated tensor component c'_{iijj} of a tensor [c] (by canonical key) *)
  Definition cget (c : vkey -> F) (a b p q : nat) : F := c (canon4 a b p q).
  Definition rotate (T : nat -> nat -> F) (c : vkey -> F) (i j : nat) : F :=
    sum3 (fun a => sum3 (fun b => sum3 (fun p => sum3 (fun q =>
      T a i * T b i * T p j * T q j * cget c a b p q)))).
  (** the rotated strain T diag(lam) T^T *)
  Definition recompose (T : nat -> nat -> F) (lam : nat -> F) (a b : nat) : F :=
    sum3 (fun i => T a i * lam i * T b i).

  (** association-list view used by the executable tie *)
  Fixpoint klookup (d : F) (l : list (vkey * F)) (k : vkey) : F :=
    match l with [] => d | (k', v) :: r => if vkey_eqb k k' then v else klookup d r k end.
  Definition mat3 (rows : list (list F)) (i j : nat) : F := nth j (nth i rows []) zero.
  Definition vec3 (l : list F) (i : nat) : F := nth i l zero.
End Shear.
