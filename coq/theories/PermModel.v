(** C13 - "results do not depend on how the same physical data are presented".
    Definitions only (no proofs): presentations of the inputs of [avg_modes] (NonShearModel.v),
    least-squares fits as normal equations over a list of data rows, the Eulerian strain,
    the static table as a finite map, the volume-order guard.  Lemmas are in Perm.v. *)
From Coq Require Import List Bool ZArith Reals Permutation.
From Cij Require Import Ops ROps NonShearModel.
Import ListNotations.

(** * Presentations of a [q][m] table *)

(** a table of per-mode records (one row per q-point) sampled by a per-mode function:
    the code's arrays freq[q][m], gamma[q][m], vdr[q][m] are [tab] of one underlying table *)
Definition tab {A B} (g : A -> B) (T : list (list A)) : list (list B) := map (map g) T.

(** the Gamma row: the first three slots stay where they are, the others may be listed in any order *)
Definition gamma_perm {A} (r r' : list A) : Prop :=
  firstn 3 r = firstn 3 r' /\ Permutation (skipn 3 r) (skipn 3 r').
(** modes listed in another order within every q-point (row 0 is Gamma) *)
Definition modes_perm {A} (T T' : list (list A)) : Prop :=
  match T, T' with
  | [], [] => True
  | r :: rest, r' :: rest' => gamma_perm r r' /\ Forall2 (@Permutation A) rest rest'
  | _, _ => False
  end.

(** q-points 2..n_q together with their weights: a list of (weight, row) pairs;
    the whole presentation is (w0 :: map fst wr, r0 :: map snd wr) *)
Definition q_weights {A} (w0 : R) (wr : list (R * list A)) : list R := w0 :: map fst wr.
Definition q_rows {A} (r0 : list A) (wr : list (R * list A)) : list (list A) := r0 :: map snd wr.

(** * Least squares as normal equations *)
Section Fit.
  Context {F : Type} {OF : Ops F}.
  Local Open Scope ops_scope.

  (** moment sums of the data rows (x_i, y_i): the entries of A^T A and A^T y of a polynomial fit *)
  Definition mom (k : nat) (rows : list (F * F)) : F := sum (map (fun r => powN (fst r) k) rows).
  Definition momy (k : nat) (rows : list (F * F)) : F := sum (map (fun r => powN (fst r) k * snd r) rows).

  (** polynomial with coefficients listed LOWEST degree first *)
  Fixpoint pe (c : list F) (x : F) : F :=
    match c with [] => zero | a :: c' => a + x * pe c' x end.
  (** j-th normal-equation residual  sum_i x_i^j (p(x_i) - y_i) *)
  Definition nresid (j : nat) (rows : list (F * F)) (c : list F) : F :=
    sum (map (fun r => powN (fst r) j * (pe c (fst r) - snd r)) rows).
  (** the same residual written with the moment sums only *)
  Fixpoint cmom (j : nat) (rows : list (F * F)) (c : list F) : F :=
    match c with [] => zero | a :: c' => a * mom j rows + cmom (S j) rows c' end.

  (** general linear least squares with basis functions phi_k : X -> F on data points (x_i, y_i) *)
  Definition fitv {X} (phi : list (X -> F)) (c : list F) (x : X) : F := dot c (map (fun p => p x) phi).
  Definition gresid {X} (p : X -> F) (phi : list (X -> F)) (pts : list (X * F)) (c : list F) : F :=
    sum (map (fun r => p (fst r) * (fitv phi c (fst r) - snd r)) pts).
End Fit.

Definition normal_eq (n : nat) (rows : list (R * R)) (c : list R) : Prop :=
  forall j, (j <= n)%nat -> nresid (OF:=ROps) j rows c = 0%R.
(** A^T (A c - y) = 0 for the design matrix A_ik = phi_k(x_i) *)
Definition gnormal_eq {X} (phi : list (X -> R)) (pts : list (X * R)) (c : list R) : Prop :=
  Forall (fun p => gresid (OF:=ROps) p phi pts c = 0%R) phi.
(** every column of the design matrix of [phi] is (on the data points) a combination of the columns of [psi] *)
Definition span_le {X} (phi psi : list (X -> R)) (pts : list (X * R)) : Prop :=
  Forall (fun p => exists m, forall r, In r pts -> p (fst r) = fitv (OF:=ROps) psi m (fst r)) phi.

(** cubic basis in a strain-like coordinate s : X -> R  (numpy.polyfit(s, y, 3)) *)
Definition cubic_basis {X} (s : X -> R) : list (X -> R) :=
  [fun _ => 1%R; s; fun x => (s x * s x)%R; fun x => (s x * s x * s x)%R].
Definition cubic (c : list R) (f : R) : R := fitv (OF:=ROps) (cubic_basis (fun x : R => x)) c f.

(** Eulerian strain of qha.grid_interpolation.calculate_eulerian_strain(v0, v) = ((v0/v)^(2/3) - 1)/2 *)
Definition eulerian (v0 v : R) : R := ((Rpower (v0 / v) (2 / 3) - 1) / 2)%R.

(** * The static table as a finite map *)
Fixpoint alookup {K V} (eqb : K -> K -> bool) (k : K) (l : list (K * V)) : option V :=
  match l with
  | [] => None
  | (k', v) :: t => if eqb k k' then Some v else alookup eqb k t
  end.

(** * Volume order guard (qha.tools.is_monotonic_decreasing: all(diff(v) <= 0)) *)
Section Guard.
  Context {F : Type} {OF : Ops F}.
  Fixpoint mono_dec (l : list F) : bool :=
    match l with
    | a :: (b :: _) as t => fleb b a && mono_dec t
    | _ => true
    end.
End Guard.
