(** Static copy of the Voigt index algebra used by the tensor / shear / task models.
    Keys are Voigt pairs (a, b), 1 <= a <= b <= 6; standard indices are 0-based here
    (the code's i-1).  Agreement with the model regenerated from cij/util/voigt.py is a
    per-run obligation (VoigtTie.v), so a change to voigt.py cannot silently diverge. *)
From Coq Require Import Arith List Bool ZArith.
Import ListNotations.

Definition vkey := (nat * nat)%type.

Definition v_of (i j : nat) : nat :=
  match i, j with
  | 0, 0 => 1 | 1, 1 => 2 | 2, 2 => 3
  | 1, 2 | 2, 1 => 4 | 0, 2 | 2, 0 => 5 | 0, 1 | 1, 0 => 6
  | _, _ => 0
  end.
Definition std_of (v : nat) : nat * nat :=
  match v with
  | 1 => (0, 0) | 2 => (1, 1) | 3 => (2, 2) | 4 => (1, 2) | 5 => (0, 2) | 6 => (0, 1)
  | _ => (0, 0)
  end.
Definition vsort (a b : nat) : vkey := if b <? a then (b, a) else (a, b).
Definition canon4 (i j k l : nat) : vkey := vsort (v_of i j) (v_of k l).
Definition vkey_eqb (x y : vkey) : bool := (fst x =? fst y) && (snd x =? snd y).

Definition is_shear (k : vkey) : bool := (3 <? fst k) || (3 <? snd k).
Definition is_long (k : vkey) : bool := (fst k =? snd k) && negb (is_shear k).
Definition is_offd (k : vkey) : bool := negb (is_shear k) && negb (is_long k).
Definition mult (k : vkey) : nat :=
  (if fst k =? snd k then 1 else 2) * (if 3 <? fst k then 2 else 1) * (if 3 <? snd k then 2 else 1).

Definition all_keys : list vkey :=
  [(1,1);(2,2);(3,3);(1,2);(1,3);(2,3);(4,4);(5,5);(6,6);
   (1,4);(1,5);(1,6);(2,4);(2,5);(2,6);(3,4);(3,5);(3,6);(4,5);(4,6);(5,6)].
Definition shear_keys : list vkey := filter is_shear all_keys.
Definition idx3 : list nat := [0; 1; 2].
Definition idx9 : list (nat * nat) :=      (* numpy.argwhere order: row-major *)
  [(0,0);(0,1);(0,2);(1,0);(1,1);(1,2);(2,0);(2,1);(2,2)].

Lemma vkey_eqb_eq x y : vkey_eqb x y = true <-> x = y.
Proof.
  destruct x, y; unfold vkey_eqb; cbn [fst snd]. rewrite andb_true_iff, !Nat.eqb_eq.
  split; [intros [-> ->]; reflexivity | intros H; inversion H; auto].
Qed.
