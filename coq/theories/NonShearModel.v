(** Model of cij/core/phonon_contribution/nonshear.py (no proofs here).
    One evaluation = one (T, V) grid point: the code's arrays are maps of these functions
    over the temperature list and the volume index. *)
From Coq Require Import List Bool ZArith.
From Cij Require Import Ops.
Import ListNotations.

Section NonShear.
  Context {F : Type} {OF : Ops F}.
  Local Open Scope ops_scope.

  (** clear_gamma_point: first q-point, first three modes := 0 *)
  Definition zero_first3 (r : list F) : list F :=
    match r with
    | _ :: _ :: _ :: t => zero :: zero :: zero :: t
    | [_; _] => [zero; zero]
    | [_] => [zero]
    | [] => []
    end.
  Definition clear_gamma (x : list (list F)) : list (list F) :=
    match x with [] => [] | r0 :: rest => zero_first3 r0 :: rest end.

  Definition len (l : list F) : F := ofZ (Z.of_nat (length l)).
  Definition mean (l : list F) : F := sum l / len l.
  (** numpy.average(x, weights=w) = sum(w*x)/sum(w) *)
  Definition wavg (w x : list F) : F := dot w x / sum w.
  (** average_over_modes *)
  Definition avg_modes (w : list F) (x : list (list F)) : F := wavg w (map mean (clear_gamma x)).

  Definition map2 {A B C} (f : A -> B -> C) := @zipw A B C f.
  Definition map2q (f : F -> F -> F) (a b : list (list F)) := zipw (zipw f) a b.
  Definition map3q (f : F -> F -> F -> F) (a b c : list (list F)) : list (list F) :=
    zipw (fun ra rbc => zipw (fun x yz => f x (fst yz) (snd yz)) ra rbc)
         a (zipw (fun rb rc => combine rb rc) b c).

  (** Bose factors as the code writes them (after the Bose-Einstein repair they are written
      with exp(-Q); see [Q1]/[Q2] below - the two forms are equal over R, Bose.v) *)
  Definition Qf (hdk w t : F) : F := hdk * (w / t).
  Definition Q1_exp (q : F) : F := q / (fexp q - one).
  Definition Q2_exp (q : F) : F := q * q * fexp q / ((fexp q - one) * (fexp q - one)).
  (** the forms the code uses since the Bose-overflow repair (exp(-Q) cannot overflow) *)
  Definition Q1_neg (q : F) : F := q * fexp (- q) / (one - fexp (- q)).
  Definition Q2_neg (q : F) : F := q * q * fexp (- q) / ((one - fexp (- q)) * (one - fexp (- q))).

  Record consts := { c_hdk : F;   (* h c / k_B in cm K *)
                     c_h : F;     (* h c in Ry cm *)
                     c_k : F }.   (* k_B in Ry / K *)

  Section Point.
    Variable (K : consts).
    Variable (Q1 Q2 : F -> F).           (* which Bose-factor implementation *)
    Variable (longitudinal : bool).
    Variable (w : list F).               (* q-point weights *)
    Variable (na : Z).
    Variable (freq gam vdr : list (list F)).   (* [q][m] at this volume *)
    Variable (ei ej : F).                (* strain fractions at this volume *)
    Variable (v : F).

    Definition fifth_or_fifteenth : F := if longitudinal then ofZ 5 else ofZ 15.
    Definition p0 : F := one / fifth_or_fifteenth / (ei * ej).
    Definition p1i : F := one / three / ei.
    Definition p1j : F := one / three / ej.
    (* mode_gamma of the contribution object: (p0*vdr, (p1i*gam, p1j*gam), p0*gam^2) *)
    Definition mg0 (gv : F) : F := p0 * gv.
    Definition mg1i (g : F) : F := p1i * g.
    Definition mg1j (g : F) : F := p1j * g.
    Definition mg2 (g : F) : F := p0 * (g * g).

    Definition three_na : F := three * ofZ na.

    Definition zp_term (f g gv : F) : F :=
      if longitudinal then mg2 g * f - mg0 gv * f + mg1i g * f
      else mg2 g * f - mg0 gv * f.
    Definition zero_point : F :=
      c_h K / two / v * avg_modes w (map3q zp_term freq gam vdr) * three * ofZ na.

    Definition th_term (t : F) (f g gv : F) : F :=
      let q := Qf (c_hdk K) f t in
      if longitudinal then (- (Q2 q)) * mg2 g + Q1 q * (mg2 g - mg0 gv + mg1i g)
      else (- (Q2 q)) * mg2 g + Q1 q * (mg2 g - mg0 gv).
    Definition thermal (t : F) : F :=
      if is0 t then zero
      else c_k K * t / v * avg_modes w (map3q (th_term t) freq gam vdr) * three * ofZ na.

    (** value_isothermal: the off-diagonal class adds (P - Pstatic) *)
    Definition isothermal (t p pst : F) : F :=
      if longitudinal then zero_point + thermal t
      else zero_point + thermal t + (p - pst).

    Definition s_term (which_j : bool) (t : F) (f g : F) : F :=
      Q2 (Qf (c_hdk K) f t) * (if which_j then mg1j g else mg1i g).
    (** isothermal_to_adiabatic *)
    Definition gap (t cv : F) : F :=
      if is0 t then zero
      else t / v / cv * avg_modes w (map2q (s_term false t) freq gam)
                      * avg_modes w (map2q (s_term true t) freq gam)
                      * ((three * c_k K * ofZ na) * (three * c_k K * ofZ na)).
    Definition adiabatic (t p pst cv : F) : F := isothermal t p pst + gap t cv.
  End Point.

  (** whole (T, V) tables, as the properties of the contribution objects return them *)
  Record grid := {
    g_t : list F; g_v : list F;
    g_freq : list (list (list F)); g_gam : list (list (list F)); g_vdr : list (list (list F));  (* [v][q][m] *)
    g_w : list F; g_na : Z;
    g_ei : list F; g_ej : list F;                  (* [v] *)
    g_p : list (list F); g_pst : list F; g_cv : list (list F) }.   (* [t][v], [v], [t][v] *)

  Definition nthv {A} (d : A) (l : list A) (i : nat) : A := nth i l d.

  Definition per_v {A} (g : grid) (f : nat -> list (list F) -> list (list F) -> list (list F) -> F -> F -> F -> A) : list A :=
    map (fun i => f i (nthv [] (g_freq g) i) (nthv [] (g_gam g) i) (nthv [] (g_vdr g) i)
                     (nthv zero (g_ei g) i) (nthv zero (g_ej g) i) (nthv zero (g_v g) i))
        (seq 0 (length (g_v g))).

  Definition tab_zero_point (K : consts) (lg : bool) (g : grid) : list F :=
    per_v g (fun _ fr ga vd ei ej v => zero_point K lg (g_w g) (g_na g) fr ga vd ei ej v).
  Definition tab_thermal (K : consts) Q1 Q2 (lg : bool) (g : grid) : list (list F) :=
    map (fun t => per_v g (fun _ fr ga vd ei ej v => thermal K Q1 Q2 lg (g_w g) (g_na g) fr ga vd ei ej v t)) (g_t g).
  Definition tab_isothermal (K : consts) Q1 Q2 (lg : bool) (g : grid) : list (list F) :=
    map (fun ti => let t := nthv zero (g_t g) ti in
       per_v g (fun i fr ga vd ei ej v =>
         isothermal K Q1 Q2 lg (g_w g) (g_na g) fr ga vd ei ej v t
                    (nthv zero (nthv [] (g_p g) ti) i) (nthv zero (g_pst g) i)))
        (seq 0 (length (g_t g))).
  Definition tab_gap (K : consts) Q2 (g : grid) : list (list F) :=
    map (fun ti => let t := nthv zero (g_t g) ti in
       per_v g (fun i fr ga vd ei ej v =>
         gap K Q2 (g_w g) (g_na g) fr ga ei ej v t (nthv zero (nthv [] (g_cv g) ti) i)))
        (seq 0 (length (g_t g))).
End NonShear.
