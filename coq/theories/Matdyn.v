(** C20 - the matdyn layout round trip: parse_matdyn nq np (print_matdyn d) = Some d.
    Well-formedness ("fields within the printed width"): digits < 10, non-empty integer
    part, 4 / 6 fraction digits, and every numeral at least one character narrower than
    its Fortran field (vector components: at most 9 characters, because the reader's
    columns 2:12, 13:23, ... start one character AFTER the f10.6 fields 1:11, 12:22, ...). *)
From Coq Require Import Ascii String List Arith Bool Lia NArith.
From Cij Require Import MatdynModel.
Import ListNotations.
Local Open Scope list_scope.

(* ------------------------------------------------------------------ characters *)
Definition nsp (c : ascii) : Prop := is_space c = false.
Definition digits_ok (ds : list nat) : Prop := Forall (fun d => d < 10) ds.

Lemma digit_cases d : d < 10 ->
  d = 0 \/ d = 1 \/ d = 2 \/ d = 3 \/ d = 4 \/ d = 5 \/ d = 6 \/ d = 7 \/ d = 8 \/ d = 9.
Proof. lia. Qed.

Ltac digit_cases d H :=
  destruct (digit_cases d H) as [->|[->|[->|[->|[->|[->|[->|[->|[->| ->]]]]]]]]].

Lemma char_is_digit d : d < 10 -> is_digit (char_of d) = true.
Proof. intros H; digit_cases d H; reflexivity. Qed.
Lemma char_not_space d : d < 10 -> is_space (char_of d) = false.
Proof. intros H; digit_cases d H; reflexivity. Qed.
Lemma char_not_minus d : d < 10 -> is_c "-"%char (char_of d) = false.
Proof. intros H; digit_cases d H; reflexivity. Qed.
Lemma digit_of_char d : d < 10 -> digit_of (char_of d) = d.
Proof. intros H; digit_cases d H; reflexivity. Qed.

Lemma digits_of_chars ds : digits_ok ds -> digits_of (chars_of ds) = ds.
Proof.
  induction 1 as [|d ds Hd _ IH]; [reflexivity|]. unfold digits_of, chars_of in *. cbn [map].
  rewrite digit_of_char by auto. f_equal. exact IH.
Qed.
Lemma chars_all_digit ds : digits_ok ds -> Forall (fun c => is_digit c = true) (chars_of ds).
Proof. induction 1; cbn; constructor; auto. apply char_is_digit; auto. Qed.
Lemma chars_length ds : length (chars_of ds) = length ds.
Proof. apply map_length. Qed.

(* ------------------------------------------------------------------ run / firstn / skipn *)
Lemma run_app p ds rest : Forall (fun c => p c = true) ds -> run p rest = 0 ->
  run p (ds ++ rest) = length ds.
Proof.
  induction 1 as [|c ds Hc _ IH]; intros Hr; cbn [app run length]; [exact Hr|].
  rewrite Hc. f_equal. auto.
Qed.
Lemma run_all p ds : Forall (fun c => p c = true) ds -> run p ds = length ds.
Proof. intros H. rewrite <- (app_nil_r ds) at 1. apply run_app; auto. Qed.
Lemma firstn_app_exact {A} (a b : list A) : firstn (length a) (a ++ b) = a.
Proof. induction a; cbn; f_equal; auto. Qed.
Lemma skipn_app_exact {A} (a b : list A) : skipn (length a) (a ++ b) = b.
Proof. induction a; cbn; auto. Qed.

(* ------------------------------------------------------------------ strip *)
Lemma dropw_spaces a s : Forall (fun c => is_space c = true) a -> dropw (a ++ s) = dropw s.
Proof. induction 1 as [|c a Hc _ IH]; cbn [app dropw]; [reflexivity|]. rewrite Hc. exact IH. Qed.
Lemma dropw_nsp c s : nsp c -> dropw (c :: s) = c :: s.
Proof. unfold nsp; intros H; cbn [dropw]. rewrite H. reflexivity. Qed.

Lemma hd_rev_last {A} (d : A) (l : list A) : hd d (rev l) = last l d.
Proof.
  induction l as [|x l IH]; [reflexivity|]. cbn [rev].
  destruct l as [|y l']; [reflexivity|].
  change (last (x :: y :: l') d) with (last (y :: l') d). rewrite <- IH.
  cbn [rev]. destruct (rev l'); reflexivity.
Qed.

Lemma strip_core a core b :
  Forall (fun c => is_space c = true) a -> Forall (fun c => is_space c = true) b ->
  core <> [] -> nsp (hd " "%char core) -> nsp (last core " "%char) ->
  strip (a ++ core ++ b) = core.
Proof.
  intros Ha Hb Hne Hh Hl. unfold strip. rewrite dropw_spaces by auto.
  destruct core as [|c core']; [congruence|]. cbn [hd] in Hh.
  change ((c :: core') ++ b) with (c :: (core' ++ b)). rewrite dropw_nsp by auto.
  change (c :: core' ++ b) with ((c :: core') ++ b). rewrite rev_app_distr.
  rewrite dropw_spaces by (apply Forall_rev; auto).
  rewrite <- hd_rev_last in Hl.
  destruct (rev (c :: core')) as [|e r] eqn:E.
  - apply (f_equal (@length _)) in E. rewrite rev_length in E. discriminate.
  - cbn [hd] in Hl. rewrite dropw_nsp by auto. rewrite <- E. apply rev_involutive.
Qed.

(* ------------------------------------------------------------------ numerals *)
Definition wf_num (k w : nat) (x : num) : Prop :=
  let '(neg, ip, fr) := x in
  ip <> [] /\ digits_ok ip /\ digits_ok fr /\ length fr = k /\ 1 <= k /\ length (show_num x) <= w.

Lemma show_num_nsp_all x k w : wf_num k w x -> Forall nsp (show_num x).
Proof.
  destruct x as [[neg ip] fr]. intros [_ [Hi [Hf _]]]. unfold show_num.
  apply Forall_app; split; [|apply Forall_app; split; [|apply Forall_app; split]].
  - destruct neg; repeat constructor.
  - clear - Hi. induction Hi; cbn; constructor; auto. apply char_not_space; auto.
  - constructor; [reflexivity|constructor].
  - clear - Hf. induction Hf; cbn; constructor; auto. apply char_not_space; auto.
Qed.

Lemma show_num_ne x : show_num x <> [].
Proof. destruct x as [[[|] ip] fr]; unfold show_num; cbn; [discriminate|]. destruct (chars_of ip); discriminate. Qed.

Lemma Forall_hd {A} (P : A -> Prop) d l : l <> [] -> Forall P l -> P (hd d l).
Proof. intros Hne H. destruct l; [congruence|]. inversion H; auto. Qed.
Lemma Forall_last {A} (P : A -> Prop) d l : l <> [] -> Forall P l -> P (last l d).
Proof.
  intros Hne H. induction H as [|x l Hx Hl IH]; [congruence|].
  destruct l as [|y l']; [exact Hx|]. change (last (x :: y :: l') d) with (last (y :: l') d).
  apply IH. discriminate.
Qed.

Lemma strip_show a b x k w : wf_num k w x ->
  Forall (fun c => is_space c = true) a -> Forall (fun c => is_space c = true) b ->
  strip (a ++ show_num x ++ b) = show_num x.
Proof.
  intros Hw Ha Hb. pose proof (show_num_nsp_all x k w Hw) as Hall.
  apply strip_core; auto.
  - apply show_num_ne.
  - apply Forall_hd; auto. apply show_num_ne.
  - apply Forall_last; auto. apply show_num_ne.
Qed.

Lemma parse_float_core x k w : wf_num k w x ->
  (let s := show_num x in
   let '(neg, s) := match s with
                    | "-"%char :: r => (true, r)
                    | "+"%char :: r => (false, r)
                    | _ => (false, s)
                    end in
   (neg, s)) = (fst (fst x), chars_of (snd (fst x)) ++ "."%char :: chars_of (snd x)).
Proof.
  destruct x as [[neg ip] fr]. intros [Hne [Hi _]]. cbn [fst snd]. unfold show_num.
  destruct neg; [reflexivity|]. cbn [app].
  destruct ip as [|d ip]; [congruence|]. inversion Hi; subst.
  unfold chars_of; cbn [map app]. digit_cases d H1; reflexivity.
Qed.

Lemma parse_float_show a b x k w : wf_num k w x ->
  Forall (fun c => is_space c = true) a -> Forall (fun c => is_space c = true) b ->
  parse_float (a ++ show_num x ++ b) = Some x.
Proof.
  intros Hw Ha Hb. unfold parse_float. rewrite (strip_show a b x k w) by auto.
  pose proof (parse_float_core x k w Hw) as Hc. cbv zeta in Hc.
  destruct x as [[neg ip] fr]. cbn [fst snd] in Hc.
  destruct Hw as [Hne [Hi [Hf [Hk [Hk1 _]]]]].
  match goal with |- context [match show_num ?x with _ => _ end] =>
    destruct (match show_num x with
              | "-"%char :: r => (true, r)
              | "+"%char :: r => (false, r)
              | _ => (false, show_num x) end) as [ng s] eqn:E end.
  inversion Hc; subst ng s. clear Hc E.
  assert (Hrun : run is_digit (chars_of ip ++ "."%char :: chars_of fr) = length (chars_of ip))
    by (apply run_app; [apply chars_all_digit; auto|reflexivity]).
  rewrite Hrun, firstn_app_exact, skipn_app_exact.
  rewrite run_all by (apply chars_all_digit; auto).
  rewrite Nat.eqb_refl. cbn [negb].
  rewrite !chars_length.
  destruct (length ip + length fr =? 0) eqn:E0.
  - apply Nat.eqb_eq in E0. destruct ip; [congruence|cbn in E0; lia].
  - rewrite !digits_of_chars by auto. reflexivity.
Qed.

Lemma parse_int_chars i : i <> [] -> digits_ok i -> parse_int (chars_of i) = Some i.
Proof.
  intros Hne Hd. unfold parse_int. rewrite run_all by (apply chars_all_digit; auto).
  rewrite chars_length, Nat.eqb_refl.
  destruct i; [congruence|]. cbn [length Nat.eqb negb andb]. rewrite digits_of_chars by auto. reflexivity.
Qed.

(* ------------------------------------------------------------------ padded fields *)
Lemma repeat_spaces n : Forall (fun c => is_space c = true) (repeat " "%char n).
Proof. induction n; cbn; constructor; auto. Qed.

Lemma padl_length w s : length s <= w -> length (padl w s) = w.
Proof. intros H. unfold padl. rewrite app_length, repeat_length. lia. Qed.

(** a field that is at least one character narrower than its width starts with a blank *)
Lemma fmt_split w x : length (show_num x) <= w ->
  fmt (S w) x = " "%char :: padl w (show_num x).
Proof.
  intros H. unfold fmt, padl. replace (S w - length (show_num x)) with (S (w - length (show_num x))) by lia.
  reflexivity.
Qed.

(* ------------------------------------------------------------------ vector lines *)
Definition wf_c (c : cnum) : Prop := wf_num 6 9 (fst c) /\ wf_num 6 9 (snd c).

Lemma len9 (f : line) : length f = 9 ->
  exists c1 c2 c3 c4 c5 c6 c7 c8 c9, f = [c1; c2; c3; c4; c5; c6; c7; c8; c9].
Proof.
  intros H. do 9 (destruct f as [|? f]; [discriminate|]). destruct f; [|discriminate].
  repeat eexists.
Qed.

Lemma field9 x : wf_num 6 9 x ->
  exists f, fmt 10 x = " "%char :: f /\ length f = 9 /\ parse_float (f ++ [" "%char]) = Some x.
Proof.
  intros Hw. assert (Hlen : length (show_num x) <= 9).
  { destruct x as [[neg ip] fr]. apply Hw. }
  exists (padl 9 (show_num x)). split; [apply fmt_split; auto|]. split; [apply padl_length; auto|].
  unfold padl. rewrite <- app_assoc.
  apply (parse_float_show _ _ x 6 9); auto; try apply repeat_spaces; repeat constructor.
Qed.

Lemma parse_vec_line_print a b c : wf_c a -> wf_c b -> wf_c c ->
  parse_vec_line (print_vec_line a b c) = Some [a; b; c].
Proof.
  intros [Ha1 Ha2] [Hb1 Hb2] [Hc1 Hc2].
  destruct (field9 _ Ha1) as [f1 [E1 [L1 P1]]]. destruct (field9 _ Ha2) as [f2 [E2 [L2 P2]]].
  destruct (field9 _ Hb1) as [f3 [E3 [L3 P3]]]. destruct (field9 _ Hb2) as [f4 [E4 [L4 P4]]].
  destruct (field9 _ Hc1) as [f5 [E5 [L5 P5]]]. destruct (field9 _ Hc2) as [f6 [E6 [L6 P6]]].
  unfold print_vec_line. rewrite E1, E2, E3, E4, E5, E6. clear E1 E2 E3 E4 E5 E6.
  destruct (len9 f1 L1) as (a1 & a2 & a3 & a4 & a5 & a6 & a7 & a8 & a9 & ->).
  destruct (len9 f2 L2) as (b1 & b2 & b3 & b4 & b5 & b6 & b7 & b8 & b9 & ->).
  destruct (len9 f3 L3) as (d1 & d2 & d3 & d4 & d5 & d6 & d7 & d8 & d9 & ->).
  destruct (len9 f4 L4) as (e1 & e2 & e3 & e4 & e5 & e6 & e7 & e8 & e9 & ->).
  destruct (len9 f5 L5) as (g1 & g2 & g3 & g4 & g5 & g6 & g7 & g8 & g9 & ->).
  destruct (len9 f6 L6) as (h1 & h2 & h3 & h4 & h5 & h6 & h7 & h8 & h9 & ->).
  cbn [app] in P1, P2, P3, P4, P5, P6.
  unfold parse_vec_line.
  match goal with |- context [strip ?l] =>
    let r := eval cbv in (strip l) in change (strip l) with r end.
  cbv [slice skipn firstn Nat.sub].
  rewrite P1, P2, P3, P4, P5, P6. destruct a, b, c; reflexivity.
Qed.

(* ------------------------------------------------------------------ regex: greedy first try *)
Lemma try_down_first cont lo k r : cont (lo + k) = Some r -> try_down cont lo k = Some r.
Proof. intros H. destruct k; cbn [try_down]; rewrite H; reflexivity. Qed.

Lemma mseq_Ch p re c s cur cs : p c = true ->
  mseq (Ch p :: re) (c :: s) cur cs = mseq re s (rec cur [c]) cs.
Proof. intros H. cbn [mseq]. rewrite H. reflexivity. Qed.

Lemma mseq_Open re s cur cs : mseq (Open :: re) s cur cs = mseq re s (Some []) cs.
Proof. reflexivity. Qed.
Lemma mseq_Close re s b cs : mseq (Close :: re) s (Some b) cs = mseq re s None (b :: cs).
Proof. reflexivity. Qed.

Lemma mseq_Star p re ds rest cur cs R :
  Forall (fun c => p c = true) ds -> run p rest = 0 ->
  mseq re rest (rec cur ds) cs = Some R ->
  mseq (Star p :: re) (ds ++ rest) cur cs = Some R.
Proof.
  intros Hd Hr H. cbn [mseq]. rewrite run_app by auto. apply try_down_first.
  cbn [Nat.add]. rewrite firstn_app_exact, skipn_app_exact. exact H.
Qed.

Lemma mseq_Plus p re ds rest cur cs R :
  ds <> [] -> Forall (fun c => p c = true) ds -> run p rest = 0 ->
  mseq re rest (rec cur ds) cs = Some R ->
  mseq (Plus p :: re) (ds ++ rest) cur cs = Some R.
Proof.
  intros Hne Hd Hr H. cbn [mseq]. rewrite run_app by auto.
  destruct ds as [|c ds']; [congruence|]. cbn [length]. apply try_down_first.
  change (1 + length ds') with (length (c :: ds')).
  rewrite firstn_app_exact, skipn_app_exact. exact H.
Qed.

Lemma mseq_Opt_take p re c s cur cs R : p c = true ->
  mseq re s (rec cur [c]) cs = Some R ->
  mseq (Opt p :: re) (c :: s) cur cs = Some R.
Proof.
  intros Hc H. cbn [mseq run]. rewrite Hc.
  replace (Nat.min 1 (S (run p s))) with 1 by (destruct (run p s); reflexivity).
  apply try_down_first. cbn [Nat.add skipn firstn]. exact H.
Qed.

Lemma mseq_Opt_skip p re s cur cs R : run p s = 0 ->
  mseq re s (rec cur []) cs = Some R ->
  mseq (Opt p :: re) s cur cs = Some R.
Proof.
  intros Hr H. cbn [mseq]. rewrite Hr. cbn [Nat.min]. apply try_down_first.
  cbn [Nat.add skipn firstn]. exact H.
Qed.

(** the numeral sub-pattern  ( -? \d+ \.? \d* )  consumes exactly [show_num x] *)
Lemma run_minus_chars ip s : ip <> [] -> digits_ok ip -> run (is_c "-"%char) (chars_of ip ++ s) = 0.
Proof.
  intros Hne Hi. destruct ip as [|d ip]; [congruence|]. inversion Hi; subst.
  unfold chars_of; cbn [map app run]. rewrite char_not_minus by auto. reflexivity.
Qed.

Lemma mseq_num re x k w rest cs R : wf_num k w x -> run is_digit rest = 0 ->
  mseq re rest None (show_num x :: cs) = Some R ->
  mseq (re_num ++ re) (show_num x ++ rest) None cs = Some R.
Proof.
  destruct x as [[neg ip] fr]. intros [Hne [Hi [Hf [Hk [Hk1 _]]]]] Hr H.
  unfold re_num. cbn [app]. rewrite mseq_Open.
  assert (Hbody : forall buf,
    mseq re rest None ((buf ++ chars_of ip ++ ["."%char] ++ chars_of fr) :: cs) = Some R ->
    mseq (Plus is_digit :: Opt (is_c "."%char) :: Star is_digit :: Close :: re)
         (chars_of ip ++ "."%char :: chars_of fr ++ rest) (Some buf) cs = Some R).
  { intros buf HR.
    apply mseq_Plus; [destruct ip; [congruence|discriminate]|apply chars_all_digit; auto|reflexivity|].
    apply mseq_Opt_take; [reflexivity|]. cbn [rec].
    apply mseq_Star; [apply chars_all_digit; auto|auto|]. cbn [rec]. rewrite mseq_Close.
    rewrite <- !app_assoc. exact HR. }
  unfold show_num in *. destruct neg.
  - cbn [app]. apply mseq_Opt_take; [reflexivity|]. cbn [rec app].
    rewrite <- !app_assoc. cbn [app]. apply Hbody. cbn [app]. exact H.
  - cbn [app] in *. rewrite <- !app_assoc. cbn [app].
    apply mseq_Opt_skip; [apply run_minus_chars; auto|]. cbn [rec app].
    apply Hbody. cbn [app]. exact H.
Qed.

Lemma run_space_show x k w s : wf_num k w x -> run is_space (show_num x ++ s) = 0.
Proof.
  intros Hw. pose proof (show_num_nsp_all x k w Hw) as Hall. pose proof (show_num_ne x) as Hne.
  destruct (show_num x) as [|c r]; [congruence|]. inversion Hall; subst. cbn [app run].
  unfold nsp in *. rewrite H1. reflexivity.
Qed.
Lemma run_space_chars i s : i <> [] -> digits_ok i -> run is_space (chars_of i ++ s) = 0.
Proof.
  intros Hne Hi. destruct i as [|d i]; [congruence|]. inversion Hi; subst.
  unfold chars_of; cbn [map app run]. rewrite char_not_space by auto. reflexivity.
Qed.

Lemma space_not_digit c : is_space c = true -> is_digit c = false.
Proof.
  unfold is_space, is_digit. set (n := nat_of_ascii c). intros H.
  destruct (48 <=? n) eqn:E1; [|reflexivity]. apply Nat.leb_le in E1.
  rewrite orb_true_iff, !andb_true_iff, !Nat.leb_le in H.
  destruct (n <=? 57) eqn:E2; [|reflexivity]. exfalso. lia.
Qed.

Definition sp_all (l : line) : Prop := Forall (fun c => is_space c = true) l.

Lemma q_core_match sp1 sp2 sp3 x y z :
  sp_all sp1 -> sp_all sp2 -> sp_all sp3 -> sp2 <> [] -> sp3 <> [] ->
  wf_num 4 11 x -> wf_num 4 11 y -> wf_num 4 11 z ->
  mseq Q_COORDS_REGEX
    ("q"%char :: " "%char :: "="%char :: sp1 ++ show_num x ++ sp2 ++ show_num y ++ sp3 ++ show_num z) None [] =
  Some [show_num x; show_num y; show_num z].
Proof.
  intros S1 S2 S3 N2 N3 Hx Hy Hz. unfold Q_COORDS_REGEX. cbn [app].
  rewrite mseq_Ch by reflexivity. cbn [rec].
  apply (mseq_Star is_space _ [" "%char] ("="%char :: _)); [repeat constructor|reflexivity|]. cbn [rec].
  rewrite mseq_Ch by reflexivity. cbn [rec].
  apply mseq_Star; [auto|apply (run_space_show x 4 11); auto|]. cbn [rec].
  apply (mseq_num _ x 4 11); auto.
  { destruct sp2 as [|c r]; [congruence|]. inversion S2; subst. cbn [app run].
    rewrite space_not_digit by auto. reflexivity. }
  cbn [app].
  apply mseq_Plus; [auto|auto|apply (run_space_show y 4 11); auto|]. cbn [rec].
  apply (mseq_num _ y 4 11); auto.
  { destruct sp3 as [|c r]; [congruence|]. inversion S3; subst. cbn [app run].
    rewrite space_not_digit by auto. reflexivity. }
  cbn [app].
  apply mseq_Plus; [auto|auto| |].
  { rewrite <- (app_nil_r (show_num z)). apply (run_space_show z 4 11); auto. }
  cbn [rec]. rewrite <- (app_nil_r (show_num z)) at 1.
  apply (mseq_num _ z 4 11); auto; try reflexivity.
Qed.

(* ------------------------------------------------------------------ the q line *)
Definition wf_q (q : num * num * num) : Prop :=
  let '(x, y, z) := q in wf_num 4 11 x /\ wf_num 4 11 y /\ wf_num 4 11 z.

Lemma last_app_ne {A} (a b : list A) d : b <> [] -> last (a ++ b) d = last b d.
Proof.
  intros Hb. induction a as [|x a IH]; [reflexivity|]. cbn [app].
  destruct (a ++ b) eqn:E; [destruct a; cbn in E; [congruence|discriminate]|].
  change (last (x :: a0 :: l) d) with (last (a0 :: l) d). exact IH.
Qed.

Lemma search_first re s R : mseq re s None [] = Some R -> search re s = Some R.
Proof. intros H. destruct s; cbn [search]; rewrite H; reflexivity. Qed.

Lemma wf_len x k w : wf_num k w x -> length (show_num x) <= w.
Proof. destruct x as [[neg ip] fr]. intros H; apply H. Qed.

Lemma parse_q_line_print q : wf_q q -> parse_q_line (print_q_line q) = Some q.
Proof.
  destruct q as [[x y] z]. intros [Hx [Hy Hz]]. unfold parse_q_line, print_q_line.
  rewrite !(fmt_split 11) by (eapply wf_len; eauto). unfold padl.
  set (k1 := 11 - length (show_num x)). set (k2 := 11 - length (show_num y)).
  set (k3 := 11 - length (show_num z)).
  set (core := "q"%char :: " "%char :: "="%char ::
                 (" "%char :: " "%char :: repeat " "%char k1) ++ show_num x ++
                 (" "%char :: repeat " "%char k2) ++ show_num y ++
                 (" "%char :: repeat " "%char k3) ++ show_num z).
  assert (E : lit " q = " ++ (" "%char :: repeat " "%char k1 ++ show_num x) ++
                (" "%char :: repeat " "%char k2 ++ show_num y) ++
                " "%char :: repeat " "%char k3 ++ show_num z = [" "%char] ++ core ++ []).
  { unfold core. cbn [lit list_ascii_of_string app]. rewrite app_nil_r. rewrite <- !app_assoc.
    cbn [app]. rewrite <- ?app_assoc. reflexivity. }
  rewrite E. rewrite strip_core.
  - rewrite (search_first _ _ [show_num x; show_num y; show_num z]).
    + rewrite <- (app_nil_r (show_num x)), <- (app_nil_l (show_num x ++ [])).
      rewrite (parse_float_show [] [] x 4 11) by (auto; constructor).
      rewrite <- (app_nil_r (show_num y)), <- (app_nil_l (show_num y ++ [])).
      rewrite (parse_float_show [] [] y 4 11) by (auto; constructor).
      rewrite <- (app_nil_r (show_num z)), <- (app_nil_l (show_num z ++ [])).
      rewrite (parse_float_show [] [] z 4 11) by (auto; constructor).
      reflexivity.
    + unfold core. apply q_core_match; auto; try discriminate;
        repeat (constructor; [reflexivity|]); apply repeat_spaces.
  - repeat constructor.
  - constructor.
  - discriminate.
  - reflexivity.
  - unfold core.
    change ("q"%char :: " "%char :: "="%char :: ?a) with (["q"%char; " "%char; "="%char] ++ a).
    rewrite !last_app_ne; try apply show_num_ne;
      try (intro E0; apply app_eq_nil in E0; destruct E0 as [_ E0]; revert E0;
           repeat (try apply show_num_ne; intro E0; apply app_eq_nil in E0; destruct E0 as [_ E0]; revert E0);
           apply show_num_ne).
    apply Forall_last; [apply show_num_ne|apply (show_num_nsp_all z 4 11); auto].
Qed.

(* ------------------------------------------------------------------ the freq line *)
Definition wf_hdr (h : list nat * num * num) : Prop :=
  let '(i, thz, cm) := h in
  i <> [] /\ digits_ok i /\ length i <= 5 /\ wf_num 6 14 thz /\ wf_num 6 14 cm.

Definition mode_core (sp0 sp1 sp2 : line) (i : list nat) (x y : num) : line :=
  lit "freq (" ++ sp0 ++ chars_of i ++ lit ") =" ++ sp1 ++ show_num x ++ lit " [THz] =" ++ sp2
              ++ show_num y ++ lit " [cm-1]".

Lemma mode_core_match sp0 sp1 sp2 i x y :
  sp_all sp0 -> sp_all sp1 -> sp_all sp2 -> i <> [] -> digits_ok i ->
  wf_num 6 14 x -> wf_num 6 14 y ->
  mseq MODE_INDEX_REGEX (mode_core sp0 sp1 sp2 i x y) None [] = Some [chars_of i; show_num x; show_num y].
Proof.
  intros S0 S1 S2 Hne Hi Hx Hy. unfold MODE_INDEX_REGEX, mode_core.
  cbn [lits lit list_ascii_of_string map app].
  rewrite !mseq_Ch by reflexivity. cbn [rec].
  apply (mseq_Star is_space _ [" "%char] ("("%char :: _)); [repeat constructor|reflexivity|]. cbn [rec].
  rewrite mseq_Ch by reflexivity. cbn [rec].
  apply mseq_Star; [auto|apply run_space_chars; auto|]. cbn [rec]. rewrite mseq_Open.
  apply mseq_Plus; [destruct i; [congruence|discriminate]|apply chars_all_digit; auto|reflexivity|].
  cbn [rec app]. rewrite mseq_Close. rewrite mseq_Ch by reflexivity. cbn [rec].
  apply (mseq_Star is_space _ [" "%char] ("="%char :: _)); [repeat constructor|reflexivity|]. cbn [rec].
  rewrite mseq_Ch by reflexivity. cbn [rec].
  apply mseq_Star; [auto|apply (run_space_show x 6 14); auto|]. cbn [rec].
  apply (mseq_num _ x 6 14); [auto|reflexivity|]. cbn [app].
  apply (mseq_Star is_space _ [" "%char] ("["%char :: _)); [repeat constructor|reflexivity|]. cbn [rec].
  rewrite !mseq_Ch by reflexivity. cbn [rec].
  apply (mseq_Star is_space _ [" "%char] ("="%char :: _)); [repeat constructor|reflexivity|]. cbn [rec].
  rewrite mseq_Ch by reflexivity. cbn [rec].
  apply mseq_Star; [auto|apply (run_space_show y 6 14); auto|]. cbn [rec].
  apply (mseq_num _ y 6 14); [auto|reflexivity|]. cbn [app].
  apply (mseq_Star is_space _ [" "%char] ("["%char :: _)); [repeat constructor|reflexivity|]. cbn [rec].
  rewrite !mseq_Ch by reflexivity. reflexivity.
Qed.

Lemma last_cons_ne {A} (c : A) l d : l <> [] -> last (c :: l) d = last l d.
Proof. destruct l; [congruence|reflexivity]. Qed.

Ltac ne_len :=
  let E := fresh "E" in
  intro E; apply (f_equal (@length ascii)) in E;
  repeat (rewrite app_length in E || cbn [length] in E); lia.

Lemma parse_mode_line_print h : wf_hdr h -> parse_mode_line (print_mode_line h) = Some h.
Proof.
  destruct h as [[i x] y]. intros [Hne [Hi [Hl [Hx Hy]]]]. unfold parse_mode_line, print_mode_line.
  rewrite !(fmt_split 14) by (eapply wf_len; eauto). unfold padl. rewrite chars_length.
  set (sp0 := repeat " "%char (5 - length i)).
  set (sp1 := " "%char :: repeat " "%char (14 - length (show_num x))).
  set (sp2 := " "%char :: repeat " "%char (14 - length (show_num y))).
  assert (E : lit "     freq (" ++ (sp0 ++ chars_of i) ++ lit ") =" ++ (sp1 ++ show_num x)
                ++ lit " [THz] =" ++ (sp2 ++ show_num y) ++ lit " [cm-1]"
              = repeat " "%char 5 ++ mode_core sp0 sp1 sp2 i x y ++ []).
  { unfold mode_core. rewrite app_nil_r. cbn [lit list_ascii_of_string app repeat].
    rewrite <- !app_assoc. reflexivity. }
  unfold sp1, sp2 in E. cbn [app] in E. cbn [app]. rewrite E. clear E. fold sp1 sp2.
  assert (Hcore_ne : mode_core sp0 sp1 sp2 i x y <> []) by (unfold mode_core; cbn [lit list_ascii_of_string app]; discriminate).
  assert (Hhd : nsp (hd " "%char (mode_core sp0 sp1 sp2 i x y))) by reflexivity.
  assert (Hlast : nsp (last (mode_core sp0 sp1 sp2 i x y) " "%char)).
  { unfold mode_core. cbn [lit list_ascii_of_string].
    repeat (rewrite last_app_ne by ne_len). reflexivity. }
  rewrite strip_core by (auto; try apply repeat_spaces; constructor).
  rewrite <- (app_nil_r (mode_core sp0 sp1 sp2 i x y)) at 1.
  rewrite <- (app_nil_l (mode_core sp0 sp1 sp2 i x y ++ [])).
  rewrite strip_core by (auto; constructor).
  rewrite (search_first _ _ [chars_of i; show_num x; show_num y]).
  - rewrite parse_int_chars by auto.
    rewrite <- (app_nil_r (show_num x)), <- (app_nil_l (show_num x ++ [])).
    rewrite (parse_float_show [] [] x 6 14) by (auto; constructor).
    rewrite <- (app_nil_r (show_num y)), <- (app_nil_l (show_num y ++ [])).
    rewrite (parse_float_show [] [] y 6 14) by (auto; constructor).
    reflexivity.
  - apply mode_core_match; auto; try apply repeat_spaces;
      (constructor; [reflexivity|apply repeat_spaces]).
Qed.

(* ------------------------------------------------------------------ blocks *)
Definition wf_mode (np : nat) (m : mode) : Prop :=
  wf_hdr (fst m) /\ length (snd m) = np /\ Forall wf_c (snd m).
Definition wf_qpoint (np : nat) (q : qpoint) : Prop :=
  wf_q (fst q) /\ length (snd q) = np /\ Forall (wf_mode np) (snd q).
Definition well_formed (nq np : nat) (d : list qpoint) : Prop :=
  np mod 3 = 0 /\ length d = nq /\ Forall (wf_qpoint np) d.

Lemma read_vecs_print : forall k vs rest, length vs = 3 * k -> Forall wf_c vs ->
  read_vecs k (print_vecs vs ++ rest) = Some (vs, rest).
Proof.
  induction k as [|k IH]; intros vs rest Hl Hw.
  - destruct vs; [reflexivity|discriminate].
  - destruct vs as [|a [|b [|c vs]]]; try (cbn in Hl; lia).
    inversion Hw as [|? ? Ha Hw1]; subst. inversion Hw1 as [|? ? Hb Hw2]; subst.
    inversion Hw2 as [|? ? Hc Hw3]; subst.
    cbn [print_vecs app read_vecs]. rewrite parse_vec_line_print by auto.
    rewrite IH; [reflexivity| cbn in Hl; lia | auto].
Qed.

Lemma read_modes_print : forall np ms rest, np mod 3 = 0 -> Forall (wf_mode np) ms ->
  read_modes (length ms) np (flat_map print_mode ms ++ rest) = Some (ms, rest).
Proof.
  intros np ms rest H3. induction ms as [|m ms IH]; intros Hw; [reflexivity|].
  inversion Hw as [|? ? Hm Hw']; subst. destruct Hm as [Hh [Hl Hv]].
  cbn [length flat_map read_modes]. unfold print_mode at 1. cbn [app].
  rewrite parse_mode_line_print by auto.
  rewrite <- app_assoc. rewrite read_vecs_print; auto.
  - rewrite IH by auto. destruct m; reflexivity.
  - rewrite Hl. pose proof (Nat.div_mod np 3 ltac:(lia)). lia.
Qed.

Lemma read_q_points_print : forall np d, np mod 3 = 0 -> Forall (wf_qpoint np) d ->
  read_q_points (length d) np (print_matdyn d) = Some d.
Proof.
  intros np d H3. induction d as [|q d IH]; intros Hw; [reflexivity|].
  inversion Hw as [|? ? Hq Hw']; subst. destruct Hq as [Hqq [Hl Hm]].
  unfold print_matdyn in *. cbn [length flat_map]. unfold print_q at 1. cbn [app read_q_points].
  rewrite parse_q_line_print by auto.
  rewrite <- Hl at 1. rewrite <- app_assoc. rewrite read_modes_print by auto.
  cbn [app]. rewrite IH by auto. destruct q; reflexivity.
Qed.

Lemma matdyn_roundtrip_l : forall nq np d, well_formed nq np d ->
  parse_matdyn nq np (print_matdyn d) = Some d.
Proof.
  intros nq np d [H3 [Hl Hw]]. unfold parse_matdyn. rewrite <- Hl. apply read_q_points_print; auto.
Qed.

(** non-vacuity: one q-point, three modes *)
Definition ex_c : cnum := ((true, [0], [2;1;1;2;0;8]), (false, [0], [0;0;0;0;0;0])).
Definition ex_mode (i : nat) : mode :=
  (([i], (true, [0], [0;1;8;7;8;8]), (false, [1;1;6], [7;4;7;0;0;0])), [ex_c; ex_c; ex_c]).
Definition ex_d : list qpoint :=
  [(((false, [0], [0;0;0;0]), (true, [0], [1;2;5;8]), (false, [1;2], [0;3;4;7])), [ex_mode 1; ex_mode 2; ex_mode 3])].
Example ex_well_formed : well_formed 1 3 ex_d.
Proof.
  unfold well_formed, ex_d, wf_qpoint, wf_mode, wf_q, wf_hdr, wf_c, wf_num, digits_ok, ex_mode, ex_c.
  cbn [fst snd length show_num app chars_of map].
  repeat (split || constructor || discriminate || lia).
Qed.

(** outside the width hypothesis the reader silently misreads: a component -12.345678 is a
    legal f10.6 field but its sign falls in the column the reader skips *)
Example wide_component_misread :
  parse_vec_line (print_vec_line ((true, [1;2], [3;4;5;6;7;8]), snd ex_c) ex_c ex_c)
  = Some [((false, [1;2], [3;4;5;6;7;8]), snd ex_c); ex_c; ex_c].
Proof. vm_compute. reflexivity. Qed.
