(** C07 - model of the Voigt/Reuss/Hill averages and acoustic velocities of
    cij/core/calculator.py (Calculator._calculate_compliances and
    CijVolumeBaseInterface).  Written once over [Ops F]; no proofs here.

    Indices are Voigt indices 1..6 in [Z]; a matrix is a function [Z -> Z -> F]. *)
From Coq Require Import ZArith List Bool.
From Cij Require Import Ops.
Import ListNotations.
Local Open Scope Z_scope.

Section VRHModel.
  Context {F : Type} {OF : Ops F}.
  Local Open Scope ops_scope.

  Definition mat := Z -> Z -> F.

  (** one entry of the table  modulus_adiabatic : key -> value  at one grid point;
      (a, b) is [key.voigt] *)
  Definition entry := (Z * Z * F)%type.

  (** [set(itertools.permutations(key.voigt, 2))]:
      permutations of the 2-tuple (a, b) taken 2 at a time are (a, b) and (b, a)
      (positional, also when a = b), and the set collapses them when a = b *)
  Definition cells_of_key (a b : Z) : list (Z * Z) :=
    if (a =? b)%Z then [(a, a)] else [(a, b); (b, a)].

  (** [elastic_moduli[:, :, i-1, j-1] = value] *)
  Definition upd (m : mat) (i j : Z) (v : F) : mat :=
    fun p q => if ((p =? i) && (q =? j))%bool then v else m p q.

  Definition store_key (m : mat) (e : entry) : mat :=
    let '(a, b, v) := e in
    fold_left (fun m' c => upd m' (fst c) (snd c) v) (cells_of_key a b) m.

  (** [numpy.zeros((.., 6, 6))] followed by the loop over [modulus_keys] *)
  Definition mzero : mat := fun _ _ => zero.
  Definition assemble6 (tbl : list entry) : mat := fold_left store_key tbl mzero.

  (** sums over the Voigt range *)
  Definition sum6 (f : Z -> F) : F := f 1%Z + f 2%Z + f 3%Z + f 4%Z + f 5%Z + f 6%Z.
  Definition mmul (a b : mat) : mat := fun i j => sum6 (fun k => a i k * b k j).
  Definition delta (i j : Z) : F := if (i =? j)%Z then one else zero.

  (** ---- the six averages, written as in calculator.py ------------------------------
      [c] / [s] are the accessors self.cNN / self.sNN: the value stored under the key
      c_(N, N), which for N <= N is cell (N, N) of the assembled / inverted matrix *)
  Definition bulk_voigt (c : mat) : F :=
    (c 1 1 + c 2 2 + c 3 3 + two * (c 1 2 + c 2 3 + c 1 3)) / ofZ 9.

  Definition bulk_reuss (s : mat) : F :=
    one / (s 1 1 + s 2 2 + s 3 3 + two * (s 1 2 + s 2 3 + s 1 3)).

  Definition shear_voigt (c : mat) : F :=
    ((c 1 1 + c 2 2 + c 3 3) - (c 1 2 + c 2 3 + c 1 3)
       + three * (c 4 4 + c 5 5 + c 6 6)) / ofZ 15.

  Definition shear_reuss (s : mat) : F :=
    ofZ 15 / (ofZ 4 * (s 1 1 + s 2 2 + s 3 3) - ofZ 4 * (s 1 2 + s 2 3 + s 1 3)
                + three * (s 4 4 + s 5 5 + s 6 6)).

  Definition bulk_vrh (c s : mat) : F := (bulk_reuss s + bulk_voigt c) / two.
  Definition shear_vrh (c s : mat) : F := (shear_reuss s + shear_voigt c) / two.

  (** ---- units --------------------------------------------------------------------
      N_A = 6.02214076e23 (exact SI value) as a product of two integers that are exact in
      binary64; 1e-3 as 1/1000 (correctly rounded quotient = the literal 1e-3) *)
  Definition N_A : F := ofZ 602214076 * ofZ 1000000000000000.
  Definition milli : F := one / ofZ 1000.

  (** [mass]: cell mass [g/mol] -> kg per cell *)
  Definition mass (cellmass : F) : F := cellmass * milli / N_A.

  (** [ry] = number of kg km^2 / s^2 in one rydberg (the pint conversion factor);
      [v] the cell volume (bohr^3), moduli in Ry / bohr^3; result in km / s *)
  Definition v_primary (ry cellmass v : F) (c s : mat) : F :=
    fsqrt (((bulk_vrh c s + ofZ 4 / ofZ 3 * shear_vrh c s) * v) * ry / mass cellmass).

  Definition v_secondary (ry cellmass v : F) (c s : mat) : F :=
    fsqrt ((shear_vrh c s * v) * ry / mass cellmass).

  (** CODATA 2018: 1 Ry = 2.1798723611035e-18 J = 2.1798723611035e-24 kg km^2/s^2 *)
  Definition ry_codata : F :=
    ofZ 21798723611035 / (ofZ 10000000000000 * (ofZ 1000000000000 * ofZ 1000000000000)).

  (** ---- what _calculate_compliances publishes: upper triangle of the inverse -------- *)
  Definition r6 : list Z := [1; 2; 3; 4; 5; 6]%Z.
  Definition upper_pairs : list (Z * Z) :=
    flat_map (fun i => flat_map (fun j => if (i <=? j)%Z then [(i, j)] else []) r6) r6.

  (** largest |(S C - I)_ij|, used to check the LAPACK inverse (an oracle) *)
  Definition fmax (a b : F) : F := if fleb a b then b else a.
  Definition inv_residual (s c : mat) : F :=
    fold_left (fun acc i => fold_left (fun acc' j => fmax acc' (fabs (mmul s c i j - delta i j))) r6 acc)
              r6 zero.
End VRHModel.
