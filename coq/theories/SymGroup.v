(** C08: the rotation action on the 21 components is a monoid action, so invariance under the
    generators extends to every product of generators; the generator sets generate rotation
    groups of the orders of the nine Laue classes.  (Split from Sym.v: the 6561-monomial
    [ring] identity below takes ~75 s.) *)
From Coq Require Import QArith Qreals Reals Lra Lia List Bool Arith.
From Cij Require Import LinSum Q3 Voigt SymModel Sym.
Import ListNotations.
Local Open Scope R_scope.

(* ---- monoid action; invariance under the whole group -------------------------------- *)
Lemma rot_at_mm (g h : m3 (T:=R)) (c : vkey -> R) i j p q :
  rot_at (mm g h) c i j p q = rot_at g (fun k => rotate4 h c k) i j p q.
Proof.
  unfold rot_at, mm, s3, rotate4. canon. unfold rot_at, s3. rrng. canon. ring.
Qed.
Lemma rotate4_mm (g h : m3 (T:=R)) (c : vkey -> R) k :
  rotate4 (mm g h) c k = rotate4 g (fun k' => rotate4 h c k') k.
Proof.
  unfold rotate4 at 1 2. destruct (std_of (fst k)), (std_of (snd k)). apply rot_at_mm.
Qed.
Lemma rotate4_id (c : vkey -> R) k : In k keys21 -> rotate4 m_id c k = c k.
Proof.
  intros Hk. unfold keys21 in Hk. cbn [In] in Hk.
  repeat (destruct Hk as [<- | Hk];
          [unfold rotate4, rot_at, s3, m_id; canon; cbn [Nat.eqb]; rrng; ring|]).
  destruct Hk.
Qed.

(** invariance under the generators implies invariance under every product of generators *)
Theorem invariance_under_words (gens : list gmat) (c : vkey -> R) :
  invariant_under gens c ->
  forall w, (forall g, In g w -> In g gens) ->
  forall k, In k keys21 -> rotate4 (word (map phim w)) c k = c k.
Proof.
  intros H w. induction w as [|g w IH]; intros Hw k Hk.
  - cbn [map word fold_right]. apply rotate4_id, Hk.
  - cbn [map word fold_right]. fold (word (map phim w)). rewrite rotate4_mm.
    rewrite (rotate4_ext _ _ c).
    + apply H; [apply Hw; left; reflexivity | exact Hk].
    + intros k' Hk'. apply IH; [intros g' Hg'; apply Hw; right; exact Hg' | exact Hk'].
Qed.

(** the generator sets generate rotation groups of the orders of the nine Laue classes:
    closure under multiplication computed in Q(sqrt 3); every element is orthogonal with det 1 *)
Lemma generators_generate_laue_groups :
  forall s, length (group_of s) = group_order s /\ forallb is_rotation (group_of s) = true.
Proof. intros s. destruct s; vm_compute; split; reflexivity. Qed.
