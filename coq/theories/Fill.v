(** C08/C09: lemmas about FillModel.v.  Certificates (boolean checks computed over Q by
    vm_compute) are turned into statements about ALL real right-hand sides / tensors. *)
From Coq Require Import QArith Qreals Reals Lra Lia List Bool Arith String.
From Cij Require Import LinSum Q3 Voigt SymModel Sym FillModel ROps.
Import ListNotations.
Local Open Scope R_scope.

(** the unverified eliminations are never unfolded by a proof: keep the conversion oracle away *)
Opaque Pmat Kmat Nmat kernel_basis inverse gj.

Definition AR (sup : list nat) (rel : list (list Q)) : list (list R) := map (map Q2R) (Amat sup rel).
Definition PR (sup : list nat) (rel : list (list Q)) : list (list R) := map (map Q2R) (Pmat sup rel).
Definition solveR := solve (T:=R) Q2R.

Lemma map_nth_seq {A} (x : list A) (d : A) : map (fun j => nth j x d) (seq 0 (List.length x)) = x.
Proof.
  induction x as [|a x IH]; [reflexivity|]. cbn [List.length seq map nth]. f_equal.
  rewrite <- seq_shift, map_map. exact IH.
Qed.
Lemma matvec_ident (x : list R) : List.length x = NS -> matvec (ident NS) x = x.
Proof.
  intros Hl. unfold matvec, ident. rewrite map_map.
  transitivity (map (fun j => nth j x 0) (seq 0 (List.length x))); [|apply map_nth_seq].
  rewrite Hl. apply map_ext_in. intros j Hj.
  apply in_seq in Hj. apply dot_unitv; [lia | exact Hl].
Qed.
Lemma rows_eqb_matvec {T} {RT : Rng T} (h : T -> R) {HH : RHom h} (A B : list (list T)) (v : list R) :
  rows_eqb A B = true -> matvec (map (map h) A) v = matvec (map (map h) B) v.
Proof.
  revert B. induction A as [|a A IH]; intros [|b B]; cbn [rows_eqb]; try discriminate; [reflexivity|].
  rewrite andb_true_iff. intros [E1 E2]. cbn [map matvec]. f_equal.
  - apply (h_veqb h), E1.
  - apply IH, E2.
Qed.

(** P A = I checked over Q  ==>  P (A x) = x for every real vector x of length 21 *)
Lemma left_inverse_gen (P A : list (list Q)) :
  rows_eqb (matmul P A) (ident NS) = true ->
  forall x : list R, List.length x = NS ->
    matvec (map (map Q2R) P) (matvec (map (map Q2R) A) x) = x.
Proof.
  intros H x Hx.
  apply (rows_eqb_matvec Q2R _ _ x) in H. rewrite (h_matmul Q2R), (h_ident Q2R) in H.
  rewrite matvec_matmul in H. rewrite matvec_ident in H by exact Hx. exact H.
Qed.
Lemma determines_eq sup rel :
  determines sup rel = rows_eqb (matmul (Pmat sup rel) (Amat sup rel)) (ident NS).
Proof. unfold determines. reflexivity. Qed.
Lemma left_inverse sup rel :
  determines sup rel = true ->
  forall x : list R, List.length x = NS -> matvec (PR sup rel) (matvec (AR sup rel) x) = x.
Proof.
  intros H x Hx. rewrite determines_eq in H. unfold PR, AR.
  exact (left_inverse_gen (Pmat sup rel) (Amat sup rel) H x Hx).
Qed.

(** 1. [determines] is sound: the supplied components + relations determine the tensor *)
Theorem determines_sound_l sup rel :
  determines sup rel = true ->
  forall x x' : list R, List.length x = NS -> List.length x' = NS ->
    matvec (AR sup rel) x = matvec (AR sup rel) x' -> x = x'.
Proof.
  intros H x x' Hx Hx' E.
  rewrite <- (left_inverse sup rel H x Hx), <- (left_inverse sup rel H x' Hx'), E. reflexivity.
Qed.

(** 2. [underdetermined] is sound: a non-zero real vector in the kernel *)
Lemma is_zero_vec_Q (a : list Q) : is_zero_vec a = true -> forall z, In z a -> Q2R z = 0.
Proof.
  unfold is_zero_vec. rewrite forallb_forall. intros H z Hz. specialize (H z Hz).
  rewrite <- Q2R_0. apply (h_eqb (h:=Q2R)). exact H.
Qed.
Lemma not_zero_vec_Q (a : list Q) : is_zero_vec a = false -> exists z, In z a /\ Q2R z <> 0.
Proof.
  unfold is_zero_vec. induction a as [|x a IH]; cbn [forallb]; [discriminate|].
  destruct (reqb x r0) eqn:E; cbn [andb].
  - intros H. destruct (IH H) as [z [Hz Hn]]. exists z. split; [right; exact Hz | exact Hn].
  - intros _. exists x. split; [left; reflexivity|]. apply Q2R_nonzero. exact E.
Qed.
Theorem underdetermined_sound_l sup rel :
  underdetermined sup rel = true ->
  exists y : list R, List.length y = NS /\ (exists z, In z y /\ z <> 0) /\
                     forall r, In r (AR sup rel) -> dot r y = 0.
Proof.
  unfold underdetermined. destruct (Kmat sup rel) as [|y0 K]; [discriminate|].
  rewrite !andb_true_iff, negb_true_iff, Nat.eqb_eq. intros [[Hz Hn] Hl].
  exists (map Q2R y0). split; [rewrite map_length; exact Hl|]. split.
  - destruct (not_zero_vec_Q y0 Hn) as [z [Hz' Hzn]]. exists (Q2R z). split; [apply in_map, Hz' | exact Hzn].
  - intros r Hr. unfold AR in Hr. apply in_map_iff in Hr. destruct Hr as [r0' [<- Hr0]].
    rewrite <- (h_dot Q2R). apply (is_zero_vec_Q _ Hz). unfold matvec. apply in_map_iff.
    exists r0'. split; [reflexivity | exact Hr0].
Qed.

(** 3. FLAGSHIP of C08: consistent data + determining set  ==>  the model's solution is the
    tensor itself, on all 21 components *)
Definition bvec (sup : list nat) (rel : list (list Q)) (c : vkey -> R) : list R :=
  map (fun i => nth i (tvec c) 0) sup ++ repeat 0 (List.length rel).
Lemma tvec_length (c : vkey -> R) : List.length (tvec c) = NS.
Proof. unfold tvec. rewrite map_length. reflexivity. Qed.
Lemma AR_tvec sup rel (c : vkey -> R) :
  Forall (fun i => (i < NS)%nat) sup -> satisfies rel c ->
  matvec (AR sup rel) (tvec c) = bvec sup rel c.
Proof.
  intros Hs Hc. unfold AR, Amat, bvec, matvec. rewrite map_app, map_app. f_equal.
  - rewrite !map_map. apply map_ext_in. intros i Hi. rewrite Forall_forall in Hs.
    rewrite (h_unitv Q2R). apply dot_unitv; [apply Hs, Hi | apply tvec_length].
  - unfold satisfies in Hc. induction rel as [|r rel IH]; [reflexivity|].
    cbn [map List.length repeat]. f_equal.
    + apply Hc. left; reflexivity.
    + apply IH. intros r' Hr'. apply Hc. right; exact Hr'.
Qed.
Theorem fill_returns_invariant_l sup rel :
  determines sup rel = true -> Forall (fun i => (i < NS)%nat) sup ->
  forall c : vkey -> R, satisfies rel c ->
    solveR sup rel (bvec sup rel c) = tvec c.
Proof.
  intros H Hs c Hc. unfold solveR, solve. rewrite <- (AR_tvec sup rel c Hs Hc).
  apply (left_inverse sup rel H), tvec_length.
Qed.
(** ... hence zero residual *)
Lemma vsub_self (a : list R) : forall z, In z (vsub a a) -> z = 0.
Proof.
  unfold vsub, vopp. induction a as [|x a IH]; intros z Hz; cbn [map vadd] in Hz; [destruct Hz|].
  destruct Hz as [<-|Hz]; [rrng; ring | apply IH, Hz].
Qed.
Theorem consistent_zero_residual_l sup rel :
  determines sup rel = true -> Forall (fun i => (i < NS)%nat) sup ->
  forall c : vkey -> R, satisfies rel c ->
    forall z, In z (residual_vec (T:=R) Q2R sup rel (bvec sup rel c)) -> z = 0.
Proof.
  intros H Hs c Hc z Hz. unfold residual_vec in Hz.
  change (solve Q2R sup rel (bvec sup rel c)) with (solveR sup rel (bvec sup rel c)) in Hz.
  rewrite (fill_returns_invariant_l sup rel H Hs c Hc) in Hz.
  change (injm Q2R (Amat sup rel)) with (AR sup rel) in Hz.
  rewrite (AR_tvec sup rel c Hs Hc) in Hz. apply (vsub_self _ z Hz).
Qed.

(** 4. the normal equations: A^T (A x - b) = 0 for EVERY real right-hand side b *)
Lemma dot_vsub (a b v : list R) : dot (vsub a b) v = dot a v - dot b v.
Proof.
  unfold vsub. rewrite dot_vadd. unfold vopp.
  assert (E : forall b v : list R, dot (map Ropp b) v = - dot b v).
  { clear. induction b as [|y b IH]; intros [|z v]; cbn [map dot]; rrng; try ring. rewrite IH. ring. }
  rrng. rewrite E. ring.
Qed.
Theorem normal_equations_l sup rel :
  normal_eq_ok sup rel = true ->
  forall b : list R,
    matvec (map (map Q2R) (transpose NS (Amat sup rel)))
           (vsub (matvec (AR sup rel) (solveR sup rel b)) b) = repeat 0 NS.
Proof.
  intros H b. unfold normal_eq_ok, gram in H.
  apply (rows_eqb_matvec Q2R _ _ b) in H. rewrite !(h_matmul Q2R), !matvec_matmul in H.
  set (At := map (map Q2R) (transpose NS (Amat sup rel))) in *.
  unfold solveR, solve, injm. fold (PR sup rel). fold (AR sup rel) in H. fold (PR sup rel) in H.
  assert (L : List.length At = NS) by (unfold At, transpose; rewrite !map_length, seq_length; reflexivity).
  revert H L. generalize (matvec (AR sup rel) (matvec (PR sup rel) b)). intros u.
  unfold matvec. generalize At. clear. intros At. generalize NS. induction At as [|r At IH]; intros n H L.
  - cbn in L. subst n. reflexivity.
  - destruct n as [|n]; [discriminate|]. cbn [map repeat] in *. injection H as H1 H2. injection L as L. f_equal.
    + rewrite (dot_comm r), dot_vsub, (dot_comm u r), (dot_comm b r), H1. ring.
    + apply IH; assumption.
Qed.

(* ---------------------------------------------------------------------------------------- *)
(** C09: the decision logic of fill_cij, for any value domain *)
Section Logic.
  Context {T : Type} {RT : Rng T} (inj : Q -> T) (leb : T -> T -> bool).
  Notation fillw := (fill_with inj leb).
  Notation tbl := (table (T:=T)).

  Lemma fill_with_fast_eq var (o : opts) rel (t : tbl) : fill_with_fast inj leb var o rel t = fillw var o rel t.
  Proof.
    unfold fill_with_fast, fill_with. destruct (scan t) as [[sup B]|]; [|reflexivity].
    destruct rel as [|r rel]; [reflexivity|]. destruct sup as [|i sup]; [reflexivity|].
    cbv zeta. unfold determines, residuals_seen, residual, residual_vec, solve.
    destruct var; reflexivity.
  Qed.

  (** what the property demands: refusals decided by the TRUE rank and the TRUE residuals,
      each switched off by its own flag and nothing else *)
  Definition spec_outcome (o : opts) (rel : list (list Q)) (t : tbl) (sup : list nat) (B : list (list T))
    : result (T:=T) :=
    let bs := map (rhs B (List.length rel)) (seq 0 (nvol B)) in
    if negb (determines sup rel) && negb (ign_rank o) then Raise RankWarning
    else if existsb (fun r => gtb leb r (resid_atol o)) (map (residual inj sup rel) bs) && negb (ign_res o)
         then Raise ResidualWarning
    else Ok (drop_cols leb o (write_back t (map (solve inj sup rel) bs))).
  Definition flags_exact_stmt (var : variant) : Prop :=
    forall (o : opts) (rel : list (list Q)) (t : tbl) sup B,
      scan t = Some (sup, B) -> rel <> [] -> sup <> [] ->
      fillw var o rel t = spec_outcome o rel t sup B.

  Theorem flags_exact_computed_l : flags_exact_stmt ComputedResiduals.
  Proof.
    intros o rel t sup B Hs Hr Hn. unfold fill_with, spec_outcome. rewrite Hs.
    destruct rel as [|r rel]; [congruence|]. destruct sup as [|i sup]; [congruence|]. reflexivity.
  Qed.
  (** the lstsq-residual form agrees with the specification whenever the system has full column
      rank and more than 21 rows - the only case in which numpy reports residuals *)
  Theorem flags_exact_numpy_partial_l :
    forall (o : opts) (rel : list (list Q)) (t : tbl) sup B,
      scan t = Some (sup, B) -> rel <> [] -> sup <> [] ->
      determines sup rel = true -> (NS < List.length (Amat sup rel))%nat ->
      fillw NumpyResiduals o rel t = spec_outcome o rel t sup B.
  Proof.
    intros o rel t sup B Hs Hr Hn Hd Hm. unfold fill_with, spec_outcome. rewrite Hs.
    destruct rel as [|r rel]; [congruence|]. destruct sup as [|i sup]; [congruence|].
    unfold residuals_seen. rewrite Hd. apply Nat.ltb_lt in Hm. rewrite Hm. reflexivity.
  Qed.

  (** 1. without ignore_rank: refusal for rank  <->  the determining certificate fails *)
  Theorem refuses_iff_underdetermined_l :
    forall var (o : opts) (rel : list (list Q)) (t : tbl) sup B,
      scan t = Some (sup, B) -> rel <> [] -> sup <> [] -> ign_rank o = false ->
      (fillw var o rel t = Raise RankWarning <-> determines sup rel = false).
  Proof.
    intros var o rel t sup B Hs Hr Hn Hf. unfold fill_with. rewrite Hs.
    destruct rel as [|r rel]; [congruence|]. destruct sup as [|i sup]; [congruence|].
    rewrite Hf. destruct (determines (i :: sup) (r :: rel)); cbn [negb andb].
    - split; [|discriminate].
      match goal with |- context [if ?c then _ else _] => destruct c end; discriminate.
    - split; reflexivity.
  Qed.
  (** with ignore_rank the rank refusal never happens *)
  Theorem ignore_rank_never_rank_refusal_l :
    forall var (o : opts) (rel : list (list Q)) (t : tbl),
      ign_rank o = true -> fillw var o rel t <> Raise RankWarning.
  Proof.
    intros var o rel t Hf. unfold fill_with.
    destruct (scan t) as [[sup B]|]; [|discriminate].
    destruct rel; [discriminate|]. destruct sup; [discriminate|].
    rewrite Hf, andb_false_r.
    match goal with |- context [if ?c then _ else _] => destruct c end; discriminate.
  Qed.
  Theorem ignore_residuals_never_residual_refusal_l :
    forall var (o : opts) (rel : list (list Q)) (t : tbl),
      ign_res o = true -> fillw var o rel t <> Raise ResidualWarning.
  Proof.
    intros var o rel t Hf. unfold fill_with.
    destruct (scan t) as [[sup B]|]; [|discriminate].
    destruct rel; [discriminate|]. destruct sup; [discriminate|].
    rewrite Hf, andb_false_r.
    match goal with |- context [if ?c then _ else _] => destruct c end; discriminate.
  Qed.

  (** 5. drop rule: a column is in the output iff it is in the written-back table and it is not
      (a tensor component with all values within drop_atol of 0) *)
  Theorem drop_rule_l (o : opts) (t : tbl) (col : string * list T) :
    In col (drop_cols leb o t) <->
    In col t /\ (is_sym (lower (fst col)) && droppable leb o (snd col) = false).
  Proof. unfold drop_cols. rewrite filter_In, negb_true_iff. reflexivity. Qed.
  Lemma is_sym_In s : is_sym s = true <-> In s sym_names.
  Proof.
    unfold is_sym. rewrite existsb_exists. split.
    - intros [x [Hx E]]. apply String.eqb_eq in E. subst. exact Hx.
    - intros H. exists s. split; [exact H | apply String.eqb_refl].
  Qed.

  (** passthrough: a column whose lower-cased label is none of the 21 symbols survives
      write-back with its label and values *)
  Lemma set_first_other name vals (t t' : tbl) lab old :
    set_first name vals t = Some t' -> In (lab, old) t -> lower lab <> name -> In (lab, old) t'.
  Proof.
    revert t'. induction t as [|[l0 v0] t IH]; intros t' Hs Hin Hne; [destruct Hin|].
    cbn [set_first] in Hs. destruct (String.eqb_spec (lower l0) name) as [E|E].
    - injection Hs as <-. destruct Hin as [Hin|Hin].
      + injection Hin as -> ->. contradiction.
      + right; exact Hin.
    - destruct (set_first name vals t) as [r'|] eqn:Er; [|discriminate]. injection Hs as <-.
      destruct Hin as [Hin|Hin]; [left; exact Hin | right; apply (IH r' eq_refl Hin Hne)].
  Qed.
  Lemma write_col_other (t : tbl) name vals lab old :
    In (lab, old) t -> lower lab <> name -> In (lab, old) (write_col t name vals).
  Proof.
    intros Hin Hne. unfold write_col. destruct (set_first name vals t) as [t'|] eqn:E.
    - apply (set_first_other _ _ _ _ _ _ E Hin Hne).
    - apply in_or_app. left; exact Hin.
  Qed.
  Theorem passthrough_l (t : tbl) (xs : list (list T)) lab old :
    In (lab, old) t -> ~ In (lower lab) sym_names -> In (lab, old) (write_back t xs).
  Proof.
    intros Hin Hno. unfold write_back.
    assert (G : forall (l : list (string * nat)) (acc : tbl),
              (forall p, In p l -> In (fst p) sym_names) -> In (lab, old) acc ->
              In (lab, old) (fold_left (fun acc ix => write_col acc (fst ix)
                                          (map (fun x => nth (snd ix) x r0) xs)) l acc)).
    { induction l as [|p l IH]; intros acc Hl Ha; [exact Ha|]. cbn [fold_left]. apply IH.
      - intros p' Hp'. apply Hl. right; exact Hp'.
      - apply write_col_other; [exact Ha|]. intros E. apply Hno. rewrite E. apply Hl. left; reflexivity. }
    apply G; [|exact Hin]. intros [p1 p2] Hp. apply in_combine_l in Hp. exact Hp.
  Qed.

  (** non-modulus columns pass through the whole of fill untouched (write-back and drop) *)
  Theorem passthrough_full_l (o : opts) (t : tbl) (xs : list (list T)) lab old :
    In (lab, old) t -> ~ In (lower lab) sym_names ->
    In (lab, old) (drop_cols leb o (write_back t xs)).
  Proof.
    intros Hin Hno. apply drop_rule_l. split; [apply passthrough_l; assumption|].
    cbn [fst snd]. destruct (is_sym (lower lab)) eqn:E; [|reflexivity].
    apply is_sym_In in E. contradiction.
  Qed.
  (** a table with no relations (triclinic) is returned unchanged: never refused, nothing dropped *)
  Theorem empty_relations_unchanged_l var (o : opts) (t : tbl) :
    scan t <> None -> fillw var o [] t = Ok t.
  Proof.
    intros H. unfold fill_with. destruct (scan t) as [[sup B]|]; [reflexivity | congruence].
  Qed.

  (** 4. letter case: the scan sees only lower-cased labels *)
  Theorem scan_case_l (f : string -> string) (t : tbl) :
    (forall l, lower (f l) = lower l) ->
    scan (map (fun c => (f (fst c), snd c)) t) = scan t.
  Proof.
    intros Hf. induction t as [|[lab vals] t IH]; [reflexivity|].
    cbn [map scan fst snd]. rewrite Hf, IH. reflexivity.
  Qed.

  (** 6. relations lookup (repaired form) *)
  Theorem cwd_independence_l var (o : opts) (e e' : env) (s : string) (t : tbl) :
    is_file e s = false -> is_file e' s = false -> packaged e s = packaged e' s ->
    fill_cij inj leb var o e (Some s) t = fill_cij inj leb var o e' (Some s) t.
  Proof. intros H1 H2 H3. unfold fill_cij, lookup. rewrite H1, H2, H3. reflexivity. Qed.
  Theorem relations_path_used_l var (o : opts) (e : env) (s : string) (t : tbl) :
    is_file e s = true -> scan t <> None ->
    fill_cij inj leb var o e (Some s) t = fillw var o (file_rel e s) t.
  Proof.
    intros H1 H2. unfold fill_cij, lookup. rewrite H1. destruct (scan t); [reflexivity | congruence].
  Qed.
End Logic.

(** 2. accepted with both refusals armed and residuals seen  ==>  every entry of A x - b
    (supplied value minus returned value; value of a relation on the returned tensor) is at most
    sqrt(residual_atol) in magnitude, at every volume *)
Theorem accept_no_distortion_l :
  forall var (o : opts (T:=R)) (rel : list (list Q)) (t t' : table (T:=R)) sup B,
    scan t = Some (sup, B) -> rel <> [] -> sup <> [] ->
    ign_res o = false ->
    (var = ComputedResiduals \/ (NS < List.length (Amat sup rel))%nat /\ ign_rank o = false) ->
    fill_with Q2R Rleb var o rel t = Ok t' ->
    forall v, (v < nvol B)%nat ->
    forall z, In z (residual_vec Q2R sup rel (rhs B (List.length rel) v)) ->
              Rabs z <= sqrt (resid_atol o).
Proof.
  intros var o rel t t' sup B Hs Hr Hn Hres Hvar Hok v Hv z Hz.
  unfold fill_with in Hok. rewrite Hs in Hok.
  destruct rel as [|r rel]; [congruence|]. destruct sup as [|i sup]; [congruence|].
  set (rel' := r :: rel) in *. set (sup' := i :: sup) in *.
  destruct (negb (determines sup' rel') && negb (ign_rank o)) eqn:E1; [discriminate|].
  rewrite Hres in Hok. cbn [negb] in Hok. rewrite andb_true_r in Hok.
  match type of Hok with (if ?c then _ else _) = _ => destruct c eqn:E2 end; [discriminate|].
  assert (Hseen : In (residual Q2R sup' rel' (rhs B (List.length rel') v))
                     (residuals_seen Q2R var sup' rel' (map (rhs B (List.length rel')) (seq 0 (nvol B))))).
  { assert (Hin : In (residual Q2R sup' rel' (rhs B (List.length rel') v))
                     (map (residual Q2R sup' rel') (map (rhs B (List.length rel')) (seq 0 (nvol B))))).
    { apply in_map, in_map, in_seq. lia. }
    destruct Hvar as [-> | [Hm Hrk]]; [exact Hin|].
    destruct var; [|exact Hin]. unfold residuals_seen.
    rewrite Hrk in E1. cbn [negb] in E1. rewrite andb_true_r, negb_false_iff in E1. rewrite E1.
    apply Nat.ltb_lt in Hm. rewrite Hm. exact Hin. }
  assert (Hle : residual Q2R sup' rel' (rhs B (List.length rel') v) <= resid_atol o).
  { destruct (existsb_exists (fun r => gtb Rleb r (resid_atol o))
               (residuals_seen Q2R var sup' rel' (map (rhs B (List.length rel')) (seq 0 (nvol B))))) as [_ Hx].
    destruct (Rleb (residual Q2R sup' rel' (rhs B (List.length rel') v)) (resid_atol o)) eqn:El.
    - apply Rleb_true, El.
    - exfalso. rewrite Hx in E2; [discriminate|]. eexists. split; [exact Hseen|]. unfold gtb. rewrite El. reflexivity. }
  unfold residual in Hle.
  pose proof (sumsq_nonneg (residual_vec Q2R sup' rel' (rhs B (List.length rel') v))) as Hnn.
  apply sq_le_sqrt; [lra|]. apply (sumsq_bound _ _ Hle z Hz).
Qed.

(* ---------------------------------------------------------------------------------------- *)
(** table level: a table whose modulus columns hold, at every volume v, the components [sup] of a
    tensor cs[v] satisfying the relations *)
Definition cols_of (sup : list nat) (cs : list (vkey -> R)) : list (list R) :=
  map (fun i => map (fun c => nth i (tvec c) 0) cs) sup.
Lemma rhs_cols_of sup n (cs : list (vkey -> R)) v d :
  (v < List.length cs)%nat ->
  rhs (cols_of sup cs) n v = map (fun i => nth i (tvec (nth v cs d)) 0) sup ++ repeat 0 n.
Proof.
  intros Hv. unfold rhs, cols_of. rewrite map_map. f_equal. apply map_ext. intros i.
  cbn [r0 RRng].
  rewrite (nth_indep _ 0 ((fun c => nth i (tvec c) 0) d)) by (rewrite map_length; exact Hv).
  apply (map_nth (fun c => nth i (tvec c) 0)).
Qed.
Lemma nvol_cols_of sup (cs : list (vkey -> R)) : sup <> [] -> nvol (cols_of sup cs) = List.length cs.
Proof. destruct sup as [|i sup]; [congruence|]. intros _. cbn [cols_of map nvol]. apply map_length. Qed.
Lemma sumsq_zero_vec (a : list R) : (forall z, In z a -> z = 0) -> sumsq a = 0.
Proof.
  unfold sumsq. induction a as [|x a IH]; intros H; cbn [dot]; rrng; [reflexivity|].
  rewrite (H x) by (left; reflexivity). rewrite IH by (intros z Hz; apply H; right; exact Hz). ring.
Qed.

(** the solutions the model computes for such a table are the tensors themselves ... *)
Theorem fill_table_solutions_l sup rel (cs : list (vkey -> R)) :
  determines sup rel = true -> Forall (fun i => (i < NS)%nat) sup -> sup <> [] ->
  Forall (satisfies rel) cs ->
  map (solveR sup rel) (map (rhs (cols_of sup cs) (List.length rel)) (seq 0 (nvol (cols_of sup cs))))
  = map tvec cs.
Proof.
  intros H Hs Hn Hc. rewrite (nvol_cols_of sup cs Hn). rewrite map_map.
  set (d := fun _ : vkey => 0).
  rewrite <- (map_nth_seq cs d) at 2. rewrite map_map. apply map_ext_in. intros v Hv.
  apply in_seq in Hv. rewrite (rhs_cols_of sup _ cs v d) by lia.
  change (solveR sup rel (bvec sup rel (nth v cs d)) = tvec (nth v cs d)).
  apply fill_returns_invariant_l; try assumption.
  rewrite Forall_forall in Hc. apply Hc, nth_In. lia.
Qed.
(** ... and fill_cij accepts it whatever the flags (residual_atol >= 0), returning the table with
    every one of the 21 components written from the tensors, then the near-zero columns dropped *)
Theorem fill_consistent_table_l var (o : opts (T:=R)) rel (t : table (T:=R)) sup (cs : list (vkey -> R)) :
  scan t = Some (sup, cols_of sup cs) -> rel <> [] -> sup <> [] ->
  determines sup rel = true -> Forall (fun i => (i < NS)%nat) sup ->
  Forall (satisfies rel) cs -> 0 <= resid_atol o ->
  fill_with Q2R Rleb var o rel t = Ok (drop_cols Rleb o (write_back t (map tvec cs))).
Proof.
  intros Hscan Hr Hn Hd Hs Hc Htol. unfold fill_with. rewrite Hscan.
  destruct rel as [|r rel]; [congruence|]. destruct sup as [|i sup]; [congruence|].
  set (rel' := r :: rel) in *. set (sup' := i :: sup) in *.
  rewrite Hd. cbn [negb andb].
  assert (Hres : forall b, In b (map (rhs (cols_of sup' cs) (List.length rel')) (seq 0 (nvol (cols_of sup' cs)))) ->
                 residual Q2R sup' rel' b = 0).
  { intros b Hb. apply in_map_iff in Hb. destruct Hb as [v [<- Hv]]. apply in_seq in Hv.
    rewrite (nvol_cols_of sup' cs Hn) in Hv. set (d := fun _ : vkey => 0).
    rewrite (rhs_cols_of sup' _ cs v d) by lia. unfold residual. apply sumsq_zero_vec.
    apply (consistent_zero_residual_l sup' rel' Hd Hs (nth v cs d)).
    rewrite Forall_forall in Hc. apply Hc, nth_In. lia. }
  assert (Hex : existsb (fun r0 => gtb Rleb r0 (resid_atol o))
                  (residuals_seen Q2R var sup' rel' (map (rhs (cols_of sup' cs) (List.length rel')) (seq 0 (nvol (cols_of sup' cs))))) = false).
  { apply not_true_is_false. intros Hx. apply existsb_exists in Hx. destruct Hx as [z [Hz Hg]].
    assert (Hz0 : z = 0).
    { unfold residuals_seen in Hz. destruct var.
      - destruct (determines sup' rel' && (NS <? List.length (Amat sup' rel'))%nat); [|destruct Hz].
        apply in_map_iff in Hz. destruct Hz as [b [<- Hb]]. apply Hres, Hb.
      - apply in_map_iff in Hz. destruct Hz as [b [<- Hb]]. apply Hres, Hb. }
    subst z. unfold gtb in Hg. apply negb_true_iff in Hg.
    assert (Rleb 0 (resid_atol o) = true) by (apply Rleb_true; exact Htol). congruence. }
  rewrite Hex. cbn [andb]. f_equal. f_equal. f_equal.
  exact (fill_table_solutions_l sup' rel' cs Hd Hs Hn Hc).
Qed.
