(** The instance the theorems are about: Coq's classical reals. *)
From Coq Require Import Reals ZArith.
From Cij Require Import Ops.
Local Open Scope R_scope.

Definition Ris0 (x : R) : bool := if Req_EM_T x 0 then true else false.
Definition Rleb (x y : R) : bool := if Rle_dec x y then true else false.

#[export] Instance ROps : Ops R := {|
  zero := 0; one := 1;
  add := Rplus; sub := Rminus; mul := Rmult; div := Rdiv; opp := Ropp;
  ofZ := IZR;
  fexp := exp; fln := ln; fsqrt := sqrt;
  is0 := Ris0; fleb := Rleb;
|}.

Lemma Ris0_true x : Ris0 x = true <-> x = 0.
Proof. unfold Ris0; destruct (Req_EM_T x 0); split; congruence. Qed.
Lemma Ris0_false x : Ris0 x = false <-> x <> 0.
Proof. unfold Ris0; destruct (Req_EM_T x 0); split; congruence. Qed.
Lemma Rleb_true x y : Rleb x y = true <-> x <= y.
Proof. unfold Rleb; destruct (Rle_dec x y); split; auto; discriminate. Qed.

(** Unfold the class projections at the R instance. *)
Ltac rops := cbn [zero one add sub mul div opp ofZ fexp fln fsqrt is0 fleb ROps] in *.
