(** C04: relabelling the crystal axes permutes the assembled tensor accordingly. *)
From Coq Require Import Reals Lra Lia List Bool Arith ZArith.
From Cij Require Import Ops ROps Voigt ShearModel Shear RelabelBase Relabel0 Relabel1 Relabel2 Relabel3 Relabel4 Relabel5.
Import ListNotations.
Local Open Scope R_scope.

(** the fictitious strain of the relabelled key is the relabelled fictitious strain *)
Lemma fict_relabel_l :
  forall pi k, In pi perms3 -> In k all_keys ->
    forall i j, (i < 3)%nat -> (j < 3)%nat ->
      fict (OF:=ROps) (pk pi k) (ap pi i) (ap pi j) = fict (OF:=ROps) k i j.
Proof.
  intros pi k Hpi Hk i j Hi Hj.
  unfold perms3 in Hpi. cbn [In] in Hpi.
  unfold all_keys in Hk. cbn [In] in Hk.
  destruct i as [|[|[|i]]]; [| | |lia]; destruct j as [|[|[|j]]]; try lia;
    repeat (destruct Hpi as [<- | Hpi]; [|]); try contradiction;
    repeat (destruct Hk as [<- | Hk]; [reflexivity|]); try contradiction.
Qed.

Lemma energy_relabel_l :
  forall pi, In pi perms3 -> energy_relabel_for pi.
Proof.
  intros pi Hpi. unfold perms3 in Hpi. cbn [In] in Hpi.
  destruct Hpi as [<- | [<- | [<- | [<- | [<- | [<- | []]]]]]].
  - exact energy_relabel_0.
  - exact energy_relabel_1.
  - exact energy_relabel_2.
  - exact energy_relabel_3.
  - exact energy_relabel_4.
  - exact energy_relabel_5.
Qed.

(** finite facts: relabelling maps shear keys to shear keys with the same multiplicity, and the two
    strain entries the solver divides by stay 1 *)
Lemma pk_facts_l :
  forall pi k, In pi perms3 -> In k shear_keys ->
    In (pk pi k) shear_keys /\ mult (pk pi k) = mult k /\ pk (inv3 pi) (pk pi k) = k.
Proof.
  assert (H : forallb (fun pi => forallb (fun k =>
              existsb (vkey_eqb (pk pi k)) shear_keys && (mult (pk pi k) =? mult k)%nat &&
              vkey_eqb (pk (inv3 pi) (pk pi k)) k) shear_keys) perms3 = true) by (vm_compute; reflexivity).
  intros pi k Hpi Hk. rewrite forallb_forall in H. specialize (H pi Hpi).
  rewrite forallb_forall in H. specialize (H k Hk).
  rewrite !andb_true_iff in H. destruct H as [[H1 H2] H3].
  rewrite existsb_exists in H1. destruct H1 as (x & Hx & Ex). apply vkey_eqb_eq in Ex. subst x.
  apply Nat.eqb_eq in H2. apply vkey_eqb_eq in H3. auto.
Qed.

(** THE SOLVER IS COVARIANT: the relabelled component of the relabelled problem (same eigenvalues,
    same rotated-frame values, original-frame values looked up through the relabelling) is the
    original component *)
Theorem solve_relabel_l :
  forall pi k lam (c crot : vkey -> R), In pi perms3 -> In k shear_keys ->
    solve (OF:=ROps) Ris0 (pk pi k) lam (fun key => c (pk (inv3 pi) key)) crot
    = solve (OF:=ROps) Ris0 k lam c crot.
Proof.
  intros pi k lam c crot Hpi Hk.
  destruct (pk_facts_l pi k Hpi Hk) as (Hs & Hm & _).
  unfold solve. rewrite (energy_relabel_l pi Hpi k c Hk), Hm.
  assert (E : forall k0, In k0 shear_keys ->
            (let '(i, j) := std_of (fst k0) in let '(p, q) := std_of (snd k0) in
             fict (OF:=ROps) k0 i j * fict (OF:=ROps) k0 p q) = 1).
  { intros k0 H0. unfold shear_keys, all_keys in H0.
    cbn [filter is_shear fst snd Nat.ltb Nat.leb orb In] in H0.
    repeat (destruct H0 as [<- | H0]; [cbn [std_of fst snd fict Nat.eqb andb orb]; rops'; ring|]). contradiction. }
  pose proof (E _ Hs) as E1. pose proof (E _ Hk) as E2.
  destruct (std_of (fst (pk pi k))) as [i j], (std_of (snd (pk pi k))) as [p q].
  destruct (std_of (fst k)) as [i' j'], (std_of (snd k)) as [p' q'].
  cbn [mul div sub ROps] in *. rewrite E1, E2. reflexivity.
Qed.

(** the relabelled frame: T' a i = T (pi^-1 a) i diagonalises the relabelled fictitious strain and gives
    the SAME rotated axial strains for the relabelled strain vector e' (pi a) = e a *)
Lemma strain_rot_relabel_l :
  forall pi (T : nat -> nat -> R) (e : nat -> R) i, In pi perms3 ->
    strain_rot (fun a j => T (ap (inv3 pi) a) j) (fun a => e (ap (inv3 pi) a)) i = strain_rot T e i.
Proof.
  intros pi T e i Hpi. unfold perms3 in Hpi. cbn [In] in Hpi.
  destruct Hpi as [<- | [<- | [<- | [<- | [<- | [<- | []]]]]]];
    unfold strain_rot, sum3; cbn [inv3 ap nth map Nat.eqb]; cbn [add mul ROps]; ring.
Qed.
Lemma recompose_relabel_l :
  forall pi (T : nat -> nat -> R) lam a b, In pi perms3 ->
    recompose (fun x j => T (ap (inv3 pi) x) j) lam a b = recompose T lam (ap (inv3 pi) a) (ap (inv3 pi) b).
Proof. intros. reflexivity. Qed.
