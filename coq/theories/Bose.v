(** C12: finiteness / low-temperature behaviour of the Bose factors of nonshear.py.
    Over R: the exp(+Q) and exp(-Q) forms agree, are bounded, decay, and every thermal term
    (and the numerator of the adiabatic gap) tends to 0 as T -> 0+ with an explicit linear rate.
    Over binary64 (Examples, evaluated): the exp(+Q) form is NaN beyond the overflow threshold
    of exp, the exp(-Q) form is finite. *)
From Coq Require Import Reals Lra Lia List Bool ZArith Psatz.
From Coquelicot Require Import Coquelicot.
From Cij Require Import Ops ROps FOps NonShearModel NonShear BoseModel Voigt ShearModel.
Import ListNotations.
Local Open Scope R_scope.

(* ------------------------------------------------------------------------------------ *)
(** * The two forms over R *)

Definition rQ1e := Q1_exp (OF:=ROps).
Definition rQ2e := Q2_exp (OF:=ROps).
Definition rQ1n := Q1_neg (OF:=ROps).
Definition rQ2n := Q2_neg (OF:=ROps).

Lemma rQ1n_eq q : rQ1n q = q * exp (- q) / (1 - exp (- q)). Proof. reflexivity. Qed.
Lemma rQ2n_eq q : rQ2n q = q * q * exp (- q) / ((1 - exp (- q)) * (1 - exp (- q))). Proof. reflexivity. Qed.
Lemma rQ1e_eq q : rQ1e q = q / (exp q - 1). Proof. reflexivity. Qed.
Lemma rQ2e_eq q : rQ2e q = q * q * exp q / ((exp q - 1) * (exp q - 1)). Proof. reflexivity. Qed.

Lemma E_facts q : 0 < q -> 0 < exp (- q) < 1 /\ exp (- q) * (1 + q) < 1 /\ exp (- q) = / exp q /\ 1 + q < exp q.
Proof.
  intros Hq. pose proof (exp_pos q) as HX. pose proof (exp_pos (- q)) as HE.
  assert (H1 : 1 + q < exp q) by (apply exp_ineq1; lra).
  assert (HI : exp (- q) = / exp q) by apply exp_Ropp.
  assert (HM : exp (- q) * exp q = 1) by (rewrite HI; field; lra).
  repeat split; try assumption; nra.
Qed.

(** proved next to the model in NonShear.v (direction neg = exp); restated here *)
Lemma bose_forms_equal_r : forall q, 0 < q -> rQ1e q = rQ1n q /\ rQ2e q = rQ2n q.
Proof.
  intros q Hq. destruct (NonShear.bose_forms_equal_l q Hq) as [A B]. split; symmetry; assumption.
Qed.

(** Q/(1-e^-Q) = Q + Q1 < 1 + Q *)
Lemma q_over_lt q : 0 < q -> 0 < q / (1 - exp (- q)) < 1 + q.
Proof.
  intros Hq. destruct (E_facts q Hq) as ((HE0 & HE1) & HEq & _ & _).
  assert (HD : 1 - exp (- q) > 0) by lra. split.
  - apply Rdiv_lt_0_compat; lra.
  - apply Rlt_div_l; [exact HD|]. nra.
Qed.

Lemma Q1_bounds_l : forall q, 0 < q -> 0 < rQ1n q < 1.
Proof.
  intros q Hq. destruct (E_facts q Hq) as ((HE0 & HE1) & HEq & _ & _). rewrite rQ1n_eq.
  assert (HD : 1 - exp (- q) > 0) by lra. split.
  - apply Rdiv_lt_0_compat; [apply Rmult_lt_0_compat|]; lra.
  - apply Rlt_div_l; [exact HD|]. nra.
Qed.

(** (1 + q)^2 e^-q <= 4 (1 + q/2)^2 e^-q <= 4 *)
Lemma sq_exp_le q : 0 < q -> (1 + q) * (1 + q) * exp (- q) < 4.
Proof.
  intros Hq. assert (Hh : 0 < q / 2) by lra.
  destruct (E_facts (q / 2) Hh) as ((HE0 & HE1) & HEq & _ & _).
  assert (HS : exp (- q) = exp (- (q / 2)) * exp (- (q / 2))).
  { rewrite <- exp_plus. f_equal. field. }
  rewrite HS. set (e := exp (- (q / 2))) in *.
  assert (0 < e * (1 + q / 2) < 1) by (split; nra).
  replace ((1 + q) * (1 + q) * (e * e)) with ((e * (1 + q)) * (e * (1 + q))) by ring.
  assert (0 < e * (1 + q) < 2) by (split; nra). nra.
Qed.

Lemma Q2_bounds_l : forall q, 0 < q -> 0 < rQ2n q < 4.
Proof.
  intros q Hq. destruct (E_facts q Hq) as ((HE0 & HE1) & HEq & _ & _).
  destruct (q_over_lt q Hq) as (Hr0 & Hr1). pose proof (sq_exp_le q Hq) as H4.
  assert (HD : 1 - exp (- q) <> 0) by lra.
  assert (E : rQ2n q = (q / (1 - exp (- q))) * (q / (1 - exp (- q))) * exp (- q)).
  { rewrite rQ2n_eq. field. exact HD. }
  rewrite E. set (r := q / (1 - exp (- q))) in *. set (e := exp (- q)) in *. split.
  - apply Rmult_lt_0_compat; [apply Rmult_lt_0_compat|]; assumption.
  - assert (r * r < (1 + q) * (1 + q)) by nra.
    apply Rle_lt_trans with ((1 + q) * (1 + q) * e); [|exact H4].
    apply Rmult_le_compat_r; lra.
Qed.

(** decay: beyond Q = ln 2 the denominator is at least 1/2 *)
Lemma E_half q : ln 2 <= q -> exp (- q) <= / 2.
Proof.
  intros Hq. replace (/ 2) with (exp (- ln 2)).
  - destruct (Rle_lt_or_eq_dec _ _ Hq) as [Hlt | <-]; [|lra].
    left. apply exp_increasing. lra.
  - rewrite exp_Ropp, exp_ln by lra. reflexivity.
Qed.
Lemma ln2_pos : 0 < ln 2.
Proof. rewrite <- ln_1. apply ln_increasing; lra. Qed.

Lemma Q1_decay_l : forall q, ln 2 <= q -> rQ1n q <= 2 * (q * exp (- q)).
Proof.
  intros q Hq. pose proof ln2_pos as H2. pose proof (E_half q Hq) as Hh. pose proof (exp_pos (- q)) as HE.
  rewrite rQ1n_eq. apply Rle_div_l; [lra|].
  assert (0 <= q * exp (- q)) by (apply Rmult_le_pos; lra). nra.
Qed.
Lemma Q2_decay_l : forall q, ln 2 <= q -> rQ2n q <= 4 * (q * q * exp (- q)).
Proof.
  intros q Hq. pose proof ln2_pos as H2. pose proof (E_half q Hq) as Hh. pose proof (exp_pos (- q)) as HE.
  rewrite rQ2n_eq. set (e := exp (- q)) in *.
  assert (HD : / 4 <= (1 - e) * (1 - e)) by nra.
  apply Rle_div_l; [lra|].
  assert (0 <= q * q * e) by (apply Rmult_le_pos; [apply Rle_0_sqr | lra]). nra.
Qed.

(* ------------------------------------------------------------------------------------ *)
(** * "f(T) = O(T) for T > 0" and its consequence f -> 0 as T -> 0+ *)

Definition lin0 (f : R -> R) : Prop := exists C, forall T, 0 < T -> Rabs (f T) <= C * T.
Definition bdd0 (f : R -> R) : Prop := exists M, forall T, 0 < T -> Rabs (f T) <= M.

Lemma lin0_ext f g : (forall T, 0 < T -> f T = g T) -> lin0 f -> lin0 g.
Proof. intros E (C & H). exists C. intros T HT. rewrite <- E by exact HT. apply H, HT. Qed.
Lemma lin0_zero : lin0 (fun _ => 0).
Proof. exists 0. intros T HT. rewrite Rabs_R0. lra. Qed.
Lemma lin0_plus f g : lin0 f -> lin0 g -> lin0 (fun T => f T + g T).
Proof.
  intros (C & H) (D & G). exists (C + D). intros T HT.
  eapply Rle_trans; [apply Rabs_triang|]. specialize (H T HT). specialize (G T HT). lra.
Qed.
Lemma lin0_scal c f : lin0 f -> lin0 (fun T => c * f T).
Proof.
  intros (C & H). exists (Rabs c * C). intros T HT. rewrite Rabs_mult.
  specialize (H T HT). pose proof (Rabs_pos c). nra.
Qed.
Lemma lin0_div f c : lin0 f -> lin0 (fun T => f T / c).
Proof.
  intros H. apply (lin0_ext (fun T => / c * f T)); [intros; unfold Rdiv; ring|]. apply lin0_scal, H.
Qed.
Lemma bdd0_ext f g : (forall T, 0 < T -> f T = g T) -> bdd0 f -> bdd0 g.
Proof. intros E (C & H). exists C. intros T HT. rewrite <- E by exact HT. apply H, HT. Qed.
Lemma bdd0_const c : bdd0 (fun _ => c).
Proof. exists (Rabs c). intros; lra. Qed.
Lemma bdd0_plus f g : bdd0 f -> bdd0 g -> bdd0 (fun T => f T + g T).
Proof.
  intros (C & H) (D & G). exists (C + D). intros T HT.
  eapply Rle_trans; [apply Rabs_triang|]. specialize (H T HT). specialize (G T HT). lra.
Qed.
Lemma bdd0_mult f g : bdd0 f -> bdd0 g -> bdd0 (fun T => f T * g T).
Proof.
  intros (C & H) (D & G). exists (C * D). intros T HT. rewrite Rabs_mult.
  specialize (H T HT). specialize (G T HT). pose proof (Rabs_pos (f T)). pose proof (Rabs_pos (g T)). nra.
Qed.
Lemma bdd0_scal c f : bdd0 f -> bdd0 (fun T => c * f T).
Proof. intros H. apply bdd0_mult; [apply bdd0_const | exact H]. Qed.
Lemma lin0_T_bdd f : bdd0 f -> lin0 (fun T => T * f T).
Proof.
  intros (M & H). exists M. intros T HT. rewrite Rabs_mult, (Rabs_pos_eq T) by lra.
  specialize (H T HT). nra.
Qed.

Lemma lin0_Rsum_map {A} (f : R -> A -> R) l :
  List.Forall (fun m => lin0 (fun T => f T m)) l -> lin0 (fun T => Rsum (map (f T) l)).
Proof.
  induction 1 as [|m l Hm _ IH]; cbn [map].
  - apply lin0_zero.
  - apply (lin0_ext (fun T => f T m + Rsum (map (f T) l))); [intros; reflexivity|].
    apply lin0_plus; assumption.
Qed.
Lemma lin0_dsum {A} (f : R -> A -> R) w rows :
  List.Forall (List.Forall (fun m => lin0 (fun T => f T m))) rows -> lin0 (fun T => dsum w rows (f T)).
Proof.
  intros H; revert w; induction H as [|row rows Hr _ IH]; intros [|wq w]; cbn [dsum]; try apply lin0_zero.
  apply lin0_plus; [|apply IH]. apply lin0_scal, lin0_Rsum_map, Hr.
Qed.
Lemma bdd0_Rsum_map {A} (f : R -> A -> R) l :
  List.Forall (fun m => bdd0 (fun T => f T m)) l -> bdd0 (fun T => Rsum (map (f T) l)).
Proof.
  induction 1 as [|m l Hm _ IH]; cbn [map].
  - apply (bdd0_const 0).
  - apply (bdd0_ext (fun T => f T m + Rsum (map (f T) l))); [intros; reflexivity|].
    apply bdd0_plus; assumption.
Qed.
Lemma bdd0_dsum {A} (f : R -> A -> R) w rows :
  List.Forall (List.Forall (fun m => bdd0 (fun T => f T m))) rows -> bdd0 (fun T => dsum w rows (f T)).
Proof.
  intros H; revert w; induction H as [|row rows Hr _ IH]; intros [|wq w]; cbn [dsum]; try apply (bdd0_const 0).
  apply bdd0_plus; [|apply IH]. apply bdd0_scal, bdd0_Rsum_map, Hr.
Qed.

(** f(T) - c = O(T) on T > 0 implies the one-sided limit c *)
Lemma lin0_lim_at f c : lin0 (fun T => f T - c) -> filterlim f (at_right 0) (locally c).
Proof.
  intros (C & H). apply filterlim_locally. intros eps.
  assert (HC : 0 <= C).
  { specialize (H 1 Rlt_0_1). pose proof (Rabs_pos (f 1 - c)). lra. }
  assert (Hd : 0 < eps / (C + 1)) by (apply Rdiv_lt_0_compat; [apply cond_pos | lra]).
  exists (mkposreal _ Hd). intros y Hy Hpos.
  unfold ball in *; cbn in *; unfold AbsRing_ball, abs, minus, plus, opp in *; cbn in *.
  replace (y + - 0) with y in Hy by ring. fold (f y - c).
  rewrite (Rabs_pos_eq y) in Hy by lra.
  apply Rle_lt_trans with (C * y); [apply H, Hpos|].
  apply Rlt_div_r in Hy; [|lra]. pose proof (cond_pos eps). nra.
Qed.
Lemma lin0_lim f : lin0 f -> filterlim f (at_right 0) (locally 0).
Proof. intros H. apply lin0_lim_at. eapply lin0_ext; [|exact H]. intros; cbv beta; ring. Qed.

(* ------------------------------------------------------------------------------------ *)
(** * The thermal terms of the model vanish as T -> 0+ *)

Lemma Qf_pos (hdk f T : R) : 0 < hdk -> 0 < f -> 0 < T -> 0 < Qf (OF:=ROps) hdk f T.
Proof.
  intros Hh Hf HT. unfold Qf. rops'. apply Rmult_lt_0_compat; [exact Hh|]. apply Rdiv_lt_0_compat; assumption.
Qed.

Lemma bdd0_Q1 hdk f : 0 < hdk -> 0 < f -> bdd0 (fun T => rQ1n (Qf (OF:=ROps) hdk f T)).
Proof.
  intros Hh Hf. exists 1. intros T HT. destruct (Q1_bounds_l _ (Qf_pos hdk f T Hh Hf HT)).
  rewrite Rabs_pos_eq; lra.
Qed.
Lemma bdd0_Q2 hdk f : 0 < hdk -> 0 < f -> bdd0 (fun T => rQ2n (Qf (OF:=ROps) hdk f T)).
Proof.
  intros Hh Hf. exists 4. intros T HT. destruct (Q2_bounds_l _ (Qf_pos hdk f T Hh Hf HT)).
  rewrite Rabs_pos_eq; lra.
Qed.

Lemma bdd0_opp f : bdd0 f -> bdd0 (fun T => - f T).
Proof. intros H. apply (bdd0_ext (fun T => (-1) * f T)); [intros; ring|]. apply bdd0_scal, H. Qed.

Section Vanish.
  Variable K : @consts R.
  Hypothesis Khdk : 0 < c_hdk K.

  (** one mode: - Q2 a + Q1 b with Q = (h c / k) f / T stays bounded on T > 0 *)
  Lemma th_term_bdd (lg : bool) (ei ej f g gv : R) :
    0 < f -> bdd0 (fun T => th_term (OF:=ROps) K Q1_neg Q2_neg lg ei ej T f g gv).
  Proof.
    intros Hf. destruct lg; unfold th_term; cbv zeta; rops';
      (apply bdd0_plus; (apply bdd0_mult; [|apply bdd0_const]));
      try (apply bdd0_opp, (bdd0_Q2 (c_hdk K) f Khdk Hf)); apply (bdd0_Q1 (c_hdk K) f Khdk Hf).
  Qed.
  Lemma th_mode_lin0 (lg : bool) (ei ej V f g gv : R) :
    0 < f -> lin0 (fun T => c_k K * T / V * th_term (OF:=ROps) K Q1_neg Q2_neg lg ei ej T f g gv).
  Proof.
    intros Hf.
    apply (lin0_ext (fun T => (c_k K / V) * (T * th_term (OF:=ROps) K Q1_neg Q2_neg lg ei ej T f g gv)));
      [intros; unfold Rdiv; ring|].
    apply lin0_scal, lin0_T_bdd, th_term_bdd, Hf.
  Qed.
  Lemma s_term_bdd (b : bool) (ei ej f g : R) :
    0 < f -> bdd0 (fun T => s_term (OF:=ROps) K Q2_neg ei ej b T f g).
  Proof.
    intros Hf. unfold s_term. rops'. apply bdd0_mult; [|apply bdd0_const].
    apply (bdd0_Q2 (c_hdk K) f Khdk Hf).
  Qed.

  Variable w : list R.
  Variable sp : list (list mode).
  Variable na : Z.
  Hypothesis Hna : (0 < na)%Z.
  Hypothesis Hw : Rsum w <> 0.
  Hypothesis Hlen : List.Forall (fun r => length r = Z.to_nat (3 * na)) sp.

  (** every non-acoustic frequency handed to the code is positive *)
  Definition positive_spectrum (fr : mode -> R) : Prop :=
    List.Forall (List.Forall (fun m => 0 < fr m)) (phys_rows sp).

  (** whole thermal contribution = O(T): explicit linear rate *)
  Lemma thermal_lin0_l (lg : bool) (ei ej V : R) (fr ga vd : mode -> R) :
    positive_spectrum fr ->
    lin0 (fun T => thermal (OF:=ROps) K Q1_neg Q2_neg lg w na (sample sp fr) (sample sp ga) (sample sp vd) ei ej V T).
  Proof.
    intros Hpos.
    apply (lin0_ext (fun T => dsum w (phys_rows sp)
             (fun m => c_k K * T / V * th_term (OF:=ROps) K Q1_neg Q2_neg lg ei ej T (fr m) (ga m) (vd m)) / Rsum w)).
    - intros T HT. unfold thermal, sample. rewrite map3q_map. rops'.
      assert (E : Ris0 T = false) by (apply Ris0_false; lra). rewrite E.
      rewrite <- (avg_sample_scal w sp na Hna Hw Hlen). unfold sample. ring.
    - apply lin0_div.
      apply (lin0_dsum (fun T m => c_k K * T / V * th_term (OF:=ROps) K Q1_neg Q2_neg lg ei ej T (fr m) (ga m) (vd m))).
      eapply Forall_impl; [|exact Hpos]. intros row Hr.
      eapply Forall_impl; [|exact Hr]. intros m Hm. apply th_mode_lin0, Hm.
  Qed.

  Lemma isothermal_right_continuous_l (lg : bool) (ei ej V p pst : R) (fr ga vd : mode -> R) :
    positive_spectrum fr ->
    filterlim (fun T => isothermal (OF:=ROps) K Q1_neg Q2_neg lg w na (sample sp fr) (sample sp ga) (sample sp vd) ei ej V T p pst)
              (at_right 0)
              (locally (isothermal (OF:=ROps) K Q1_neg Q2_neg lg w na (sample sp fr) (sample sp ga) (sample sp vd) ei ej V 0 p pst)).
  Proof.
    intros Hpos. apply lin0_lim_at.
    eapply lin0_ext; [|exact (thermal_lin0_l lg ei ej V fr ga vd Hpos)].
    intros T HT. cbv beta. unfold isothermal.
    assert (E0 : thermal (OF:=ROps) K Q1_neg Q2_neg lg w na (sample sp fr) (sample sp ga) (sample sp vd) ei ej V 0 = 0).
    { unfold thermal. rops'. rewrite (proj2 (Ris0_true 0) eq_refl). reflexivity. }
    destruct lg; rops'; rewrite E0; ring.
  Qed.

  (** the mode averages in the adiabatic gap stay bounded *)
  Lemma s_avg_bdd (b : bool) (ei ej : R) (fr ga : mode -> R) :
    positive_spectrum fr ->
    bdd0 (fun T => avg_modes (OF:=ROps) w (map2q (s_term (OF:=ROps) K Q2_neg ei ej b T) (sample sp fr) (sample sp ga))
                   * 3 * IZR na).
  Proof.
    intros Hpos.
    apply (bdd0_ext (fun T => dsum w (phys_rows sp)
             (fun m => 1 * s_term (OF:=ROps) K Q2_neg ei ej b T (fr m) (ga m)) / Rsum w)).
    - intros T HT. unfold sample. rewrite map2q_map.
      rewrite <- (avg_sample_scal w sp na Hna Hw Hlen). unfold sample. ring.
    - apply (bdd0_ext (fun T => / Rsum w * dsum w (phys_rows sp)
             (fun m => 1 * s_term (OF:=ROps) K Q2_neg ei ej b T (fr m) (ga m)))); [intros; unfold Rdiv; ring|].
      apply bdd0_scal.
      apply (bdd0_dsum (fun T m => 1 * s_term (OF:=ROps) K Q2_neg ei ej b T (fr m) (ga m))).
      eapply Forall_impl; [|exact Hpos]. intros row Hr.
      eapply Forall_impl; [|exact Hr]. intros m Hm. apply bdd0_scal, s_term_bdd, Hm.
  Qed.

  (** adiabatic gap = O(T) whenever 1/C_V(T) stays bounded (in particular for a constant C_V);
      PARTIAL: the physical C_V(T) itself tends to 0 - see [gap_lin0_harmonic_l] *)
  Lemma gap_lin0_partial_l (ei ej V : R) (fr ga : mode -> R) (cv : R -> R) :
    positive_spectrum fr -> bdd0 (fun T => / cv T) ->
    lin0 (fun T => gap (OF:=ROps) K Q2_neg w na (sample sp fr) (sample sp ga) ei ej V T (cv T)).
  Proof.
    intros Hpos Hcv.
    set (A := fun b T => avg_modes (OF:=ROps) w
                (map2q (s_term (OF:=ROps) K Q2_neg ei ej b T) (sample sp fr) (sample sp ga)) * 3 * IZR na).
    apply (lin0_ext (fun T => T * (/ V * c_k K * c_k K * (/ cv T * (A false T * A true T))))).
    - intros T HT. unfold gap, A. rops'.
      assert (E : Ris0 T = false) by (apply Ris0_false; lra). rewrite E. unfold Rdiv. ring.
    - apply lin0_T_bdd, bdd0_scal, bdd0_mult; [exact Hcv|].
      apply bdd0_mult; apply s_avg_bdd, Hpos.
  Qed.
End Vanish.

(* ------------------------------------------------------------------------------------ *)
(** * The adiabatic gap with the harmonic heat capacity of the same spectrum *)

Lemma Rsum_abs_le {A} (f g : A -> R) X l :
  List.Forall (fun m => Rabs (f m) <= X * g m) l -> Rabs (Rsum (map f l)) <= X * Rsum (map g l).
Proof.
  induction 1 as [|m l Hm _ IH]; cbn [map]; rewrite ?Rsum_cons, ?Rsum_nil.
  - rewrite Rabs_R0. lra.
  - eapply Rle_trans; [apply Rabs_triang|]. lra.
Qed.
Lemma dsum_abs_le {A} (f g : A -> R) X w rows :
  List.Forall (fun x => 0 <= x) w ->
  List.Forall (List.Forall (fun m => Rabs (f m) <= X * g m)) rows ->
  Rabs (dsum w rows f) <= X * dsum w rows g.
Proof.
  intros Hw H; revert w Hw; induction H as [|row rows Hr _ IH]; intros [|wq w] Hw; cbn [dsum];
    try (rewrite Rabs_R0; lra).
  inversion Hw as [|? ? Hq Hw']; subst.
  eapply Rle_trans; [apply Rabs_triang|]. rewrite Rabs_mult, (Rabs_pos_eq wq) by exact Hq.
  pose proof (Rsum_abs_le f g X row Hr). specialize (IH w Hw'). nra.
Qed.
Lemma Rsum_nonneg (l : list R) : List.Forall (fun x => 0 <= x) l -> 0 <= Rsum l.
Proof. induction 1; rewrite ?Rsum_cons, ?Rsum_nil; lra. Qed.
Lemma dsum_nonneg {A} (g : A -> R) w rows :
  List.Forall (fun x => 0 <= x) w -> List.Forall (List.Forall (fun m => 0 <= g m)) rows -> 0 <= dsum w rows g.
Proof.
  intros Hw H; revert w Hw; induction H as [|row rows Hr _ IH]; intros [|wq w] Hw; cbn [dsum]; try lra.
  inversion Hw as [|? ? Hq Hw']; subst. specialize (IH w Hw').
  assert (0 <= Rsum (map g row)).
  { apply Rsum_nonneg. rewrite Forall_forall in *. intros x Hx. apply in_map_iff in Hx.
    destruct Hx as (m & <- & Hm). apply Hr, Hm. }
  nra.
Qed.
Lemma exists_bound_row {A} (x : A -> R) (l : list A) :
  exists X, 0 <= X /\ List.Forall (fun m => Rabs (x m) <= X) l.
Proof.
  induction l as [|m l (X & HX & IH)].
  - exists 0. split; [lra | constructor].
  - exists (Rmax X (Rabs (x m))). split; [eapply Rle_trans; [exact HX | apply Rmax_l]|].
    constructor; [apply Rmax_r|]. eapply Forall_impl; [|exact IH]. cbv beta. intros a Ha.
    eapply Rle_trans; [exact Ha | apply Rmax_l].
Qed.
Lemma exists_bound {A} (x : A -> R) (rows : list (list A)) :
  exists X, 0 <= X /\ List.Forall (List.Forall (fun m => Rabs (x m) <= X)) rows.
Proof.
  induction rows as [|r rows (X & HX & IH)].
  - exists 0. split; [lra | constructor].
  - destruct (exists_bound_row x r) as (Y & HY & Hr). exists (Rmax X Y).
    split; [eapply Rle_trans; [exact HX | apply Rmax_l]|]. constructor.
    + eapply Forall_impl; [|exact Hr]. cbv beta. intros a Ha. eapply Rle_trans; [exact Ha | apply Rmax_r].
    + eapply Forall_impl; [|exact IH]. intros row Hrow. eapply Forall_impl; [|exact Hrow]. cbv beta.
      intros a Ha. eapply Rle_trans; [exact Ha | apply Rmax_l].
Qed.

Lemma quot_bound b1 b2 s W X1 X2 :
  0 < W -> 0 <= s -> 0 <= X1 -> 0 <= X2 -> Rabs b1 <= X1 * s -> Rabs b2 <= X2 * s ->
  Rabs ((b1 / W) * (b2 / W) * / (s / W)) <= X1 * X2 * (s / W).
Proof.
  intros HW Hs H1 H2 Hb1 Hb2. destruct (Req_dec s 0) as [-> | Hs0].
  - assert (b1 = 0).
    { pose proof (Rabs_pos b1). assert (Rabs b1 = 0) by lra. destruct (Req_dec b1 0); [assumption|].
      apply Rabs_no_R0 in H3. contradiction. }
    subst b1. unfold Rdiv. rewrite !Rmult_0_l, Rabs_R0. lra.
  - assert (Hsp : 0 < s) by lra.
    replace ((b1 / W) * (b2 / W) * / (s / W)) with (b1 * b2 / (W * s)) by (field; lra).
    unfold Rdiv. rewrite !Rabs_mult, (Rabs_pos_eq (/ (W * s))).
    2:{ left. apply Rinv_0_lt_compat. nra. }
    assert (HP : Rabs b1 * Rabs b2 <= (X1 * s) * (X2 * s)).
    { apply Rmult_le_compat; try apply Rabs_pos; assumption. }
    assert (HI : 0 < / (W * s)) by (apply Rinv_0_lt_compat; nra).
    apply Rle_trans with ((X1 * s) * (X2 * s) * / (W * s)).
    + apply Rmult_le_compat_r; lra.
    + right. field. lra.
Qed.

Section GapHarmonic.
  Variable K : @consts R.
  Hypothesis Khdk : 0 < c_hdk K.
  Hypothesis Kk : 0 < c_k K.
  Variable w : list R.
  Variable sp : list (list mode).
  Variable na : Z.
  Hypothesis Hna : (0 < na)%Z.
  Hypothesis Hw : Rsum w <> 0.
  Hypothesis Hw0 : List.Forall (fun x => 0 <= x) w.
  Hypothesis Hlen : List.Forall (fun r => length r = Z.to_nat (3 * na)) sp.

  (** harmonic heat capacity per cell of the spectrum handed to the code: k sum_qm w_q/W Q2(Q_qm) *)
  Definition cv_harmonic (fr : mode -> R) (T : R) : R :=
    c_k K * (avg_modes (OF:=ROps) w (sample sp (fun m => Q2_neg (OF:=ROps) (Qf (OF:=ROps) (c_hdk K) (fr m) T))) * 3 * IZR na).

  Lemma gap_lin0_harmonic_l (ei ej V : R) (fr ga : mode -> R) :
    positive_spectrum sp fr ->
    lin0 (fun T => gap (OF:=ROps) K Q2_neg w na (sample sp fr) (sample sp ga) ei ej V T (cv_harmonic fr T)).
  Proof.
    intros Hpos.
    assert (HW : 0 < Rsum w).
    { destruct (Rsum_nonneg w Hw0) as [H | H]; [exact H | exfalso; apply Hw; symmetry; exact H]. }
    set (q := fun T m => Qf (OF:=ROps) (c_hdk K) (fr m) T).
    set (x := fun (b : bool) m => if b then mg1j (OF:=ROps) ej (ga m) else mg1i (OF:=ROps) ei (ga m)).
    set (s := fun T => dsum w (phys_rows sp) (fun m => rQ2n (q T m))).
    set (bb := fun b T => dsum w (phys_rows sp) (fun m => rQ2n (q T m) * x b m)).
    apply (lin0_ext (fun T => T * (/ V * c_k K * ((bb false T / Rsum w) * (bb true T / Rsum w) * / (s T / Rsum w))))).
    - intros T HT. unfold gap, cv_harmonic, sample. rewrite !map2q_map. rops'.
      assert (E : Ris0 T = false) by (apply Ris0_false; lra). rewrite E.
      pose proof (avg_sample w sp na Hna Hw Hlen) as AS. unfold sample in AS.
      set (A1 := avg_modes (OF:=ROps) w (map (map (fun m => s_term (OF:=ROps) K Q2_neg ei ej false T (fr m) (ga m))) sp)).
      set (A2 := avg_modes (OF:=ROps) w (map (map (fun m => s_term (OF:=ROps) K Q2_neg ei ej true T (fr m) (ga m))) sp)).
      set (AS0 := avg_modes (OF:=ROps) w (map (map (fun m => Q2_neg (OF:=ROps) (Qf (OF:=ROps) (c_hdk K) (fr m) T))) sp)).
      assert (E1 : bb false T / Rsum w = A1 * 3 * IZR na) by (unfold A1; rewrite AS; reflexivity).
      assert (E2 : bb true T / Rsum w = A2 * 3 * IZR na) by (unfold A2; rewrite AS; reflexivity).
      assert (E3 : s T / Rsum w = AS0 * 3 * IZR na) by (unfold AS0; rewrite AS; reflexivity).
      rewrite E1, E2, E3. unfold Rdiv. rewrite !Rinv_mult.
      set (iV := / V). set (iA := / AS0). set (iN := / IZR na). field. lra.
    - apply lin0_T_bdd, bdd0_scal.
      destruct (exists_bound (x false) (phys_rows sp)) as (X1 & HX1 & HB1).
      destruct (exists_bound (x true) (phys_rows sp)) as (X2 & HX2 & HB2).
      assert (Hs : bdd0 (fun T => s T / Rsum w)).
      { apply (bdd0_ext (fun T => / Rsum w * s T)); [intros; unfold Rdiv; ring|]. apply bdd0_scal.
        apply (bdd0_dsum (fun T m => rQ2n (q T m))).
        eapply Forall_impl; [|exact Hpos]. intros row Hr. eapply Forall_impl; [|exact Hr]. intros m Hm.
        apply (bdd0_Q2 (c_hdk K) (fr m) Khdk Hm). }
      destruct Hs as (M & HM). exists (X1 * X2 * M). intros T HT.
      assert (Hq2 : List.Forall (List.Forall (fun m => 0 <= rQ2n (q T m))) (phys_rows sp)).
      { eapply Forall_impl; [|exact Hpos]. intros row Hr. eapply Forall_impl; [|exact Hr]. intros m Hm.
        left. apply Q2_bounds_l, Qf_pos; assumption. }
      assert (Hs0 : 0 <= s T) by (apply dsum_nonneg; assumption).
      assert (Hb : forall b X, 0 <= X -> List.Forall (List.Forall (fun m => Rabs (x b m) <= X)) (phys_rows sp) ->
                               Rabs (bb b T) <= X * s T).
      { intros b X HX HB. apply dsum_abs_le; [exact Hw0|].
        rewrite Forall_forall in *. intros row Hrow. specialize (HB row Hrow). specialize (Hq2 row Hrow).
        rewrite Forall_forall in *. intros m Hm. specialize (HB m Hm). specialize (Hq2 m Hm).
        rewrite Rabs_mult, (Rabs_pos_eq _ Hq2). rewrite (Rmult_comm X). apply Rmult_le_compat_l; assumption. }
      eapply Rle_trans; [apply (quot_bound _ _ (s T) (Rsum w) X1 X2 HW Hs0 HX1 HX2 (Hb false X1 HX1 HB1) (Hb true X2 HX2 HB2))|].
      specialize (HM T HT). assert (0 <= s T / Rsum w) by (apply Rdiv_le_0_compat; lra).
      rewrite Rabs_pos_eq in HM by assumption.
      assert (0 <= X1 * X2) by (apply Rmult_le_pos; assumption). nra.
  Qed.
End GapHarmonic.

(* ------------------------------------------------------------------------------------ *)
(** * Shear solver: the only divisors are eps_ij * eps_kl = 1 and the multiplicity *)

Lemma shear_finite_l :
  forall k, In k shear_keys ->
    mult k <> 0%nat /\ IZR (Z.of_nat (mult k)) <> 0 /\
    (let '(i, j) := std_of (fst k) in let '(p, q) := std_of (snd k) in
     fict (OF:=ROps) k i j * fict (OF:=ROps) k p q = 1).
Proof.
  intros k Hk. unfold shear_keys, all_keys in Hk.
  cbn [filter is_shear fst snd Nat.ltb Nat.leb orb] in Hk.
  repeat (destruct Hk as [<- | Hk];
    [split; [cbn; lia | split; [cbn; lra | unfold fict; cbn; ring]]|]).
  destruct Hk.
Qed.

(* ------------------------------------------------------------------------------------ *)
(** * binary64: evaluated Examples (tests, not theorems) *)

From Coq Require Import PrimFloat.
Local Open Scope float_scope.
(** the code as it was: Q^2 exp(Q) = inf from Q ~ 697 on and (exp(Q) - 1)^2 = inf from Q ~ 355 on, so
    Q2 = inf / inf = NaN beyond ~697 (and a silent 0 between 355 and 697); Q1 = Q / inf = 0 *)
Example bose_exp_form_overflows_ex :
  Q2_exp (OF:=FOps) 710 = nan /\ Q2_exp (OF:=FOps) 700 = nan
  /\ Q2_exp (OF:=FOps) 0x1.afa2e4d0a5e8p+9 = nan (* 863.27 = Q(1500 cm^-1, 2.5 K) *)
  /\ finite (Q2_exp (OF:=FOps) 690) = true /\ Q1_exp (OF:=FOps) 710 = 0.
Proof. vm_compute. repeat split; reflexivity. Qed.

Definition bose_sample_args : list float :=
  [0x1p-40; 0x1p-20; 0.5; 1; 10; 100; 354; 355; 690; 697; 700; 709; 0x1.62e3d70a3d70ap+9; 0x1.62e51eb851eb8p+9; 710;
   745; 0x1.749999999999ap+9; 746; 800; 0x1.afa2e4d0a5e8p+9; 1000; 0x1p+20; 0x1p+40; 0x1p+100; 0x1p+300; 0x1p+511].
(** the repaired code: finite (and within [0,1] resp. [0,4]) on a sample of arguments from 2^-40 to 2^511 *)
Example bose_neg_form_finite_sample_ex :
  forallb (fun q => finite (Q1_neg (OF:=FOps) q) && finite (Q2_neg (OF:=FOps) q) &&
                    (0 <=? Q1_neg (OF:=FOps) q) && (Q1_neg (OF:=FOps) q <=? 1) &&
                    (0 <=? Q2_neg (OF:=FOps) q) && (Q2_neg (OF:=FOps) q <=? 4)) bose_sample_args = true.
Proof. vm_compute. reflexivity. Qed.
(** remaining limits of the repaired form (both far outside physical input): Q*Q overflows for
    Q >= 2^512 (T < 1e-150 K), and 1 - exp(-Q) = 0 for Q < 2^-53 (same in the exp(Q) form) *)
Example bose_neg_form_limit_ex :
  Q2_neg (OF:=FOps) 0x1p+512 = nan /\ Q1_neg (OF:=FOps) 0x1p+512 = 0 /\
  Q1_neg (OF:=FOps) 0x1p-60 = infinity /\ Q1_exp (OF:=FOps) 0x1p-60 = infinity.
Proof. vm_compute. repeat split; reflexivity. Qed.
