(** Static helpers the regenerated Voigt model (Gen_voigt.v) is written against. *)
From Coq Require Import ZArith List Bool.
Import ListNotations.
Local Open Scope Z_scope.

Definition strain := (Z * Z)%type.           (* StrainRepresentation(i, j) *)
Definition modkey := (strain * strain)%type. (* ModulusRepresentation(i, j) *)

Definition strain_eqb (a b : strain) : bool := (fst a =? fst b) && (snd a =? snd b).
Definition modkey_eqb (a b : modkey) : bool := strain_eqb (fst a) (fst b) && strain_eqb (snd a) (snd b).

Fixpoint zlookup {A} (k : Z) (t : list (Z * A)) : option A :=
  match t with [] => None | (k', v) :: r => if k =? k' then Some v else zlookup k r end.
Fixpoint rlookup (s : strain) (t : list (Z * strain)) : option Z :=
  match t with [] => None | (k, v) :: r => if strain_eqb s v then Some k else rlookup s r end.
Fixpoint zmem (k : Z) (l : list Z) : bool :=
  match l with [] => false | x :: r => (k =? x) || zmem k r end.
Fixpoint smem (s : strain) (l : list strain) : bool :=
  match l with [] => false | x :: r => strain_eqb s x || smem s r end.

(* Python sorted((i, j)) on ints *)
Definition sort2 (i j : Z) : Z * Z := if j <? i then (j, i) else (i, j).
(* Python sorted((a, b), key=k): stable *)
Definition sort2_by {A} (k : A -> Z) (a b : A) : A * A := if k b <? k a then (b, a) else (a, b).

Definition b2z (b : bool) : Z := if b then 1 else 0.

Definition obind {A B} (o : option A) (f : A -> option B) : option B :=
  match o with Some x => f x | None => None end.

(* decimal digits of a positive integer, most significant first *)
Fixpoint digits_fuel (fuel : nat) (n : Z) (acc : list Z) : list Z :=
  match fuel with
  | O => acc
  | S f => if n <? 10 then n :: acc else digits_fuel f (n / 10) (n mod 10 :: acc)
  end.
Definition digits (n : Z) : list Z := digits_fuel 20 n [].

Definition option_eqb {A} (e : A -> A -> bool) (a b : option A) : bool :=
  match a, b with Some x, Some y => e x y | None, None => true | _, _ => false end.
