(** C17 - text-level model shared by the phonon-file and static-table readers/writers.
    Text is [list byte] (ASCII); numbers are decimal fixed point ([dec] = mantissa and number of
    fraction digits).  This file contains definitions only (executed by the case shards). *)
From Coq Require Import ZArith List Bool Strings.Byte.
From Coq Require Strings.String.
Import ListNotations.
Local Open Scope Z_scope.

Definition bytes := list byte.
Definition lb (s : String.string) : bytes := String.list_byte_of_string s.

Fixpoint bytes_eqb (a b : bytes) : bool :=
  match a, b with
  | [], [] => true
  | x :: a', y :: b' => Byte.eqb x y && bytes_eqb a' b'
  | _, _ => false
  end.

(** Python [str.isspace] restricted to ASCII: what [str.split()], [str.strip()], [float()] and the
    regex class [\s] (str patterns) treat as white space. *)
Definition is_space (b : byte) : bool :=
  match b with
  | x09 | x0a | x0b | x0c | x0d | x1c | x1d | x1e | x1f | x20 => true
  | _ => false
  end.

Definition digit_val (b : byte) : option Z :=
  match b with
  | x30 => Some 0 | x31 => Some 1 | x32 => Some 2 | x33 => Some 3 | x34 => Some 4
  | x35 => Some 5 | x36 => Some 6 | x37 => Some 7 | x38 => Some 8 | x39 => Some 9
  | _ => None
  end.
Definition is_digit (b : byte) : bool := match digit_val b with Some _ => true | None => false end.
Definition digit_byte (d : Z) : byte :=
  match d with
  | 0 => x30 | 1 => x31 | 2 => x32 | 3 => x33 | 4 => x34
  | 5 => x35 | 6 => x36 | 7 => x37 | 8 => x38 | _ => x39
  end.

Definition sp : byte := x20.
Definition c_minus : byte := x2d.
Definition c_plus : byte := x2b.
Definition c_dot : byte := x2e.
Definition c_eq : byte := x3d.
Definition c_nl : byte := x0a.

(** ------------------------------------------------------------------ strip / split *)
Fixpoint drop_ws (s : bytes) : bytes :=
  match s with
  | c :: r => if is_space c then drop_ws r else s
  | [] => []
  end.
Fixpoint rstrip (s : bytes) : bytes :=
  match s with
  | [] => []
  | c :: r => match rstrip r with
              | [] => if is_space c then [] else [c]
              | r' => c :: r'
              end
  end.
(** [str.strip()] *)
Definition strip (s : bytes) : bytes := rstrip (drop_ws s).

(** [str.split()]: the maximal runs of non-space characters *)
Fixpoint split_ws (s : bytes) : list bytes :=
  match s with
  | [] => []
  | c :: r =>
      if is_space c then split_ws r
      else match r with
           | [] => [[c]]
           | c' :: _ =>
               if is_space c' then [c] :: split_ws r
               else match split_ws r with
                    | t :: ts => (c :: t) :: ts
                    | [] => [[c]]
                    end
           end
  end.

(** maximal non-space prefix and the rest ([\S*] greedy) *)
Fixpoint span_ns (s : bytes) : bytes * bytes :=
  match s with
  | c :: r => if is_space c then ([], s) else let '(t, r') := span_ns r in (c :: t, r')
  | [] => ([], [])
  end.

(** lines of a text as Python's file iteration yields them (split after each "\n"; the line
    terminator is dropped here, every consumer strips or ignores it) *)
Fixpoint split_lines_aux (cur : bytes) (s : bytes) : list bytes :=
  match s with
  | [] => match cur with [] => [] | _ => [rev cur] end
  | c :: r => if Byte.eqb c c_nl then rev cur :: split_lines_aux [] r else split_lines_aux (c :: cur) r
  end.
Definition split_lines (s : bytes) : list bytes := split_lines_aux [] s.
Definition unlines (ls : list bytes) : bytes := flat_map (fun l => l ++ [c_nl]) ls.

Fixpoint join (sep : bytes) (l : list bytes) : bytes :=
  match l with
  | [] => []
  | [x] => x
  | x :: r => x ++ sep ++ join sep r
  end.

(** ------------------------------------------------------------------ integers *)
(** exactly [k] decimal digits of [n mod 10^k], most significant first *)
Fixpoint fixdigits (k : nat) (n : Z) : bytes :=
  match k with
  | O => []
  | S k' => fixdigits k' (n / 10) ++ [digit_byte (n mod 10)]
  end.
(** number of decimal digits of n >= 0 (at least 1): least k >= 1 with n < 10^k *)
Fixpoint nd_aux (fuel : nat) (n p : Z) (k : nat) : nat :=
  match fuel with
  | O => k
  | S f => if n <? p then k else nd_aux f n (10 * p) (S k)
  end.
Definition ndigits (n : Z) : nat := nd_aux (S (Z.to_nat (Z.log2 n))) n 10 1.
Definition digits (n : Z) : bytes := fixdigits (ndigits n) n.

Definition rjust (w : nat) (s : bytes) : bytes := repeat sp (w - length s) ++ s.

(** ["%<w>d" % n] *)
Definition fmt_d (w : nat) (n : Z) : bytes :=
  rjust w (if n <? 0 then c_minus :: digits (- n) else digits n).

(** greedy [\d*]: accumulated value, number of digits read, rest *)
Fixpoint read_digits (acc : Z) (n : nat) (s : bytes) : Z * nat * bytes :=
  match s with
  | c :: r => match digit_val c with
              | Some d => read_digits (10 * acc + d) (S n) r
              | None => (acc, n, s)
              end
  | [] => (acc, n, [])
  end.

(** optional sign *)
Definition read_sign (s : bytes) : bool * bytes :=
  match s with
  | c :: r => if Byte.eqb c c_minus then (true, r)
              else if Byte.eqb c c_plus then (false, r) else (false, s)
  | [] => (false, s)
  end.

(** [int(token)] for ASCII tokens: optional sign, at least one digit, nothing else
    (underscore separators of Python 3.6+ are not modelled) *)
Definition parse_int (s : bytes) : option Z :=
  let '(neg, s1) := read_sign s in
  match read_digits 0 0 s1 with
  | (_, O, _) => None
  | (v, _, []) => Some (if neg then - v else v)
  | _ => None
  end.

(** ------------------------------------------------------------------ decimals *)
Record dec := mkdec { mant : Z; nfrac : nat }.   (* value = mant / 10^nfrac *)

Definition dec_eqb (a b : dec) : bool := (mant a =? mant b) && Nat.eqb (nfrac a) (nfrac b).
(** equality of values *)
Definition dec_veq (a b : dec) : bool :=
  mant a * 10 ^ Z.of_nat (nfrac b) =? mant b * 10 ^ Z.of_nat (nfrac a).

(** round-half-even quotient a / p for a >= 0, p > 0 *)
Definition rhe (a p : Z) : Z :=
  let q := a / p in let r := a mod p in
  if 2 * r <? p then q else if p <? 2 * r then q + 1 else if Z.even q then q else q + 1.
(** |x| * 10^D rounded half-even to an integer *)
Definition mag_at (D : nat) (x : dec) : Z :=
  let a := Z.abs (mant x) in
  if (nfrac x <=? D)%nat then a * 10 ^ Z.of_nat (D - nfrac x) else rhe a (10 ^ Z.of_nat (nfrac x - D)).
(** x rounded to D decimals (what "%.<D>f" prints) *)
Definition round_to (D : nat) (x : dec) : dec :=
  mkdec (if mant x <? 0 then - mag_at D x else mag_at D x) D.

(** ["%<W>.<D>f" % x] for D >= 1 (the sign is that of x even when x rounds to zero, as for floats) *)
Definition fmt_f_body (D : nat) (x : dec) : bytes :=
  let m := mag_at D x in
  (if mant x <? 0 then [c_minus] else []) ++
  digits (m / 10 ^ Z.of_nat D) ++ c_dot :: fixdigits D (m mod 10 ^ Z.of_nat D).
Definition fmt_f (W D : nat) (x : dec) : bytes := rjust W (fmt_f_body D x).

Definition is_e (c : byte) : bool := match c with x65 | x45 => true | _ => false end.

(** apply a decimal exponent *)
Definition dec_shift (m : Z) (nf : nat) (e : Z) : dec :=
  if e <? 0 then mkdec m (nf + Z.to_nat (- e))
  else let en := Z.to_nat e in
       if (en <=? nf)%nat then mkdec m (nf - en) else mkdec (m * 10 ^ Z.of_nat (en - nf)) 0.

(** digits* ( . digits* )? with at least one digit: value of all digits read as one integer,
    number of digits after the point, rest *)
Definition read_mantissa (s : bytes) : option (Z * nat * bytes) :=
  let '(ip, ni, s2) := read_digits 0 0 s in
  match s2 with
  | c :: r =>
      if Byte.eqb c c_dot then
        let '(m, nf, s3) := read_digits ip 0 r in
        match (ni + nf)%nat with O => None | _ => Some (m, nf, s3) end
      else match ni with O => None | _ => Some (ip, O, s2) end
  | [] => match ni with O => None | _ => Some (ip, O, []) end
  end.
(** ( [eE] [+-]? digits+ )? then end of token *)
Definition read_exponent (s : bytes) : option Z :=
  match s with
  | [] => Some 0
  | c :: r =>
      if is_e c then
        let '(neg, r1) := read_sign r in
        match read_digits 0 0 r1 with
        | (_, O, _) => None
        | (e, _, []) => Some (if neg then - e else e)
        | _ => None
        end
      else None
  end.

(** [float(token)] on ASCII tokens without surrounding white space, restricted to the decimal
    grammar  [+-]? digits* ( . digits* )? ( [eE] [+-]? digits+ )?  with at least one mantissa digit.
    "inf"/"nan"/underscores are not modelled (the model answers None = "raises"). The result is
    the exact decimal; CPython's correctly rounded conversion to binary64 is outside the model. *)
Definition parse_dec (s : bytes) : option dec :=
  let '(neg, s1) := read_sign s in
  match read_mantissa s1 with
  | None => None
  | Some (m, nf, s3) =>
      match read_exponent s3 with
      | None => None
      | Some e => Some (dec_shift (if neg then - m else m) nf e)
      end
  end.

Fixpoint map_opt {A B} (f : A -> option B) (l : list A) : option (list B) :=
  match l with
  | [] => Some []
  | x :: r => match f x with
              | Some y => match map_opt f r with Some ys => Some (y :: ys) | None => None end
              | None => None
              end
  end.

Fixpoint list_eqb {A} (e : A -> A -> bool) (a b : list A) : bool :=
  match a, b with
  | [], [] => true
  | x :: a', y :: b' => e x y && list_eqb e a' b'
  | _, _ => false
  end.

Definition nth_line (n : nat) (ls : list bytes) : bytes := nth n ls [].

(** indices of the cases on which [f] is false (printed by the case shards) *)
Fixpoint bad_from {A} (i : nat) (f : A -> bool) (l : list A) : list nat :=
  match l with [] => [] | x :: t => if f x then bad_from (S i) f t else i :: bad_from (S i) f t end.
Definition bad_cases {A} := @bad_from A 0.
