(** C08 model (no proofs): rotation action on the 21 elastic components, Laue-class generator
    matrices in the standard setting with entries in Q(sqrt 3), invariance rows, certificate
    check.  Written over the ring record [Rng T] (LinSum.v): computed at Q(sqrt 3), reasoned
    about at R. *)
From Coq Require Import QArith List Bool Arith.
From Cij Require Import LinSum Q3 Voigt.
Import ListNotations.

(** the 21 symbols in the order fill_cij builds them:
    itertools.product(range(1,7), range(1,7)) with i <= j *)
Definition keys21 : list vkey :=
  [(1,1);(1,2);(1,3);(1,4);(1,5);(1,6);(2,2);(2,3);(2,4);(2,5);(2,6);
   (3,3);(3,4);(3,5);(3,6);(4,4);(4,5);(4,6);(5,5);(5,6);(6,6)]%nat.

Section Sym.
  Context {T : Type} {RT : Rng T}.

  Definition s3 (f : nat -> T) : T := radd (f 0%nat) (radd (f 1%nat) (f 2%nat)).
  Definition m3 := nat -> nat -> T.
  Definition mat_of (rows : list (list T)) : m3 := fun i j => nth j (nth i rows []) r0.
  Definition mm (g h : m3) : m3 := fun i j => s3 (fun a => rmul (g i a) (h a j)).
  Definition m_id : m3 := fun i j => if (i =? j)%nat then r1 else r0.
  Definition word (w : list m3) : m3 := fold_right mm m_id w.

  (** c'_{ijpq} = sum_{abcd} g_ia g_jb g_pc g_qd c_{abcd}, tensor indexed by canonical Voigt key *)
  Definition rot_at (g : m3) (c : vkey -> T) (i j p q : nat) : T :=
    s3 (fun a => s3 (fun b => s3 (fun x => s3 (fun y =>
      rmul (rmul (rmul (rmul (g i a) (g j b)) (g p x)) (g q y)) (c (canon4 a b x y)))))).
  Definition rotate4 (g : m3) (c : vkey -> T) (k : vkey) : T :=
    let '(i, j) := std_of (fst k) in let '(p, q) := std_of (snd k) in rot_at g c i j p q.

  Definition basis (k' : vkey) : vkey -> T := fun k => if vkey_eqb k k' then r1 else r0.
  Definition tvec (c : vkey -> T) : list T := map c keys21.
  (** row of the linear map  c |-> rotate4 g c k - c k  on the 21 components *)
  Definition inv_row (g : m3) (k : vkey) : list T :=
    map (fun k' => radd (rotate4 g (basis k') k) (ropp (basis k' k))) keys21.
  Definition inv_rows (gens : list m3) : list (list T) :=
    flat_map (fun g => map (inv_row g) keys21) gens.
End Sym.

(* ---- Laue-class generators, standard setting ------------------------------------------ *)
Local Open Scope Q_scope.
Definition q (a : Q) : Q3 := (a, 0).
Definition h3 : Q3 := (0, 1 # 2).          (* sqrt 3 / 2 *)
Definition nh3 : Q3 := (0, - (1 # 2)).
Definition gmat := list (list Q3).

Definition g_id : gmat := [[q 1; q 0; q 0]; [q 0; q 1; q 0]; [q 0; q 0; q 1]].
Definition g_4z : gmat := [[q 0; q (-1); q 0]; [q 1; q 0; q 0]; [q 0; q 0; q 1]].
Definition g_3d : gmat := [[q 0; q 0; q 1]; [q 1; q 0; q 0]; [q 0; q 1; q 0]].       (* 3 along [111] *)
Definition g_6z : gmat := [[q (1#2); nh3; q 0]; [h3; q (1#2); q 0]; [q 0; q 0; q 1]].
Definition g_3z : gmat := [[q (-(1#2)); nh3; q 0]; [h3; q (-(1#2)); q 0]; [q 0; q 0; q 1]].
Definition g_2x : gmat := [[q 1; q 0; q 0]; [q 0; q (-1); q 0]; [q 0; q 0; q (-1)]].
Definition g_2y : gmat := [[q (-1); q 0; q 0]; [q 0; q 1; q 0]; [q 0; q 0; q (-1)]].
Definition g_2z : gmat := [[q (-1); q 0; q 0]; [q 0; q (-1); q 0]; [q 0; q 0; q 1]].

Inductive system := Cubic | Hexagonal | Trigonal6 | Trigonal7 | Tetragonal6 | Tetragonal7
                  | Orthorhombic | Monoclinic | Triclinic.
Definition gens_of (s : system) : list gmat :=
  match s with
  | Cubic => [g_4z; g_3d]
  | Hexagonal => [g_6z; g_2x]
  | Trigonal6 => [g_3z; g_2x]
  | Trigonal7 => [g_3z]
  | Tetragonal6 => [g_4z; g_2x]
  | Tetragonal7 => [g_4z]
  | Orthorhombic => [g_2z; g_2x]
  | Monoclinic => [g_2y]
  | Triclinic => [g_id]
  end.
(** order of the rotation group of the Laue class (inversion acts trivially on rank 4) *)
Definition group_order (s : system) : nat :=
  match s with
  | Cubic => 24 | Hexagonal => 12 | Trigonal6 => 6 | Trigonal7 => 3 | Tetragonal6 => 8
  | Tetragonal7 => 4 | Orthorhombic => 4 | Monoclinic => 2 | Triclinic => 1
  end%nat.
Definition all_systems : list system :=
  [Cubic; Hexagonal; Trigonal6; Trigonal7; Tetragonal6; Tetragonal7; Orthorhombic; Monoclinic; Triclinic].

(** the invariance rows of a system, computed in Q(sqrt 3) *)
Definition Inv (s : system) : list (list Q3) := inv_rows (map mat_of (gens_of s)).
Definition rel3 (rel : list (list Q)) : list (list Q3) := map (map q3_ofQ) rel.

(** the certificate check: Rel = M1 * Inv and Inv = M2 * Rel, exactly, in Q(sqrt 3) *)
Definition cert_ok (s : system) (rel : list (list Q)) (M1 M2 : list (list Q3)) : bool :=
  rows_eqb (matmul M1 (Inv s)) (rel3 rel) && rows_eqb (matmul M2 (rel3 rel)) (Inv s).

(** explicit 3x3 matrices as lists, for group-closure computations *)
Definition gm_mul (a b : gmat) : gmat :=
  map (fun i => map (fun j => mm (mat_of a) (mat_of b) i j) [0;1;2]%nat) [0;1;2]%nat.
Definition gm_eqb (a b : gmat) : bool := rows_eqb a b.
Definition gm_mem (a : gmat) (l : list gmat) : bool := existsb (gm_eqb a) l.
Fixpoint closure (fuel : nat) (gens elems : list gmat) : list gmat :=
  match fuel with
  | O => elems
  | S f =>
      let new := fold_left (fun acc p => if gm_mem p acc then acc else acc ++ [p])
                           (flat_map (fun e => map (fun g => gm_mul g e) gens) elems) elems in
      if (length new =? length elems)%nat then elems else closure f gens new
  end.
Definition group_of (s : system) : list gmat := closure 30 (gens_of s) [g_id].
Definition gm_transpose (a : gmat) : gmat := transpose 3 a.
Definition det3 (a : gmat) : Q3 :=
  let m := mat_of a in
  let t (i j k : nat) := rmul (m 0%nat i) (rmul (m 1%nat j) (m 2%nat k)) in
  radd (radd (t 0 1 2) (radd (t 1 2 0) (t 2 0 1)))%nat (ropp (radd (t 0 2 1) (radd (t 1 0 2) (t 2 1 0))))%nat.
Definition is_rotation (a : gmat) : bool :=
  gm_eqb (gm_mul a (gm_transpose a)) g_id && reqb (det3 a) r1.
