(** The instance that runs: IEEE binary64 through Coq's primitive floats.
    [exp] and [ln] are not primitives; they are implemented here to ~1e-15
    relative accuracy (argument reduction + series).  They are execution aids
    for the correspondence check only: no theorem mentions them. *)
From Coq Require Import ZArith Bool Uint63 PrimFloat FloatOps List.
From Cij Require Import Ops.
Import ListNotations.
Local Open Scope float_scope.

Definition f_of_Z (z : Z) : float :=
  match z with
  | Z0 => 0
  | Zpos _ => of_uint63 (Uint63.of_Z z)
  | Zneg p => - of_uint63 (Uint63.of_Z (Zpos p))
  end.
(* exact for |z| < 2^63; constants used by the models are far smaller *)

(** floor of a finite float as Z (0 for nan/inf). *)
Definition f_floor (x : float) : Z :=
  match Prim2SF x with
  | SpecFloat.S754_finite s m e =>
      let v := (if (0 <=? e)%Z then Z.shiftl (Zpos m) e else Z.shiftr (Zpos m) (- e))%Z in
      if s then (if (e <? 0)%Z && negb (Z.eqb (Z.shiftl v (-e)) (Zpos m)) then - v - 1 else - v)%Z
      else v
  | _ => 0%Z
  end.

Definition ln2_hi : float := 0x1.62e42fee00000p-1.
Definition ln2_lo : float := 0x1.a39ef35793c76p-33.
Definition inv_ln2 : float := 0x1.71547652b82fep+0.
Definition ln2 : float := 0x1.62e42fefa39efp-1.

(* Horner evaluation of sum_{k<=n} r^k/k! *)
Fixpoint exp_series (n : nat) (k : float) (r acc : float) : float :=
  match n with
  | O => acc
  | S n' => exp_series n' (k - 1) r (1 + acc * r / k)
  end.

Definition f_exp (x : float) : float :=
  if is_nan x then nan
  else if 0x1.62e42fefa39efp+9 <? x then infinity       (* > 709.782712893384 *)
  else if x <? -746 then 0
  else
    let k := f_floor (x * inv_ln2 + 0.5) in
    let fk := f_of_Z k in
    let r := (x - fk * ln2_hi) - fk * ln2_lo in
    let p := exp_series 18 18 r 1 in
    ldexp p k.

(* atanh series: sum_{j<n} s^(2j+1)/(2j+1), Horner in s2 *)
Fixpoint atanh_series (n : nat) (d : float) (s2 acc : float) : float :=
  match n with
  | O => acc
  | S n' => atanh_series n' (d - 2) s2 (1 / d + s2 * acc)
  end.

Definition f_ln (x : float) : float :=
  if is_nan x then nan
  else if x <? 0 then nan
  else if x =? 0 then neg_infinity
  else if x =? infinity then infinity
  else
    let '(m, e) := frexp x in                 (* x = m * 2^e, m in [0.5,1) *)
    let '(m, e) := if m <? 0x1.6a09e667f3bcdp-1 then (m * 2, (e - 1)%Z) else (m, e) in
    let s := (m - 1) / (m + 1) in
    let s2 := s * s in
    let a := atanh_series 14 27 s2 (1 / 29) in
    f_of_Z e * ln2_hi + (2 * s * a + f_of_Z e * ln2_lo).

#[export] Instance FOps : Ops float := {|
  zero := 0; one := 1;
  add := PrimFloat.add; sub := PrimFloat.sub; mul := PrimFloat.mul; div := PrimFloat.div;
  opp := PrimFloat.opp;
  ofZ := f_of_Z;
  fexp := f_exp; fln := f_ln; fsqrt := PrimFloat.sqrt;
  is0 := fun x => x =? 0;
  fleb := PrimFloat.leb;
|}.

(** Tolerant comparison used by every case shard.  NaN on either side fails. *)
Definition close (rtol atol : float) (a b : float) : bool :=
  abs (a - b) <=? atol + rtol * abs b.
Definition close9 := close 0x1.12e0be826d695p-30 0x1.19799812dea11p-40. (* 1e-9, 1e-12 *)

Fixpoint all_close (c : float -> float -> bool) (a b : list float) : bool :=
  match a, b with
  | [], [] => true
  | x :: a', y :: b' => c x y && all_close c a' b'
  | _, _ => false
  end.
Fixpoint all_close2 (c : float -> float -> bool) (a b : list (list float)) : bool :=
  match a, b with
  | [], [] => true
  | x :: a', y :: b' => all_close c x y && all_close2 c a' b'
  | _, _ => false
  end.

(** value class, for NaN/inf-ness comparisons (C12) *)
Inductive vclass := VFin | VPInf | VNInf | VNaN.
Definition classify (x : float) : vclass :=
  if is_nan x then VNaN else if x =? infinity then VPInf
  else if x =? neg_infinity then VNInf else VFin.
Definition vclass_eqb (a b : vclass) : bool :=
  match a, b with VFin, VFin | VPInf, VPInf | VNInf, VNInf | VNaN, VNaN => true | _, _ => false end.

(** indices of failing cases *)
Fixpoint failing_from {A} (i : nat) (f : A -> bool) (l : list A) : list nat :=
  match l with [] => [] | x :: t => if f x then failing_from (S i) f t else i :: failing_from (S i) f t end.
Definition failing {A} := @failing_from A 0.
