(** The subset of JSON Schema (as evaluated by jsonschema's Draft 2020-12 validator, which is
    what `jsonschema.validate` selects for a schema without "$schema") used by the packaged
    cij/data/schema/config.schema.json.  Models only. *)
From Coq Require Import ZArith List Bool String.
From Cij Require Import JsonModel.
Import ListNotations.

Inductive jtype := TNull | TBoolean | TInteger | TNumber | TString | TArray | TObject.

(** A schema is `true`/`false` or an object of keywords.  Absent keywords are represented by
    their neutral value: required = [], properties = [], additionalProperties = true.
    Keywords unknown to the validator (title, description, $$target, definitions, ...) do not
    appear: jsonschema skips them (`VALIDATORS.get(k) is None -> continue`).
    In Draft 2020-12 the siblings of "$ref" are evaluated as well (conjunction). *)
Inductive schema :=
| SBool (b : bool)
| SObj (types : option (list jtype))
       (required : list string)
       (props : list (string * schema))
       (enum : option (list string))        (* translator accepts string enumerations only *)
       (minimum : option num)
       (addl : schema)
       (ref : option string).               (* "#/definitions/<name>" *)

(** jsonschema TYPE_CHECKER (draft 4+): bool is neither integer nor number; a float with
    integral value is an integer; inf/nan are numbers, not integers *)
Definition has_type (t : jtype) (j : json) : bool :=
  match t, j with
  | TNull, JNull => true
  | TBoolean, JBool _ => true
  | TString, JStr _ => true
  | TArray, JArr _ => true
  | TObject, JObj _ => true
  | TNumber, JNum _ => true
  | TInteger, JNum n => num_is_integral n
  | _, _ => false
  end.
Definition type_ok (ts : option (list jtype)) (j : json) : bool :=
  match ts with None => true | Some l => existsb (fun t => has_type t j) l end.
(** `required`, `properties`, `additionalProperties` apply to objects only *)
Definition required_ok (req : list string) (j : json) : bool :=
  match j with JObj l => forallb (fun k => mem k (keys l)) req | _ => true end.
(** `enum` with string members: the instance must be one of these strings *)
Definition enum_ok (en : option (list string)) (j : json) : bool :=
  match en with
  | None => true
  | Some l => match j with JStr s => mem s l | _ => false end
  end.
(** `minimum` applies to numbers only (not bool); error iff `instance < minimum` *)
Definition minimum_ok (mn : option num) (j : json) : bool :=
  match mn with
  | None => true
  | Some c => match j with JNum n => negb (num_ltb n c) | _ => true end
  end.

Section Validate.
  Variable onref : string -> json -> bool.

  Fixpoint validate_gen (s : schema) (j : json) {struct s} : bool :=
    match s with
    | SBool b => b
    | SObj ts req props en mn addl ref =>
        type_ok ts j && required_ok req j && enum_ok en j && minimum_ok mn j
        && match j with
           | JObj l =>
               forallb (fun p => match lookup (fst p) l with
                                 | None => true
                                 | Some v => validate_gen (snd p) v
                                 end) props
               && forallb (fun kv => mem (fst kv) (keys props) || validate_gen addl (snd kv)) l
           | _ => true
           end
        && match ref with None => true | Some n => onref n j end
    end.
End Validate.

(** schemas inside "definitions" must not contain "$ref" themselves (checked by [schema_wf]) *)
Definition validate0 : schema -> json -> bool := validate_gen (fun _ _ => false).
Definition validate (defs : list (string * schema)) : schema -> json -> bool :=
  validate_gen (fun n j => match lookup n defs with Some t => validate0 t j | None => false end).

Fixpoint refs_ok (names : list string) (s : schema) {struct s} : bool :=
  match s with
  | SBool _ => true
  | SObj _ _ props _ _ addl ref =>
      forallb (fun p => refs_ok names (snd p)) props && refs_ok names addl
      && match ref with None => true | Some n => mem n names end
  end.
Definition schema_wf (defs : list (string * schema)) (root : schema) : bool :=
  forallb (fun d => refs_ok [] (snd d)) defs && refs_ok (keys defs) root && nodupb (keys defs).

(** read_config(fname, validate): suffix dispatch (case-sensitive `Path(fname).suffix`), parse
    (parsers are oracles: [parsed] is what yaml/json returned), optional validation.
    [None] = an exception (RuntimeError for the suffix, ValidationError for the schema). *)
Definition read_config (defs : list (string * schema)) (root : schema)
           (suffix : string) (parsed : json) (do_validate : bool) : option json :=
  if mem suffix [".yml"; ".yaml"; ".json"]%string then
    if do_validate then (if validate defs root parsed then Some parsed else None) else Some parsed
  else None.
